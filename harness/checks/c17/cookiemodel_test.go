package c17

// Independent model of the signed-cookie format the RP's cookie handler uses (gorilla/securecookie v1 wire
// format), written against the format description with the standard library only:
//
//	cookie  = base64url( timestamp "|" base64url( [iv || AES-CTR](gob(string)) ) "|" HMAC-SHA256(hashKey, name "|" timestamp "|" inner) )
//
// The oracle decodes jar contents with modelDecode (never with the library's CookieHandler) and the generator
// forges cookies (other keys, other names, arbitrary values) with modelEncode.
//
// Keys (documented behaviour of gorilla/securecookie): the hash key is an HMAC-SHA256 key and may have ANY non-zero
// length (all of its bytes count: crypto/hmac hashes keys longer than the 64-byte block, pads shorter ones); the
// encryption key is an AES key and must be 16, 24 or 32 bytes long, a handler built with another length refuses to
// encode or decode anything (usableKeys).

import (
	"bytes"
	"crypto/aes"
	"crypto/cipher"
	"crypto/hmac"
	"crypto/sha256"
	"encoding/base64"
	"encoding/gob"
	"fmt"
	"net/http"
	"net/http/httptest"
	"strconv"
	"testing"
	"time"

	httphelper "github.com/zitadel/oidc/v3/pkg/http"
)

type ckeys struct {
	Hash  []byte
	Block []byte // nil: cookies are signed only
}

func fill(seed string, n int) []byte {
	out := make([]byte, 0, n)
	h := sha256.Sum256([]byte(seed))
	for len(out) < n {
		out = append(out, h[:]...)
		h = sha256.Sum256(h[:])
	}
	return out[:n]
}

// keysFor returns the key pair named A (the RP's), B (both differ), Bhash (only the hash key differs),
// Bblock (only the encryption key differs; equals B when the RP does not encrypt).
func keysFor(name string, encrypt bool) ckeys {
	ha, hb := fill("c17-hash-A", 32), fill("c17-hash-B", 32)
	ba, bb := fill("c17-block-A", 32), fill("c17-block-B", 32)
	var k ckeys
	switch name {
	case "A":
		k = ckeys{ha, ba}
	case "Bhash":
		k = ckeys{hb, ba}
	case "Bblock":
		if !encrypt {
			k = ckeys{hb, bb}
		} else {
			k = ckeys{ha, bb}
		}
	default:
		k = ckeys{hb, bb}
	}
	if !encrypt {
		k.Block = nil
	}
	return k
}

const maxCookieLen = 4096

func validAESLen(n int) bool { return n == 16 || n == 24 || n == 32 }

// usableKeys: a cookie handler with these keys can encode / decode at all.
func usableKeys(k ckeys) bool {
	return len(k.Hash) > 0 && (k.Block == nil || validAESLen(len(k.Block)))
}

var b64 = base64.URLEncoding

func modelEncode(k ckeys, name, value string, ts int64, ivSeed string) string {
	var buf bytes.Buffer
	if err := gob.NewEncoder(&buf).Encode(value); err != nil {
		panic(err)
	}
	b := buf.Bytes()
	if k.Block != nil {
		blk, err := aes.NewCipher(k.Block)
		if err != nil {
			panic(err)
		}
		iv := fill("iv:"+ivSeed, blk.BlockSize())
		ct := make([]byte, len(b))
		cipher.NewCTR(blk, iv).XORKeyStream(ct, b)
		b = append(append([]byte{}, iv...), ct...)
	}
	inner := b64.EncodeToString(b)
	signed := name + "|" + strconv.FormatInt(ts, 10) + "|" + inner
	m := hmac.New(sha256.New, k.Hash)
	m.Write([]byte(signed))
	full := append([]byte(signed[len(name)+1:]+"|"), m.Sum(nil)...)
	return b64.EncodeToString(full)
}

// modelDecode: does raw decode under keys k for cookie name `name`, and to which value? why names the first failing step.
func modelDecode(k ckeys, name, raw string, now time.Time, maxAge int64) (value string, ok bool, why string) {
	if !usableKeys(k) {
		return "", false, "unusable-keys"
	}
	if len(raw) > maxCookieLen {
		return "", false, "too-long"
	}
	if raw == "" {
		return "", false, "empty"
	}
	b, err := b64.DecodeString(raw)
	if err != nil {
		return "", false, "base64"
	}
	parts := bytes.SplitN(b, []byte("|"), 3)
	if len(parts) != 3 {
		return "", false, "structure"
	}
	m := hmac.New(sha256.New, k.Hash)
	m.Write([]byte(name + "|"))
	m.Write(parts[0])
	m.Write([]byte("|"))
	m.Write(parts[1])
	if !hmac.Equal(m.Sum(nil), parts[2]) {
		return "", false, "mac"
	}
	ts, err := strconv.ParseInt(string(parts[0]), 10, 64)
	if err != nil {
		return "", false, "timestamp"
	}
	if maxAge != 0 && ts < now.Unix()-maxAge {
		return "", false, "expired"
	}
	inner, err := b64.DecodeString(string(parts[1]))
	if err != nil {
		return "", false, "base64-inner"
	}
	if k.Block != nil {
		blk, err := aes.NewCipher(k.Block)
		if err != nil {
			panic(err)
		}
		if len(inner) <= blk.BlockSize() {
			return "", false, "decrypt"
		}
		pt := make([]byte, len(inner)-blk.BlockSize())
		cipher.NewCTR(blk, inner[:blk.BlockSize()]).XORKeyStream(pt, inner[blk.BlockSize():])
		inner = pt
	}
	var s string
	if err := gob.NewDecoder(bytes.NewReader(inner)).Decode(&s); err != nil {
		return "", false, "gob"
	}
	return s, true, ""
}

// libMint: the cookie a cookie handler of the library built with keys k hands to a browser for (name, value) - what another
// deployment of the library (other keys) or another replica of the RP (equal keys) would mint. ok=false when that handler
// refuses (value too long for a cookie) or net/http drops the cookie (invalid name).
func libMint(k ckeys, name, value string) (raw string, ok bool) {
	h := httphelper.NewCookieHandler(k.Hash, k.Block)
	rec := httptest.NewRecorder()
	if err := h.SetCookie(rec, name, value); err != nil {
		return "", false
	}
	for _, line := range rec.Header()["Set-Cookie"] {
		if ck, err := http.ParseSetCookie(line); err == nil && ck.Name == name {
			return ck.Value, true
		}
	}
	return "", false
}

func libCheck(k ckeys, name, raw string) (string, bool) {
	r := httptest.NewRequest("GET", "https://rp.example.com/cb", nil)
	r.Header.Set("Cookie", name+"="+raw)
	v, err := httphelper.NewCookieHandler(k.Hash, k.Block).CheckCookie(r, name)
	return v, err == nil
}

// TestModelSelfTest (development aid, not part of the registered tiers): the model codec and the library's cookie
// handler understand each other on the unchanged tree, in both directions, and agree on name / key binding.
func TestModelSelfTest(t *testing.T) {
	now := time.Now()
	for _, enc := range []bool{true, false} {
		a := keysFor("A", enc)
		ch := httphelper.NewCookieHandler(a.Hash, a.Block)
		for _, v := range []string{"x", "state with space&=+/", "ü✓", "MzY5ZTI0NjktZGU1MC00ZTc0LTk2ZjItYzM2YzQ2ZjVkY2Iz"} {
			w := httptest.NewRecorder()
			if err := ch.SetCookie(w, "state", v); err != nil {
				t.Fatal(err)
			}
			c := w.Result().Cookies()[0]
			got, ok, why := modelDecode(a, "state", c.Value, now, 86400*30)
			if !ok || got != v {
				t.Fatalf("enc=%v model cannot read library cookie for %q: %q %v %s", enc, v, got, ok, why)
			}
			if _, ok, _ := modelDecode(a, "pkce", c.Value, now, 86400*30); ok {
				t.Fatalf("model ignores the name")
			}
			for _, kn := range []string{"B", "Bhash", "Bblock"} {
				if got, ok, _ := modelDecode(keysFor(kn, enc), "state", c.Value, now, 86400*30); ok && got == v {
					t.Fatalf("model ignores keys %s", kn)
				}
			}
			raw := modelEncode(a, "state", v, now.Unix(), "seed")
			r := httptest.NewRequest("GET", "https://rp.example.com/cb", nil)
			r.Header.Set("Cookie", "state="+raw)
			got2, err := ch.CheckCookie(r, "state")
			if err != nil || got2 != v {
				t.Fatalf("enc=%v library cannot read model cookie for %q: %q %v", enc, v, got2, err)
			}
			r.AddCookie(&http.Cookie{Name: "pkce", Value: raw})
			if _, err := ch.CheckCookie(r, "pkce"); err == nil {
				t.Fatalf("library accepts a state cookie under the pkce name")
			}
		}
	}
}

// TestModelKeyLengths (development aid): model and library agree for hash keys of every length 1..130 (and 200, 1000)
// and encryption keys nil/16/24/32, in both directions, and on the refusal of every cookie minted under a neighbouring
// key (one byte flipped at any boundary, key extended, key cut); handlers with another AES key length are unusable.
func TestModelKeyLengths(t *testing.T) {
	now := time.Now()
	const age = 86400 * 30
	agree := func(what string, a, b ckeys) {
		t.Helper()
		for _, by := range []string{"lib", "model"} {
			var raw string
			if by == "lib" {
				var ok bool
				if raw, ok = libMint(b, "state", "v-"+what); !ok {
					t.Fatalf("%s: library handler (hash %d, enc %d) cannot mint", what, len(b.Hash), len(b.Block))
				}
			} else {
				raw = modelEncode(b, "state", "v-"+what, now.Unix(), what)
			}
			mv, mok, _ := modelDecode(a, "state", raw, now, age)
			lv, lok := libCheck(a, "state", raw)
			if mok != lok || mv != lv {
				t.Fatalf("%s (minted by %s; A hash %d enc %d; B hash %d enc %d): model says (%q,%v), library says (%q,%v)", what, by, len(a.Hash), len(a.Block), len(b.Hash), len(b.Block), mv, mok, lv, lok)
			}
			same := bytes.Equal(a.Hash, b.Hash) && bytes.Equal(a.Block, b.Block)
			if mok != same {
				t.Fatalf("%s (minted by %s; A hash %d enc %d; B hash %d enc %d): accepted=%v but keys equal=%v", what, by, len(a.Hash), len(a.Block), len(b.Hash), len(b.Block), mok, same)
			}
		}
	}
	lens := []int{200, 1000}
	for n := 1; n <= 130; n++ {
		lens = append(lens, n)
	}
	for _, n := range lens {
		for _, e := range []int{0, 16, 24, 32} {
			a := ckeys{Hash: fill("kl-hash", n)}
			a.Hash[n-1] |= 1
			if e > 0 {
				a.Block = fill("kl-block", e)
			}
			agree("equal", a, a)
			for _, p := range []int{0, 15, 16, 31, 32, 63, 64, 65, n - 2, n - 1} {
				if p < 0 || p >= n {
					continue
				}
				b := ckeys{Hash: append([]byte{}, a.Hash...), Block: a.Block}
				b.Hash[p] ^= 0x40
				agree(fmt.Sprintf("flip@%d", p), a, b)
			}
			agree("extend", a, ckeys{Hash: append(append([]byte{}, a.Hash...), 7), Block: a.Block})
			agree("extend-long", a, ckeys{Hash: append(append([]byte{}, a.Hash...), fill("sfx", 70)...), Block: a.Block})
			for _, m := range []int{1, 16, 32, 64, 65, n - 1} {
				if m >= 1 && m < n {
					agree(fmt.Sprintf("cut@%d", m), a, ckeys{Hash: a.Hash[:m], Block: a.Block})
				}
			}
			// encryption key: one byte differs, other valid length sharing the prefix, none vs some
			if e > 0 {
				b := ckeys{Hash: a.Hash, Block: append([]byte{}, a.Block...)}
				b.Block[e-1] ^= 1
				agree("enc-flip-last", a, b)
				for _, e2 := range []int{16, 24, 32} {
					if e2 < e {
						agree("enc-cut", a, ckeys{Hash: a.Hash, Block: a.Block[:e2]})
					} else if e2 > e {
						agree("enc-extend", a, ckeys{Hash: a.Hash, Block: append(append([]byte{}, a.Block...), fill("x", e2-e)...)})
					}
				}
				agree("enc-none", a, ckeys{Hash: a.Hash})
			} else {
				agree("enc-added", a, ckeys{Hash: a.Hash, Block: fill("kl-block", 16)})
			}
		}
	}
	// documented: AES keys are 16, 24 or 32 bytes long; everything else makes the handler unusable (and the model says so)
	for _, e := range []int{1, 8, 15, 17, 23, 25, 31, 33, 40, 48, 64, 65} {
		k := ckeys{Hash: fill("kl-hash", 32), Block: fill("kl-block", e)}
		if usableKeys(k) {
			t.Fatalf("model: AES key of %d bytes usable", e)
		}
		if _, ok := libMint(k, "state", "v"); ok {
			t.Fatalf("library mints with an AES key of %d bytes", e)
		}
		raw := modelEncode(ckeys{Hash: k.Hash, Block: fill("kl-block", 32)}, "state", "v", now.Unix(), "s")
		if _, ok := libCheck(k, "state", raw); ok {
			t.Fatalf("library decodes with an AES key of %d bytes", e)
		}
	}
	if _, ok := libMint(ckeys{Hash: nil}, "state", "v"); ok {
		t.Fatalf("library mints without a hash key")
	}
}
