package c17

// Independent model of the signed-cookie format the RP's cookie handler uses (gorilla/securecookie v1 wire
// format), written against the format description with the standard library only:
//
//	cookie  = base64url( timestamp "|" base64url( [iv || AES-CTR](gob(string)) ) "|" HMAC-SHA256(hashKey, name "|" timestamp "|" inner) )
//
// The oracle decodes jar contents with modelDecode (never with the library's CookieHandler) and the generator
// forges cookies (other keys, other names, arbitrary values) with modelEncode.

import (
	"bytes"
	"crypto/aes"
	"crypto/cipher"
	"crypto/hmac"
	"crypto/sha256"
	"encoding/base64"
	"encoding/gob"
	"net/http"
	"net/http/httptest"
	"strconv"
	"testing"
	"time"

	httphelper "github.com/zitadel/oidc/v3/pkg/http"
)

type ckeys struct {
	Hash  []byte
	Block []byte // nil: cookies are signed only
}

func fill(seed string, n int) []byte {
	out := make([]byte, 0, n)
	h := sha256.Sum256([]byte(seed))
	for len(out) < n {
		out = append(out, h[:]...)
		h = sha256.Sum256(h[:])
	}
	return out[:n]
}

// keysFor returns the key pair named A (the RP's), B (both differ), Bhash (only the hash key differs),
// Bblock (only the encryption key differs; equals B when the RP does not encrypt).
func keysFor(name string, encrypt bool) ckeys {
	ha, hb := fill("c17-hash-A", 32), fill("c17-hash-B", 32)
	ba, bb := fill("c17-block-A", 32), fill("c17-block-B", 32)
	var k ckeys
	switch name {
	case "A":
		k = ckeys{ha, ba}
	case "Bhash":
		k = ckeys{hb, ba}
	case "Bblock":
		if !encrypt {
			k = ckeys{hb, bb}
		} else {
			k = ckeys{ha, bb}
		}
	default:
		k = ckeys{hb, bb}
	}
	if !encrypt {
		k.Block = nil
	}
	return k
}

const maxCookieLen = 4096

var b64 = base64.URLEncoding

func modelEncode(k ckeys, name, value string, ts int64, ivSeed string) string {
	var buf bytes.Buffer
	if err := gob.NewEncoder(&buf).Encode(value); err != nil {
		panic(err)
	}
	b := buf.Bytes()
	if k.Block != nil {
		blk, err := aes.NewCipher(k.Block)
		if err != nil {
			panic(err)
		}
		iv := fill("iv:"+ivSeed, blk.BlockSize())
		ct := make([]byte, len(b))
		cipher.NewCTR(blk, iv).XORKeyStream(ct, b)
		b = append(append([]byte{}, iv...), ct...)
	}
	inner := b64.EncodeToString(b)
	signed := name + "|" + strconv.FormatInt(ts, 10) + "|" + inner
	m := hmac.New(sha256.New, k.Hash)
	m.Write([]byte(signed))
	full := append([]byte(signed[len(name)+1:]+"|"), m.Sum(nil)...)
	return b64.EncodeToString(full)
}

// modelDecode: does raw decode under keys k for cookie name `name`, and to which value? why names the first failing step.
func modelDecode(k ckeys, name, raw string, now time.Time, maxAge int64) (value string, ok bool, why string) {
	if len(raw) > maxCookieLen {
		return "", false, "too-long"
	}
	if raw == "" {
		return "", false, "empty"
	}
	b, err := b64.DecodeString(raw)
	if err != nil {
		return "", false, "base64"
	}
	parts := bytes.SplitN(b, []byte("|"), 3)
	if len(parts) != 3 {
		return "", false, "structure"
	}
	m := hmac.New(sha256.New, k.Hash)
	m.Write([]byte(name + "|"))
	m.Write(parts[0])
	m.Write([]byte("|"))
	m.Write(parts[1])
	if !hmac.Equal(m.Sum(nil), parts[2]) {
		return "", false, "mac"
	}
	ts, err := strconv.ParseInt(string(parts[0]), 10, 64)
	if err != nil {
		return "", false, "timestamp"
	}
	if maxAge != 0 && ts < now.Unix()-maxAge {
		return "", false, "expired"
	}
	inner, err := b64.DecodeString(string(parts[1]))
	if err != nil {
		return "", false, "base64-inner"
	}
	if k.Block != nil {
		blk, err := aes.NewCipher(k.Block)
		if err != nil {
			panic(err)
		}
		if len(inner) <= blk.BlockSize() {
			return "", false, "decrypt"
		}
		pt := make([]byte, len(inner)-blk.BlockSize())
		cipher.NewCTR(blk, inner[:blk.BlockSize()]).XORKeyStream(pt, inner[blk.BlockSize():])
		inner = pt
	}
	var s string
	if err := gob.NewDecoder(bytes.NewReader(inner)).Decode(&s); err != nil {
		return "", false, "gob"
	}
	return s, true, ""
}

// TestModelSelfTest (development aid, not part of the registered tiers): the model codec and the library's cookie
// handler understand each other on the unchanged tree, in both directions, and agree on name / key binding.
func TestModelSelfTest(t *testing.T) {
	now := time.Now()
	for _, enc := range []bool{true, false} {
		a := keysFor("A", enc)
		ch := httphelper.NewCookieHandler(a.Hash, a.Block)
		for _, v := range []string{"x", "state with space&=+/", "ü✓", "MzY5ZTI0NjktZGU1MC00ZTc0LTk2ZjItYzM2YzQ2ZjVkY2Iz"} {
			w := httptest.NewRecorder()
			if err := ch.SetCookie(w, "state", v); err != nil {
				t.Fatal(err)
			}
			c := w.Result().Cookies()[0]
			got, ok, why := modelDecode(a, "state", c.Value, now, 86400*30)
			if !ok || got != v {
				t.Fatalf("enc=%v model cannot read library cookie for %q: %q %v %s", enc, v, got, ok, why)
			}
			if _, ok, _ := modelDecode(a, "pkce", c.Value, now, 86400*30); ok {
				t.Fatalf("model ignores the name")
			}
			for _, kn := range []string{"B", "Bhash", "Bblock"} {
				if got, ok, _ := modelDecode(keysFor(kn, enc), "state", c.Value, now, 86400*30); ok && got == v {
					t.Fatalf("model ignores keys %s", kn)
				}
			}
			raw := modelEncode(a, "state", v, now.Unix(), "seed")
			r := httptest.NewRequest("GET", "https://rp.example.com/cb", nil)
			r.Header.Set("Cookie", "state="+raw)
			got2, err := ch.CheckCookie(r, "state")
			if err != nil || got2 != v {
				t.Fatalf("enc=%v library cannot read model cookie for %q: %q %v", enc, v, got2, err)
			}
			r.AddCookie(&http.Cookie{Name: "pkce", Value: raw})
			if _, err := ch.CheckCookie(r, "pkce"); err == nil {
				t.Fatalf("library accepts a state cookie under the pkce name")
			}
		}
	}
}
