package c17

// Two further dimensions, both resting on the fact that the fake provider's token endpoint belongs to the harness:
//
//   - OVERLAPPING CALLBACKS (Op.Kind "overlap"): 2-3 callbacks - of the same browser or of different browsers, each with
//     the cookies of its own pending login, carrying its own code, another callback's code, another callback's whole
//     query, or being the same callback URL opened twice - go through ONE shared rp.CodeExchangeHandler while the harness
//     HOLDS every token request at the token endpoint. The schedule (which callback starts / whose parked token request
//     is released next) is generated data; at most one callback runs at a time, so the run is deterministic. The oracle
//     is the per-callback oracle of the sequential history and does not depend on the schedule: a callback whose state
//     check must fail causes no provider request; every token request made for a callback carries the code of ITS query
//     and the code_verifier of ITS pkce cookie; the application callback runs for a callback only after a token request
//     made for THAT callback was answered 200, and receives the access token of such an answer. Requests are attributed
//     to callbacks through the request context (the RP derives the context of its outgoing requests from the callback
//     request's); should requests without that context appear, the attribution-dependent assertions are skipped.
//     Completeness (must-accept) is asserted only for a callback whose code no other callback of the overlap presents.
//   - TOKEN ENDPOINT FAULTS (Op.Faults): the 1st / 2nd / 3rd token request of a callback is answered by a gateway (502 /
//     503 / 504 / 500 without an OAuth body, 503 with one), fails on the transport level (refused, reset) or is served by
//     the provider with the response lost on the way back; later requests are served normally. Whatever the RP or
//     x/oauth2 (auth style probe: a second request when the auth style is not configured and not yet known) do about it,
//     EVERY token request of the callback carries the verifier of the pkce cookie and the code of the query, and the
//     application callback runs only after one of them was answered 200.

import (
	"fmt"
	"sync"
	"time"

	"pgregory.net/rapid"

	"verif/harness/vkit"
)

// blockWait: how long the scheduler waits for a started / released callback to park its next token request or to return.
// On the unchanged tree a callback never waits for anything but the token endpoint, so the deadline only matters for an
// implementation that makes one callback wait for another; the oracle does not depend on it.
const blockWait = 3 * time.Second

type gateEvent struct {
	d      *delivery
	parked bool       // a token request of d is parked; false: the callback returned
	resp   *vkit.Resp // returned: the RP's answer
}

// gate parks the token requests of an overlap until the scheduler releases them.
type gate struct {
	events  chan gateEvent
	mu      sync.Mutex
	closed  bool
	waiting map[int]chan struct{} // delivery id -> closed to release its parked request
}

func newGate() *gate {
	return &gate{events: make(chan gateEvent, 256), waiting: map[int]chan struct{}{}}
}

func (g *gate) park(d *delivery) {
	g.mu.Lock()
	if g.closed {
		g.mu.Unlock()
		return
	}
	ch := make(chan struct{})
	g.waiting[d.id] = ch
	g.mu.Unlock()
	g.events <- gateEvent{d: d, parked: true}
	<-ch
}

func (g *gate) release(id int) {
	g.mu.Lock()
	if ch, ok := g.waiting[id]; ok {
		delete(g.waiting, id)
		close(ch)
	}
	g.mu.Unlock()
}

// close lets everything through from now on.
func (g *gate) close() {
	g.mu.Lock()
	g.closed = true
	for id, ch := range g.waiting {
		delete(g.waiting, id)
		close(ch)
	}
	g.mu.Unlock()
}

const (
	ovIdle = iota
	ovRunning
	ovParked
	ovDone
)

// overlap delivers the callbacks o.Par under the schedule o.Sched and judges each of them.
func (w *world) overlap(i int, o Op) {
	res := w.res
	par := o.Par
	if len(par) > 4 {
		par = par[:4]
	}
	n := len(par)
	if n == 0 {
		return
	}
	g := newGate()
	w.tr.mu.Lock()
	w.tr.gate = g
	before := len(w.tr.reqs)
	w.tr.mu.Unlock()

	preps := make([]*prepared, n)
	state := make([]int, n)
	resps := make([]*vkit.Resp, n)
	blocked := make([]bool, n)
	byID := map[int]int{}
	var trace []string
	inFlight, inFlightOther := false, false

	handle := func(ev gateEvent) {
		k, ok := byID[ev.d.id]
		if !ok {
			return
		}
		if ev.parked {
			state[k] = ovParked
			trace = append(trace, fmt.Sprintf("%d:parked", k))
			return
		}
		state[k] = ovDone
		resps[k] = ev.resp
		trace = append(trace, fmt.Sprintf("%d:returned(%d)", k, ev.resp.Status))
		// the browser processes the answer when it arrives
		w.jar(par[k].Browser).absorb(ev.resp.Header, time.Now(), true)
	}
	// settle: k was started / released; wait until it parks its next token request or returns
	settle := func(k int) {
		timer := time.NewTimer(blockWait)
		defer timer.Stop()
		for state[k] == ovRunning {
			select {
			case ev := <-g.events:
				handle(ev)
			case <-timer.C:
				blocked[k] = true
				trace = append(trace, fmt.Sprintf("%d:neither-parked-nor-returned", k))
				return
			}
		}
	}
	poll := func() {
		for {
			select {
			case ev := <-g.events:
				handle(ev)
			default:
				return
			}
		}
	}
	start := func(k int) {
		op := par[k]
		op.Kind = "callback"
		op.TokenExtra = o.TokenExtra // one handler for all of them
		p := w.prepareCallback(i, op, fmt.Sprintf("overlap[%d] ", k))
		for k2, p2 := range preps {
			if p2 != nil && state[k2] == ovParked && p2.code != "" && p2.code == p.code {
				inFlight = true
				if par[k2].Browser != op.Browser {
					inFlightOther = true
				}
			}
		}
		preps[k] = p
		byID[p.d.id] = k
		state[k] = ovRunning
		trace = append(trace, fmt.Sprintf("%d:start", k))
		w.tr.mu.Lock()
		w.tr.cur = p.d
		w.tr.mu.Unlock()
		go func() {
			resp := vkit.Serve(p.h, nil, p.req)
			g.events <- gateEvent{d: p.d, resp: resp}
		}()
		settle(k)
	}
	release := func(k int) {
		state[k] = ovRunning
		trace = append(trace, fmt.Sprintf("%d:release", k))
		w.tr.mu.Lock()
		w.tr.cur = preps[k].d
		w.tr.mu.Unlock()
		g.release(preps[k].d.id)
		settle(k)
	}
	steps := 0
	for _, k := range o.Sched {
		if steps++; steps > 64 {
			break
		}
		k = ((k % n) + n) % n
		poll()
		switch state[k] {
		case ovIdle:
			start(k)
		case ovParked:
			release(k)
		}
	}
	for k := 0; k < n; k++ {
		poll()
		if state[k] == ovIdle {
			start(k)
		}
	}
	// drain: release what is parked, in index order, until everything returned
	deadline := time.NewTimer(20 * time.Second)
	defer deadline.Stop()
drain:
	for {
		poll()
		pending := false
		for k := 0; k < n; k++ {
			if state[k] == ovParked {
				release(k)
			}
			if state[k] != ovDone {
				pending = true
			}
		}
		if !pending {
			break
		}
		anyParked := false
		for k := 0; k < n; k++ {
			anyParked = anyParked || state[k] == ovParked
		}
		if anyParked {
			continue
		}
		select {
		case ev := <-g.events:
			handle(ev)
		case <-deadline.C:
			break drain
		}
	}
	g.close()
	w.tr.mu.Lock()
	w.tr.gate = nil
	w.tr.cur = nil
	window := append([]provReq(nil), w.tr.reqs[before:]...)
	w.tr.mu.Unlock()

	blind := false
	for _, r := range window {
		if r.Tag == 0 {
			blind = true
		}
	}
	allReject := true
	for k := 0; k < n; k++ {
		allReject = allReject && !preps[k].state
	}
	if blind && allReject && len(window) > 0 {
		res.Fail("C17:provider-request:overlap-all-rejected", "overlap op %d: the RP sent %s %s to the provider although the state check of every callback of the overlap must fail (schedule trace %v)", i, window[0].Method, window[0].Path, trace)
	}
	for k := 0; k < n; k++ {
		p := preps[k]
		if resps[k] == nil {
			res.Fail("C17:overlap:callback-did-not-return", "overlap op %d: callback %d did not return although every parked token request was released (schedule trace %v)", i, k, trace)
			continue
		}
		ov := &ovInfo{blind: blind, blocked: blocked[k], window: window}
		for k2, p2 := range preps {
			if k2 != k && p2.code != "" && p2.code == p.code {
				ov.shared = true
			}
		}
		w.tr.mu.Lock()
		during := append([]provReq(nil), p.d.reqs...)
		w.tr.mu.Unlock()
		p.judge(resps[k], during, ov)
	}
	res.Label(fmt.Sprintf("overlap:callbacks:%d", n))
	browsers := map[int]bool{}
	for _, op := range par {
		browsers[op.Browser] = true
	}
	res.Label(fmt.Sprintf("overlap:browsers:%d", len(browsers)))
	switch {
	case inFlightOther:
		res.Label("overlap:callback-started-while-another-browser's-request-for-the-same-code-is-held")
	case inFlight:
		res.Label("overlap:callback-started-while-the-same-browser's-request-for-the-same-code-is-held")
	}
	held := 0
	for _, r := range window {
		if r.Path == w.sut.Paths["token"] && r.Tag != 0 {
			held++
		}
	}
	switch {
	case held == 0:
		res.Label("overlap:token-requests-held:0")
	case held == 1:
		res.Label("overlap:token-requests-held:1")
	default:
		res.Label("overlap:token-requests-held:2+")
	}
	w.nontrivial = true
	w.note("overlap op %d: schedule trace %v", i, trace)
}

// ---- generators -----------------------------------------------------------------------------------------------------------

// genFaults: a fault plan for the token requests of one callback: 1-3 entries, each a fault (4 in 5) or "" (the provider
// answers); at least one fault.
func genFaults(t *rapid.T, label string) []string {
	n := rapid.SampledFrom([]int{1, 1, 2, 2, 3}).Draw(t, label+"n")
	var out []string
	any := false
	for k := 0; k < n; k++ {
		f := ""
		if rapid.IntRange(0, 4).Draw(t, fmt.Sprintf("%spass%d", label, k)) > 0 {
			f = rapid.SampledFrom(faultKinds).Draw(t, fmt.Sprintf("%skind%d", label, k))
			any = true
		}
		out = append(out, f)
	}
	if !any {
		out[0] = rapid.SampledFrom(faultKinds).Draw(t, label+"kind")
	}
	return out
}

// overlapBrowsers: jars 0 and 1 are the browsers of the sequential history, 4 logs in only for the overlap.
var overlapBrowsers = []int{0, 1, 4}

// genOverlap appends to c.Ops the logins the participants need and the overlap op itself. nAttempts: login ops so far.
func genOverlap(t *rapid.T, c *Case, label string, nAttempts int, latest map[int]int, prevStates []string) int {
	n := rapid.SampledFrom([]int{2, 2, 2, 3}).Draw(t, label+"n")
	ov := Op{Kind: "overlap", TokenExtra: rapid.IntRange(0, 5).Draw(t, label+"tx") == 0}
	login := func(b int, l string) int {
		// most participants start a fresh login just before; the others use whatever the history left in their jar
		if _, has := latest[b]; has && rapid.IntRange(0, 5).Draw(t, l+"stale") == 0 {
			return latest[b]
		}
		o := Op{Kind: "login", Browser: b, State: genState(t, l+"state", prevStates)}
		if o.State == "huge" {
			o.State = "st-overlap"
		}
		prevStates = append(prevStates, o.State)
		c.Ops = append(c.Ops, o)
		latest[b] = nAttempts
		nAttempts++
		return latest[b]
	}
	for p := 0; p < n; p++ {
		l := fmt.Sprintf("%sp%d-", label, p)
		tmpl := "own"
		if p > 0 {
			tmpl = pick(t, l+"tmpl", "own", "own", "others-code", "others-code", "others-code", "twice", "twice", "others-query", "stranger", "free")
		}
		var o Op
		switch tmpl {
		case "own":
			// the browser's own pending login, everything genuine
			b := rapid.SampledFrom(overlapBrowsers).Draw(t, l+"browser")
			att := login(b, l)
			o = Op{Kind: "callback", Browser: b, Attempt: att, StateQ: "attempt", CodeQ: "attempt", Method: "GET"}
		case "others-code", "others-query":
			// another browser with its own pending login (valid state and pkce cookies) delivers the code (others-code) or the
			// whole query (others-query) of an earlier participant
			prev := ov.Par[rapid.IntRange(0, len(ov.Par)-1).Draw(t, l+"of")]
			var cands []int
			for _, b := range overlapBrowsers {
				if b != prev.Browser {
					cands = append(cands, b)
				}
			}
			b := rapid.SampledFrom(cands).Draw(t, l+"browser")
			att := login(b, l)
			if tmpl == "others-code" {
				o = Op{Kind: "callback", Browser: b, Attempt: att, StateQ: "attempt", CodeQ: "of", CodeAttempt: prev.Attempt, Method: "GET"}
			} else {
				o = Op{Kind: "callback", Browser: b, Attempt: prev.Attempt, StateQ: "attempt", CodeQ: "attempt", Method: "GET"}
			}
		case "twice":
			// the same callback URL opened once more by the same browser (double click, reloaded tab)
			o = ov.Par[rapid.IntRange(0, len(ov.Par)-1).Draw(t, l+"of")]
			o.Faults = nil
		case "stranger":
			prev := ov.Par[rapid.IntRange(0, len(ov.Par)-1).Draw(t, l+"of")]
			o = Op{Kind: "callback", Browser: strangerBrowser, Attempt: prev.Attempt, StateQ: "attempt", CodeQ: "attempt", Method: "GET"}
		default:
			b := rapid.SampledFrom(overlapBrowsers).Draw(t, l+"browser")
			if _, has := latest[b]; !has {
				login(b, l)
			}
			o = genCallback(t, l, b, latest, nAttempts, c.PKCE, false, false, nil)
			o.Faults = nil
		}
		o.Tmpl = "overlap-" + tmpl
		if o.Method == "GET" && rapid.IntRange(0, 5).Draw(t, l+"post") == 0 {
			o.Method = "POST"
		}
		if rapid.IntRange(0, 5).Draw(t, l+"faulty") == 0 {
			o.Faults = genFaults(t, l+"fault-")
		}
		ov.Par = append(ov.Par, o)
	}
	idx := make([]int, n)
	for k := range idx {
		idx[k] = k
	}
	if pick(t, label+"sched-kind", "starts-first", "starts-first", "free") == "starts-first" {
		ov.Sched = append(rapid.Permutation(idx).Draw(t, label+"starts"), rapid.SliceOfN(rapid.IntRange(0, n-1), 0, 2*n).Draw(t, label+"releases")...)
	} else {
		ov.Sched = rapid.SliceOfN(rapid.IntRange(0, n-1), n, 3*n).Draw(t, label+"sched")
	}
	c.Ops = append(c.Ops, ov)
	return nAttempts
}
