package c17

// Concurrent logins (the "every ordering of several concurrent login attempts" part of the quantifier): several browsers
// hit ONE shared rp.AuthURLHandler at the same time. Each login must still get ITS OWN binding: the pkce cookie it
// receives holds the verifier whose S256 is the code_challenge of the authorization URL in the same response, the state
// cookie holds the state of that URL, and the later callback sends that verifier to the token endpoint. The test runs
// from a -race binary (check.json "race_tests"): a data race inside the handler kills the process and the driver
// reports the case on disk (Track).

import (
	"encoding/hex"
	"fmt"
	"net/http/httptest"
	"strings"
	"sync"
	"testing"
	"time"

	"github.com/zitadel/oidc/v3/pkg/client/rp"
	"github.com/zitadel/oidc/v3/pkg/oidc"
	"pgregory.net/rapid"

	"verif/harness/vkit"
)

var concParamKinds = []string{"custom", "prompt", "locales", "mode", "mode:form_post", "fn:ui_locales=de+en&login_hint=u1"}

func genConc(t *rapid.T) Case {
	var c Case
	c.Router = pick(t, "router", "provider", "legacy")
	c.PKCE = true
	c.JWTProfile = rapid.IntRange(0, 2).Draw(t, "jwt") == 0
	if c.JWTProfile {
		c.AuthMethod = "private_key_jwt"
	} else {
		c.AuthMethod = pick(t, "authmethod", "client_secret_basic", "client_secret_post", "none", "none")
	}
	c.AuthStyle = rapid.SampledFrom([]int{0, 0, 1, 2}).Draw(t, "authstyle")
	c.Encrypt = rapid.IntRange(0, 3).Draw(t, "encrypt") > 0
	hashA, encA := genKeysA(t, c.Encrypt)
	c.KeysA = &KeyPair{Hash: hex.EncodeToString(hashA), Enc: hex.EncodeToString(encA)}
	c.Unsecure = rapid.IntRange(0, 3).Draw(t, "unsecure") == 0
	c.Scopes = []string{"openid"}
	for _, s := range []string{"profile", "email"} {
		if rapid.Bool().Draw(t, "scope-"+s) {
			c.Scopes = append(c.Scopes, s)
		}
	}
	c.RedirectPath = pick(t, "redirect", "/auth/callback", "/cb")
	c.CustomHandlers = false // the default handlers keep no state the goroutines could share
	cc := &Conc{}
	// 0-3 URL parameter options, so that the handler's option slice has varying length / capacity
	np := rapid.IntRange(0, 3).Draw(t, "nparams")
	perm := rapid.Permutation(concParamKinds).Draw(t, "params")
	cc.Params = append([]string{}, perm[:np]...)
	k := rapid.IntRange(2, 8).Draw(t, "workers")
	for g := 0; g < k; g++ {
		cc.Logins = append(cc.Logins, rapid.IntRange(1, 3).Draw(t, fmt.Sprintf("logins%d", g)))
	}
	c.Conc = cc
	return c
}

func (w *world) runConc(cc *Conc) {
	res := w.res
	var params []rp.URLParamOpt
	for _, p := range cc.Params {
		switch p {
		case "custom":
			params = append(params, rp.WithURLParam("foo", "bar baz"))
		case "prompt":
			params = append(params, rp.WithPromptURLParam("login"))
		case "locales":
			params = append(params, rp.WithURLParam("ui_locales", "de en"))
		case "mode":
			params = append(params, rp.WithResponseModeURLParam(oidc.ResponseModeQuery))
		default:
			params = append(params, w.urlParamOpts("conc", []string{p})...)
		}
	}
	logins := cc.Logins
	if len(logins) > 16 {
		logins = logins[:16]
	}
	var mu sync.Mutex
	var issued []string
	h := rp.AuthURLHandler(func() string {
		mu.Lock()
		defer mu.Unlock()
		v := fmt.Sprintf("cst-%d", len(issued)+1)
		issued = append(issued, v)
		return v
	}, w.rp, params...)

	// concurrent phase: nothing but the shared handler and goroutine-local state (jar, request, recording writer)
	results := make([][]*vkit.Resp, len(logins))
	start := make(chan struct{})
	var wg sync.WaitGroup
	for g, n := range logins {
		if n < 1 {
			n = 1
		}
		if n > 8 {
			n = 8
		}
		results[g] = make([]*vkit.Resp, n)
		wg.Add(1)
		go func(g, n int) {
			defer wg.Done()
			j := newJar()
			<-start
			for k := 0; k < n; k++ {
				req := httptest.NewRequest("GET", rpOrigin+"/auth/login", nil)
				if hdr := j.header(); hdr != "" {
					req.Header.Set("Cookie", hdr)
				}
				resp := vkit.Serve(h, nil, req)
				results[g][k] = resp
				j.absorb(resp.Header, time.Now(), true)
			}
		}(g, n)
	}
	close(start)
	wg.Wait()

	// sequential phase: judge every login with the oracle of the sequential check; each login gets a browser of its own
	// holding exactly the cookies that login handed out
	mu.Lock()
	all := append([]string(nil), issued...)
	mu.Unlock()
	total := 0
	for g := range results {
		for k, resp := range results[g] {
			idx := len(w.att)
			a := &attempt{browser: idx}
			w.att = append(w.att, a)
			w.judgeLogin(g*100+k, idx, a, all, resp, w.jar(idx))
			total++
		}
	}
	seenState, seenVerifier := map[string]int{}, map[string]int{}
	for n, a := range w.att {
		if a.state != "" {
			if m, dup := seenState[a.state]; dup {
				res.Fail("C17:concurrent:state-shared", "concurrent logins %d and %d were both sent to the provider with state %q", m, n, a.state)
			}
			seenState[a.state] = n
		}
		if a.verifier != "" {
			if m, dup := seenVerifier[a.verifier]; dup {
				res.Fail("C17:concurrent:verifier-shared", "concurrent logins %d and %d received the same code verifier", m, n)
			}
			seenVerifier[a.verifier] = n
		}
	}
	for n := range w.att {
		w.callback(n, Op{Kind: "callback", Tmpl: "conc", Browser: n, Attempt: n, StateQ: "attempt", CodeQ: "attempt", Method: "GET"})
	}
	w.nontrivial = len(logins) >= 2
	res.Label(fmt.Sprintf("conc:goroutines:%d", len(logins)), fmt.Sprintf("conc:url-params:%d", len(cc.Params)))
	switch {
	case total <= 4:
		res.Label("conc:logins:2-4")
	case total <= 10:
		res.Label("conc:logins:5-10")
	default:
		res.Label("conc:logins:11+")
	}
	w.classes = append([]string{fmt.Sprintf("conc|params=%s|logins=%v", strings.Join(cc.Params, "+"), logins)}, w.classes...)
}

var propConc = vkit.Prop[Case]{
	ID: "C17",
	Rule: "concurrent sub-check (run from a -race binary): one RP with PKCE (both routers, generated cookie keys: hash key 1-128 bytes, no / AES-128/192/256 encryption key, client basic/post/none/private_key_jwt, auth style auto/params/header), ONE shared rp.AuthURLHandler built with 0-3 URL " +
		"parameter options, 2-8 goroutines (one browser each) released by a barrier performing 1-3 logins each; afterwards, sequentially, every login is judged like a sequential one (state cookie = state of its URL, " +
		"S256(pkce cookie) = code_challenge of its URL, client_id / redirect_uri / scope) and its callback is delivered from a jar holding exactly its cookies (must complete; code_verifier at the token endpoint = its " +
		"cookie); states and verifiers are pairwise distinct; a data race report kills the process and the case is reported; non-trivial = at least two goroutines; distinct = (configuration, options, logins per goroutine)",
	Gen:   genConc,
	Run:   run,
	Track: true,
}

func TestConcurrentLogins(t *testing.T) { propConc.Check(t) }
