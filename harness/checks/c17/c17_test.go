// Package c17: the Relying Party's callback handler exchanges a code and invokes the application callback only if the
// state parameter equals the state in the RP's signed cookie of the same browser; PKCE verifier / challenge bound (property C17).
package c17

import (
	"bytes"
	"context"
	"encoding/base64"
	"encoding/hex"
	"encoding/json"
	"fmt"
	"io"
	"net"
	"net/http"
	"net/http/httptest"
	"net/url"
	"runtime/debug"
	"sort"
	"strconv"
	"strings"
	"sync"
	"syscall"
	"testing"
	"time"
	"unicode"

	"github.com/zitadel/oidc/v3/pkg/client/rp"
	httphelper "github.com/zitadel/oidc/v3/pkg/http"
	"github.com/zitadel/oidc/v3/pkg/oidc"
	"pgregory.net/rapid"

	"verif/harness/vkit"
)

// ---- case ---------------------------------------------------------------------

// Mut is one manipulation of a browser's cookie jar, applied just before a callback is delivered.
type Mut struct {
	Kind   string `json:"kind"`             // drop | dropall | flip | truncate | append | swap | cross | restore | mint | plain
	Cookie string `json:"cookie,omitempty"` // state | pkce: the jar entry that is changed
	N      int    `json:"n,omitempty"`      // position / length / attempt index (taken modulo what is available)
	Ch     string `json:"ch,omitempty"`     // replacement / appended character(s)
	Keys   string `json:"keys,omitempty"`   // mint: A | F<i> (the i-th foreign handler of the case) | B | Bhash | Bblock (fixed 32-byte keys)
	By     string `json:"by,omitempty"`     // mint: lib = by a cookie handler of the library built with those keys; "" / model = by the model codec
	Name   string `json:"name,omitempty"`   // mint: cookie name bound into the MAC
	Value  string `json:"value,omitempty"`  // mint / plain: query | state | verifier | lit
	Lit    string `json:"lit,omitempty"`
}

type Op struct {
	Kind    string `json:"kind"` // login | callback | call
	Browser int    `json:"browser"`
	Tmpl    string `json:"tmpl,omitempty"` // generator template (label only)

	// login
	State string `json:"state,omitempty"` // what the application's state function returns
	Extra string `json:"extra,omitempty"` // additional URL parameter option of the application
	// further URL parameter options handed to rp.AuthURLHandler (login) / rp.AuthURL (call auth_url with Arg "opts"), in order (see urlParamKinds)
	Extras []string `json:"extras,omitempty"`
	// the browser's request to the RP's login URL: whatever a link, a form or a script on any site makes the browser send
	LoginMethod string `json:"login_method,omitempty"` // "" = GET | POST
	LoginQuery  []KV   `json:"login_query,omitempty"`  // query parameters of the login URL, in order, duplicates possible
	LoginForm   []KV   `json:"login_form,omitempty"`   // POST: the form body
	LoginMuts   []Mut  `json:"login_muts,omitempty"`   // manipulations of the jar before the login request is sent

	// callback
	Attempt    int    `json:"attempt,omitempty"` // login attempt whose state / code the query refers to (modulo attempts so far)
	StateQ     string `json:"state_q,omitempty"` // attempt | omit | empty | lit | prefix | suffix | case | inside | other | space | near
	StateLit   string `json:"state_lit,omitempty"`
	CodeQ      string `json:"code_q,omitempty"`  // attempt | bogus | omit | other
	ErrorQ     string `json:"error_q,omitempty"` // value of the error parameter ("" none)
	Method     string `json:"method,omitempty"`  // GET | POST
	// POST: where the state / code parameter travels: "" = form body | query | both (the same value in query and body)
	StateIn string `json:"state_in,omitempty"`
	CodeIn  string `json:"code_in,omitempty"`
	Muts       []Mut  `json:"muts,omitempty"`
	TokenExtra bool   `json:"token_extra,omitempty"` // application passes an additional token-request parameter option
	// callback with StateQ "near": the state parameter is a near miss of the attempt's state (see nearKinds)
	Near   string `json:"near,omitempty"`
	NearN  int    `json:"near_n,omitempty"`  // which of the applicable positions
	NearCh string `json:"near_ch,omitempty"` // replace-one: the replacement character

	// call: another use of the SAME long-lived RelyingParty between the logins and callbacks (see callKinds)
	Call string `json:"call,omitempty"`
	Arg  string `json:"arg,omitempty"`

	// callback: what the provider's token endpoint (owned by the harness) answers to the 1st, 2nd, ... token request this
	// callback causes (see faultKinds; "" = the provider answers itself; requests beyond the list are answered by the provider)
	Faults []string `json:"faults,omitempty"`
	// callback with CodeQ "of": the code parameter is the code of attempt CodeAttempt (modulo attempts so far)
	CodeAttempt int `json:"code_attempt,omitempty"`

	// overlap: the callbacks Par (2-3, Kind callback) are delivered to ONE shared rp.CodeExchangeHandler while the harness
	// HOLDS every token request at the provider's token endpoint. Sched is the schedule: the first occurrence of k starts
	// callback k (it runs until its token request is parked or it returns), every later occurrence releases the parked
	// token request of k (it runs until the next one is parked or it returns); an entry that does not apply is skipped;
	// after the list every callback not yet started is started and all parked requests are released in index order.
	Par   []Op  `json:"par,omitempty"`
	Sched []int `json:"sched,omitempty"`
}

// KV is one request parameter.
type KV struct {
	K string `json:"k"`
	V string `json:"v"`
}

// KeyPair: the two keys of one cookie handler, hex encoded.
type KeyPair struct {
	Hash string `json:"hash"`          // HMAC key, 1-128 bytes
	Enc  string `json:"enc,omitempty"` // AES key (16 / 24 / 32 bytes); "" = the handler signs only
	Rel  string `json:"rel,omitempty"` // how the generator derived the pair from the RP's (informational; the labels are computed from the bytes)
}

type Case struct {
	// NoS256: the provider's discovery document does not advertise S256 (op.Config.CodeMethodS256 false, the zero value);
	// the statement binds the RP to the S256 challenge whatever the provider advertises
	NoS256         bool     `json:"no_s256,omitempty"`
	Router         string   `json:"router"`
	PKCE           bool     `json:"pkce"`
	JWTProfile     bool     `json:"jwt_profile"`
	AuthMethod     string   `json:"auth_method"` // registration of the client at the provider
	AuthStyle      int      `json:"auth_style"`  // 0 auto-detect, 1 params, 2 header
	Encrypt        bool     `json:"encrypt"`     // cookie handler with an encryption key
	Unsecure       bool     `json:"unsecure,omitempty"`
	MaxAge         int      `json:"max_age,omitempty"`
	Scopes         []string `json:"scopes"`
	RedirectPath   string   `json:"redirect_path"`
	CustomHandlers bool     `json:"custom_handlers"` // application installs its own unauthorized / error handlers
	Ops            []Op     `json:"ops"`
	Conc           *Conc    `json:"conc,omitempty"` // set: concurrent-login case (TestConcurrentLogins), Ops unused
	// KeysA: the keys of the RP's cookie handler (nil: the fixed 32-byte keys "A", encryption as Encrypt says; set: Encrypt
	// repeats whether Enc is present). Foreign: handlers of OTHER deployments whose cookies end up in the browser (Mut.Keys
	// "F<i>"); Foreign[i] with bytes equal to KeysA is another replica of the RP itself.
	KeysA   *KeyPair  `json:"keys_a,omitempty"`
	Foreign []KeyPair `json:"foreign,omitempty"`
}

// Conc describes a concurrent-login case: len(Logins) goroutines (each its own browser) are released by a barrier and perform
// Logins[g] logins each through ONE shared rp.AuthURLHandler built with the URL parameter options Params.
type Conc struct {
	Params []string `json:"params"` // custom | prompt | locales | mode | any kind of urlParamKinds
	Logins []int    `json:"logins"`
}

const (
	issuer    = "https://op.example.com"
	rpOrigin  = "https://rp.example.com"
	clientID  = "rp-client"
	secret    = "rp-secret"
	clientKID = "rpkey1"
	clientKey = "rsa2"
	hugeState = 3000
)

// ---- generator -----------------------------------------------------------------

// characters a browser will carry in a cookie value and that Go's server side reads back unchanged
const cookieAlphabet = "ABCDEFGHIJKLMNOPQRSTUVWXYZabcdefghijklmnopqrstuvwxyz0123456789-_=|.~"

func pick(t *rapid.T, label string, opts ...string) string {
	return rapid.SampledFrom(opts).Draw(t, label)
}

func genState(t *rapid.T, label string, prev []string) string {
	switch pick(t, label+"kind", "token", "token", "token", "odd", "odd", "reuse", "short", "unicode", "huge", "sep", "sep", "b64std", "b64url", "words") {
	case "sep":
		// segments joined by the characters that encodings treat specially (standard base64, human readable, pre-encoded)
		n := rapid.IntRange(2, 5).Draw(t, label+"nseg")
		var b strings.Builder
		for i := 0; i < n; i++ {
			if i > 0 {
				b.WriteString(pick(t, fmt.Sprintf("%ssep%d", label, i), "+", "+", " ", " ", "/", "-", "_", "=", "%", "%20", "%2B", "%2b", ".", "~", "\t", "  ", "++", "+ "))
			}
			b.WriteString(rapid.StringMatching(`[A-Za-z0-9]{1,6}`).Draw(t, fmt.Sprintf("%sseg%d", label, i)))
		}
		b.WriteString(pick(t, label+"pad", "", "", "", "=", "==", " ", "+"))
		return b.String()
	case "b64std":
		return base64.StdEncoding.EncodeToString(genBytes(t, label+"bytes", rapid.IntRange(1, 24).Draw(t, label+"nbytes")))
	case "b64url":
		return base64.URLEncoding.EncodeToString(genBytes(t, label+"bytes", rapid.IntRange(1, 24).Draw(t, label+"nbytes")))
	case "words":
		return pick(t, label+"w1", "return to", "Zürich", "Zu\u0308rich", "tenant A", "Å", "\u212b", "İstanbul", "ﬁn", "état", "e\u0301tat", "ſtate") +
			pick(t, label+"w2", " ", "+", "/", "", "-") + rapid.StringMatching(`[A-Za-z0-9 +]{0,8}`).Draw(t, label+"w3")
	case "token":
		return rapid.StringMatching(`[A-Za-z0-9_-]{8,24}`).Draw(t, label)
	case "odd":
		return rapid.StringMatching(`[A-Za-z0-9+/= &%?#;:.,~-]{1,16}`).Draw(t, label)
	case "reuse":
		if len(prev) > 0 {
			return rapid.SampledFrom(prev).Draw(t, label+"reuse")
		}
		return "st-1"
	case "short":
		return pick(t, label, "a", "A", "0", "st", "state")
	case "unicode":
		return pick(t, label, "zürich-✓", "状態", "a\tb")
	default:
		if rapid.IntRange(0, 3).Draw(t, label+"really") == 0 {
			return "huge"
		}
		return rapid.StringMatching(`[a-z]{6,10}`).Draw(t, label)
	}
}

func genMutFree(t *rapid.T, label string) Mut {
	m := Mut{Kind: pick(t, label+"kind", "drop", "dropall", "flip", "truncate", "append", "swap", "cross", "restore", "restore", "mint", "mint", "plain")}
	m.Cookie = pick(t, label+"cookie", "state", "state", "pkce")
	m.N = rapid.IntRange(0, 200).Draw(t, label+"n")
	m.Ch = string(cookieAlphabet[rapid.IntRange(0, len(cookieAlphabet)-1).Draw(t, label+"ch")])
	if m.Kind == "mint" {
		m.Keys = pick(t, label+"keys", "A", "A", "F0", "F1", "F1", "F2", "F2", "F3", "F3", "B", "Bhash", "Bblock")
		m.By = pick(t, label+"by", "lib", "model")
		m.Name = pick(t, label+"name", "state", "pkce", "other", "")
		if m.Keys == "A" && m.Name == m.Cookie {
			// a cookie under the RP's own keys and the right name is something only the RP can produce
			m.Name = map[string]string{"state": "pkce", "pkce": "state"}[m.Cookie]
		}
		m.Value = pick(t, label+"value", "query", "query", "state", "verifier", "lit")
	}
	if m.Kind == "plain" {
		m.Value = pick(t, label+"value", "query", "state", "verifier", "lit")
	}
	if m.Value == "lit" {
		m.Lit = rapid.StringMatching(`[A-Za-z0-9_-]{1,12}`).Draw(t, label+"lit")
	}
	return m
}

// ---- the login request ------------------------------------------------------------------
//
// The request that reaches rp.AuthURLHandler is chosen by whoever made the browser open the login URL (a link on any site,
// an auto-submitted form): its query, its form body and the cookies the browser holds for the RP origin are inputs. The
// statement binds the authorization URL to the RP's CONFIGURATION and to the cookies of the same response, whatever the
// login request says.

// ownedParams: the parameters of the authorization request the statement binds (client, redirect URI, scopes, state, the
// PKCE pair) plus response_type; otherParams: further OAuth / OIDC parameter names and names applications use.
var ownedParams = []string{"state", "client_id", "redirect_uri", "scope", "response_type", "code_challenge", "code_challenge_method"}
var otherParams = []string{"nonce", "prompt", "login_hint", "ui_locales", "acr_values", "max_age", "response_mode", "display", "id_token_hint",
	"claims", "request", "request_uri", "code", "code_verifier", "resource", "audience", "requestID", "return_to", "foo", ""}

func genLoginParam(t *rapid.T, label string, c *Case, prev []string) KV {
	name := ""
	switch rapid.IntRange(0, 9).Draw(t, label+"nk") {
	case 0, 1, 2, 3, 4:
		name = rapid.SampledFrom(ownedParams).Draw(t, label+"name")
	case 5, 6, 7, 8:
		name = rapid.SampledFrom(otherParams).Draw(t, label+"name")
	default:
		name = rapid.StringMatching(`[A-Za-z_.\[\]-]{1,10}`).Draw(t, label+"name")
	}
	var vals []string
	switch name {
	case "state":
		vals = append([]string{"attacker-state", "", "st-1"}, prev...)
	case "client_id":
		vals = []string{"other-client", clientID, ""}
	case "redirect_uri":
		vals = []string{"https://evil.example/cb", rpOrigin + c.RedirectPath, rpOrigin + "/other", ""}
	case "scope":
		vals = []string{"openid", "openid admin", "offline_access", strings.Join(c.Scopes, " "), ""}
	case "response_type":
		vals = []string{"code", "token", "id_token token", "code id_token", ""}
	case "code_challenge":
		// S256 of the RFC 7636 example verifier, a plain challenge, junk
		vals = []string{"E9Melhoa2OwvFrEMTJguCHaoeK1t8URWbuGJSstw-cM", "dBjftJeZ4CVP-mB92K27uhbUJU1p1r_wW1gFWFOEjXk", "attacker-chosen-challenge", "x", ""}
	case "code_challenge_method":
		vals = []string{"plain", "plain", "S256", "s256", "none", ""}
	case "prompt":
		vals = []string{"none", "login", "consent select_account"}
	case "response_mode":
		vals = []string{"query", "fragment", "form_post"}
	case "max_age":
		vals = []string{"0", "3600", "-1"}
	case "code_verifier":
		vals = []string{"dBjftJeZ4CVP-mB92K27uhbUJU1p1r_wW1gFWFOEjXk", "v"}
	}
	if len(vals) == 0 || rapid.IntRange(0, 5).Draw(t, label+"free") == 0 {
		return KV{name, rapid.StringMatching(`[A-Za-z0-9 _.:/?&=%+~-]{0,24}`).Draw(t, label+"val")}
	}
	return KV{name, rapid.SampledFrom(vals).Draw(t, label+"val")}
}

func genLoginParams(t *rapid.T, label string, c *Case, prev []string) []KV {
	n := rapid.SampledFrom([]int{1, 1, 2, 2, 3, 4, 6}).Draw(t, label+"n")
	var out []KV
	for i := 0; i < n; i++ {
		l := fmt.Sprintf("%s%d-", label, i)
		if len(out) > 0 && rapid.IntRange(0, 4).Draw(t, l+"dup") == 0 {
			// the same parameter once more (first / last value wins differently in different readers)
			kv := genLoginParam(t, l, c, prev)
			kv.K = out[rapid.IntRange(0, len(out)-1).Draw(t, l+"dupof")].K
			out = append(out, kv)
			continue
		}
		out = append(out, genLoginParam(t, l, c, prev))
	}
	return out
}

// genLoginRequest fills the login-request fields of a login op: half of the logins are the plain GET of the login URL.
func genLoginRequest(t *rapid.T, label string, c *Case, o *Op, prev []string) {
	switch pick(t, label+"req", "plain", "plain", "plain", "query", "query", "query", "post", "post+query") {
	case "query":
		o.LoginQuery = genLoginParams(t, label+"q", c, prev)
	case "post":
		o.LoginMethod = "POST"
		o.LoginForm = genLoginParams(t, label+"f", c, prev)
	case "post+query":
		o.LoginMethod = "POST"
		o.LoginQuery = genLoginParams(t, label+"q", c, prev)
		o.LoginForm = genLoginParams(t, label+"f", c, prev)
	}
	// cookies already present: what other deployments / earlier attempts left in the jar, manipulated before the request
	if rapid.IntRange(0, 4).Draw(t, label+"jar") == 0 {
		nm := rapid.IntRange(1, 2).Draw(t, label+"nm")
		for i := 0; i < nm; i++ {
			o.LoginMuts = append(o.LoginMuts, genMutFree(t, fmt.Sprintf("%slm%d", label, i)))
		}
	}
}

func encodeKV(kvs []KV) string {
	parts := make([]string, 0, len(kvs))
	for _, kv := range kvs {
		parts = append(parts, url.QueryEscape(kv.K)+"="+url.QueryEscape(kv.V))
	}
	return strings.Join(parts, "&")
}

// ---- cookie keys --------------------------------------------------------------------

func genBytes(t *rapid.T, label string, n int) []byte {
	return rapid.SliceOfN(rapid.Byte(), n, n).Draw(t, label)
}

// genHashLen: HMAC keys of any length 1..128, weighted towards the lengths applications use (16, 32, 64 bytes, secrets a
// little or a lot longer than the 64-byte block of SHA-256).
func genHashLen(t *rapid.T, label string) int {
	switch pick(t, label+"class", "32", "32", "64", "64", "65", "66-96", "66-96", "97-128", "128", "16", "1-15", "17-31", "33-63") {
	case "32":
		return 32
	case "64":
		return 64
	case "65":
		return 65
	case "66-96":
		return rapid.IntRange(66, 96).Draw(t, label)
	case "97-128":
		return rapid.IntRange(97, 128).Draw(t, label)
	case "128":
		return 128
	case "16":
		return 16
	case "1-15":
		return rapid.IntRange(1, 15).Draw(t, label)
	case "17-31":
		return rapid.IntRange(17, 31).Draw(t, label)
	}
	return rapid.IntRange(33, 63).Draw(t, label)
}

// genKeysA: the RP's keys. The last byte of the hash key is non-zero (HMAC pads short keys with zeros: a key and the same
// key with trailing zeros are ONE key), so that every derived key below is a different HMAC key.
func genKeysA(t *rapid.T, encrypt bool) (hash, enc []byte) {
	hash = genBytes(t, "keyA-hash", genHashLen(t, "keyA-hash-len"))
	if hash[len(hash)-1] == 0 {
		hash[len(hash)-1] = 1
	}
	if encrypt {
		enc = genBytes(t, "keyA-enc", rapid.SampledFrom([]int{32, 32, 16, 24}).Draw(t, "keyA-enc-len"))
	}
	return hash, enc
}

// genPos: a byte position below n, preferring the places where an implementation might stop looking at a key.
func genPos(t *rapid.T, label string, n int) int {
	var cands []int
	for _, p := range []int{0, 15, 16, 31, 32, 63, 64, 65, n - 1, n - 1} {
		if p >= 0 && p < n {
			cands = append(cands, p)
		}
	}
	switch pick(t, label+"kind", "boundary", "boundary", "any", "high") {
	case "any":
		return rapid.IntRange(0, n-1).Draw(t, label)
	case "high":
		return rapid.IntRange(n/2, n-1).Draw(t, label)
	}
	return rapid.SampledFrom(cands).Draw(t, label)
}

// genForeign: the keys of another deployment's cookie handler, derived from the RP's: unrelated, or sharing a prefix of
// any length with the RP's hash key (one byte / the whole tail differs, the key goes on, the key stops early), the
// encryption key equal, absent, unrelated, differing in one byte or of another AES size with a common prefix. At least one
// of the two keys differs from the RP's.
func genForeign(t *rapid.T, label string, hashA, encA []byte) KeyPair {
	n := len(hashA)
	hrel := pick(t, label+"hrel", "same", "indep", "flip", "flip", "tail", "extend", "extend", "cut", "cut")
	if n == 1 && (hrel == "cut" || hrel == "tail") {
		hrel = "flip"
	}
	hash := append([]byte{}, hashA...)
	switch hrel {
	case "indep":
		hash = genBytes(t, label+"hash", genHashLen(t, label+"hash-len"))
		if bytes.Equal(hash, hashA) {
			hash[0] ^= 0x80
		}
	case "flip":
		p := genPos(t, label+"hpos", n)
		hash[p] ^= byte(rapid.IntRange(1, 255).Draw(t, label+"hxor"))
		hrel = fmt.Sprintf("flip@%d", p)
	case "tail":
		p := genPos(t, label+"hpos", n)
		hash[p] ^= byte(rapid.IntRange(1, 255).Draw(t, label+"hxor"))
		copy(hash[p+1:], genBytes(t, label+"htail", n-p-1))
		hrel = fmt.Sprintf("tail@%d", p)
	case "extend":
		k := rapid.IntRange(1, 16).Draw(t, label+"hext")
		for i := 0; i < k; i++ {
			hash = append(hash, byte(rapid.IntRange(1, 255).Draw(t, fmt.Sprintf("%shext%d", label, i))))
		}
		hrel = fmt.Sprintf("extend+%d", k)
	case "cut":
		// the other deployment uses the first m bytes only: the natural key sizes, one byte less than the RP, or anything
		m := 1 + genPos(t, label+"hpos", n-1)
		var sizes []int
		for _, sz := range []int{16, 32, 64} {
			if sz < n {
				sizes = append(sizes, sz)
			}
		}
		if len(sizes) > 0 && rapid.Bool().Draw(t, label+"hcut-size") {
			m = rapid.SampledFrom(sizes).Draw(t, label+"hcut")
		}
		hash = hash[:m]
		hrel = fmt.Sprintf("cut@%d", m)
	}
	erel := pick(t, label+"erel", "same", "same", "same", "indep", "flip", "resize", "toggle")
	if hrel == "same" && erel == "same" {
		erel = pick(t, label+"erel2", "flip", "resize", "toggle", "indep")
	}
	if encA == nil && (erel == "flip" || erel == "resize") {
		erel = "toggle"
	}
	enc := append([]byte(nil), encA...)
	switch erel {
	case "indep":
		enc = genBytes(t, label+"enc", rapid.SampledFrom([]int{16, 24, 32}).Draw(t, label+"enc-len"))
		if bytes.Equal(enc, encA) {
			enc[0] ^= 0x80
		}
	case "flip":
		p := genPos(t, label+"epos", len(enc))
		enc[p] ^= byte(rapid.IntRange(1, 255).Draw(t, label+"exor"))
		erel = fmt.Sprintf("flip@%d", p)
	case "resize":
		var sizes []int
		for _, sz := range []int{16, 24, 32} {
			if sz != len(encA) {
				sizes = append(sizes, sz)
			}
		}
		sz := rapid.SampledFrom(sizes).Draw(t, label+"enc-len")
		if sz < len(enc) {
			enc = enc[:sz]
		} else {
			enc = append(enc, genBytes(t, label+"enc-more", sz-len(enc))...)
		}
		erel = fmt.Sprintf("resize%d", sz)
	case "toggle":
		if encA != nil {
			enc = nil
		} else {
			enc = genBytes(t, label+"enc", rapid.SampledFrom([]int{16, 24, 32}).Draw(t, label+"enc-len"))
		}
	}
	return KeyPair{Hash: hex.EncodeToString(hash), Enc: hex.EncodeToString(enc), Rel: "hash:" + hrel + ",enc:" + erel}
}

// genKeys fills KeysA and Foreign: Foreign[0] is a replica of the RP (equal bytes), Foreign[1..3] are other deployments.
func genKeys(t *rapid.T, c *Case) {
	hashA, encA := genKeysA(t, c.Encrypt)
	c.KeysA = &KeyPair{Hash: hex.EncodeToString(hashA), Enc: hex.EncodeToString(encA)}
	c.Foreign = []KeyPair{{Hash: c.KeysA.Hash, Enc: c.KeysA.Enc, Rel: "replica"}}
	for i := 1; i <= 3; i++ {
		c.Foreign = append(c.Foreign, genForeign(t, fmt.Sprintf("foreign%d-", i), hashA, encA))
	}
}

func genCallback(t *rapid.T, label string, browser int, latest map[int]int, nAttempts int, pkce bool, consumed bool, noFlow bool, formPost []bool) Op {
	o := Op{Kind: "callback", Browser: browser, StateQ: "attempt", CodeQ: "attempt", Method: "GET"}
	last := 0
	if v, ok := latest[browser]; ok {
		last = v
	}
	anyAttempt := func() int {
		if nAttempts == 0 {
			return 0
		}
		return rapid.IntRange(0, nAttempts-1).Draw(t, label+"att")
	}
	o.Attempt = last
	o.Tmpl = pick(t, label+"tmpl", "match", "match", "match", "earlier", "earlier", "restore", "wrongq", "wrongq", "tamper", "tamper",
		"mint", "mint", "cross", "cross", "drop", "error", "free", "otherbrowser", "near", "near", "near", "stranger", "stranger", "stranger")
	if noFlow {
		// no cookie of this RP exists: only what others minted can be in the jar
		o.Tmpl = pick(t, label+"tmpl-noflow", "mint", "mint", "mint", "mint", "free", "free", "match", "error", "stranger")
	}
	// the cookie the manipulation aims at: with PKCE the pkce cookie as often as the state cookie
	target := "state"
	if pkce && rapid.Bool().Draw(t, label+"target-pkce") {
		target = "pkce"
	}
	chr := func() string {
		return string(cookieAlphabet[rapid.IntRange(0, len(cookieAlphabet)-1).Draw(t, label+"ch")])
	}
	switch o.Tmpl {
	case "match":
	case "earlier":
		o.Attempt = anyAttempt()
	case "otherbrowser":
		// the query of an attempt made in the other browser (login CSRF): this jar holds its own, validly signed cookie
		o.Attempt = anyAttempt()
	case "stranger":
		// a browser that never opened the RP's login URL delivers the response of a login some other browser started (the
		// state and code of that attempt, all genuine): its jar is empty, or holds what another deployment's handler minted
		o.Browser = strangerBrowser + rapid.IntRange(0, 1).Draw(t, label+"stranger")
		o.Attempt = anyAttempt()
		if rapid.IntRange(0, 3).Draw(t, label+"stranger-jar") == 0 {
			okeys := pick(t, label+"keys", "F1", "F2", "F3", "B")
			o.Muts = []Mut{{Kind: "mint", Cookie: "state", Keys: okeys, By: "lib", Name: "state", Value: "query"}}
			if pkce {
				o.Muts = append(o.Muts, Mut{Kind: "mint", Cookie: "pkce", Keys: okeys, By: "lib", Name: "pkce", Value: "verifier"})
			}
		}
	case "restore":
		o.Attempt = anyAttempt()
		switch pick(t, label+"which", "both", "state", "state", "pkce") {
		case "both":
			o.Muts = []Mut{{Kind: "restore", Cookie: "state", N: o.Attempt}, {Kind: "restore", Cookie: "pkce", N: o.Attempt}}
		case "state":
			o.Muts = []Mut{{Kind: "restore", Cookie: "state", N: o.Attempt}}
		default:
			o.Muts = []Mut{{Kind: "restore", Cookie: "pkce", N: anyAttempt()}}
		}
	case "near":
		// everything genuine except the state parameter, which is a near miss of the state in the cookie
		o.StateQ = "near"
		genNear(t, label, &o)
	case "wrongq":
		o.StateQ = pick(t, label+"sq", "omit", "empty", "lit", "prefix", "suffix", "case", "other", "space")
		if o.StateQ == "lit" {
			o.StateLit = rapid.StringMatching(`[A-Za-z0-9_-]{1,12}`).Draw(t, label+"slit")
		}
	case "tamper":
		o.Muts = []Mut{{Kind: pick(t, label+"tk", "flip", "flip", "truncate", "append"), Cookie: target, N: rapid.IntRange(0, 200).Draw(t, label+"n"), Ch: chr()}}
	case "mint":
		mk := pick(t, label+"mk", "otherkeys", "otherkeys", "otherkeys", "othername", "plain", "replica")
		if mk != "plain" && mk != "replica" {
			mk = target + "-" + mk
		}
		// the other deployment: one of the case's foreign handlers (mostly) or the fixed 32-byte keys; its cookie is minted
		// by a handler of the library built with those keys or by the model codec
		okeys := pick(t, label+"keys", "F1", "F1", "F2", "F2", "F3", "F3", "B", "Bhash", "Bblock")
		by := pick(t, label+"by", "lib", "lib", "model")
		switch mk {
		case "state-otherkeys":
			o.Muts = []Mut{{Kind: "mint", Cookie: "state", Keys: okeys, By: by, Name: "state", Value: "query"}}
			if pkce && rapid.Bool().Draw(t, label+"both") {
				// the whole flow was started at the other deployment: both cookies are its
				o.Muts = append(o.Muts, Mut{Kind: "mint", Cookie: "pkce", Keys: okeys, By: by, Name: "pkce", Value: "verifier"})
			}
		case "state-othername":
			o.Muts = []Mut{{Kind: "mint", Cookie: "state", Keys: pick(t, label+"nkeys", "A", "A", "F0"), By: by, Name: pick(t, label+"name", "pkce", "other", ""), Value: "query"}}
		case "pkce-otherkeys":
			o.Muts = []Mut{{Kind: "mint", Cookie: "pkce", Keys: okeys, By: by, Name: "pkce", Value: "verifier"}}
		case "pkce-othername":
			o.Muts = []Mut{{Kind: "mint", Cookie: "pkce", Keys: pick(t, label+"nkeys", "A", "A", "F0"), By: by, Name: pick(t, label+"name", "state", "other", ""), Value: "verifier"}}
		case "replica":
			// another replica of the RP (a handler built from byte-equal keys) re-issues the cookies of the flow
			o.Muts = []Mut{{Kind: "mint", Cookie: "state", Keys: "F0", By: by, Name: "state", Value: "query"}}
			if pkce {
				o.Muts = append(o.Muts, Mut{Kind: "mint", Cookie: "pkce", Keys: "F0", By: by, Name: "pkce", Value: "verifier"})
			}
		default:
			o.Muts = []Mut{{Kind: "plain", Cookie: target, Value: pick(t, label+"pv", "query", "verifier")}}
		}
	case "cross":
		switch pick(t, label+"ck", "swap", "state<-pkce", "state<-pkce", "pkce<-state") {
		case "swap":
			o.Muts = []Mut{{Kind: "swap"}}
		case "state<-pkce":
			o.Muts = []Mut{{Kind: "cross", Cookie: "state"}}
		default:
			o.Muts = []Mut{{Kind: "cross", Cookie: "pkce"}}
		}
		o.StateQ = pick(t, label+"sq", "attempt", "inside", "inside")
	case "drop":
		o.Muts = []Mut{{Kind: pick(t, label+"dk", "drop", "drop", "drop", "dropall"), Cookie: target}}
	case "error":
		o.ErrorQ = pick(t, label+"err", "access_denied", "server_error", "x")
		o.StateQ = pick(t, label+"sq", "attempt", "attempt", "omit", "lit", "other")
		o.StateLit = "zzz"
		if rapid.IntRange(0, 2).Draw(t, label+"errdrop") == 0 {
			o.Muts = []Mut{{Kind: "drop", Cookie: "state"}}
		}
		o.CodeQ = pick(t, label+"cq", "omit", "attempt")
	default: // free
		o.Attempt = anyAttempt()
		o.StateQ = pick(t, label+"sq", "attempt", "attempt", "omit", "empty", "lit", "prefix", "suffix", "case", "inside", "other", "space", "near", "near")
		if o.StateQ == "lit" {
			o.StateLit = rapid.StringMatching(`[A-Za-z0-9_-]{1,12}`).Draw(t, label+"slit")
		}
		if o.StateQ == "near" {
			genNear(t, label, &o)
		}
		o.CodeQ = pick(t, label+"cq", "attempt", "attempt", "attempt", "bogus", "omit", "other")
		nm := rapid.IntRange(0, 2).Draw(t, label+"nm")
		for i := 0; i < nm; i++ {
			o.Muts = append(o.Muts, genMutFree(t, fmt.Sprintf("%sm%d", label, i)))
		}
		if rapid.IntRange(0, 9).Draw(t, label+"err") == 0 {
			o.ErrorQ = "access_denied"
		}
	}
	if consumed && o.Tmpl != "restore" && o.Tmpl != "drop" && o.Tmpl != "stranger" && rapid.IntRange(0, 3).Draw(t, label+"reopen") > 0 {
		// an earlier callback of this history has probably completed and cleared the jar: the browser gets the cookies of its
		// latest attempt back first, so that the manipulation meets a jar worth manipulating
		o.Muts = append([]Mut{{Kind: "restore", Cookie: "state", N: last}, {Kind: "restore", Cookie: "pkce", N: last}}, o.Muts...)
	}
	// the transport: mostly what the provider was asked to use for the attempt the callback refers to
	genTransport(t, label, &o, o.Attempt >= 0 && o.Attempt < len(formPost) && formPost[o.Attempt])
	o.TokenExtra = rapid.IntRange(0, 5).Draw(t, label+"tx") == 0
	// one callback in six meets a failing token endpoint
	if rapid.IntRange(0, 5).Draw(t, label+"faulty") == 0 {
		o.Faults = genFaults(t, label+"fault-")
	}
	return o
}

func genCase(t *rapid.T) Case {
	c := genCase0(t)
	c.NoS256 = rapid.IntRange(0, 2).Draw(t, "nos256") == 0
	return c
}

func genCase0(t *rapid.T) Case {
	var c Case
	c.Router = pick(t, "router", "provider", "legacy")
	c.PKCE = rapid.Bool().Draw(t, "pkce")
	c.JWTProfile = rapid.IntRange(0, 2).Draw(t, "jwt") == 0
	switch {
	case c.JWTProfile:
		c.AuthMethod = "private_key_jwt"
	case c.PKCE:
		c.AuthMethod = pick(t, "authmethod", "client_secret_basic", "client_secret_post", "none", "none")
	default:
		c.AuthMethod = pick(t, "authmethod", "client_secret_basic", "client_secret_post")
	}
	c.AuthStyle = rapid.SampledFrom([]int{0, 0, 1, 2}).Draw(t, "authstyle")
	c.Encrypt = rapid.IntRange(0, 3).Draw(t, "encrypt") > 0
	genKeys(t, &c)
	c.Unsecure = rapid.IntRange(0, 3).Draw(t, "unsecure") == 0
	c.MaxAge = rapid.SampledFrom([]int{0, 0, 600}).Draw(t, "maxage")
	c.Scopes = genScopes(t)
	c.RedirectPath = pick(t, "redirect", "/auth/callback", "/auth/callback", "/cb", "/auth/callback?tenant=t1")
	c.CustomHandlers = rapid.IntRange(0, 3).Draw(t, "handlers") > 0

	nLogins := rapid.IntRange(1, vkit.Scale(4, 5)).Draw(t, "nlogins")
	nCallbacks := rapid.IntRange(1, vkit.Scale(4, 6)).Draw(t, "ncallbacks")
	// one history in ten: the browser never started a flow at this RP; whatever its jar holds comes from elsewhere
	noFlow := rapid.IntRange(0, 9).Draw(t, "no-flow") == 0
	// interleaving: the first op is a login; the rest is a generated merge of the remaining logins and the callbacks
	kinds := []string{"login"}
	l, cb := nLogins-1, nCallbacks
	if noFlow {
		kinds, l = nil, 0
	}
	for l+cb > 0 {
		if l > 0 && (cb == 0 || rapid.IntRange(0, l+cb-1).Draw(t, fmt.Sprintf("merge%d", len(kinds))) < l) {
			kinds = append(kinds, "login")
			l--
		} else {
			kinds = append(kinds, "callback")
			cb--
		}
	}
	// other uses of the same long-lived RelyingParty, anywhere in the history (also before the first login)
	nCalls := rapid.SampledFrom([]int{0, 0, 0, 1, 1, 2, 2, 3, 4}).Draw(t, "ncalls")
	for k := 0; k < nCalls; k++ {
		at := rapid.IntRange(0, len(kinds)).Draw(t, fmt.Sprintf("call%d-at", k))
		kinds = append(kinds[:at], append([]string{"call"}, kinds[at:]...)...)
	}
	twoBrowsers := rapid.IntRange(0, 3).Draw(t, "two-browsers") == 0
	latest := map[int]int{}
	consumed := map[int]bool{}
	var prevStates []string
	var formPost []bool // per attempt: the login's options ask the provider for response_mode=form_post
	nAttempts := 0
	for i, k := range kinds {
		label := fmt.Sprintf("op%d-", i)
		b := 0
		if twoBrowsers {
			b = rapid.IntRange(0, 1).Draw(t, label+"browser")
		}
		if k == "call" {
			c.Ops = append(c.Ops, genCall(t, label, nAttempts))
			continue
		}
		if k == "login" {
			o := Op{Kind: "login", Browser: b, State: genState(t, label+"state", prevStates)}
			o.Extras = genURLParams(t, label+"opt")
			formPost = append(formPost, asksFormPost(o.Extras))
			genLoginRequest(t, label+"login-", &c, &o, prevStates)
			prevStates = append(prevStates, o.State)
			latest[b] = nAttempts
			consumed[b] = false
			nAttempts++
			c.Ops = append(c.Ops, o)
			continue
		}
		o := genCallback(t, label, b, latest, nAttempts, c.PKCE, consumed[b], noFlow, formPost)
		if o.Tmpl == "otherbrowser" && !twoBrowsers {
			o.Tmpl = "earlier"
		}
		if o.Tmpl == "stranger" {
			c.Ops = append(c.Ops, o)
			continue
		}
		if o.Tmpl == "match" || o.Tmpl == "restore" || (o.Tmpl == "earlier" && o.Attempt == latest[b]) {
			consumed[b] = true
		}
		c.Ops = append(c.Ops, o)
	}
	// one history in four ends with overlapping callbacks on the shared handler (see hold_test.go), one in three of those
	// with one more sequential callback afterwards
	if !noFlow && rapid.IntRange(0, 3).Draw(t, "overlap") == 0 {
		nAttempts = genOverlap(t, &c, "ov-", nAttempts, latest, prevStates)
		if rapid.IntRange(0, 2).Draw(t, "ov-then") == 0 {
			b := rapid.IntRange(0, 1).Draw(t, "ov-then-browser")
			c.Ops = append(c.Ops, genCallback(t, "ov-then-", b, latest, nAttempts, c.PKCE, true, false, formPost))
		}
	}
	return c
}

// ---- the browser -----------------------------------------------------------------

// jar is one browser's cookie store for the RP origin. All RP cookies share domain and path, so a cookie is
// identified by its name: the latest Set-Cookie wins, Max-Age<0 / Expires in the past removes the entry.
type jar struct {
	v map[string]string
}

func newJar() *jar { return &jar{v: map[string]string{}} }

func (j *jar) header() string {
	names := make([]string, 0, len(j.v))
	for n := range j.v {
		names = append(names, n)
	}
	sort.Slice(names, func(a, b int) bool { // state first, then pkce, then the rest: a fixed order
		rank := func(n string) int {
			switch n {
			case "state":
				return 0
			case "pkce":
				return 1
			}
			return 2
		}
		if rank(names[a]) != rank(names[b]) {
			return rank(names[a]) < rank(names[b])
		}
		return names[a] < names[b]
	})
	parts := make([]string, 0, len(names))
	for _, n := range names {
		parts = append(parts, n+"="+j.v[n])
	}
	return strings.Join(parts, "; ")
}

// absorb processes the Set-Cookie headers of a response from the RP in order; returns the cookies set (name -> raw value).
func (j *jar) absorb(h http.Header, now time.Time, secureOrigin bool) (set map[string][]string, problems []string) {
	set = map[string][]string{}
	for _, line := range h["Set-Cookie"] {
		ck, err := http.ParseSetCookie(line)
		if err != nil {
			problems = append(problems, "unparsable Set-Cookie "+line)
			continue
		}
		if ck.Secure && !secureOrigin {
			continue
		}
		if ck.MaxAge < 0 || (!ck.Expires.IsZero() && ck.Expires.Before(now)) {
			delete(j.v, ck.Name)
			continue
		}
		j.v[ck.Name] = ck.Value
		set[ck.Name] = append(set[ck.Name], ck.Value)
	}
	return set, problems
}

func cookieSafe(s string) bool {
	if s == "" {
		return false
	}
	for i := 0; i < len(s); i++ {
		if !strings.ContainsRune(cookieAlphabet, rune(s[i])) {
			return false
		}
	}
	return true
}

// ---- provider transport -------------------------------------------------------------

type provReq struct {
	Method string
	Path   string
	Form   url.Values
	Auth   string
	Status int
	Fault  string // the harness answered in the provider's place (see faultKinds); "lost": the provider answered, the response never arrived
	Tag    int    // the delivery (callback) whose request context the request was made under; 0 = none
	Access string // access_token of a 200 token response
}

// reached: the provider saw the request.
func (r provReq) reached() bool { return r.Fault == "" || r.Fault == "lost" }

// answered200: the RP received the provider's 200.
func (r provReq) answered200() bool { return r.Fault == "" && r.Status == 200 }

// delivery is one callback request on its way through the RP: the handlers that ran for it, the provider requests made
// under its request context, the plan of token endpoint faults.
type delivery struct {
	id     int
	hits   handlerHits
	faults []string
	nTok   int
	reqs   []provReq
}

type deliveryKey struct{}

// transport serves the RP's outgoing HTTP requests from the in-process provider and records them. The token endpoint is
// the harness's: a token request can be answered with a fault instead (delivery.faults) and, while a gate is installed,
// is parked until the schedule releases it.
type transport struct {
	sut     *vkit.SUT
	mu      sync.Mutex // guards reqs, cur, deliveries' fields
	serve   sync.Mutex // the provider serves one request at a time
	reqs    []provReq
	cur     *delivery           // the sequential delivery in progress / the overlapped one that moved last (requests whose context carries no delivery count for it)
	gate    *gate               // set during an overlap
	onToken func(code string) // a token request reached the provider
}

func deliveryOf(ctx context.Context) *delivery {
	d, _ := ctx.Value(deliveryKey{}).(*delivery)
	return d
}

// faultKinds: what a token request can meet instead of the provider's answer: a gateway's 502 / 503 / 504 or a 500 without
// an OAuth body, a 503 with one, a refused / reset connection, or the provider's answer getting lost on the way back.
var faultKinds = []string{"502", "503", "504", "500", "503-oauth", "refused", "reset", "lost"}

func faultResponse(r *http.Request, status int, ctype, body string) *http.Response {
	return &http.Response{
		Status: fmt.Sprintf("%d %s", status, http.StatusText(status)), StatusCode: status,
		Proto: "HTTP/1.1", ProtoMajor: 1, ProtoMinor: 1,
		Header: http.Header{"Content-Type": {ctype}}, Body: io.NopCloser(strings.NewReader(body)), ContentLength: int64(len(body)), Request: r,
	}
}

func (tr *transport) RoundTrip(r *http.Request) (*http.Response, error) {
	var body []byte
	if r.Body != nil {
		body, _ = io.ReadAll(r.Body)
		r.Body.Close()
	}
	target := r.URL.RequestURI()
	sr := httptest.NewRequest(r.Method, "http://"+r.URL.Host+target, bytes.NewReader(body))
	sr = sr.WithContext(r.Context())
	sr.Host = r.URL.Host
	for k, v := range r.Header {
		sr.Header[k] = append([]string(nil), v...)
	}
	rec := provReq{Method: r.Method, Path: r.URL.Path, Auth: r.Header.Get("Authorization")}
	if strings.HasPrefix(r.Header.Get("Content-Type"), "application/x-www-form-urlencoded") {
		rec.Form, _ = url.ParseQuery(string(body))
	}
	isToken := r.URL.Path == tr.sut.Paths["token"]
	tagged := deliveryOf(r.Context())
	tr.mu.Lock()
	d := tagged
	if d == nil {
		d = tr.cur
	}
	g := tr.gate
	fault := ""
	if tagged != nil {
		rec.Tag = tagged.id
	}
	if isToken && d != nil {
		if d.nTok < len(d.faults) {
			fault = d.faults[d.nTok]
		}
		d.nTok++
	}
	tr.mu.Unlock()
	record := func() {
		tr.mu.Lock()
		tr.reqs = append(tr.reqs, rec)
		if tagged != nil {
			tagged.reqs = append(tagged.reqs, rec)
		}
		tr.mu.Unlock()
	}
	if isToken && g != nil && d != nil {
		// until the schedule releases this request (a request without a delivery in its context is taken for one of the
		// callback the scheduler started / released last)
		g.park(d)
	}
	switch fault {
	case "502", "503", "504", "500":
		rec.Fault = fault
		rec.Status, _ = strconv.Atoi(fault)
		record()
		return faultResponse(r, rec.Status, "text/html", "<html><body><h1>"+http.StatusText(rec.Status)+"</h1>upstream connect error</body></html>"), nil
	case "503-oauth":
		rec.Fault, rec.Status = fault, 503
		record()
		return faultResponse(r, 503, "application/json", `{"error":"temporarily_unavailable","error_description":"try again later"}`), nil
	case "refused":
		rec.Fault = fault
		record()
		return nil, &net.OpError{Op: "dial", Net: "tcp", Err: syscall.ECONNREFUSED}
	case "reset":
		rec.Fault = fault
		record()
		return nil, &net.OpError{Op: "read", Net: "tcp", Err: syscall.ECONNRESET}
	}
	tr.serve.Lock()
	if isToken && tr.onToken != nil {
		tr.mu.Lock()
		tr.onToken(rec.Form.Get("code"))
		tr.mu.Unlock()
	}
	resp := vkit.Serve(tr.sut.Handler, tr.sut.Store, sr)
	tr.serve.Unlock()
	if resp.Panic != nil {
		rec.Status = 500
		record()
		return nil, fmt.Errorf("provider panicked: %v", resp.Panic)
	}
	rec.Status = resp.Status
	if fault == "lost" {
		rec.Fault = fault
		record()
		return nil, io.ErrUnexpectedEOF
	}
	if isToken && resp.Status == 200 {
		var tok struct {
			AccessToken string `json:"access_token"`
		}
		if json.Unmarshal(resp.Body, &tok) == nil {
			rec.Access = tok.AccessToken
		}
	}
	record()
	return &http.Response{
		Status: fmt.Sprintf("%d %s", resp.Status, http.StatusText(resp.Status)), StatusCode: resp.Status,
		Proto: "HTTP/1.1", ProtoMajor: 1, ProtoMinor: 1,
		Header: resp.Header.Clone(), Body: io.NopCloser(bytes.NewReader(resp.Body)), ContentLength: int64(len(resp.Body)), Request: r,
	}, nil
}

// ---- execution ---------------------------------------------------------------------

type attempt struct {
	browser   int
	state     string
	ok        bool // the RP issued a redirect with cookies and the provider delivered a code
	code      string
	verifier  string // model-decoded value of the pkce cookie issued with this attempt ("" without PKCE)
	rawState  string
	rawPKCE   string
	challenge string
	spent     bool // some token request carried this code
	mode      string // response_mode parameter of the authorization URL ("" none)
	delivered string // how the provider handed the response to the browser: query | fragment | form_post
	nonce     bool   // the authorization URL carried a nonce (set through an option; the RP's handlers do not know it)
}

type handlerHits struct {
	callback     int
	unauthorized int
	errHandler   int
	cbState      string
	cbTokens     bool
	cbAccess     string // the access token the application callback received
}

type world struct {
	c              Case
	res            *vkit.Result
	sut            *vkit.SUT
	st             *vkit.Store
	tr             *transport
	rp             rp.RelyingParty
	keysA          ckeys
	maxAge         int64
	jars           map[int]*jar
	inner          map[string]string // raw cookie value -> the value sealed inside it (whoever minted it), as far as the harness knows
	foreign        []ckeys           // the other deployments' keys (Case.Foreign, decoded; unusable pairs are nil entries)
	prov           map[string]string // raw cookie value -> who minted it (harness bookkeeping for the class names): other-keys | other-name | replica
	att            []*attempt
	hits           handlerHits
	redirect       string
	mintSeq        int
	keyNotes       []string // description of the foreign keys used by the manipulations of the current callback
	info           []string
	classes        []string
	asserted, grey int
	nontrivial     bool
	calls          []string    // the other calls made on the RelyingParty so far (for messages)
	tokens         *heldTokens // what the application holds from the latest completed login
	probes         int
	nDeliveries    int
	handlers       map[bool]http.HandlerFunc // the application's long-lived callback handlers (without / with a token-request parameter option)
}

type heldTokens struct{ access, refresh, id string }

func (w *world) jar(b int) *jar {
	j, ok := w.jars[b]
	if !ok {
		j = newJar()
		w.jars[b] = j
	}
	return j
}

// keys resolves a key name of a Mut: A = the RP's, F<i> = the case's i-th foreign handler, otherwise the fixed 32-byte pairs.
func (w *world) keys(name string) ckeys {
	if name == "A" {
		return w.keysA
	}
	if strings.HasPrefix(name, "F") && len(w.foreign) > 0 {
		if i, err := strconv.Atoi(name[1:]); err == nil && i >= 0 {
			if k := w.foreign[i%len(w.foreign)]; usableKeys(k) {
				return k
			}
		}
	}
	if !strings.HasPrefix(name, "B") {
		name = "B"
	}
	return keysFor(name, w.keysA.Block != nil)
}

func (kp KeyPair) decode() (ckeys, bool) {
	h, err1 := hex.DecodeString(kp.Hash)
	e, err2 := hex.DecodeString(kp.Enc)
	k := ckeys{Hash: h}
	if len(e) > 0 {
		k.Block = e
	}
	return k, err1 == nil && err2 == nil && usableKeys(k) && len(h) <= 1024
}

func lenClass(n int) string {
	switch {
	case n < 16:
		return "1-15"
	case n < 32:
		return "16-31"
	case n == 32:
		return "32"
	case n < 64:
		return "33-63"
	case n == 64:
		return "64"
	}
	return "65+"
}

func commonPrefix(a, b []byte) int {
	n := 0
	for n < len(a) && n < len(b) && a[n] == b[n] {
		n++
	}
	return n
}

// relClass names the relation of keys k to the RP's keys from the bytes: for the hash key the length class of the common
// prefix, for the encryption key equal / absent on one side / common prefix of >= 16 bytes / different.
func (w *world) relClass(k ckeys) (hash, enc string) {
	a := w.keysA
	switch cp := commonPrefix(a.Hash, k.Hash); {
	case bytes.Equal(a.Hash, k.Hash):
		hash = "equal"
	case cp >= 64:
		hash = "common-prefix-64+"
	case cp >= 32:
		hash = "common-prefix-32-63"
	case cp >= 16:
		hash = "common-prefix-16-31"
	case cp >= 1:
		hash = "common-prefix-1-15"
	default:
		hash = "unrelated"
	}
	switch {
	case bytes.Equal(a.Block, k.Block) && (a.Block == nil) == (k.Block == nil):
		enc = "equal"
	case a.Block == nil || k.Block == nil:
		enc = "one-side-only"
	case commonPrefix(a.Block, k.Block) >= 16:
		enc = "common-prefix-16+"
	default:
		enc = "different"
	}
	return hash, enc
}

func (w *world) decode(name, raw string) (string, bool, string) {
	return modelDecode(w.keysA, name, raw, time.Now(), w.maxAge)
}

func run(c Case) (res *vkit.Result) {
	res = &vkit.Result{}
	defer func() {
		if p := recover(); p != nil {
			st := string(debug.Stack())
			res.Fail("C17:panic@"+vkit.FirstLibFrame(st), "panic: %v\n%s", p, st)
		}
	}()
	t0 := time.Now()
	w := &world{c: c, res: res, jars: map[int]*jar{}, inner: map[string]string{}, prov: map[string]string{}, keysA: keysFor("A", c.Encrypt)}
	if c.KeysA != nil {
		k, ok := c.KeysA.decode()
		if !ok {
			// outside the domain: a handler with such keys cannot issue a single cookie (empty hash key, AES key not 16/24/32 bytes)
			res.Grey = true
			res.Label("excluded:rp-keys-unusable")
			return res
		}
		w.keysA = k
	}
	c.Encrypt = w.keysA.Block != nil
	w.c.Encrypt = c.Encrypt
	for _, kp := range c.Foreign {
		k, ok := kp.decode()
		if !ok {
			k = ckeys{}
		}
		w.foreign = append(w.foreign, k)
	}
	w.maxAge = 86400 * 30
	if c.MaxAge > 0 {
		w.maxAge = int64(c.MaxAge)
	}
	w.redirect = rpOrigin + c.RedirectPath

	// provider
	cl := &vkit.ClientSpec{ID: clientID, AppType: "web", AuthMethod: c.AuthMethod, GrantTypes: []string{vkit.GCode, vkit.GRefr, vkit.GCC, vkit.GDevice},
		ResponseTypes: []string{"code"}, Service: true, RedirectURIs: []string{w.redirect}, AllowedScopes: []string{"custom:read"}}
	sec := ""
	switch c.AuthMethod {
	case "client_secret_basic", "client_secret_post":
		cl.Secret, sec = secret, secret
	case "private_key_jwt":
		cl.Keys = map[string]string{clientKID: clientKey}
	}
	w.st = vkit.NewStore([]*vkit.ClientSpec{cl}, vkit.SignKeySpec{KeyName: "rsa1", Alg: "RS256", KID: "sig1"}, vkit.StorePolicy{})
	pspec := vkit.DefaultProviderSpec(c.Router)
	pspec.S256 = !c.NoS256
	w.sut = vkit.MustBuild(pspec, w.st)
	w.tr = &transport{sut: w.sut}
	w.tr.onToken = func(code string) {
		for _, a := range w.att {
			if a.code != "" && a.code == code {
				a.spent = true
			}
		}
	}

	// relying party
	var chOpts []httphelper.CookieHandlerOpt
	if c.Unsecure {
		chOpts = append(chOpts, httphelper.WithUnsecure())
	}
	if c.MaxAge > 0 {
		chOpts = append(chOpts, httphelper.WithMaxAge(c.MaxAge))
	}
	ch := httphelper.NewCookieHandler(w.keysA.Hash, w.keysA.Block, chOpts...)
	opts := []rp.Option{rp.WithHTTPClient(&http.Client{Transport: w.tr}), rp.WithLogger(vkit.DiscardLogger())}
	if c.PKCE {
		opts = append(opts, rp.WithPKCE(ch))
	} else {
		opts = append(opts, rp.WithCookieHandler(ch))
	}
	if c.JWTProfile {
		opts = append(opts, rp.WithJWTProfile(rp.SignerFromKeyAndKeyID(vkit.Key(clientKey).PKCS1PEM(), clientKID)))
	}
	switch c.AuthStyle {
	case 1:
		opts = append(opts, rp.WithAuthStyle(1)) // oauth2.AuthStyleInParams
	case 2:
		opts = append(opts, rp.WithAuthStyle(2)) // oauth2.AuthStyleInHeader
	}
	if c.CustomHandlers {
		opts = append(opts,
			rp.WithUnauthorizedHandler(func(rw http.ResponseWriter, r *http.Request, desc, state string) {
				w.tr.mu.Lock()
				w.hitsOf(r).unauthorized++
				w.tr.mu.Unlock()
				http.Error(rw, "custom-unauthorized", http.StatusForbidden)
			}),
			rp.WithErrorHandler(func(rw http.ResponseWriter, r *http.Request, et, ed, state string) {
				w.tr.mu.Lock()
				w.hitsOf(r).errHandler++
				w.tr.mu.Unlock()
				http.Error(rw, "custom-error", http.StatusBadGateway)
			}))
	}
	// the RP gets its own slice: the harness keeps w.c.Scopes as the record of what was configured (never read back from the RP)
	relying, err := rp.NewRelyingPartyOIDC(context.Background(), issuer, clientID, sec, w.redirect, append([]string(nil), c.Scopes...), opts...)
	if err != nil {
		res.Fail("C17:rp-construction-failed", "NewRelyingPartyOIDC against a truthful provider failed: %v", err)
		return res
	}
	w.rp = relying

	if c.Conc != nil {
		w.runConc(c.Conc)
	} else {
		for i := range c.Ops {
			switch c.Ops[i].Kind {
			case "login":
				w.login(i, c.Ops[i])
			case "callback":
				w.callback(i, c.Ops[i])
			case "overlap":
				w.overlap(i, c.Ops[i])
			case "call":
				w.call(i, c.Ops[i])
			}
		}
	}

	// report first what does not rest on the model reading the RP's OWN cookies (jar contents the harness produced itself),
	// last the disagreements between the model codec and the cookies the RP issued
	rank := func(fp string) int {
		switch {
		case strings.HasSuffix(fp, ":cookie-under-other-keys") || strings.HasSuffix(fp, ":cookie-for-other-name") || strings.HasSuffix(fp, ":no-cookie"):
			return 0
		case strings.HasPrefix(fp, "C17:login-cookie:"):
			return 2
		}
		return 1
	}
	sort.SliceStable(res.Viol, func(a, b int) bool { return rank(res.Viol[a].FP) < rank(res.Viol[b].FP) })
	if len(w.att) == 0 && c.Conc == nil {
		res.Label("history:no-flow-started")
	}
	w.labelScopes()
	elapsed := time.Since(t0)
	res.Label("router:"+c.Router, fmt.Sprintf("pkce:%v", c.PKCE), fmt.Sprintf("jwt-profile:%v", c.JWTProfile), "client:"+c.AuthMethod)
	res.Label("rp-keys:hash-len:"+lenClass(len(w.keysA.Hash)), fmt.Sprintf("rp-keys:enc-len:%d", len(w.keysA.Block)))
	if elapsed > 20*time.Second {
		res.Label("slow-case")
	}
	res.Grey = w.asserted == 0
	res.NonTrivial = w.nontrivial
	res.Key = fmt.Sprintf("%s|pkce=%v|jwt=%v|%s|style=%d|keys=%s/%d|h=%v|%s", c.Router, c.PKCE, c.JWTProfile, c.AuthMethod, c.AuthStyle, lenClass(len(w.keysA.Hash)), len(w.keysA.Block), c.CustomHandlers, strings.Join(w.classes, ","))
	res.Info = w.info
	return res
}

func (w *world) note(format string, a ...any) { w.info = append(w.info, fmt.Sprintf(format, a...)) }

func sameSet(a, b []string) bool {
	x, y := append([]string(nil), a...), append([]string(nil), b...)
	sort.Strings(x)
	sort.Strings(y)
	return strings.Join(x, "\x00") == strings.Join(y, "\x00")
}

// login: the browser opens the RP's login URL (rp.AuthURLHandler), follows the redirect to the provider, logs in, and
// ends up holding the callback URL (code + state) without opening it yet.
func (w *world) login(i int, o Op) {
	state := o.State
	if state == "huge" {
		state = strings.Repeat("h", hugeState)
	}
	prior := w.latestIn(o.Browser) // the attempt whose cookies this jar probably still holds
	a := &attempt{browser: o.Browser, state: state}
	w.att = append(w.att, a)
	idx := len(w.att) - 1

	params := w.urlParamOpts("login", append([]string{o.Extra}, o.Extras...))
	// like a real application's generator, the state function never returns the same value twice
	var issued []string
	h := rp.AuthURLHandler(func() string {
		v := state
		if len(issued) > 0 {
			v = fmt.Sprintf("%s~%d", state, len(issued)+1)
		}
		issued = append(issued, v)
		return v
	}, w.rp, params...)
	j := w.jar(o.Browser)
	// the login request: cookies the jar holds (after the generated manipulations), generated query / form parameters
	w.keyNotes = nil
	for _, m := range o.LoginMuts {
		l := w.applyMut(j, m, o.Browser, "", prior)
		if strings.HasSuffix(l, "noop") || l == "mint-excluded" {
			l = "noop"
		}
		w.res.Label("login-jar:" + l)
	}
	target := rpOrigin + "/auth/login"
	if len(o.LoginQuery) > 0 {
		target += "?" + encodeKV(o.LoginQuery)
	}
	var req *http.Request
	if o.LoginMethod == "POST" {
		req = httptest.NewRequest("POST", target, strings.NewReader(encodeKV(o.LoginForm)))
		req.Header.Set("Content-Type", "application/x-www-form-urlencoded")
	} else {
		req = httptest.NewRequest("GET", target, nil)
	}
	if hdr := j.header(); hdr != "" {
		req.Header.Set("Cookie", hdr)
		w.res.Label("login-req:cookies-present")
	}
	w.labelLoginRequest(o)
	w.hits = handlerHits{}
	resp := vkit.Serve(h, nil, req)
	w.judgeLogin(i, idx, a, issued, resp, j)
}

// labelLoginRequest: histogram classes of the login request (which bound parameter names it carries, duplicates, method).
func (w *world) labelLoginRequest(o Op) {
	all := append(append([]KV(nil), o.LoginQuery...), o.LoginForm...)
	if len(all) == 0 && o.LoginMethod != "POST" {
		w.res.Label("login-req:plain")
		return
	}
	kind := "get+query"
	if o.LoginMethod == "POST" {
		kind = "post-form"
		if len(o.LoginQuery) > 0 {
			kind = "post-form+query"
		}
	}
	w.res.Label("login-req:" + kind)
	seen := map[string]int{}
	var owned []string
	for _, kv := range all {
		seen[kv.K]++
		if contains(ownedParams, kv.K) {
			if seen[kv.K] == 1 {
				owned = append(owned, kv.K)
			}
			w.res.Label("login-req:names:" + kv.K)
		} else {
			w.res.Label("login-req:names:(not-bound-by-the-statement)")
		}
	}
	for _, n := range seen {
		if n > 1 {
			w.res.Label("login-req:duplicate-parameter")
			break
		}
	}
	if w.c.PKCE && (seen["code_challenge"] > 0 || seen["code_challenge_method"] > 0) {
		w.res.Label("login-req:pkce-parameters-with-pkce-on")
	}
	sort.Strings(owned)
	w.classes = append(w.classes, "login:"+kind+"/"+strings.Join(owned, "+"))
}

// judgeAuthURL: every authorization URL the RP builds (redirect of rp.AuthURLHandler, result of rp.AuthURL) goes to the
// provider's authorization endpoint and carries the CONFIGURED client, redirect URI and scopes (the harness's own record of
// what it passed to the constructor) and the state handed in (one of issued).
func (w *world) judgeAuthURL(who, loc string, issued []string) (u *url.URL, q url.Values, urlState string, ok bool) {
	res := w.res
	hist := ""
	if len(w.calls) > 0 {
		hist = "; earlier calls on this RelyingParty: " + strings.Join(w.calls, ", ")
	}
	u, err := url.Parse(loc)
	if err != nil {
		res.Fail("C17:authurl:unparsable", "%s: Location %q does not parse: %v", who, loc, err)
		return nil, nil, "", false
	}
	q, qerr := url.ParseQuery(u.RawQuery)
	if qerr != nil {
		res.Fail("C17:authurl:unparsable", "%s: query of %q does not parse: %v", who, loc, qerr)
		return nil, nil, "", false
	}
	one := func(k string) (string, bool) { return q.Get(k), len(q[k]) == 1 }
	if u.Scheme+"://"+u.Host != issuer || u.Path != w.sut.Paths["authorization"] {
		res.Fail("C17:authurl:endpoint", "%s: redirect goes to %q, not to the provider's authorization endpoint%s", who, loc, hist)
	}
	if v, ok := one("client_id"); !ok || v != clientID {
		res.Fail("C17:authurl:client_id", "%s: authorization URL carries client_id %q, configured %q (%s)%s", who, q["client_id"], clientID, loc, hist)
	}
	if v, ok := one("redirect_uri"); !ok || v != w.redirect {
		res.Fail("C17:authurl:redirect_uri", "%s: authorization URL carries redirect_uri %q, configured %q%s", who, q["redirect_uri"], w.redirect, hist)
	}
	if v, ok := one("scope"); !ok || !sameScopes(strings.Fields(v), w.c.Scopes) {
		res.Fail("C17:authurl:scope", "%s: authorization URL carries scope %q, configured %q%s", who, q["scope"], w.c.Scopes, hist)
	}
	urlState, okState := one("state")
	if !okState || !contains(issued, urlState) {
		res.Fail("C17:authurl:state", "%s: authorization URL carries state %q, the application's state function returned %q%s", who, q["state"], issued, hist)
	}
	return u, q, urlState, true
}

// sameScopes: the same scope values on both sides (as sets: the order and a repetition carry no meaning in a scope parameter).
func sameScopes(got, want []string) bool {
	set := func(l []string) []string {
		m := map[string]bool{}
		var out []string
		for _, s := range l {
			if !m[s] {
				m[s] = true
				out = append(out, s)
			}
		}
		return out
	}
	return sameSet(set(got), set(want))
}

// judgeLogin: the browser (jar j) receives the RP's answer to a login request; the oracle looks at the cookies and the
// authorization URL, then the browser follows the redirect to the provider and logs in there.
func (w *world) judgeLogin(i, idx int, a *attempt, issued []string, resp *vkit.Resp, j *jar) {
	res := w.res
	state := a.state
	if resp.Panic != nil {
		res.Fail("C17:panic@"+resp.PanicFrame(), "AuthURLHandler panicked: %v", resp.Panic)
		return
	}
	set, problems := j.absorb(resp.Header, time.Now(), true)
	for _, p := range problems {
		res.Fail("C17:login-cookie:unparsable", "login %d: %s", i, p)
	}
	for n, raw := range set {
		for _, r := range raw {
			if v, ok, _ := w.decode(n, r); ok {
				w.inner[r] = v
			}
		}
	}
	if !resp.IsRedirect() {
		if len(state) >= hugeState {
			res.Label("login:refused-huge-state")
			w.note("login#%d refused (state of %d bytes does not fit a cookie): %d", idx, len(state), resp.Status)
			return
		}
		res.Fail("C17:login-no-redirect", "login %d (state %q): AuthURLHandler answered %s instead of redirecting to the provider", i, state, resp.Describe())
		return
	}
	res.Label("login:redirected")
	u, q, urlState, parsed := w.judgeAuthURL(fmt.Sprintf("login %d", i), resp.Location(), issued)
	if !parsed {
		return
	}
	one := func(k string) (string, bool) { return q.Get(k), len(q[k]) == 1 }
	// from here on the attempt's state is what the provider will echo to the redirect URI
	state = urlState
	a.state = urlState
	a.mode = q.Get("response_mode")
	a.nonce = len(q["nonce"]) > 0
	// the cookie the browser now holds for the name `state` decodes under the RP's keys to that state
	a.rawState = j.v["state"]
	if len(set["state"]) == 0 {
		res.Fail("C17:login-cookie:state-missing", "login %d: the RP redirected to the provider without handing the browser a state cookie (Set-Cookie: %q)", i, resp.Header["Set-Cookie"])
	} else if v, ok, why := w.decode("state", a.rawState); !ok || v != state {
		res.Fail("C17:login-cookie:state-wrong", "login %d: state cookie decodes to %q (ok=%v %s) but the authorization URL carries state %q (state function returned %q)", i, v, ok, why, state, issued)
	}
	if w.c.PKCE {
		a.rawPKCE = j.v["pkce"]
		a.challenge = q.Get("code_challenge")
		v, ok, why := w.decode("pkce", a.rawPKCE)
		switch {
		case len(set["pkce"]) == 0:
			res.Fail("C17:login-cookie:pkce-missing", "login %d: PKCE is on but no pkce cookie was set (Set-Cookie: %q)", i, resp.Header["Set-Cookie"])
		case !ok:
			res.Fail("C17:login-cookie:pkce-undecodable", "login %d: the pkce cookie does not decode under the RP's keys (%s)", i, why)
		default:
			a.verifier = v
			if m, _ := one("code_challenge_method"); m != "S256" {
				res.Fail("C17:authurl:challenge-method", "login %d: code_challenge_method = %q, want S256", i, q["code_challenge_method"])
			}
			if ch, ok := one("code_challenge"); !ok || ch != vkit.S256(v) {
				res.Fail("C17:authurl:challenge-mismatch", "login %d: code_challenge %q is not S256 of the verifier stored in the pkce cookie (%q -> %q)", i, q["code_challenge"], v, vkit.S256(v))
			}
		}
	} else if len(q["code_challenge"]) > 0 {
		res.Label("login:challenge-without-pkce")
	}

	// the browser follows the redirect; the harness plays the provider's login UI
	ag := vkit.NewAgent(w.sut)
	ar := ag.Get(u.Path+"?"+u.RawQuery, nil, nil)
	id, ok := vkit.LoginRequestID(ar)
	if !ok {
		res.Label("login:provider-refused")
		w.note("login#%d: provider refused the authorization request: %s", idx, ar.Describe())
		return
	}
	w.st.Login(id, "u1")
	cbr := ag.Callback(id)
	target, dp, how, delivered := deliveredResponse(cbr)
	if !delivered {
		res.Label("login:provider-refused")
		w.note("login#%d: provider callback failed: %s", idx, cbr.Describe())
		return
	}
	if target != strings.SplitN(w.redirect, "?", 2)[0] || dp.Get("code") == "" {
		res.Label("login:provider-refused")
		w.note("login#%d: provider answered %s", idx, cbr.Describe())
		return
	}
	a.delivered = how
	res.Label("login:response-delivered-by:" + how)
	if dp.Get("state") != state {
		res.Label("login:provider-mangled-state")
	}
	a.code = dp.Get("code")
	a.ok = true
	res.Label(stateCharClasses(state)...)
	w.note("login#%d browser=%d state=%q verifier=%q", idx, a.browser, clip(state), a.verifier)
}

func contains(l []string, s string) bool {
	for _, x := range l {
		if x == s {
			return true
		}
	}
	return false
}

func clip(s string) string {
	if len(s) > 40 {
		return s[:40] + "..."
	}
	return s
}

func swapCase(s string) string {
	out := []rune(s)
	changed := false
	for i, r := range out {
		switch {
		case unicode.IsUpper(r):
			out[i], changed = unicode.ToLower(r), true
		case unicode.IsLower(r):
			out[i], changed = unicode.ToUpper(r), true
		}
	}
	if !changed {
		return s + "X"
	}
	return string(out)
}

func (w *world) applyMut(j *jar, m Mut, browser int, q string, ref *attempt) string {
	other := map[string]string{"state": "pkce", "pkce": "state"}
	ck := m.Cookie
	if ck != "pkce" {
		ck = "state"
	}
	resolve := func() string {
		switch m.Value {
		case "query":
			if q != "" {
				return q
			}
			return "q-empty"
		case "state":
			if ref != nil {
				return ref.state
			}
			return "s-none"
		case "verifier":
			if ref != nil && ref.verifier != "" {
				return ref.verifier
			}
			return "dmVyaWZpZXItbm9uZS12ZXJpZmllci1ub25lLXZlcmlmaWVyLW5vbmU"
		}
		if m.Lit != "" {
			return m.Lit
		}
		return "lit"
	}
	cur, have := j.v[ck]
	switch m.Kind {
	case "drop":
		delete(j.v, ck)
	case "dropall":
		j.v = map[string]string{}
	case "flip":
		if !have || cur == "" {
			return "flip-noop"
		}
		p := m.N % len(cur)
		chs := m.Ch
		if chs == "" {
			chs = "A"
		}
		repl := chs[0]
		if !strings.ContainsRune(cookieAlphabet, rune(repl)) {
			repl = 'A'
		}
		if cur[p] == repl {
			repl = cookieAlphabet[(strings.IndexByte(cookieAlphabet, repl)+1)%len(cookieAlphabet)]
		}
		j.v[ck] = cur[:p] + string(repl) + cur[p+1:]
	case "truncate":
		if !have || cur == "" {
			return "truncate-noop"
		}
		j.v[ck] = cur[:m.N%len(cur)]
	case "append":
		if !have {
			return "append-noop"
		}
		s := m.Ch
		if !cookieSafe(s) {
			s = "A"
		}
		j.v[ck] = cur + s
	case "swap":
		s, hs := j.v["state"]
		p, hp := j.v["pkce"]
		delete(j.v, "state")
		delete(j.v, "pkce")
		if hp {
			j.v["state"] = p
		}
		if hs {
			j.v["pkce"] = s
		}
	case "cross":
		src, ok := j.v[other[ck]]
		if !ok {
			return "cross-noop"
		}
		j.v[ck] = src
	case "restore":
		// only cookies this very browser received from the RP for an earlier attempt can be put back
		var mine []*attempt
		for _, a := range w.att {
			if a.browser == browser && a.rawState != "" {
				mine = append(mine, a)
			}
		}
		if len(mine) == 0 {
			return "restore-noop"
		}
		var src *attempt
		if m.N < len(w.att) && w.att[m.N].browser == browser && w.att[m.N].rawState != "" {
			src = w.att[m.N]
		} else {
			src = mine[m.N%len(mine)]
		}
		raw := src.rawState
		if ck == "pkce" {
			raw = src.rawPKCE
		}
		if raw == "" {
			return "restore-noop"
		}
		j.v[ck] = raw
	case "mint":
		keys, name := m.Keys, m.Name
		if keys == "" {
			keys = "B"
		}
		if keys == "A" && name == ck {
			// only the RP can produce that; not part of the input domain
			return "mint-excluded"
		}
		val := resolve()
		w.mintSeq++
		k := w.keys(keys)
		raw, by := "", "model"
		if m.By == "lib" {
			// what a cookie handler of the library configured with those keys hands out (falls back to the model codec
			// where such a handler cannot: over-long value, cookie name net/http refuses)
			if r, ok := libMint(k, name, val); ok {
				raw, by = r, "lib"
			}
		}
		if raw == "" {
			raw = modelEncode(k, name, val, time.Now().Unix(), fmt.Sprintf("%d", w.mintSeq))
		}
		j.v[ck] = raw
		w.inner[raw] = val
		hrel, erel := w.relClass(k)
		who := "keys" + keys
		switch {
		case hrel == "equal" && erel == "equal" && keys != "A":
			who = "keys-replica"
			w.prov[raw] = "replica"
			if name != ck {
				w.prov[raw] = "other-name"
			}
		case keys == "A":
			w.prov[raw] = "other-name"
		default:
			w.prov[raw] = "other-keys"
			if strings.HasPrefix(keys, "F") {
				who = "keysF"
			}
			w.res.Label("foreign-keys:hash-"+hrel, "foreign-keys:enc-"+erel, "foreign-keys:hash-"+hrel+"/enc-"+erel)
			if len(w.keysA.Hash) > 64 && len(k.Hash) > 64 {
				w.res.Label("foreign-keys:both-hash-keys-longer-than-64")
			}
			w.keyNotes = append(w.keyNotes, fmt.Sprintf("%s cookie minted by %s under keys %s (hash key %d bytes, first %d bytes shared with the RP's %d-byte hash key; encryption key %d bytes, %s)",
				ck, by, keys, len(k.Hash), commonPrefix(w.keysA.Hash, k.Hash), len(w.keysA.Hash), len(k.Block), erel))
		}
		return "mint:" + ck + ":" + who + ":name-" + map[bool]string{true: "same", false: "other"}[name == ck] + ":by-" + by
	case "plain":
		val := resolve()
		if !cookieSafe(val) {
			val = b64.EncodeToString([]byte(val))
		}
		j.v[ck] = val
		w.inner[val] = resolve()
	default:
		return "noop"
	}
	if m.Kind == "drop" || m.Kind == "flip" || m.Kind == "truncate" || m.Kind == "append" || m.Kind == "restore" || m.Kind == "cross" || m.Kind == "plain" {
		return m.Kind + ":" + ck
	}
	return m.Kind
}

// hitsOf: the handler counters of the delivery the request belongs to (its context carries the delivery; a request
// without one counts for the sequential delivery in progress, otherwise for the login / call in progress). Call with w.tr.mu held.
func (w *world) hitsOf(r *http.Request) *handlerHits {
	if d := deliveryOf(r.Context()); d != nil {
		return &d.hits
	}
	if w.tr.cur != nil {
		return &w.tr.cur.hits
	}
	return &w.hits
}

// exchangeHandler: the application's callback handler, built once per case (and per option list) like a handler
// registered on a mux: every callback of the history goes through the same instance.
func (w *world) exchangeHandler(tokenExtra bool) http.HandlerFunc {
	if h, ok := w.handlers[tokenExtra]; ok {
		return h
	}
	var params []rp.URLParamOpt
	if tokenExtra {
		params = append(params, rp.WithURLParam("foo", "bar"))
	}
	h := rp.CodeExchangeHandler(func(rw http.ResponseWriter, r *http.Request, tokens *oidc.Tokens[*oidc.IDTokenClaims], state string, _ rp.RelyingParty) {
		w.tr.mu.Lock()
		hits := w.hitsOf(r)
		hits.callback++
		hits.cbState = state
		hits.cbTokens = tokens != nil && tokens.Token != nil && tokens.AccessToken != ""
		if hits.cbTokens {
			hits.cbAccess = tokens.AccessToken
			w.tokens = &heldTokens{access: tokens.AccessToken, refresh: tokens.RefreshToken, id: tokens.IDToken}
		}
		w.tr.mu.Unlock()
		rw.WriteHeader(http.StatusOK)
		io.WriteString(rw, "welcome")
	}, w.rp, params...)
	if w.handlers == nil {
		w.handlers = map[bool]http.HandlerFunc{}
	}
	w.handlers[tokenExtra] = h
	return h
}

// prepared is a callback ready to be sent: the manipulations are applied, the model has read the jar.
type prepared struct {
	o     Op
	d     *delivery
	h     http.HandlerFunc
	req   *http.Request
	code  string
	state bool // the model's verdict on the state check
	// judge: the oracle; resp = the RP's answer, during = the provider requests this delivery caused, ov = nil for a
	// sequential callback
	judge func(resp *vkit.Resp, during []provReq, ov *ovInfo)
}

// ovInfo: what the oracle of an overlapped callback needs to know about the others.
type ovInfo struct {
	shared  bool // another callback of the overlap presented the same code: which of them the provider serves depends on the schedule
	blind   bool // provider requests without a delivery in their context were seen: requests cannot be attributed to callbacks
	blocked bool // after its start / a release the callback neither parked a token request nor returned until another callback moved on
	window  []provReq // every provider request made during the overlap
}

// callback: the browser opens the RP's redirect URI with a query, sending whatever its jar holds.
func (w *world) callback(i int, o Op) {
	p := w.prepareCallback(i, o, "")
	w.tr.mu.Lock()
	w.tr.cur = p.d
	before := len(w.tr.reqs)
	w.tr.mu.Unlock()
	resp := vkit.Serve(p.h, nil, p.req)
	w.tr.mu.Lock()
	w.tr.cur = nil
	during := append([]provReq(nil), w.tr.reqs[before:]...)
	w.tr.mu.Unlock()
	p.judge(resp, during, nil)
}

func (w *world) prepareCallback(i int, o Op, where string) *prepared {
	res := w.res
	j := w.jar(o.Browser)

	// the attempt the query refers to
	var ref, alt *attempt
	if n := len(w.att); n > 0 {
		k := o.Attempt % n
		if o.Tmpl == "otherbrowser" {
			// prefer an attempt of the other browser
			for d := 0; d < n; d++ {
				if w.att[(k+d)%n].browser != o.Browser {
					k = (k + d) % n
					break
				}
			}
		}
		ref = w.att[k]
		alt = w.att[(k+1)%n]
	}
	refState, refCode := "s-none", "c-none"
	if ref != nil {
		refState = ref.state
		if ref.code != "" {
			refCode = ref.code
		}
	}

	// state parameter (except `inside`, which looks at the jar after the manipulations)
	sendState := true
	q := refState
	nearKind := ""
	switch o.StateQ {
	case "omit":
		sendState, q = false, ""
	case "empty":
		q = ""
	case "lit":
		q = o.StateLit
	case "prefix":
		if len(refState) > 1 {
			q = refState[:len(refState)-1]
		} else {
			q = refState + "x"
		}
	case "suffix":
		q = refState + "x"
	case "case":
		q = swapCase(refState)
	case "other":
		if alt != nil {
			q = alt.state
		}
	case "space":
		q = refState + " "
	case "near":
		q, nearKind = nearMiss(refState, o.Near, o.NearN, o.NearCh)
	}

	var mutLabels []string
	w.keyNotes = nil
	for _, m := range o.Muts {
		mutLabels = append(mutLabels, w.applyMut(j, m, o.Browser, q, ref))
	}
	if o.StateQ == "inside" {
		if v, ok := w.inner[j.v["state"]]; ok {
			q = v
		}
	}

	code := refCode
	sendCode := true
	codeOf := ref
	switch o.CodeQ {
	case "bogus":
		code, codeOf = "bogus-code", nil
	case "omit":
		sendCode, code, codeOf = false, "", nil
	case "other":
		if alt != nil && alt.code != "" {
			code, codeOf = alt.code, alt
		}
	case "of":
		if n := len(w.att); n > 0 {
			if a := w.att[((o.CodeAttempt%n)+n)%n]; a.code != "" {
				code, codeOf = a.code, a
			}
		}
	}
	if codeOf != nil && (codeOf.code == "" || codeOf.code != code) {
		codeOf = nil
	}

	// ---- model: what the jar holds, decoded independently under the RP's keys -------------------------------
	rawState, haveState := j.v["state"]
	sDec, sOK, sWhy := "", false, "no-cookie"
	if haveState {
		sDec, sOK, sWhy = w.decode("state", rawState)
	}
	stateMatch := sOK && sDec == q
	rejectReason := ""
	switch {
	case !haveState:
		rejectReason = "no-cookie"
	case !sOK:
		rejectReason = "undecodable-" + sWhy
		// a finer class for the histogram: what the bytes are
		for _, name := range []string{"pkce", "other", ""} {
			if _, ok, _ := w.decode(name, rawState); ok {
				rejectReason = "minted-for-other-name"
			}
		}
		if rejectReason != "minted-for-other-name" {
			others := []ckeys{w.keys("B"), w.keys("Bhash"), w.keys("Bblock")}
			for _, k := range w.foreign {
				if usableKeys(k) {
					others = append(others, k)
				}
			}
			for _, k := range others {
				for _, name := range []string{"state", "pkce"} {
					if _, ok, _ := modelDecode(k, name, rawState, time.Now(), w.maxAge); ok {
						rejectReason = "minted-under-other-keys"
					}
				}
			}
			// the harness put this very value into the jar as the product of another deployment's handler
			if w.prov[rawState] == "other-keys" {
				rejectReason = "minted-under-other-keys"
			}
		}
	case sDec != q:
		rejectReason = "state-differs"
		if !sendState || q == "" {
			rejectReason = "state-param-absent"
		}
	}
	rawPKCE, havePKCE := j.v["pkce"]
	pDec, pOK, pWhy := "", false, "no-cookie"
	if havePKCE {
		pDec, pOK, pWhy = w.decode("pkce", rawPKCE)
	}

	// ---- deliver -------------------------------------------------------------------------------------------
	form := url.Values{}
	if sendState {
		form.Set("state", q)
	}
	if sendCode {
		form.Set("code", code)
	}
	if o.ErrorQ != "" {
		form.Set("error", o.ErrorQ)
		form.Set("error_description", "generated")
	}
	cbURL, _ := url.Parse(w.redirect)
	var req *http.Request
	if o.Method == "POST" {
		// the parameters travel in the form body (what response_mode=form_post makes a browser send); state / code may travel
		// in the query instead or in both places with the same value (still ONE value per parameter)
		body, qq := url.Values{}, cbURL.Query()
		for k, v := range form {
			in := ""
			switch k {
			case "state":
				in = o.StateIn
			case "code":
				in = o.CodeIn
			}
			if in == "query" || in == "both" {
				qq[k] = v
			}
			if in != "query" {
				body[k] = v
			}
		}
		cbURL.RawQuery = qq.Encode()
		req = httptest.NewRequest("POST", cbURL.String(), strings.NewReader(body.Encode()))
		req.Header.Set("Content-Type", "application/x-www-form-urlencoded")
	} else {
		qq := cbURL.Query()
		for k, v := range form {
			qq[k] = v
		}
		cbURL.RawQuery = qq.Encode()
		req = httptest.NewRequest("GET", cbURL.String(), nil)
	}
	if hdr := j.header(); hdr != "" {
		req.Header.Set("Cookie", hdr)
	}
	w.nDeliveries++
	d := &delivery{id: w.nDeliveries}
	for _, f := range o.Faults {
		if f != "" && !contains(faultKinds, f) {
			f = "503"
		}
		d.faults = append(d.faults, f)
	}
	req = req.WithContext(context.WithValue(req.Context(), deliveryKey{}, d))
	h := w.exchangeHandler(o.TokenExtra)
	wasSpent := codeOf != nil && codeOf.spent // some earlier callback already presented this code to the provider
	keyNotes := w.keyNotes
	p := &prepared{o: o, d: d, h: h, req: req, code: code, state: stateMatch}
	p.judge = func(resp *vkit.Resp, during []provReq, ov *ovInfo) {
	w.tr.mu.Lock()
	hits := d.hits
	w.tr.mu.Unlock()
	if resp.Panic != nil {
		res.Fail("C17:panic@"+resp.PanicFrame(), "CodeExchangeHandler panicked: %v\n%s", resp.Panic, resp.Stack)
		return
	}
	if !w.c.CustomHandlers {
		// default handlers: the unauthorized handler answers 401, the error handler 500
		switch resp.Status {
		case http.StatusUnauthorized:
			hits.unauthorized++
		case http.StatusInternalServerError:
			hits.errHandler++
		}
	}
	var tokenReqs []provReq
	ok200, faulted := 0, ""
	for _, r := range during {
		if r.Path == w.sut.Paths["token"] {
			tokenReqs = append(tokenReqs, r)
			if r.answered200() {
				ok200++
			}
			if r.Fault != "" {
				faulted += "+" + r.Fault
			}
			for _, a := range w.att {
				if a.code != "" && r.Form.Get("code") == a.code && r.reached() {
					a.spent = true
				}
			}
		}
	}
	if ov == nil {
		j.absorb(resp.Header, time.Now(), true)
	}
	// blind: the provider requests of this delivery are not known (overlap, requests without a delivery in their context)
	blind := ov != nil && ov.blind

	// ---- judge ---------------------------------------------------------------------------------------------
	desc := fmt.Sprintf("callback op %d (browser %d, %s state=%q code=%q error=%q; jar state cookie: %s, pkce cookie: %s; muts %v)", i, o.Browser, o.Method, clip(q), clip(code), o.ErrorQ,
		describeCookie(haveState, sOK, sDec, sWhy), describeCookie(havePKCE, pOK, pDec, pWhy), mutLabels)
	if len(keyNotes) > 0 {
		desc += " [" + strings.Join(keyNotes, "; ") + "]"
	}
	if where != "" {
		desc = where + " " + desc
	}
	if faulted != "" {
		desc += " [token endpoint faults met: " + faulted[1:] + "]"
	}
	outcome := fmt.Sprintf("status=%d callback=%d unauthorized=%d error-handler=%d provider-requests=%d token-requests=%d", resp.Status, hits.callback, hits.unauthorized, hits.errHandler, len(during), len(tokenReqs))
	class := ""
	switch {
	case !stateMatch:
		// must-reject: unauthorized handler, nothing sent to the provider, application callback not invoked
		class = "must-reject:" + rejectReason
		w.asserted++
		w.nontrivial = true
		if hits.callback > 0 {
			res.Fail("C17:callback-invoked:"+coarse(rejectReason), "%s: the application callback was invoked although the state parameter does not equal the state in this browser's signed cookie (%s); %s", desc, rejectReason, outcome)
		}
		if blind {
			res.Label("overlap:requests-not-attributable")
		} else if len(tokenReqs) > 0 {
			res.Fail("C17:token-request:"+coarse(rejectReason), "%s: %d request(s) reached the token endpoint although the state check must fail (%s); %s", desc, len(tokenReqs), rejectReason, outcome)
		} else if len(during) > 0 {
			res.Fail("C17:provider-request:"+coarse(rejectReason), "%s: the RP sent %s %s to the provider although the state check must fail (%s)", desc, during[0].Method, during[0].Path, rejectReason)
		}
		if hits.unauthorized == 0 {
			res.Fail("C17:unauthorized-not-run:"+coarse(rejectReason), "%s: the unauthorized handler did not run (%s); %s", desc, rejectReason, outcome)
		}
	case o.ErrorQ != "":
		// the statement is silent about provider errors delivered with a matching state
		class = "grey:error-param-with-matching-state"
		w.grey++
	default:
		// state matches
		if w.c.PKCE {
			if !pOK {
				class = "state-ok:pkce-cookie-invalid:" + pWhy
				w.asserted++
				w.nontrivial = true
				if len(tokenReqs) > 0 {
					res.Fail("C17:token-request-without-pkce-cookie", "%s: PKCE is on and the pkce cookie does not decode (%s), yet %d request(s) reached the token endpoint (code_verifier %q); %s", desc, pWhy, len(tokenReqs), tokenReqs[0].Form["code_verifier"], outcome)
				}
				if hits.callback > 0 {
					res.Fail("C17:callback-without-pkce-cookie", "%s: application callback invoked without a decodable pkce cookie; %s", desc, outcome)
				}
				break
			}
			for _, r := range tokenReqs {
				if vs := r.Form["code_verifier"]; len(vs) != 1 || vs[0] != pDec {
					res.Fail("C17:pkce-verifier-not-from-cookie", "%s: token request carries code_verifier %q but the browser's pkce cookie holds %q; %s", desc, vs, pDec, outcome)
					break
				}
			}
		} else {
			for _, r := range tokenReqs {
				if len(r.Form["code_verifier"]) > 0 {
					res.Label("verifier-without-pkce")
				}
			}
		}
		for _, r := range tokenReqs {
			if r.Form.Get("code") != code {
				res.Fail("C17:exchanged-other-code", "%s: token request carries code %q, the callback delivered %q", desc, r.Form.Get("code"), code)
				break
			}
		}
		// soundness whatever the provider answered: the application callback runs only after an exchange of THIS callback
		// succeeded - a token request made for it (carrying its code and, checked above, the verifier of its pkce cookie)
		// was answered 200 by the provider - and receives the tokens of such an answer, not those of another callback's
		sound := func() {
			if hits.callback > 0 && blind && w.c.PKCE {
				// requests cannot be attributed through the context: by value - some token request of the overlap answered 200
				// carried this callback's code together with the verifier of its pkce cookie
				found := false
				for _, r := range ov.window {
					if r.Path == w.sut.Paths["token"] && r.answered200() && r.Form.Get("code") == code && r.Form.Get("code_verifier") == pDec {
						found = true
					}
				}
				if !found {
					res.Fail("C17:callback-without-exchange", "%s: application callback invoked although no token request of the overlap that carried this callback's code and the verifier of its pkce cookie was answered successfully; %s", desc, outcome)
				}
			}
			if hits.callback == 0 || blind {
				return
			}
			switch {
			case len(tokenReqs) == 0:
				res.Fail("C17:callback-without-exchange", "%s: application callback invoked although no request reached the token endpoint for this callback; %s", desc, outcome)
			case ok200 == 0:
				res.Fail("C17:callback-after-failed-exchange", "%s: application callback invoked although none of the %d token request(s) of this callback was answered successfully (statuses / faults: %s); %s", desc, len(tokenReqs), describeTokenReqs(tokenReqs), outcome)
			default:
				own := false
				for _, r := range tokenReqs {
					if r.answered200() && r.Access != "" && r.Access == hits.cbAccess {
						own = true
					}
				}
				if hits.cbTokens && !own {
					res.Fail("C17:callback-tokens-of-another-request", "%s: application callback received an access token that none of this callback's own token responses carried; %s", desc, outcome)
				}
			}
		}
		accept := codeOf != nil && codeOf.ok && !wasSpent && sendCode && (!w.c.PKCE || pDec == codeOf.verifier)
		if len(d.faults) > 0 || faulted != "" {
			res.Label("cb-fault-plan:" + faultPlanClass(d.faults))
			res.Label(fmt.Sprintf("cb-faults-met:%d/token-requests:%d/auth-style:%d", strings.Count(faulted, "+"), len(tokenReqs), w.c.AuthStyle))
		}
		if accept && codeOf.nonce {
			// an application that sets a nonce through a URL parameter option has to teach the verifier about it as well;
			// whether the exchange completes is its business
			class = "grey:nonce-set-through-an-option"
			w.grey++
			sound()
		} else if accept && faulted != "" {
			// the token endpoint failed this callback at least once: whether the RP (or x/oauth2's auth style probe) tries
			// again is its business; every request it sent is judged above, the application callback by sound()
			class = "state-ok:token-endpoint-fault"
			w.asserted++
			w.nontrivial = true
			sound()
		} else if accept && ov != nil && ov.shared {
			// another callback of the overlap presents the same code: the provider redeems it once, for whichever request it
			// gets first (and may invalidate it on a failed attempt)
			class = "state-ok:code-also-presented-by-an-overlapping-callback"
			w.asserted++
			w.nontrivial = true
			sound()
		} else if accept {
			class = "must-accept"
			if codeOf != w.latestIn(o.Browser) || len(o.Muts) > 0 {
				class = "must-accept:not-the-latest-attempt-or-restored"
				w.nontrivial = true
			}
			if w.prov[rawState] == "replica" || (havePKCE && w.prov[rawPKCE] == "replica") {
				class = "must-accept:cookie-of-a-replica-with-equal-keys"
			}
			w.asserted++
			switch {
			case hits.callback != 1 || hits.unauthorized != 0 || hits.errHandler != 0:
				last := "none"
				if len(tokenReqs) > 0 {
					last = fmt.Sprintf("%d", tokenReqs[len(tokenReqs)-1].Status)
				}
				res.Fail("C17:complete:callback-not-invoked", "%s: state matches the signed cookie, the code is fresh and the pkce cookie is the one issued with it, but the exchange did not complete (last token endpoint status %s, body %q); %s", desc, last, clip(string(resp.Body)), outcome)
			case hits.cbState != q:
				res.Fail("C17:complete:callback-state", "%s: application callback received state %q", desc, hits.cbState)
			case !hits.cbTokens:
				res.Fail("C17:complete:callback-without-tokens", "%s: application callback invoked without tokens", desc)
			case len(tokenReqs) == 0 && !blind:
				res.Fail("C17:complete:callback-without-exchange", "%s: application callback invoked but no request reached the token endpoint", desc)
			default:
				sound()
			}
		} else {
			why := "code-not-redeemable"
			switch {
			case codeOf == nil:
				why = "no-genuine-code"
			case wasSpent:
				why = "code-already-presented"
			case w.c.PKCE && pDec != codeOf.verifier:
				why = "verifier-of-another-attempt"
				w.nontrivial = true
			}
			class = "state-ok:exchange-cannot-succeed:" + why
			w.asserted++
			sound()
		}
	}
	if len(w.att) > 1 {
		n := 0
		for _, a := range w.att {
			if a.browser == o.Browser {
				n++
			}
		}
		if n > 1 {
			res.Label("interleaved-attempts-in-browser")
			w.nontrivial = true
		}
	}
	res.Label("cb:" + class)
	// the transport of the callback, the browser it comes from and what the attempt it refers to asked the provider to use
	tclass := transportClass(o)
	res.Label("cb-transport:" + tclass)
	cookieClass := "state-cookie-present"
	if !haveState {
		cookieClass = "no-state-cookie"
	}
	if ref != nil {
		mode := ref.mode
		if mode != "query" && mode != "fragment" && mode != "form_post" {
			mode = "(none-or-other)"
		}
		res.Label("cb-of-attempt:response_mode=" + mode + "/" + strings.SplitN(tclass, "+", 2)[0] + "/" + cookieClass)
		if ref.browser != o.Browser {
			from := "the-other-browser"
			if o.Browser >= strangerBrowser && o.Browser < strangerBrowser+2 {
				from = "a-browser-that-never-logged-in"
			}
			pending := "pending"
			if ref.spent {
				pending = "completed"
			}
			res.Label("cb-from:" + from + "/" + cookieClass + "/attempt-" + pending)
			w.nontrivial = true
		}
	}
	if o.StateQ != "attempt" {
		res.Label("stateq:" + o.StateQ)
	}
	if nearKind != "" {
		res.Label("near:" + nearKind)
		if haveState && sOK && sDec == refState {
			// the jar holds the genuine cookie of the attempt and the parameter misses it narrowly
			res.Label("near-miss-of-genuine-cookie:" + map[bool]string{true: "equal(transform had no effect)", false: "differs"}[q == refState])
		}
	}
	for _, l := range mutLabels {
		if strings.HasSuffix(l, "noop") || l == "mint-excluded" {
			l = "noop"
		}
		res.Label("mut:" + l)
	}
	if ov != nil {
		res.Label("overlap-cb:" + class)
		if ov.blocked {
			res.Label("overlap:callback-blocked-without-a-parked-request")
		}
	}
	fclass := ""
	if len(d.faults) > 0 {
		fclass = "/faults:" + strings.Join(d.faults, ",")
	}
	w.classes = append(w.classes, where+class+"/"+strings.Join(mutLabels, "+")+"/"+o.StateQ+nearKind+"/"+o.CodeQ+"/"+tclass+fclass)
	w.note("%scallback op %d: %s -> %s", where, i, class, outcome)
	}
	return p
}

func describeTokenReqs(reqs []provReq) string {
	var parts []string
	for _, r := range reqs {
		if r.Fault != "" {
			parts = append(parts, "fault:"+r.Fault)
		} else {
			parts = append(parts, strconv.Itoa(r.Status))
		}
	}
	return strings.Join(parts, ",")
}

// faultPlanClass: the shape of a fault plan for the histogram: which requests are failed, by what kind of fault.
func faultPlanClass(plan []string) string {
	if len(plan) == 0 {
		return "none"
	}
	var parts []string
	for _, f := range plan {
		switch f {
		case "":
			parts = append(parts, "pass")
		case "502", "503", "504":
			parts = append(parts, "gateway")
		case "500", "503-oauth":
			parts = append(parts, "server")
		case "lost":
			parts = append(parts, "lost")
		default:
			parts = append(parts, "transport")
		}
	}
	return strings.Join(parts, ",")
}

func (w *world) latestIn(b int) *attempt {
	var l *attempt
	for _, a := range w.att {
		if a.browser == b {
			l = a
		}
	}
	return l
}

// coarse maps a model reason to the root-cause class used in fingerprints.
func coarse(reason string) string {
	switch {
	case reason == "no-cookie":
		return "no-cookie"
	case reason == "minted-for-other-name":
		return "cookie-for-other-name"
	case reason == "minted-under-other-keys":
		return "cookie-under-other-keys"
	case strings.HasPrefix(reason, "undecodable"):
		return "cookie-undecodable"
	case reason == "state-param-absent":
		return "state-param-absent"
	}
	return "state-differs"
}

func describeCookie(have, ok bool, dec, why string) string {
	switch {
	case !have:
		return "absent"
	case !ok:
		return "does not decode (" + why + ")"
	}
	return fmt.Sprintf("decodes to %q", clip(dec))
}

var prop = vkit.Prop[Case]{
	ID: "C17",
	Rule: "cases = RP (rp.NewRelyingPartyOIDC, cookie handler keys A = generated hash key of 1-128 bytes (classes 1-15/16/17-31/32/33-63/64/65/66-128) and no / AES-128 / AES-192 / AES-256 encryption key, PKCE on/off, JWT-profile client authentication on/off, client registered as basic/post/none/private_key_jwt, " +
		"oauth2 auth style auto/params/header, default or application handlers, " +
		"SCOPES = openid first/last/in the middle/twice/absent + each of profile, email, phone, address, custom and urn scopes with p=1/3, offline_access with p=1/2, 1 in 10 with 4-12 further scopes, shuffled 1 in 3, an entry repeated 1 in 8; the RP gets its own slice, the oracle " +
		"compares with the harness's record) against an in-process provider (both routers) x browser history of 1-4 (thorough 1-5) logins (rp.AuthURLHandler) in 1-2 cookie jars interleaved with " +
		"[each login = a generated LOGIN REQUEST: plain GET (3 in 8), or GET with 1-6 query parameters, or POST with a form body (with or without query) - parameter names drawn from the parameters the statement binds (state, client_id, redirect_uri, scope, " +
		"response_type, code_challenge, code_challenge_method), further OAuth/OIDC names (nonce, prompt, login_hint, ui_locales, request, code_verifier ...) and arbitrary names, values = competing values (other client, foreign redirect URI, wider scope, plain / S256 / junk " +
		"challenge and method, earlier states) or free strings, one parameter in five repeats an earlier name; one login in five meets a jar manipulated beforehand (foreign / tampered / swapped cookies already present); the authorization URL is judged by the same " +
		"oracle whatever the login request says; each login's handler is built with 0-3 URL PARAMETER OPTIONS (p=7/10 at least one) drawn from every constructor of package rp and own functions: rp.WithResponseModeURLParam " +
		"(form_post 4x, query, fragment, query.jwt, empty), rp.WithPromptURLParam (login / login consent / select_account / consent / none), rp.WithURLParam (foo, ui_locales, response_mode=form_post, login_hint, max_age, acr_values, display, claims, id_token_hint, ...), " +
		"application-written URLParamOpt functions (several parameters at once incl. response_mode=form_post, oauth2.AccessTypeOffline / ApprovalForce, no parameter at all); none names a parameter the statement binds; the harness's browser follows whatever the " +
		"provider answers (redirect with query / fragment, auto-submitted form_post page)] " +
		"0-4 OTHER CALLS on the same RelyingParty instance at generated positions of the history, also before the first login (rp.ClientCredentials with/without endpoint params, rp.RefreshTokens, rp.Userinfo, rp.EndSession, rp.RevokeToken, rp.VerifyTokens with the tokens of the " +
		"latest completed login or bogus ones, rp.DeviceAuthorization with the RP's / own / no scopes, rp.CodeExchange with a bogus or a genuine code, rp.AuthURL with prompt / code challenge / URL parameter options (also 0-3 of the login handlers' option kinds) and a generated state (judged like a login's URL), the RP's getters); " +
		"after every such call rp.AuthURL on that instance is judged (configured client, redirect URI, scopes, the state handed in) and so is every later login; " +
		"application STATES: url-safe tokens, odd ASCII, segments joined by + space / - _ = % %20 %2B tab, standard / url-safe base64 of 1-24 random bytes, words with composed / decomposed / compatibility letters, 1-5 characters, 3000 bytes, repeats of earlier states; " +
		"1-4 (thorough 1-6) callbacks (rp.CodeExchangeHandler), each callback = (jar manipulation list, query): matching, earlier attempt, other browser's attempt, restored earlier cookies, state omitted/empty/" +
		"prefix/suffix/case/other, NEAR MISS of the state (one confusable step, 25 kinds: '+'<->' ', '-'<->'+', '_'<->'/', whole base64 alphabet, one letter's / every letter's case, padding added / stripped, " +
		"percent-encoded once more / decoded once, path-escaped, leading / trailing space, newline, NUL, trimmed, other space characters, NFC<->NFD, zero-width insert, one character dropped / doubled / replaced / transposed, truncated; a kind " +
		"without effect on the given state falls through to the next one that has; always delivered correctly URL-encoded), flipped/truncated/extended cookie, cookie minted (by a cookie handler of the library built with the other keys, or by the model codec) under the keys of another deployment = 3 generated foreign key pairs per case derived from A " +
		"(hash key unrelated / equal / one byte or the whole tail differing at a generated position incl. 0,15,16,31,32,63,64,65,last / A continued by 1-16 bytes / A cut short; encryption key equal / unrelated / one byte differing / other AES size sharing the prefix / present on one side only; " +
		"at least one key differs) or the fixed 32-byte keys B (hash, block or both), state and pkce cookie of the foreign flow together or alone, cookie under keys A for another name, cookies re-issued by a replica handler with byte-equal keys (must be accepted), " +
		"swapped state/pkce cookies with the query set to the sealed value, dropped cookies, error= callbacks, " +
		"callbacks from a STRANGER browser (3 templates in 24: a jar that never opened the login URL - empty, or 1 in 4 holding state (+pkce) cookies a foreign handler minted for the very query - delivering the genuine state and code of any attempt, pending or completed, of another browser on the same RelyingParty instance), " +
		"TRANSPORT: GET with query, or POST (1 in 5; 2 in 3 when the attempt referred to asked for form_post) with the parameters in an application/x-www-form-urlencoded body, state and code each also/only in the query with p=1/3 (equal values: one state parameter); " +
		"one history in ten starts no flow at all (the jar holds only what others minted); " +
		"TOKEN ENDPOINT FAULTS (the token endpoint is the harness's): one callback in six has a fault plan for its 1st-3rd token request (each entry a fault with p=4/5: gateway 502 / 503 / 504 / 500 without an OAuth body, 503 with one, refused / reset connection, " +
		"the provider's answer lost on the way back; otherwise the provider answers) - every token request the RP sends (x/oauth2's auth style probe sends a second one when the style is auto and not yet known) is judged: code of the query, code_verifier of the pkce cookie; " +
		"the application callback runs only after a token request of THIS callback was answered 200 and receives the access token of such an answer; completeness is not asserted for a callback that met a fault; " +
		"all callbacks of a case go through ONE long-lived rp.CodeExchangeHandler per option list; " +
		"OVERLAPPING CALLBACKS: one history in four ends with 2-3 callbacks (after a fresh login of each participating browser, 5 in 6) delivered to the shared handler while the harness HOLDS every token request: participant = the browser's own response / own state and cookies with " +
		"the CODE of an earlier participant / the same callback URL opened twice / another participant's whole query from a browser with its own cookies / from a browser without cookies / a free callback as above; browsers 0, 1 (those of the history) and 4; 1 in 6 with a fault plan; " +
		"schedule = generated list over the participants (first occurrence starts a callback, later ones release its parked token request; 2 in 3 start everybody first), at most one callback runs at a time; the sequential per-callback oracle with provider requests attributed through the request context; " +
		"must-accept only for a code no other participant presents; 1 in 3 of those histories goes on with one more sequential callback; " +
		"excluded from the domain: cookies minted under keys A for the right name by anyone but the RP or its replica, handlers whose keys the library cannot use (empty hash key, AES key not 16/24/32 bytes), empty application state, duplicate state parameters / cookies; " +
		"non-trivial = the history contains a callback that must be refused, or one that must succeed although it is not the browser's latest attempt, or several attempts in one jar, or another call on the RelyingParty followed by the authorization-URL oracle, " +
		"or a callback from a browser other than the one that started the attempt; " +
		"distinct = (configuration, sequence of (model class, manipulations, state/code query kinds, transport))",
	Gen: genCase,
	Run: run,
}

func TestRapid(t *testing.T)  { prop.Check(t) }
func TestReplay(t *testing.T) { prop.Replay(t) }

// matrixState: an application state with a character for every near-miss kind (standard base64 alphabet and padding, space,
// url-safe alphabet, a pre-encoded octet, a letter with a decomposed form, a leading space).
const matrixState = " St+two w/-_é%41=="

// TestMatrix enumerates the complete configuration lattice with two fixed histories (plain matching flow; refused flow
// + interleaved flow), so that every configuration the generator can draw is known to complete a genuine login.
func TestMatrix(t *testing.T) {
	rec := vkit.NewRecorder("C17", prop.Rule)
	defer rec.Flush()
	n := 0
	for _, router := range []string{"provider", "legacy"} {
		for _, pkce := range []bool{false, true} {
			for _, am := range []string{"client_secret_basic", "client_secret_post", "none", "private_key_jwt"} {
				if am == "none" && !pkce {
					continue
				}
				for style := 0; style <= 2; style++ {
					for _, enc := range []bool{true, false} {
						for _, custom := range []bool{true, false} {
							c := Case{Router: router, PKCE: pkce, JWTProfile: am == "private_key_jwt", AuthMethod: am, AuthStyle: style, Encrypt: enc,
								Scopes: []string{"openid", "profile", "offline_access", "email"}, RedirectPath: "/auth/callback", CustomHandlers: custom,
								Ops: []Op{
									{Kind: "call", Call: "getters"},
									{Kind: "login", State: "st-one"},
									{Kind: "login", State: matrixState},
									{Kind: "callback", Tmpl: "earlier", Attempt: 0, StateQ: "attempt", CodeQ: "attempt", Method: "GET"},
									{Kind: "callback", Tmpl: "wrongq", Attempt: 1, StateQ: "omit", CodeQ: "attempt", Method: "GET"},
									{Kind: "callback", Tmpl: "match", Attempt: 1, StateQ: "attempt", CodeQ: "attempt", Method: "GET"},
									{Kind: "callback", Tmpl: "match", Attempt: 1, StateQ: "attempt", CodeQ: "attempt", Method: "GET"},
									{Kind: "callback", Tmpl: "restore", Attempt: 0, StateQ: "attempt", CodeQ: "attempt", Method: "POST",
										Muts: []Mut{{Kind: "restore", Cookie: "state", N: 0}, {Kind: "restore", Cookie: "pkce", N: 0}}},
									// every other use of the RelyingParty once, with what the completed login left the application
									// holding; each is followed by the authorization-URL oracle, and a last login goes through the handler
									{Kind: "call", Call: "userinfo"}, {Kind: "call", Call: "verify_tokens"}, {Kind: "call", Call: "refresh"},
									{Kind: "call", Call: "client_credentials"}, {Kind: "call", Call: "device_authorization", Arg: "config-scopes"},
									{Kind: "call", Call: "code_exchange", Arg: "bogus"}, {Kind: "call", Call: "auth_url", Arg: "all", State: "direct +state"},
									{Kind: "call", Call: "revoke", Arg: "refresh"}, {Kind: "call", Call: "end_session"},
									{Kind: "login", State: "st-three"},
									{Kind: "callback", Tmpl: "match", Attempt: 2, StateQ: "attempt", CodeQ: "attempt", Method: "GET"},
									// a second browser logs in through a handler that asks the provider for form_post; while that login is
									// pending its response arrives (POST, form body) from a browser that never logged in and (GET and POST)
									// from the first browser, whose jar is empty by now: all refused; then the second browser delivers it
									{Kind: "login", Browser: 1, State: "st four+", Extras: []string{"prompt:login consent", "mode:form_post", "fn:ui_locales=de+en&login_hint=u1"}},
									{Kind: "callback", Tmpl: "stranger", Browser: strangerBrowser, Attempt: 3, StateQ: "attempt", CodeQ: "attempt", Method: "POST"},
									{Kind: "callback", Tmpl: "otherbrowser", Browser: 0, Attempt: 3, StateQ: "attempt", CodeQ: "attempt", Method: "GET"},
									{Kind: "callback", Tmpl: "otherbrowser", Browser: 0, Attempt: 3, StateQ: "attempt", CodeQ: "attempt", Method: "POST", StateIn: "both"},
									{Kind: "callback", Tmpl: "match", Browser: 1, Attempt: 3, StateQ: "attempt", CodeQ: "attempt", Method: "POST", CodeIn: "both"},
									// a failing token endpoint: the first two token requests of a genuine callback meet a gateway's 503 and a reset
									// connection (the second one only where x/oauth2 probes the auth style); the code never reached the provider,
									// so the same callback URL opened again with the cookies put back completes
									{Kind: "login", State: "st-five"},
									{Kind: "callback", Tmpl: "match", Attempt: 4, StateQ: "attempt", CodeQ: "attempt", Method: "GET", Faults: []string{"503", "reset"}},
									{Kind: "callback", Tmpl: "restore", Attempt: 4, StateQ: "attempt", CodeQ: "attempt", Method: "GET",
										Muts: []Mut{{Kind: "restore", Cookie: "state", N: 4}, {Kind: "restore", Cookie: "pkce", N: 4}}},
									// overlapping callbacks on the shared handler, every token request held: browser 0 delivers its own response;
									// while that exchange is held browser 1 (own pending login, own cookies) delivers its own state with the CODE of
									// browser 0, and browser 0 opens its callback URL once more; browser 1's request is released first
									{Kind: "login", State: "st-six"},
									{Kind: "login", Browser: 1, State: "st-seven"},
									{Kind: "overlap", Sched: []int{0, 1, 2, 1, 0, 2}, Par: []Op{
										{Kind: "callback", Tmpl: "overlap-own", Attempt: 5, StateQ: "attempt", CodeQ: "attempt", Method: "GET"},
										{Kind: "callback", Tmpl: "overlap-others-code", Browser: 1, Attempt: 6, StateQ: "attempt", CodeQ: "of", CodeAttempt: 5, Method: "GET"},
										{Kind: "callback", Tmpl: "overlap-twice", Attempt: 5, StateQ: "attempt", CodeQ: "attempt", Method: "GET"},
									}},
									// the same with separate codes: both must complete whatever the release order
									{Kind: "login", State: "st-eight"},
									{Kind: "login", Browser: 1, State: "st-nine"},
									{Kind: "overlap", Sched: []int{0, 1, 1, 0}, Par: []Op{
										{Kind: "callback", Tmpl: "overlap-own", Attempt: 7, StateQ: "attempt", CodeQ: "attempt", Method: "GET"},
										{Kind: "callback", Tmpl: "overlap-own", Browser: 1, Attempt: 8, StateQ: "attempt", CodeQ: "attempt", Method: "POST"},
									}},
								}}
							// every near-miss kind of the state parameter against the genuine cookies of attempt 1 (all refused: the
							// cookies stay in the jar for the matching callback that follows)
							var near []Op
							for _, k := range nearKinds {
								near = append(near, Op{Kind: "callback", Tmpl: "near", Attempt: 1, StateQ: "near", Near: k, NearN: 1, NearCh: "x", CodeQ: "attempt", Method: "GET"})
							}
							c.Ops = append(c.Ops[:5:5], append(near, c.Ops[5:]...)...)
							res := run(c)
							rec.Record(c, res)
							n++
							if fresh := vkit.Judge(rec, "C17", res); len(fresh) > 0 {
								rec.WriteFail(c, fresh)
								t.Fatalf("VIOLATION C17: %s [%s]", fresh[0].Msg, fresh[0].FP)
							}
							// non-vacuity self-check, limited to the steps whose class does not depend on anything but the login: the
							// two refusals (ops 2, 3) and the genuine completion (op 4)
							got := map[string]int{}
							for _, l := range res.Labels {
								if strings.HasPrefix(l, "cb:") {
									got[l]++
								}
							}
							if got["cb:must-reject:state-differs"] < 1+len(nearKinds) || got["cb:must-reject:state-param-absent"] < 1 || got["cb:must-accept"] < 5 || got["cb:must-reject:no-cookie"] < 3 ||
								got["cb:state-ok:token-endpoint-fault"] != 1 || got["cb:must-accept:not-the-latest-attempt-or-restored"] < 2 || got["cb:state-ok:code-also-presented-by-an-overlapping-callback"] < 2 ||
								!contains(res.Labels, "overlap:callback-started-while-another-browser's-request-for-the-same-code-is-held") ||
								!contains(res.Labels, "login:response-delivered-by:form_post") || !contains(res.Labels, "cb-of-attempt:response_mode=form_post/POST/no-state-cookie") {
								t.Fatalf("matrix cell %+v: harness self-check: classes %v info=%v", c, got, res.Info)
							}
							for _, k := range nearKinds {
								// matrixState holds a character for every kind: each transformation takes effect as itself
								if !contains(res.Labels, "near:"+k) {
									t.Fatalf("matrix cell %+v: harness self-check: near-miss kind %s did not take effect on %q (labels %v)", c, k, matrixState, res.Labels)
								}
							}
						}
					}
				}
			}
		}
	}
	t.Logf("matrix cells: %d", n)
}
