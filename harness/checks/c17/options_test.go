package c17

// Two further generator dimensions:
//
//   - the URL parameter options an application hands to rp.AuthURLHandler / rp.AuthURL (Op.Extras): every constructor of
//     package rp (WithURLParam, WithPromptURLParam, WithResponseModeURLParam with every response mode incl. form_post) and
//     URLParamOpt functions written by the application itself (several parameters at once, oauth2's own options, none).
//     None of them names a parameter the statement binds (client, redirect URI, scope, state, the PKCE pair); whatever
//     they ask the provider to do, a callback is judged by the state cookie of the browser it comes from and nothing else;
//   - the way the authorization response reaches the redirect URI: the provider delivers it as the response mode says
//     (redirect with query, redirect with fragment, auto-submitted HTML form = POST with a form body), and a callback is a
//     GET with query, a POST with the parameters in an application/x-www-form-urlencoded body, or a POST with the
//     parameters split over / repeated in query and body (equal values: still one state parameter); callbacks also arrive
//     from browsers that never opened the RP's login URL (Op.Tmpl "stranger": an empty jar or one that holds only what
//     other deployments minted) while logins of other browsers are pending on the same RelyingParty instance.

import (
	"fmt"
	"html"
	"net/url"
	"regexp"
	"strings"

	"github.com/zitadel/oidc/v3/pkg/client/rp"
	"github.com/zitadel/oidc/v3/pkg/oidc"
	"golang.org/x/oauth2"
	"pgregory.net/rapid"

	"verif/harness/vkit"
)

// strangerBrowser: jars 2 and 3 belong to browsers that never start a login at the RP.
const strangerBrowser = 2

// urlParamKinds (weighted): the options of a login. Syntax: custom | prompt | locales (as before), prompt:<values>,
// mode:<response mode>, param:<key>=<value> (rp.WithURLParam), fn:<query-encoded pairs> (an application's own URLParamOpt
// function setting all pairs), fn:offline / fn:force (oauth2's predefined options), fn: (a function returning nothing).
var urlParamKinds = []string{
	"custom", "locales", "prompt", "prompt:login consent", "prompt:select_account", "prompt:consent", "prompt:none",
	"mode:form_post", "mode:form_post", "mode:form_post", "mode:form_post", "mode:query", "mode:fragment", "mode:query.jwt", "mode:",
	"param:response_mode=form_post", "param:id_token_hint=not.a.token", "param:login_hint=user@example.com", "param:max_age=3600", "param:acr_values=gold silver",
	"param:display=popup", "param:claims={\"id_token\":{\"email\":null}}", "param:state_hint=x",
	"fn:response_mode=form_post&access_type=offline", "fn:response_mode=form_post", "fn:ui_locales=de+en&login_hint=u1", "fn:offline", "fn:force", "fn:",
}

func genURLParams(t *rapid.T, label string) []string {
	n := rapid.SampledFrom([]int{0, 0, 0, 1, 1, 1, 1, 2, 2, 3}).Draw(t, label+"n")
	var out []string
	for i := 0; i < n; i++ {
		out = append(out, rapid.SampledFrom(urlParamKinds).Draw(t, fmt.Sprintf("%s%d", label, i)))
	}
	return out
}

// asksFormPost: the options make the RP ask the provider for response_mode=form_post (the last option setting it wins).
func asksFormPost(kinds []string) bool {
	mode := ""
	for _, k := range kinds {
		for _, kv := range urlParamPairs(k) {
			if kv.K == "response_mode" {
				mode = kv.V
			}
		}
	}
	return mode == "form_post"
}

// urlParamPairs: the parameters an option kind sets (nil for the oauth2 predefined options and unknown kinds).
func urlParamPairs(kind string) []KV {
	switch {
	case kind == "custom":
		return []KV{{"foo", "bar baz"}}
	case kind == "prompt":
		return []KV{{"prompt", "login"}}
	case kind == "locales":
		return []KV{{"ui_locales", "de en"}}
	case kind == "mode": // the concurrent sub-check's old name
		return []KV{{"response_mode", "query"}}
	case strings.HasPrefix(kind, "prompt:"):
		return []KV{{"prompt", strings.Join(strings.Fields(kind[len("prompt:"):]), " ")}}
	case strings.HasPrefix(kind, "mode:"):
		return []KV{{"response_mode", kind[len("mode:"):]}}
	case strings.HasPrefix(kind, "param:"):
		kv := strings.SplitN(kind[len("param:"):], "=", 2)
		if len(kv) != 2 {
			return nil
		}
		return []KV{{kv[0], kv[1]}}
	case strings.HasPrefix(kind, "fn:"):
		rest := kind[len("fn:"):]
		if rest == "offline" || rest == "force" {
			return nil
		}
		var out []KV
		for _, part := range strings.Split(rest, "&") {
			if part == "" {
				continue
			}
			kv := strings.SplitN(part, "=", 2)
			k, _ := url.QueryUnescape(kv[0])
			v := ""
			if len(kv) == 2 {
				v, _ = url.QueryUnescape(kv[1])
			}
			out = append(out, KV{k, v})
		}
		return out
	}
	return nil
}

// urlParamOpt builds the option; ok=false: the kind is unknown or names a parameter the statement binds (an application
// overriding those through an option is outside the domain).
func urlParamOpt(kind string) (opt rp.URLParamOpt, ok bool) {
	pairs := urlParamPairs(kind)
	for _, kv := range pairs {
		if contains(ownedParams, kv.K) {
			return nil, false
		}
	}
	switch {
	case kind == "prompt" || strings.HasPrefix(kind, "prompt:"):
		return rp.WithPromptURLParam(strings.Fields(pairs[0].V)...), true
	case kind == "mode" || strings.HasPrefix(kind, "mode:"):
		return rp.WithResponseModeURLParam(oidc.ResponseMode(pairs[0].V)), true
	case kind == "custom" || kind == "locales" || strings.HasPrefix(kind, "param:"):
		if len(pairs) != 1 {
			return nil, false
		}
		return rp.WithURLParam(pairs[0].K, pairs[0].V), true
	case kind == "fn:offline":
		return func() []oauth2.AuthCodeOption { return []oauth2.AuthCodeOption{oauth2.AccessTypeOffline} }, true
	case kind == "fn:force":
		return func() []oauth2.AuthCodeOption { return []oauth2.AuthCodeOption{oauth2.ApprovalForce} }, true
	case strings.HasPrefix(kind, "fn:"):
		return func() []oauth2.AuthCodeOption {
			var out []oauth2.AuthCodeOption
			for _, kv := range pairs {
				out = append(out, oauth2.SetAuthURLParam(kv.K, kv.V))
			}
			return out
		}, true
	}
	return nil, false
}

// optClass: histogram class of an option kind (constructor and, for the response mode, the value).
func optClass(kind string) string {
	switch {
	case kind == "custom" || kind == "locales" || strings.HasPrefix(kind, "param:"):
		for _, kv := range urlParamPairs(kind) {
			if kv.K == "response_mode" {
				return "WithURLParam(response_mode," + kv.V + ")"
			}
		}
		return "WithURLParam"
	case kind == "prompt" || strings.HasPrefix(kind, "prompt:"):
		return "WithPromptURLParam"
	case kind == "mode" || strings.HasPrefix(kind, "mode:"):
		return "WithResponseModeURLParam(" + urlParamPairs(kind)[0].V + ")"
	case kind == "fn:offline" || kind == "fn:force":
		return "own-func:oauth2-option"
	case kind == "fn:":
		return "own-func:no-parameters"
	case strings.HasPrefix(kind, "fn:"):
		for _, kv := range urlParamPairs(kind) {
			if kv.K == "response_mode" {
				return "own-func:response_mode=" + kv.V
			}
		}
		return "own-func"
	}
	return "unknown"
}

// loginOptions resolves the option kinds of a login op (the old single Extra first) and labels their classes.
func (w *world) urlParamOpts(who string, kinds []string) []rp.URLParamOpt {
	var out []rp.URLParamOpt
	for _, k := range kinds {
		if k == "" {
			continue
		}
		opt, ok := urlParamOpt(k)
		if !ok {
			w.res.Label(who + "-opt:excluded(unknown-or-names-a-bound-parameter)")
			continue
		}
		w.res.Label(who + "-opt:" + optClass(k))
		out = append(out, opt)
	}
	if len(out) > 1 {
		w.res.Label(who + "-opt:several")
	}
	return out
}

var (
	formRe  = regexp.MustCompile(`(?is)<form\b[^>]*\bmethod="post"[^>]*\baction="([^"]*)"`)
	inputRe = regexp.MustCompile(`(?is)<input\b[^>]*\bname="([^"]*)"[^>]*\bvalue="([^"]*)"`)
)

// deliveredResponse: how the provider hands the authorization response to the browser: a redirect (parameters in the
// query or the fragment of the Location) or an HTML page whose form the browser POSTs to the redirect URI (form_post).
// target = the URI the browser is sent to, without query and fragment.
func deliveredResponse(r *vkit.Resp) (target string, params url.Values, how string, ok bool) {
	cut := func(s string) string {
		if i := strings.IndexAny(s, "?#"); i >= 0 {
			return s[:i]
		}
		return s
	}
	if r.IsRedirect() {
		loc := r.Location()
		how = "query"
		if strings.Contains(loc, "#") {
			how = "fragment"
		}
		return cut(loc), vkit.DeliveredParams(loc), how, true
	}
	if r.Status != 200 {
		return "", nil, "", false
	}
	m := formRe.FindSubmatch(r.Body)
	if m == nil {
		return "", nil, "", false
	}
	params = url.Values{}
	for _, in := range inputRe.FindAllSubmatch(r.Body, -1) {
		params.Add(html.UnescapeString(string(in[1])), html.UnescapeString(string(in[2])))
	}
	return cut(html.UnescapeString(string(m[1]))), params, "form_post", true
}

// genTransport chooses how a callback reaches the RP. formPost: the attempt the callback refers to asked the provider
// for form_post (then the callback is a POST two times in three, otherwise one time in five).
func genTransport(t *rapid.T, label string, o *Op, formPost bool) {
	post := rapid.IntRange(0, 4).Draw(t, label+"post") == 0
	if formPost {
		post = rapid.IntRange(0, 2).Draw(t, label+"post-fp") > 0
	}
	if !post {
		return
	}
	o.Method = "POST"
	// where the parameters travel: the body (what a form_post delivers), or some of them in / also in the query
	o.StateIn = pick(t, label+"state-in", "", "", "", "", "query", "both")
	o.CodeIn = pick(t, label+"code-in", "", "", "", "", "query", "both")
}

// transportClass names the delivery of a callback for labels and the distinctness key.
func transportClass(o Op) string {
	if o.Method != "POST" {
		return "GET+query"
	}
	norm := func(s string) string {
		if s == "query" || s == "both" {
			return s
		}
		return "body"
	}
	s, c := norm(o.StateIn), norm(o.CodeIn)
	if s == "body" && c == "body" {
		return "POST+form-body"
	}
	return "POST+state-in-" + s + "/code-in-" + c
}
