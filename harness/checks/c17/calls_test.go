package c17

// Three generator dimensions beyond the browser history:
//
//   - scope configurations (genScopes): what applications configure - openid first / last / in the middle / absent, offline_access,
//     repeated entries, long lists - kept by the harness as its own record of what it passed to the constructor;
//   - other uses of the SAME long-lived RelyingParty between the logins and callbacks (Op.Kind "call"): the grants, endpoint
//     callers and getters of package rp. None of them is a login, so after each of them an authorization URL built on that
//     instance must still carry the configured client, redirect URI, scopes and the state handed in;
//   - near-miss state parameters (Op.StateQ "near"): the callback carries a value that differs from the state in the cookie
//     by one confusable step of some encoding; delivered correctly URL-encoded, so the value the RP parses really differs.

import (
	"context"
	"fmt"
	"net/url"
	"strings"
	"time"
	"unicode"

	"github.com/zitadel/oidc/v3/pkg/client"
	"github.com/zitadel/oidc/v3/pkg/client/rp"
	"github.com/zitadel/oidc/v3/pkg/oidc"
	"golang.org/x/text/unicode/norm"
	"pgregory.net/rapid"
)

// ---- scopes ------------------------------------------------------------------------------------------------------------

var scopePool = []string{"profile", "email", "offline_access", "phone", "custom:read", "address", "urn:example:api"}

func genScopes(t *rapid.T) []string {
	var rest []string
	for _, s := range scopePool {
		p := 2 // one in three
		if s == "offline_access" {
			p = 1 // every other configuration asks for a refresh token
		}
		if rapid.IntRange(0, p).Draw(t, "scope-"+s) == 0 {
			rest = append(rest, s)
		}
	}
	if rapid.IntRange(0, 9).Draw(t, "scope-many") == 0 {
		n := rapid.IntRange(4, 12).Draw(t, "scope-many-n")
		for i := 0; i < n; i++ {
			rest = append(rest, fmt.Sprintf("res%d:read", i))
		}
	}
	if len(rest) > 1 && rapid.IntRange(0, 2).Draw(t, "scope-shuffle") == 0 {
		rest = rapid.Permutation(rest).Draw(t, "scope-order")
	}
	var out []string
	switch pick(t, "scope-openid", "first", "first", "first", "first", "first", "last", "last", "middle", "absent", "twice") {
	case "first":
		out = append([]string{"openid"}, rest...)
	case "last":
		out = append(rest, "openid")
	case "middle":
		at := 0
		if len(rest) > 0 {
			at = rapid.IntRange(0, len(rest)).Draw(t, "scope-openid-at")
		}
		out = append(append(append([]string{}, rest[:at]...), "openid"), rest[at:]...)
	case "twice":
		out = append(append([]string{"openid"}, rest...), "openid")
	default:
		out = rest
		if len(out) == 0 {
			out = []string{"profile"}
		}
	}
	if rapid.IntRange(0, 7).Draw(t, "scope-dup") == 0 {
		out = append(out, out[rapid.IntRange(0, len(out)-1).Draw(t, "scope-dup-of")])
	}
	return out
}

func (w *world) labelScopes() {
	sc := w.c.Scopes
	seen := map[string]int{}
	for _, s := range sc {
		seen[s]++
	}
	switch {
	case seen["openid"] == 0:
		w.res.Label("scopes:openid-absent")
	case sc[0] == "openid":
		w.res.Label("scopes:openid-first")
	case sc[len(sc)-1] == "openid":
		w.res.Label("scopes:openid-last")
	default:
		w.res.Label("scopes:openid-in-the-middle")
	}
	if seen["offline_access"] > 0 {
		w.res.Label("scopes:offline_access")
	}
	for _, n := range seen {
		if n > 1 {
			w.res.Label("scopes:repeated-entry")
			break
		}
	}
	switch n := len(sc); {
	case n == 1:
		w.res.Label("scopes:n=1")
	case n <= 4:
		w.res.Label("scopes:n=2-4")
	case n <= 8:
		w.res.Label("scopes:n=5-8")
	default:
		w.res.Label("scopes:n=9+")
	}
}

// ---- near-miss state parameters ---------------------------------------------------------------------------------------------

// nearKinds: one confusable step each. The order matters only for the fallback: a transformation that leaves the given
// state unchanged (no such character in it) is replaced by the next one in this list that changes it, so the
// character-specific ones come first and every "near" callback really carries a value different from the state.
var nearKinds = []string{
	"nfc-nfd", "pct-dec", "pad-strip", "trim", "under-slash", "dash-plus", "plus-space", "space-variant", "b64-alphabet", "case-one", "case-all",
	"swap-adjacent", "dup-char", "drop-char", "replace-one", "pct-enc", "path-enc", "pad-add", "lead-space", "trail-space", "trail-newline",
	"trail-nul", "zero-width", "trunc", "drop-first",
}

func genNear(t *rapid.T, label string, o *Op) {
	o.Near = rapid.SampledFrom(nearKinds).Draw(t, label+"near")
	o.NearN = rapid.IntRange(0, 40).Draw(t, label+"near-n")
	if o.Near == "replace-one" {
		o.NearCh = rapid.StringMatching(`[A-Za-z0-9+/= _%.~-]`).Draw(t, label+"near-ch")
	}
}

// nearMiss returns the transformed state and the transformation that took effect.
func nearMiss(s, kind string, n int, ch string) (string, string) {
	start := 0
	for i, k := range nearKinds {
		if k == kind {
			start = i
		}
	}
	if n < 0 {
		n = -n
	}
	for d := 0; d < len(nearKinds); d++ {
		k := nearKinds[(start+d)%len(nearKinds)]
		if out := nearApply(s, k, n, ch); out != s {
			return out, k
		}
	}
	return s + "=", "pad-add"
}

// swapAt replaces the n-th (modulo) rune that has a partner in pairs by its partner.
func swapAt(s string, n int, partner func(r rune) (rune, bool)) string {
	rs := []rune(s)
	var pos []int
	for i, r := range rs {
		if _, ok := partner(r); ok {
			pos = append(pos, i)
		}
	}
	if len(pos) == 0 {
		return s
	}
	p := pos[n%len(pos)]
	rs[p], _ = partner(rs[p])
	return string(rs)
}

func pairOf(a, b rune) func(rune) (rune, bool) {
	return func(r rune) (rune, bool) {
		switch r {
		case a:
			return b, true
		case b:
			return a, true
		}
		return r, false
	}
}

func nearApply(s, kind string, n int, ch string) string {
	rs := []rune(s)
	switch kind {
	case "nfc-nfd":
		if d := norm.NFD.String(s); d != s {
			return d
		}
		return norm.NFC.String(s)
	case "pct-dec":
		if d, err := url.QueryUnescape(s); err == nil {
			return d
		}
		return s
	case "pad-strip":
		return strings.TrimRight(s, "=")
	case "trim":
		return strings.TrimSpace(s)
	case "under-slash":
		return swapAt(s, n, pairOf('_', '/'))
	case "dash-plus":
		return swapAt(s, n, pairOf('-', '+'))
	case "plus-space":
		return swapAt(s, n, pairOf('+', ' '))
	case "space-variant":
		return swapAt(s, n, func(r rune) (rune, bool) {
			switch r {
			case ' ':
				return []rune{'\t', '\u00a0', '_'}[n%3], true
			case '\t', '\u00a0':
				return ' ', true
			}
			return r, false
		})
	case "b64-alphabet":
		if strings.ContainsAny(s, "+/") {
			return strings.NewReplacer("+", "-", "/", "_").Replace(s)
		}
		return strings.NewReplacer("-", "+", "_", "/").Replace(s)
	case "case-one":
		return swapAt(s, n, func(r rune) (rune, bool) {
			switch {
			case unicode.IsUpper(r) && unicode.ToLower(r) != r:
				return unicode.ToLower(r), true
			case unicode.IsLower(r) && unicode.ToUpper(r) != r:
				return unicode.ToUpper(r), true
			}
			return r, false
		})
	case "case-all":
		if u := strings.ToUpper(s); u != s {
			return u
		}
		return strings.ToLower(s)
	case "swap-adjacent":
		if len(rs) < 2 {
			return s
		}
		p := n % (len(rs) - 1)
		rs[p], rs[p+1] = rs[p+1], rs[p]
		return string(rs)
	case "dup-char":
		if len(rs) == 0 {
			return s
		}
		p := n % len(rs)
		return string(rs[:p+1]) + string(rs[p:])
	case "drop-char":
		if len(rs) < 2 {
			return s
		}
		p := n % len(rs)
		return string(rs[:p]) + string(rs[p+1:])
	case "replace-one":
		if len(rs) == 0 || ch == "" {
			return s
		}
		p := n % len(rs)
		return string(rs[:p]) + ch + string(rs[p+1:])
	case "pct-enc":
		return url.QueryEscape(s) // arrives percent-encoded twice
	case "path-enc":
		return url.PathEscape(s)
	case "pad-add":
		return s + "="
	case "lead-space":
		return " " + s
	case "trail-space":
		return s + " "
	case "trail-newline":
		return s + "\n"
	case "trail-nul":
		return s + "\x00"
	case "zero-width":
		p := 0
		if len(rs) > 0 {
			p = n % (len(rs) + 1)
		}
		return string(rs[:p]) + "\u200b" + string(rs[p:])
	case "trunc":
		if len(rs) < 2 {
			return s
		}
		return string(rs[:len(rs)-1])
	case "drop-first":
		if len(rs) < 2 {
			return s
		}
		return string(rs[1:])
	}
	return s
}

// stateCharClasses: histogram classes of an application state (what in it an encoding could confuse).
func stateCharClasses(s string) []string {
	var out []string
	add := func(c bool, l string) {
		if c {
			out = append(out, "state-chars:"+l)
		}
	}
	add(strings.Contains(s, "+"), "plus")
	add(strings.Contains(s, " "), "space")
	add(strings.Contains(s, "/"), "slash")
	add(strings.HasSuffix(s, "="), "padding")
	add(strings.Contains(s, "%"), "percent")
	add(strings.ContainsAny(s, "-_"), "dash-or-underscore")
	nonASCII := false
	for _, r := range s {
		if r > 127 {
			nonASCII = true
		}
	}
	add(nonASCII, "non-ascii")
	add(norm.NFC.String(s) != s || norm.NFD.String(s) != s, "has-other-normal-form")
	if len(out) == 0 {
		out = append(out, "state-chars:url-safe-only")
	}
	return out
}

// ---- other calls on the same RelyingParty ----------------------------------------------------------------------------------

var callKinds = []string{"client_credentials", "client_credentials", "refresh", "userinfo", "end_session", "revoke", "device_authorization",
	"auth_url", "auth_url", "code_exchange", "getters", "verify_tokens"}

func genCall(t *rapid.T, label string, nAttempts int) Op {
	o := Op{Kind: "call", Call: rapid.SampledFrom(callKinds).Draw(t, label+"call")}
	switch o.Call {
	case "client_credentials":
		o.Arg = pick(t, label+"arg", "", "", "params")
	case "refresh", "userinfo", "end_session", "verify_tokens":
		o.Arg = pick(t, label+"arg", "", "", "", "bogus")
	case "revoke":
		o.Arg = pick(t, label+"arg", "access", "refresh", "bogus")
	case "device_authorization":
		o.Arg = pick(t, label+"arg", "config-scopes", "config-scopes", "own-scopes", "no-scopes")
	case "auth_url":
		o.Arg = pick(t, label+"arg", "", "prompt", "challenge", "param", "all", "opts", "opts")
		o.State = genState(t, label+"state", nil)
		if o.Arg == "opts" {
			o.Extras = genURLParams(t, label+"opt")
		}
	case "code_exchange":
		o.Arg = pick(t, label+"arg", "bogus", "bogus", "attempt")
		if nAttempts > 0 {
			o.Attempt = rapid.IntRange(0, nAttempts-1).Draw(t, label+"att")
		}
	}
	return o
}

// call performs one other use of the RelyingParty, as an application holding that instance would, and then asks the same
// instance for an authorization URL, which is judged like the one of a login.
func (w *world) call(i int, o Op) {
	res := w.res
	ctx, cancel := context.WithTimeout(context.Background(), 20*time.Second)
	defer cancel()
	before := len(w.tr.reqs)
	tok := w.tokens
	if tok == nil || o.Arg == "bogus" {
		tok = &heldTokens{access: "bogus-access-token", refresh: "bogus-refresh-token", id: "bogus.id.token"}
	}
	outcome, detail := "ok", ""
	fail := func(err error) {
		if err != nil {
			outcome, detail = "refused", ": "+clip(err.Error())
		}
	}
	name := o.Call
	switch o.Call {
	case "client_credentials":
		var params url.Values
		if o.Arg == "params" {
			params = url.Values{"audience": {"https://api.example.com"}}
		}
		_, err := rp.ClientCredentials(ctx, w.rp, params)
		fail(err)
	case "refresh":
		assertion, atype := "", ""
		if s := w.rp.Signer(); s != nil {
			if a, err := client.SignedJWTProfileAssertion(clientID, []string{issuer}, time.Hour, s); err == nil {
				assertion, atype = a, oidc.ClientAssertionTypeJWTAssertion
			}
		}
		nt, err := rp.RefreshTokens[*oidc.IDTokenClaims](ctx, w.rp, tok.refresh, assertion, atype)
		fail(err)
		if err == nil && nt != nil && nt.Token != nil && w.tokens != nil && o.Arg != "bogus" {
			w.tokens.access = nt.AccessToken
			if nt.RefreshToken != "" {
				w.tokens.refresh = nt.RefreshToken
			}
			if nt.IDToken != "" {
				w.tokens.id = nt.IDToken
			}
		}
	case "userinfo":
		_, err := rp.Userinfo[*oidc.UserInfo](ctx, tok.access, "Bearer", "u1", w.rp)
		fail(err)
	case "end_session":
		_, err := rp.EndSession(ctx, w.rp, tok.id, "", "logout-state")
		fail(err)
	case "revoke":
		t := tok.access
		hint := "access_token"
		switch o.Arg {
		case "refresh":
			t, hint = tok.refresh, "refresh_token"
		case "bogus":
			t = "bogus-token"
		}
		fail(rp.RevokeToken(ctx, w.rp, t, hint))
	case "device_authorization":
		var scopes []string
		switch o.Arg {
		case "config-scopes":
			scopes = w.rp.OAuthConfig().Scopes // what an application that holds only the RelyingParty passes
		case "own-scopes":
			scopes = append([]string(nil), w.c.Scopes...)
		}
		_, err := rp.DeviceAuthorization(ctx, scopes, w.rp, nil)
		fail(err)
	case "auth_url":
		var opts []rp.AuthURLOpt
		if o.Arg == "prompt" || o.Arg == "all" {
			opts = append(opts, rp.WithPrompt("login", "consent"))
		}
		if o.Arg == "challenge" || o.Arg == "all" {
			opts = append(opts, rp.WithCodeChallenge("E9Melhoa2OwvFrEMTJguCHaoeK1t8URWbuGJSstw-cM"))
		}
		if o.Arg == "param" || o.Arg == "all" {
			opts = append(opts, rp.AuthURLOpt(rp.WithURLParam("ui_locales", "de en")), rp.AuthURLOpt(rp.WithResponseModeURLParam(oidc.ResponseModeQuery)))
		}
		// the URL parameter options of the handlers, used as options of rp.AuthURL
		for _, p := range w.urlParamOpts("auth_url", o.Extras) {
			opts = append(opts, rp.AuthURLOpt(p))
		}
		state := o.State
		if state == "" || state == "huge" {
			state = "direct-state"
		}
		// judged right here: the application asked for an authorization URL with this state
		w.judgeAuthURL(fmt.Sprintf("op %d: rp.AuthURL(%q, rp, %s)", i, clip(state), o.Arg), rp.AuthURL(state, w.rp, opts...), []string{state})
		w.asserted++
	case "code_exchange":
		code := "bogus-code"
		if o.Arg == "attempt" && len(w.att) > 0 {
			if a := w.att[o.Attempt%len(w.att)]; a.code != "" {
				code = a.code
			}
		}
		_, err := rp.CodeExchange[*oidc.IDTokenClaims](ctx, code, w.rp)
		fail(err)
	case "getters":
		cfg := w.rp.OAuthConfig()
		_ = strings.Join(cfg.Scopes, " ")
		_, _, _ = cfg.ClientID, cfg.RedirectURL, cfg.Endpoint
		_, _, _, _ = w.rp.Issuer(), w.rp.IsPKCE(), w.rp.IsOAuth2Only(), w.rp.Signer()
		_, _, _ = w.rp.CookieHandler(), w.rp.HttpClient(), w.rp.IDTokenVerifier()
		_, _, _ = w.rp.UserinfoEndpoint(), w.rp.GetEndSessionEndpoint(), w.rp.GetDeviceAuthorizationEndpoint()
		_ = w.rp.ErrorHandler()
	case "verify_tokens":
		_, err := rp.VerifyTokens[*oidc.IDTokenClaims](ctx, tok.access, tok.id, w.rp.IDTokenVerifier())
		fail(err)
	default:
		name = "unknown"
	}
	// codes presented to the provider outside a callback are spent all the same
	for _, r := range w.tr.reqs[before:] {
		if r.Path == w.sut.Paths["token"] {
			for _, a := range w.att {
				if a.code != "" && r.Form.Get("code") == a.code {
					a.spent = true
				}
			}
		}
	}
	w.calls = append(w.calls, name)
	res.Label("call:"+name, "call:"+name+":"+outcome)
	w.classes = append(w.classes, "call:"+name+"/"+o.Arg+"/"+outcome)
	w.note("call op %d: rp.%s(%s) -> %s%s (%d provider requests)", i, name, o.Arg, outcome, detail, len(w.tr.reqs)-before)

	// the per-login oracle, right after the call: an authorization URL built on this instance now
	w.probes++
	probe := fmt.Sprintf("probe-%d", w.probes)
	w.judgeAuthURL(fmt.Sprintf("rp.AuthURL(%q, rp) right after op %d (rp.%s)", probe, i, name), rp.AuthURL(probe, w.rp), []string{probe})
	w.asserted++
	w.nontrivial = true
}
