package c06

// Storage faults during issuance (sequential check).
//
// The statement speaks of EVERY token the OP returns - also of a token returned by a request during which a call of the
// storage failed (the key vault, the database behind the claims or the token table had an outage). The case may therefore name one
// issuing request of the flow under test during which the storage fails: all calls of one method (Storage.SigningKey, KeySet,
// SignatureAlgorithms, the claim sources, the token writers) or the k-th storage call of that request, whatever it is, with an
// error value of any of the styles a storage may use (plain, *oidc.Error, wrapped, context errors, the library's sentinels).
// The faulted request comes after whatever the case put before it: earlier issuances on the same provider, the preparatory
// responses of the flow (refresh: the code exchange; token exchange: subject / actor tokens), a rotation of the signing key.
//
// Oracle: unchanged. A request answered with an error (or an error redirect) carries no token and nothing is asserted about it
// when a storage call of that very request failed (whether it must fail is C10's ground); whatever tokens DO come back are judged
// like any other response - signed with the key that is current now, verifying over /keys, claims, hashes, stored token.

import (
	"fmt"

	"pgregory.net/rapid"

	"verif/harness/vkit"
)

// FaultSpec: the storage fails during one issuing request of the flow under test.
type FaultSpec struct {
	Method string `json:"method,omitempty"` // every call of this storage method fails during that request ("" = the Call-th call, whatever it is)
	Call   int    `json:"call,omitempty"`   // Method == "": the k-th storage call of the request fails (1-based)
	Kind   string `json:"kind"`             // vkit.Fault.Kind: the style of the error value
	At     int    `json:"at,omitempty"`     // which issuing request of the flow under test (0 = the first; refresh: the round)
}

var faultMethods = []string{"SigningKey", "SigningKey", "SigningKey", "SigningKey", "KeySet", "SignatureAlgorithms",
	"GetPrivateClaimsFromScopes", "SetUserinfoFromScopes", "CreateAccessToken", "CreateAccessAndRefreshTokens", "", ""}

var faultKinds = append([]string{"error", "error", "oidc", "oidc-wrapped", "deadline"}, vkit.SentinelFaultKinds...)

// genFault adds the fault dimension to c; sequences that put something before the faulted request (earlier issuances, a rotation)
// are made more frequent than in the plain generator, they are what gives a storage failure a history to fall back on.
func genFault(t *rapid.T, c *Case) {
	f := &FaultSpec{}
	f.Method = rapid.SampledFrom(faultMethods).Draw(t, "fault-method")
	if f.Method == "" {
		f.Call = rapid.IntRange(1, 12).Draw(t, "fault-call")
	}
	f.Kind = rapid.SampledFrom(faultKinds).Draw(t, "fault-kind")
	if c.Flow == "refresh" && c.Refresh.Rounds > 1 {
		f.At = rapid.IntRange(0, c.Refresh.Rounds-1).Draw(t, "fault-at")
	}
	c.Fault = f
	if c.Rotate == nil && c.Roll == nil && rapid.IntRange(0, 2).Draw(t, "fault-rotate") > 0 {
		nalg := c.Sign.Alg
		if rapid.Bool().Draw(t, "fault-rot-otheralg") {
			nalg = rapid.SampledFrom(algKinds).Draw(t, "fault-rotalg")
		}
		var names []string
		for _, n := range keysFor(nalg) {
			if n != c.Sign.KeyName {
				names = append(names, n)
			}
		}
		if len(names) > 0 {
			c.Rotate = &vkit.SignKeySpec{KeyName: rapid.SampledFrom(names).Draw(t, "fault-rotkey"), Alg: nalg, KID: "rotated-" + c.Sign.KID}
		}
	}
	if len(c.Earlier) == 0 && rapid.IntRange(0, 2).Draw(t, "fault-earlier") > 0 {
		genEarlier(t, c)
	}
}

// armFault is called right before every issuing request of the flow under test.
func (e *env) armFault() {
	f := e.c.Fault
	if f == nil {
		return
	}
	n := e.nMain
	e.nMain++
	if n != f.At {
		return
	}
	vf := vkit.Fault{Method: f.Method, Kind: f.Kind}
	if f.Method == "" {
		vf.Call = f.Call
		if vf.Call < 1 {
			vf.Call = 1
		}
	}
	if vf.Kind == "partial" {
		vf.Kind = "error"
	}
	e.st.SetFaults(vf)
	e.faultArmed, e.faultFired = true, false
	// what the storage went through before this request
	e.hist = fmt.Sprintf("earlier-issuances=%v/rotated=%v", e.nIss > 0, e.sign != e.c.Sign)
}

// afterRequest is called with every response: the fault plan ends with the request it was armed for.
func (e *env) afterRequest(r *vkit.Resp) {
	if !e.faultArmed {
		e.faultFired = false
		return
	}
	e.faultArmed = false
	e.st.SetFaults()
	if r == nil {
		return
	}
	for _, j := range e.st.CallsOf(r.Req) {
		if j.Fault {
			e.faultFired = true
			e.res.Label("fault:fired:" + j.Method)
		}
	}
	f := e.c.Fault
	switch {
	case !e.faultFired:
		e.res.Label("fault:not-reached")
	case r.Panic != nil:
	case carriesTokens(r):
		e.res.Label("fault:fired:tokens-returned-anyway")
	default:
		e.res.Label("fault:fired:no-token", "fault:fired:no-token:after:"+e.hist)
		if f.Method == "SigningKey" {
			e.res.Label("fault:SigningKey:no-token:after:" + e.hist)
		}
	}
}

// faulted: a storage call of the issuing request that was just answered failed (nothing is asserted about a refusal of it).
func (e *env) faulted() bool {
	if e.c.Fault == nil || !e.faultFired {
		return false
	}
	e.skipped = true
	return true
}

func carriesTokens(r *vkit.Resp) bool {
	if m := r.JSON(); m != nil {
		ts := fromJSON(m)
		return ts.Access != "" || ts.ID != "" || ts.Refresh != ""
	}
	if r.IsRedirect() {
		ts := fromParams(vkit.DeliveredParams(r.Location()))
		return ts.Access != "" || ts.ID != ""
	}
	return false
}
