package c06

// Storage-side custom claims that encoding/json cannot encode.
//
// The storage decides the private claims of a JWT access token (GetPrivateClaimsFrom*) and the custom userinfo claims of an
// ID token (SetUserinfoFrom*): values computed by an application (a ratio that is NaN, a value decoded from YAML as
// map[any]any, a type whose MarshalJSON fails ...) may be impossible to serialise. Such an issuance cannot yield a token;
// what the property says about it is only indirect: every token the OP returns afterwards must still be the token of ITS
// request. claimHook lets a case switch such a value on for one issuance ("the storage supplied an unencodable claim for
// this request") on an otherwise unchanged vkit.Store; the wrapper types keep every optional storage interface visible to
// the library's capability detection.

import (
	"context"
	"errors"
	"math"
	"sync"

	"github.com/zitadel/oidc/v3/pkg/oidc"
	"github.com/zitadel/oidc/v3/pkg/op"

	"verif/harness/vkit"
)

// badKinds are the kinds of values encoding/json refuses.
var badKinds = []string{"nan", "inf", "chan", "func", "anykey-map", "marshaler", "complex"}

type failingMarshaler struct{}

func (failingMarshaler) MarshalJSON() ([]byte, error) {
	return nil, errors.New("value cannot be represented in JSON")
}

func badValue(kind string) any {
	switch kind {
	case "nan":
		return math.NaN()
	case "inf":
		return math.Inf(1)
	case "chan":
		return make(chan int)
	case "func":
		return func() {}
	case "anykey-map":
		return map[any]any{"k": 1}
	case "marshaler":
		return failingMarshaler{}
	case "complex":
		return complex(1, 2)
	}
	return math.NaN()
}

// badClaimName is the custom claim of its own the storage adds (placement "own"); placement "nested" puts the value
// inside the object value of vkit.CustomClaim instead. Both belong to vkit.CustomScope.
const badClaimName = "x_metric"

type claimHook struct {
	mu   sync.Mutex
	kind string // "" = the storage supplies only encodable values
	at   string // nested | own
	hits int
}

func (h *claimHook) arm(kind, at string) {
	h.mu.Lock()
	h.kind, h.at, h.hits = kind, at, 0
	h.mu.Unlock()
}

// disarm returns how often the unencodable value was handed to the library since arm.
func (h *claimHook) disarm() int {
	h.mu.Lock()
	defer h.mu.Unlock()
	n := h.hits
	h.kind, h.at, h.hits = "", "", 0
	return n
}

func (h *claimHook) reached() int {
	h.mu.Lock()
	defer h.mu.Unlock()
	return h.hits
}

// poison adds the armed value to the claims of the custom scope.
func (h *claimHook) poison(claims map[string]any, scopes []string) map[string]any {
	h.mu.Lock()
	defer h.mu.Unlock()
	if h.kind == "" || !has(scopes, vkit.CustomScope) {
		return claims
	}
	h.hits++
	if claims == nil {
		claims = map[string]any{}
	}
	v := badValue(h.kind)
	if h.at == "own" {
		claims[badClaimName] = v
		return claims
	}
	obj := map[string]any{}
	if cur, ok := claims[vkit.CustomClaim].(map[string]any); ok {
		for k, x := range cur {
			obj[k] = x
		}
	}
	obj["metric"] = v
	claims[vkit.CustomClaim] = obj
	return claims
}

// hooked is the storage without the extras; hookedX with them (the library finds capabilities by type assertion).
type hooked struct {
	op.Storage
	op.ClientCredentialsStorage
	op.TokenExchangeStorage
	op.DeviceAuthorizationStorage
	h *claimHook
}

func (s hooked) GetPrivateClaimsFromScopes(ctx context.Context, userID, clientID string, scopes []string) (map[string]any, error) {
	c, err := s.Storage.GetPrivateClaimsFromScopes(ctx, userID, clientID, scopes)
	if err != nil {
		return c, err
	}
	return s.h.poison(c, scopes), nil
}

func (s hooked) SetUserinfoFromScopes(ctx context.Context, ui *oidc.UserInfo, userID, clientID string, scopes []string) error {
	if err := s.Storage.SetUserinfoFromScopes(ctx, ui, userID, clientID, scopes); err != nil {
		return err
	}
	ui.Claims = s.h.poison(ui.Claims, scopes)
	return nil
}

type extras interface {
	op.CanTerminateSessionFromRequest
	op.CanSetUserinfoFromRequest
	op.CanGetPrivateClaimsFromRequest
	op.JWTProfileTokenStorage
	op.TokenExchangeTokensVerifierStorage
}

type hookedX struct {
	hooked
	extras
}

func (s hookedX) GetPrivateClaimsFromRequest(ctx context.Context, r op.TokenRequest, scopes []string) (map[string]any, error) {
	c, err := s.extras.GetPrivateClaimsFromRequest(ctx, r, scopes)
	if err != nil {
		return c, err
	}
	return s.h.poison(c, scopes), nil
}

// wrapStorage is handed to vkit.ProviderSpec.WrapStorage.
func (h *claimHook) wrapStorage(inner op.Storage) op.Storage {
	base := hooked{Storage: inner, h: h}
	base.ClientCredentialsStorage, _ = inner.(op.ClientCredentialsStorage)
	base.TokenExchangeStorage, _ = inner.(op.TokenExchangeStorage)
	base.DeviceAuthorizationStorage, _ = inner.(op.DeviceAuthorizationStorage)
	if base.ClientCredentialsStorage == nil || base.TokenExchangeStorage == nil || base.DeviceAuthorizationStorage == nil {
		panic("c06: claimHook.wrapStorage needs a storage with the client_credentials, token-exchange and device capabilities")
	}
	if x, ok := inner.(extras); ok {
		return hookedX{hooked: base, extras: x}
	}
	return base
}
