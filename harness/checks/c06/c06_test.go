// Package c06: every token the OP issues is well-formed and passes the library's own verifiers (property C06).
package c06

import (
	"fmt"
	"net/url"
	"runtime"
	"runtime/debug"
	"strings"
	"testing"
	"time"

	"pgregory.net/rapid"

	"verif/harness/vkit"
)

// IssuerCfg is the issuer strategy of the provider and the Host / Forwarded headers the requests carry.
type IssuerCfg struct {
	Mode      string `json:"mode"`  // static | host | forwarded
	Value     string `json:"value"` // static: the issuer; host / forwarded: the path suffix
	Insecure  bool   `json:"insecure,omitempty"`
	Host      string `json:"host"`                // Host header of the requests that issue the tokens under test
	PreHost   string `json:"pre_host,omitempty"`  // Host header of the preparatory requests ("" = Host)
	Forwarded string `json:"forwarded,omitempty"` // raw Forwarded header of the issuing requests
	FwdHost   string `json:"fwd_host,omitempty"`  // the host= value inside Forwarded ("" = none)
}

// RefreshCfg: how the refresh flow is driven.
type RefreshCfg struct {
	Rounds int   `json:"rounds"`
	Narrow []int `json:"narrow,omitempty"` // per round: bit mask over the original scopes (0 = no scope parameter)
}

// TECfg: token exchange request.
type TECfg struct {
	SubjectKind string   `json:"subject_kind"` // access_jwt | refresh | id_token
	Requested   string   `json:"requested"`    // "" | access | refresh | id
	Audience    []string `json:"audience,omitempty"`
	Scopes      []string `json:"scopes,omitempty"`
	Actor       bool     `json:"actor,omitempty"`
}

type Case struct {
	Router       string            `json:"router"`
	Issuer       IssuerCfg         `json:"issuer"`
	Sign         vkit.SignKeySpec  `json:"sign"`
	OldKeys      []vkit.PubKeySpec `json:"old_keys,omitempty"` // further published keys (rotated-out ones)
	Rotate       *vkit.SignKeySpec `json:"rotate,omitempty"`   // the signing key is rotated to this one (same algorithm) right before the response under test; the old key stays published
	// Roll: a roll-over of the signing key (any algorithm / key type) that the storage performs by itself after Roll.After further reads of
	// Storage.SigningKey, counted from the start of the request under test: the switch can land before, between or after the
	// key reads of one response (or in a later response of the flow). Both public keys are published throughout.
	Roll *vkit.KeyRoll `json:"roll,omitempty"`
	// UseMode: which published keys state no `use` member (it is optional, RFC 7517 4.2): "" = every key says "sig",
	// "none" = no key states a use, "signing" = the signing keys (current / rotated / rolled) state none, "old" = the rotated-out ones state none
	UseMode      string            `json:"use_mode,omitempty"`
	CryptoKey    byte              `json:"crypto_key"`
	Flow         string            `json:"flow"` // code | implicit_id | implicit_id_token | refresh | device | client_credentials | jwt_bearer | exchange
	Client       vkit.ClientSpec   `json:"client"`
	Scopes       []string          `json:"scopes"`
	User         string            `json:"user"`
	Nonce        string            `json:"nonce,omitempty"`
	State        string            `json:"state,omitempty"`
	ResponseMode string            `json:"response_mode,omitempty"`
	Policy       vkit.StorePolicy  `json:"policy"`
	Extras       bool              `json:"extras,omitempty"` // storage implements the *FromRequest / JWTProfileTokenStorage extras
	Refresh      RefreshCfg        `json:"refresh"`
	TE           TECfg             `json:"te"`
	// Earlier: issuances that happened on the same provider (same process, same storage) before the flow under test, each judged
	// like any other response; some of them fail because the storage supplied a custom claim encoding/json cannot encode.
	Earlier []Earlier        `json:"earlier,omitempty"`
	Other   *vkit.ClientSpec `json:"other,omitempty"` // a second registered client the earlier issuances may use
	// Conc: the concurrent sub-check (TestConcurrent*): several workers drive their own flows on ONE provider at the same time.
	Conc *Conc `json:"conc,omitempty"`
	// OwnVerif: what the application configured for the provider's OWN verifiers (Provider.AccessTokenVerifier behind userinfo /
	// introspection / token exchange, Provider.IDTokenHintVerifier behind end_session): "" = both are told the algorithm of the first
	// signing key (vkit.Build), "none" = no verifier options at all (the library's default list RS256, ES256, PS256 applies),
	// "all" = both are told all 8 algorithms of the generator.
	OwnVerif string `json:"own_verif,omitempty"`
	// IL: the interleaving sub-check (TestInterleave): issuances and key rotations under a schedule the harness owns.
	IL *Interleave `json:"il,omitempty"`
	// Fault: the storage fails during one issuing request of the flow under test (fault_test.go).
	Fault *FaultSpec `json:"fault,omitempty"`
}

// Earlier is one earlier issuance.
type Earlier struct {
	Flow   string   `json:"flow"`   // code | implicit_id | implicit_id_token | device | client_credentials
	Client string   `json:"client"` // main | other
	User   string   `json:"user"`
	Scopes []string `json:"scopes"`
	Nonce  string   `json:"nonce,omitempty"`
	Bad    string   `json:"bad,omitempty"`    // kind of unencodable value the storage supplies for the custom scope during this issuance ("" none)
	BadAt  string   `json:"bad_at,omitempty"` // nested (inside the custom claim's object) | own (a claim of its own)
}

// ---- generators -----------------------------------------------------------------

var algKinds = []string{"RS256", "RS384", "RS512", "PS256", "ES256", "ES384", "ES512", "EdDSA"}

func keysFor(alg string) []string {
	var out []string
	for _, n := range vkit.KeyNames {
		if vkit.AlgFitsKey(alg, vkit.Key(n)) {
			out = append(out, n)
		}
	}
	return out
}

var flows = []string{"code", "implicit_id", "implicit_id_token", "refresh", "device", "client_credentials", "jwt_bearer", "exchange"}

const redirectURI = "https://rp.example.com/cb"

func genScopes(t *rapid.T, flow string) []string {
	var out []string
	// openid: almost always (plain OAuth2 requests without it are legal and rare)
	if rapid.IntRange(0, 11).Draw(t, "noopenid") < 11 {
		out = append(out, "openid")
	}
	for _, s := range []string{"profile", "email", "phone", "address", "offline_access", vkit.CustomScope} {
		p := 3
		if s == "offline_access" && (flow == "refresh") {
			out = append(out, s)
			continue
		}
		if rapid.IntRange(0, p).Draw(t, "sc-"+s) == p || (s == "email" && rapid.IntRange(0, 2).Draw(t, "sc2-"+s) == 2) {
			out = append(out, s)
		}
	}
	if len(out) == 0 {
		out = append(out, "openid")
	}
	if rapid.IntRange(0, 5).Draw(t, "rotate") == 5 && len(out) > 1 {
		// openid not in first position
		out = append(out[1:], out[0])
	}
	return out
}

func genCase(t *rapid.T) Case {
	var c Case
	c.Router = rapid.SampledFrom([]string{"provider", "legacy"}).Draw(t, "router")
	c.Flow = rapid.SampledFrom(flows).Draw(t, "flow")

	// signing key: 8 kinds, plus 0-2 rotated-out keys that are still published
	c.Sign.Alg = rapid.SampledFrom(algKinds).Draw(t, "alg")
	c.Sign.KeyName = rapid.SampledFrom(keysFor(c.Sign.Alg)).Draw(t, "key")
	c.Sign.KID = rapid.SampledFrom([]string{"sig-1", "k2", "2024-06"}).Draw(t, "kid")
	nOld := rapid.SampledFrom([]int{0, 0, 1, 1, 2}).Draw(t, "nold")
	for i := 0; i < nOld; i++ {
		var names []string
		for _, n := range vkit.KeyNames {
			if n != c.Sign.KeyName {
				names = append(names, n)
			}
		}
		// prefer a key of the same type (a stale kid would then select a key that fits the algorithm)
		same := []string{}
		for _, n := range names {
			if vkit.AlgFitsKey(c.Sign.Alg, vkit.Key(n)) {
				same = append(same, n)
			}
		}
		name := rapid.SampledFrom(names).Draw(t, fmt.Sprintf("old%d", i))
		if len(same) > 0 && rapid.Bool().Draw(t, fmt.Sprintf("oldsame%d", i)) {
			name = rapid.SampledFrom(same).Draw(t, fmt.Sprintf("oldsamekey%d", i))
		}
		alg := vkit.AlgsOf(vkit.Key(name))[0]
		if vkit.AlgFitsKey(c.Sign.Alg, vkit.Key(name)) {
			alg = c.Sign.Alg
		}
		c.OldKeys = append(c.OldKeys, vkit.PubKeySpec{KeyName: name, Alg: alg, KID: fmt.Sprintf("old-%d", i), Use: "sig"})
	}
	if rapid.IntRange(0, 3).Draw(t, "rotate-key") == 3 {
		var others []string
		for _, n := range keysFor(c.Sign.Alg) {
			if n != c.Sign.KeyName {
				others = append(others, n)
			}
		}
		if len(others) > 0 {
			c.Rotate = &vkit.SignKeySpec{KeyName: rapid.SampledFrom(others).Draw(t, "rotkey"), Alg: c.Sign.Alg, KID: "rotated-" + c.Sign.KID}
		}
		if rapid.Bool().Draw(t, "rot-otheralg") {
			// ... or to a key of any algorithm (another family included)
			nalg := rapid.SampledFrom(algKinds).Draw(t, "rotalg")
			var names []string
			for _, n := range keysFor(nalg) {
				if n != c.Sign.KeyName {
					names = append(names, n)
				}
			}
			if len(names) > 0 {
				c.Rotate = &vkit.SignKeySpec{KeyName: rapid.SampledFrom(names).Draw(t, "rotkey2"), Alg: nalg, KID: "rotated-" + c.Sign.KID}
			}
		}
	}
	// roll-over performed by the storage in the middle of the flow, to any algorithm (the hash of at_hash / c_hash changes with it)
	if rapid.IntRange(0, 2).Draw(t, "roll") == 2 {
		c.Rotate = nil
		nalg := rapid.SampledFrom(algKinds).Draw(t, "rollalg")
		var names []string
		for _, n := range keysFor(nalg) {
			if n != c.Sign.KeyName {
				names = append(names, n)
			}
		}
		if len(names) > 0 {
			c.Roll = &vkit.KeyRoll{After: rapid.SampledFrom([]int{0, 1, 1, 2, 2, 3, 3, 4, 5, 6}).Draw(t, "rollafter"),
				Next: vkit.SignKeySpec{KeyName: rapid.SampledFrom(names).Draw(t, "rollkey"), Alg: nalg, KID: "roll-" + c.Sign.KID}}
		}
	}
	c.UseMode = rapid.SampledFrom([]string{"", "", "", "", "none", "signing", "old"}).Draw(t, "usemode")
	c.CryptoKey = byte(rapid.SampledFrom([]int{0, 1, 0x5a, 0xff}).Draw(t, "cryptokey"))

	// issuer strategy
	is := &c.Issuer
	is.Mode = rapid.SampledFrom([]string{"static", "static", "host", "forwarded"}).Draw(t, "issmode")
	is.Host = rapid.SampledFrom([]string{"op.example.com", "login.example.org:8443"}).Draw(t, "host")
	is.Insecure = rapid.IntRange(0, 4).Draw(t, "insecure") == 4
	if is.Mode == "static" {
		is.Value = rapid.SampledFrom([]string{"https://op.example.com", "https://op.example.com/oidc", "https://issuer.example.net:9443/a/b"}).Draw(t, "issuer")
		if is.Insecure && rapid.Bool().Draw(t, "httpiss") {
			is.Value = "http://op.example.com/dev"
		}
	} else {
		is.Value = rapid.SampledFrom([]string{"", "/oidc", "/t/tenant-1"}).Draw(t, "isspath")
	}
	if rapid.IntRange(0, 2).Draw(t, "prehost") == 2 {
		is.PreHost = "pre.example.net"
	}
	if is.Mode != "static" && rapid.IntRange(0, 1).Draw(t, "fwd") == 1 {
		is.FwdHost = rapid.SampledFrom([]string{"fw.example.net", "edge.example.org:444"}).Draw(t, "fwdhost")
		form := rapid.SampledFrom([]string{"host=%s", "for=192.0.2.1;host=%s;proto=https", "for=192.0.2.9, for=198.51.100.7;host=%s"}).Draw(t, "fwdform")
		hv := is.FwdHost
		if strings.Contains(hv, ":") || rapid.Bool().Draw(t, "fwdquoted") {
			hv = `"` + hv + `"` // RFC 7239: a value with a port is not a token and must be a quoted-string
		}
		is.Forwarded = fmt.Sprintf(form, hv)
	}

	// client
	cl := &c.Client
	cl.ID = rapid.SampledFrom([]string{"client-a", "app.1"}).Draw(t, "clientid")
	cl.Secret = "secret-a"
	cl.Keys = map[string]string{"ka": "rsa4"}
	cl.RedirectURIs = []string{redirectURI}
	cl.ResponseTypes = []string{"code", "id_token", "id_token token"}
	cl.GrantTypes = []string{vkit.GCode, vkit.GImpl, vkit.GDevice, vkit.GCC, vkit.GBearer, vkit.GTE}
	if rapid.IntRange(0, 5).Draw(t, "norefreshgrant") < 5 || c.Flow == "refresh" {
		cl.GrantTypes = append(cl.GrantTypes, vkit.GRefr)
	}
	cl.AllowedScopes = []string{vkit.CustomScope}
	cl.JWTAccessToken = rapid.Bool().Draw(t, "jwtat")
	cl.ClockSkewS = rapid.SampledFrom([]int{0, 0, 1, 30, 300}).Draw(t, "skew")
	cl.IDTokenLifetimeS = rapid.SampledFrom([]int{0, 45, 500, 86400}).Draw(t, "idtlife")
	cl.UserinfoAssertion = rapid.Bool().Draw(t, "assertion")
	switch rapid.IntRange(0, 5).Draw(t, "dropidt") {
	case 4:
		cl.DropIDTokenScopes = []string{vkit.CustomScope}
	case 5:
		cl.DropIDTokenScopes = []string{"email", "phone"}
	}
	if rapid.IntRange(0, 4).Draw(t, "dropat") == 4 {
		cl.DropATScopes = []string{vkit.CustomScope}
	}
	cl.AppType, cl.AuthMethod = "web", "client_secret_basic"
	switch c.Flow {
	case "code", "refresh":
		switch rapid.IntRange(0, 4).Draw(t, "auth") {
		case 1:
			cl.AuthMethod = "client_secret_post"
		case 2:
			cl.AppType, cl.AuthMethod = "native", "none"
		case 3:
			cl.AuthMethod = "private_key_jwt"
		}
	case "implicit_id", "implicit_id_token":
		if rapid.Bool().Draw(t, "ua") {
			cl.AppType, cl.AuthMethod = "user_agent", "none"
		}
	case "device":
		if rapid.Bool().Draw(t, "native") {
			cl.AppType, cl.AuthMethod = "native", "none"
		}
	case "client_credentials":
		cl.Service = true
		if rapid.Bool().Draw(t, "post") {
			cl.AuthMethod = "client_secret_post"
		}
	}

	c.Scopes = genScopes(t, c.Flow)
	c.User = rapid.SampledFrom(vkit.AllUserIDs).Draw(t, "user")
	c.Nonce = rapid.SampledFrom([]string{"", "n-0S6_WzA2Mj", "nonce with space", "n"}).Draw(t, "nonce")
	c.State = rapid.SampledFrom([]string{"", "st-1"}).Draw(t, "state")
	if strings.HasPrefix(c.Flow, "implicit") {
		c.ResponseMode = rapid.SampledFrom([]string{"", "", "fragment", "query"}).Draw(t, "rm")
		if c.Nonce == "" && rapid.IntRange(0, 3).Draw(t, "emptynonce") < 3 {
			c.Nonce = "impl-nonce"
		}
	}

	p := &c.Policy
	p.AccessTTLS = rapid.SampledFrom([]int{60, 300, 900, 7200}).Draw(t, "attl")
	p.ExtraAudience = rapid.SampledFrom([][]string{nil, nil, {"api.example.com"}, {"api-1", "api-2"}}).Draw(t, "xaud")
	p.ACR = rapid.SampledFrom([]string{"", "", "urn:acr:2fa"}).Draw(t, "acr")
	p.NarrowPersists = rapid.Bool().Draw(t, "narrowpersists")
	c.Extras = rapid.IntRange(0, 3).Draw(t, "extras") == 3
	if c.Flow == "jwt_bearer" {
		c.Extras = rapid.Bool().Draw(t, "extras-jb")
		p.JWTProfileJWT = rapid.Bool().Draw(t, "jbjwt")
	}

	if c.Flow == "refresh" {
		c.Refresh.Rounds = rapid.IntRange(1, 2).Draw(t, "rounds")
		for i := 0; i < c.Refresh.Rounds; i++ {
			m := 0
			if rapid.IntRange(0, 2).Draw(t, fmt.Sprintf("narrow%d", i)) == 2 {
				m = rapid.IntRange(1, 1<<len(c.Scopes)-1).Draw(t, fmt.Sprintf("mask%d", i))
			}
			c.Refresh.Narrow = append(c.Refresh.Narrow, m)
		}
	}
	if c.Flow == "exchange" {
		te := &c.TE
		te.SubjectKind = rapid.SampledFrom([]string{"access_jwt", "refresh", "id_token"}).Draw(t, "subjkind")
		te.Requested = rapid.SampledFrom([]string{"", "access", "refresh", "id", "access", "id"}).Draw(t, "requested")
		p.TE.DefaultType = rapid.SampledFrom([]string{"access", "refresh", "id"}).Draw(t, "tedefault")
		te.Audience = rapid.SampledFrom([][]string{nil, nil, {"svc.example.com"}, {"svc-1", cl.ID}, {"svc-1", "svc-2"}}).Draw(t, "teaud")
		te.Scopes = c.Scopes
		te.Actor = rapid.IntRange(0, 3).Draw(t, "actor") == 3
		if rapid.IntRange(0, 3).Draw(t, "imp") == 3 {
			p.TE.Impersonate = rapid.SampledFrom(vkit.UserIDs).Draw(t, "impuser")
		}
		if rapid.IntRange(0, 3).Draw(t, "tedrop") == 3 {
			p.TE.DropScopes = []string{"email"}
		}
	}
	if rapid.IntRange(0, 3).Draw(t, "earlier") == 3 {
		genEarlier(t, &c)
	}
	c.OwnVerif = rapid.SampledFrom(ownVerifModes).Draw(t, "ownverif")
	if rapid.IntRange(0, 5).Draw(t, "fault") == 5 {
		genFault(t, &c)
	}
	return c
}

var earlierFlows = []string{"code", "code", "implicit_id", "implicit_id_token", "device", "client_credentials"}

// genEarlier: 1-3 issuances that precede the flow under test on the same provider, for users / clients / scopes of their own;
// about half of them are handed a custom claim that cannot be encoded (always followed by at least the flow under test).
func genEarlier(t *rapid.T, c *Case) {
	o := genClient(t, "o-", "other-client", "")
	o.Service = true
	c.Other = &o
	n := rapid.IntRange(1, 3).Draw(t, "nearlier")
	for i := 0; i < n; i++ {
		var s Earlier
		pre := fmt.Sprintf("e%d-", i)
		s.Flow = rapid.SampledFrom(earlierFlows).Draw(t, pre+"flow")
		s.Client = rapid.SampledFrom([]string{"other", "other", "main"}).Draw(t, pre+"client")
		if !usable(&c.Client, s.Flow) {
			s.Client = "other"
		}
		s.User = rapid.SampledFrom(vkit.AllUserIDs).Draw(t, pre+"user")
		s.Scopes = []string{"openid"}
		for _, sc := range []string{"profile", "email", "phone", "address", vkit.CustomScope} {
			if rapid.IntRange(0, 2).Draw(t, pre+"sc-"+sc) > 0 {
				s.Scopes = append(s.Scopes, sc)
			}
		}
		s.Nonce = rapid.SampledFrom([]string{"", "earlier-nonce", "n2"}).Draw(t, pre+"nonce")
		if strings.HasPrefix(s.Flow, "implicit") && s.Nonce == "" {
			s.Nonce = "earlier-impl-nonce"
		}
		if rapid.Bool().Draw(t, pre+"bad") {
			s.Bad = rapid.SampledFrom(badKinds).Draw(t, pre+"badkind")
			s.BadAt = rapid.SampledFrom([]string{"nested", "own"}).Draw(t, pre+"badat")
			if !has(s.Scopes, vkit.CustomScope) {
				s.Scopes = append(s.Scopes, vkit.CustomScope)
			}
		}
		c.Earlier = append(c.Earlier, s)
	}
}

// genClient draws a client registration (all grants and response types) for flow ("" = any) under the label prefix pre.
func genClient(t *rapid.T, pre, id, flow string) vkit.ClientSpec {
	var cl vkit.ClientSpec
	cl.ID = id
	cl.Secret = "secret-" + id
	cl.Keys = map[string]string{"ka": "rsa4"}
	cl.RedirectURIs = []string{redirectURI}
	cl.ResponseTypes = []string{"code", "id_token", "id_token token"}
	cl.GrantTypes = []string{vkit.GCode, vkit.GImpl, vkit.GDevice, vkit.GCC, vkit.GBearer, vkit.GTE, vkit.GRefr}
	cl.AllowedScopes = []string{vkit.CustomScope}
	cl.JWTAccessToken = rapid.Bool().Draw(t, pre+"jwtat")
	cl.ClockSkewS = rapid.SampledFrom([]int{0, 0, 1, 30, 300}).Draw(t, pre+"skew")
	cl.IDTokenLifetimeS = rapid.SampledFrom([]int{0, 45, 500, 86400}).Draw(t, pre+"idtlife")
	cl.UserinfoAssertion = rapid.IntRange(0, 2).Draw(t, pre+"assertion") > 0
	switch rapid.IntRange(0, 7).Draw(t, pre+"drop") {
	case 5:
		cl.DropIDTokenScopes = []string{vkit.CustomScope}
	case 6:
		cl.DropIDTokenScopes = []string{"email", "phone"}
	case 7:
		cl.DropATScopes = []string{vkit.CustomScope}
	}
	cl.AppType, cl.AuthMethod = "web", "client_secret_basic"
	switch flow {
	case "":
		// a client used with several grants (device and client_credentials among them): basic authentication
	case "code", "refresh":
		switch rapid.IntRange(0, 4).Draw(t, pre+"auth") {
		case 1:
			cl.AuthMethod = "client_secret_post"
		case 2:
			cl.AppType, cl.AuthMethod = "native", "none"
		case 3:
			cl.AuthMethod = "private_key_jwt"
		}
	case "implicit_id", "implicit_id_token":
		if rapid.Bool().Draw(t, pre+"ua") {
			cl.AppType, cl.AuthMethod = "user_agent", "none"
		}
	case "device":
		if rapid.Bool().Draw(t, pre+"native") {
			cl.AppType, cl.AuthMethod = "native", "none"
		}
	case "client_credentials":
		cl.Service = true
		if rapid.Bool().Draw(t, pre+"post") {
			cl.AuthMethod = "client_secret_post"
		}
	}
	return cl
}

// ---- execution --------------------------------------------------------------------

// expectedIssuer is the model of "the issuer of the request" (written from the documentation of the three strategies).
func (i IssuerCfg) expectedIssuer(host string, forwardedHost string) string {
	if i.Mode == "static" {
		return i.Value
	}
	h := host
	if i.Mode == "forwarded" && forwardedHost != "" {
		h = forwardedHost
	}
	scheme := "https"
	if i.Insecure {
		scheme = "http"
	}
	p := i.Value
	if p != "" && !strings.HasPrefix(p, "/") {
		p = "/" + p
	}
	return scheme + "://" + h + p
}

type env struct {
	c      Case
	res    *vkit.Result
	st     *vkit.Store
	sut    *vkit.SUT
	main   *vkit.Agent // issues the tokens under test
	pre    *vkit.Agent // preparatory requests
	cl     *vkit.ClientSpec
	helper *vkit.ClientSpec
	key    []byte
	sign   vkit.SignKeySpec // the provider's current signing key (as of the last judged response)
	armed  bool             // the roll-over of the case has been handed to the storage
	slow   bool
	nIss   int
	other  *vkit.ClientSpec
	hook   *claimHook
	nonce  string // nonce / state of the authorization requests being driven
	state  string
	bad    string // != "": the storage supplies an unencodable custom claim during the current issuance
	note   string // appended to the step name of issuances (position in a sequence / worker)
	// interleaving sub-check: the rotations are the harness's (timeline), not this driver's
	tl      *timeline
	epoch0  int  // number of rotations completed when the issuing request in flight was started
	skipped bool // the flow was not driven to its end for a reason that is the configuration's (labelled grey)
	// storage fault of the case (fault_test.go)
	nMain      int    // issuing requests of the flow under test so far
	faultArmed bool   // the fault plan is in the storage (for the request about to be sent)
	faultFired bool   // a storage call of the request answered last failed by injection
	hist       string // what preceded the faulted request
}

func (e *env) issuerOf(a *vkit.Agent) string {
	fw := ""
	if a.Forwarded != "" {
		fw = e.c.Issuer.FwdHost
	}
	return e.c.Issuer.expectedIssuer(a.Host, fw)
}

// cred builds the right credential presentation for cl on agent a (assertion audience = issuer of that request).
func (e *env) cred(a *vkit.Agent, cl *vkit.ClientSpec) vkit.Cred {
	return vkit.RightCred(cl, e.issuerOf(a))
}

func (e *env) fail(fp, format string, args ...any) { e.res.Fail(fp, format, args...) }

// checkResp reports panics; returns false if the response cannot be used.
func (e *env) checkResp(step string, r *vkit.Resp) bool {
	e.afterRequest(r)
	if r == nil {
		e.fail("C06:flow-incomplete:"+step, "%s: no response", step)
		return false
	}
	if r.Panic != nil {
		e.fail("C06:panic@"+r.PanicFrame(), "%s: panic: %v", step, r.Panic)
		return false
	}
	return true
}

// authorize drives authorize -> login -> callback for client cl. authorize runs on agent a0, the callback on a1.
func (e *env) authorize(step string, mainStep bool, a0, a1 *vkit.Agent, cl *vkit.ClientSpec, responseType string, scopes []string, user, verifier string) (params url.Values, ar vkit.AuthReq, t0, t1 time.Time, ok bool) {
	q := vkit.AuthParams(cl, redirectURI, responseType, strings.Join(scopes, " "), e.state, e.nonce)
	if verifier != "" {
		q.Set("code_challenge", vkit.S256(verifier))
		q.Set("code_challenge_method", "S256")
	}
	if e.c.ResponseMode != "" && responseType != "code" {
		q.Set("response_mode", e.c.ResponseMode)
	}
	r := a0.Authorize(q)
	if !e.checkResp(step+":authorize", r) {
		return
	}
	id, toLogin := vkit.LoginRequestID(r)
	if !toLogin {
		e.fail("C06:flow-incomplete:"+step+":authorize", "%s: authorize did not lead to the login UI: %s", step, r.Describe())
		return
	}
	e.st.Login(id, user)
	ar, _ = e.st.AuthReqSnapshot(id)
	e.rotate(mainStep && responseType != "code")
	t0 = time.Now()
	cb := a1.Callback(id)
	t1 = time.Now()
	if !e.checkResp(step+":callback", cb) {
		return
	}
	if !cb.IsRedirect() {
		if e.faulted() {
			return
		}
		e.fail("C06:flow-incomplete:"+step+":callback", "%s: callback did not redirect: %s", step, cb.Describe())
		return
	}
	return vkit.DeliveredParams(cb.Location()), ar, t0, t1, true
}

// rotate switches the provider to the new signing key; the old public key stays in the published set.
func (e *env) rotate(mainStep bool) {
	e.rotateKey(mainStep)
	if mainStep && e.tl == nil {
		e.armFault()
	}
}

func (e *env) rotateKey(mainStep bool) {
	if e.tl != nil {
		// called right before every request that issues tokens: the keys in force for it start here
		e.epoch0 = e.tl.epoch()
		return
	}
	if mainStep && e.c.Roll != nil && !e.armed {
		// from here on the storage counts the reads of its signing key and switches by itself
		e.armed = true
		e.st.SetKeyRoll(*e.c.Roll)
		e.applyUse()
		e.res.Label("key-roll:armed")
		return
	}
	if !mainStep || e.c.Rotate == nil || e.sign == *e.c.Rotate {
		return
	}
	nk := *e.c.Rotate
	e.st.PubKeys = append(e.st.PubKeys, vkit.PubKeySpec{KeyName: nk.KeyName, Alg: nk.Alg, KID: nk.KID, Use: "sig"})
	e.st.SignKey = nk
	e.sign = nk
	e.applyUse()
	e.res.Label("key-rotated-before-issuance")
}

// applyUse edits the `use` the storage states for its published keys according to the case's UseMode.
func (e *env) applyUse() {
	if e.c.UseMode == "" {
		return
	}
	for i := range e.st.PubKeys {
		k := &e.st.PubKeys[i]
		signing := k.KID == e.c.Sign.KID || (e.c.Rotate != nil && k.KID == e.c.Rotate.KID) || (e.c.Roll != nil && k.KID == e.c.Roll.Next.KID)
		switch e.c.UseMode {
		case "none":
			k.Use = ""
		case "signing":
			if signing {
				k.Use = ""
			}
		case "old":
			if !signing {
				k.Use = ""
			}
		}
	}
}

// signingKeysOf returns the signing keys a token of the response that was just received may legitimately carry: the provider's
// current key; when the storage rolled over while this response was produced, the key before or the key after the switch
// (a roll-over at the very first read leaves only the new one).
func (e *env) signingKeysOf() []vkit.SignKeySpec {
	if e.tl != nil {
		return e.tl.since(e.epoch0)
	}
	before, after := e.sign, e.st.SignKey
	e.sign = after
	if before == after {
		return []vkit.SignKeySpec{after}
	}
	e.res.Label("key-roll:switched-during-response")
	if hashBits(before.Alg) != hashBits(after.Alg) {
		e.res.Label("key-roll:hash-size-changes")
	}
	if e.c.Roll != nil && e.c.Roll.After == 0 {
		return []vkit.SignKeySpec{after}
	}
	return []vkit.SignKeySpec{before, after}
}

const pkceVerifier = "verifier-0123456789-0123456789-0123456789-0123456789"

// codeFlow runs the whole code flow for cl: authorize on a0, token on a1; returns the issuance of the token response.
func (e *env) codeFlow(step string, mainStep bool, a0, a1 *vkit.Agent, cl *vkit.ClientSpec, scopes []string, user string) (*issuance, bool) {
	verifier := ""
	if cl.AuthMethod == "none" {
		verifier = pkceVerifier
	}
	params, ar, _, _, ok := e.authorize(step, false, a0, a0, cl, "code", scopes, user, verifier)
	if !ok {
		return nil, false
	}
	code := params.Get("code")
	if code == "" {
		e.fail("C06:flow-incomplete:"+step+":callback", "%s: no code delivered: %v", step, params)
		return nil, false
	}
	e.rotate(mainStep)
	t0 := time.Now()
	r := a1.Token(vkit.CodeExchangeForm(code, redirectURI, verifier), e.cred(a1, cl))
	t1 := time.Now()
	if !e.checkResp(step+":token", r) {
		return nil, false
	}
	if !r.Success() || r.JSON() == nil {
		if !e.refused(step, r) {
			e.fail("C06:flow-incomplete:"+step+":token", "%s: code exchange refused: %s", step, r.Describe())
		}
		return nil, false
	}
	is := e.newIssuance(step, mainStep, "code", a1, cl, t0, t1, fromJSON(r.JSON()))
	is.Code = code
	is.fromAuthReq(ar)
	e.judge(is)
	return is, true
}

func (is *issuance) fromAuthReq(ar vkit.AuthReq) {
	is.Sub = ar.UserID
	is.Nonce, is.NonceAsserted = ar.Nonce, true
	is.AuthTime = ar.AuthTime.Unix()
	is.AMR = ar.AMR
	is.Granted = ar.Scopes
	is.ReqAudience = append([]string{ar.ClientID}, ar.ExtraAudience...)
}

func newHelper() *vkit.ClientSpec {
	return &vkit.ClientSpec{ID: "helper", Secret: "secret-h", AppType: "web", AuthMethod: "client_secret_basic",
		GrantTypes: []string{vkit.GCode, vkit.GRefr}, ResponseTypes: []string{"code"}, RedirectURIs: []string{redirectURI},
		JWTAccessToken: true, AllowedScopes: []string{vkit.CustomScope}, ClockSkewS: 1, IDTokenLifetimeS: 500}
}

// buildProvider: one storage with the given clients behind one provider (the storage is wrapped by the claim hook).
func buildProvider(c Case, clients []*vkit.ClientSpec, hook *claimHook) (*vkit.Store, *vkit.SUT, error) {
	st := vkit.NewStore(clients, c.Sign, c.Policy)
	st.PubKeys = append(st.PubKeys, c.OldKeys...)
	spec := vkit.DefaultProviderSpec(c.Router)
	spec.IssuerMode, spec.Issuer, spec.Insecure = c.Issuer.Mode, c.Issuer.Value, c.Issuer.Insecure
	spec.CryptoKey = c.CryptoKey
	spec.Caps = vkit.Caps{CC: true, TE: true, Device: true, Extras: c.Extras}
	spec.WrapStorage = hook.wrapStorage
	sut, err := vkit.Build(spec, st)
	if err == nil && c.OwnVerif != "" {
		err = rebuildOwnVerif(sut, spec, st, c.OwnVerif)
	}
	return st, sut, err
}

// newEnv: the driver of one sequence of flows (case c: client cl, its user / scopes / nonce) on a provider.
func newEnv(c Case, res *vkit.Result, st *vkit.Store, sut *vkit.SUT, cl, helper, other *vkit.ClientSpec, hook *claimHook) *env {
	e := &env{c: c, res: res, st: st, sut: sut, cl: cl, helper: helper, other: other, hook: hook, key: providerKey(c.CryptoKey), sign: c.Sign,
		nonce: c.Nonce, state: c.State}
	e.main = vkit.NewAgent(sut)
	e.main.Host, e.main.Forwarded = c.Issuer.Host, c.Issuer.Forwarded
	e.pre = vkit.NewAgent(sut)
	e.pre.Host = c.Issuer.Host
	if c.Issuer.PreHost != "" {
		e.pre.Host = c.Issuer.PreHost
	}
	return e
}

// refused: the issuing request of the current step was refused. Reports whether that is the expected outcome (the storage
// supplied an unencodable claim to this very issuance: no token can be built from it).
func (e *env) refused(step string, r *vkit.Resp) bool {
	if e.faulted() {
		return true
	}
	if e.bad == "" || e.hook.reached() == 0 {
		return false
	}
	e.res.Label("unencodable-claim:refused", "unencodable-claim:refused:"+e.bad)
	return true
}

func (e *env) implicitFlow(step string, mainStep bool, a0, a1 *vkit.Agent, cl *vkit.ClientSpec, flow string, scopes []string, user string) []*issuance {
	rt := "id_token"
	if flow == "implicit_id_token" {
		rt = "id_token token"
	}
	params, ar, t0, t1, ok := e.authorize(step, mainStep, a0, a1, cl, rt, scopes, user, "")
	if !ok {
		return nil
	}
	if params.Get("error") != "" && params.Get("id_token") == "" && params.Get("access_token") == "" && e.refused(step, nil) {
		return nil
	}
	is := e.newIssuance(step, mainStep, flow, a1, cl, t0, t1, fromParams(params))
	is.fromAuthReq(ar)
	is.Fragment = true
	e.judge(is)
	return []*issuance{is}
}

func (e *env) ccFlow(step string, mainStep bool, a *vkit.Agent, cl *vkit.ClientSpec, scopes []string) []*issuance {
	e.rotate(mainStep)
	t0 := time.Now()
	r := a.Token(url.Values{"grant_type": {vkit.GCC}, "scope": {strings.Join(scopes, " ")}}, e.cred(a, cl))
	t1 := time.Now()
	if !e.checkResp(step, r) {
		return nil
	}
	if !r.Success() || r.JSON() == nil {
		if !e.refused(step, r) {
			e.fail("C06:flow-incomplete:"+step, "client_credentials refused: %s", r.Describe())
		}
		return nil
	}
	is := e.newIssuance(step, mainStep, "client_credentials", a, cl, t0, t1, fromJSON(r.JSON()))
	is.Sub, is.Granted, is.ReqAudience = cl.ID, scopes, []string{cl.ID}
	e.judge(is)
	return []*issuance{is}
}

// usable: the registrations with which the sequential check drives each flow (other combinations are refused by the
// library for reasons that are not this property's: e.g. the device token endpoint authenticates by basic auth only).
func usable(cl *vkit.ClientSpec, flow string) bool {
	switch flow {
	case "code":
		return cl.AppType != "user_agent"
	case "implicit_id", "implicit_id_token":
		return cl.AppType != "native"
	case "device":
		return cl.AuthMethod == "client_secret_basic" || (cl.AppType == "native" && cl.AuthMethod == "none")
	case "client_credentials":
		return cl.Service && (cl.AuthMethod == "client_secret_basic" || cl.AuthMethod == "client_secret_post")
	}
	return false
}

// earlier drives one earlier issuance of the case.
func (e *env) earlier(i int, s Earlier) {
	cl := e.cl
	if (s.Client == "other" || !usable(cl, s.Flow)) && e.other != nil {
		cl = e.other
	}
	if !usable(cl, s.Flow) {
		e.res.Label("earlier:skipped:client-unfit")
		return
	}
	step := "earlier:" + s.Flow
	nonce, state, note := e.nonce, e.state, e.note
	e.nonce, e.state, e.note = s.Nonce, "", fmt.Sprintf("#%d", i+1)
	defer func() { e.nonce, e.state, e.note = nonce, state, note }()
	if s.Bad != "" {
		e.bad = s.Bad
		e.hook.arm(s.Bad, s.BadAt)
		defer func() {
			e.bad = ""
			if e.hook.disarm() == 0 {
				// the custom scope never reached the storage during this issuance (not requested / removed by the client's restrictions)
				e.res.Label("unencodable-claim:not-reached")
			}
		}()
	}
	n0 := e.nIss
	switch s.Flow {
	case "code":
		e.codeFlow(step, false, e.pre, e.pre, cl, s.Scopes, s.User)
	case "implicit_id", "implicit_id_token":
		e.implicitFlow(step, false, e.pre, e.pre, cl, s.Flow, s.Scopes, s.User)
	case "device":
		e.deviceFlow(step, false, e.pre, e.pre, cl, s.Scopes, s.User)
	case "client_credentials":
		e.ccFlow(step, false, e.pre, cl, s.Scopes)
	}
	e.res.Label("earlier:" + s.Flow)
	if s.Bad != "" && e.nIss > n0 {
		if e.hook.reached() > 0 {
			e.res.Label("unencodable-claim:issued-anyway")
		}
	} else if s.Bad == "" && e.nIss > n0 {
		e.res.Label("earlier:judged")
	}
}

// runFlow drives the flow of the case for its client / user / scopes and returns the judged responses.
func (e *env) runFlow() []*issuance {
	c, cl := e.c, e.cl
	var all []*issuance
	switch c.Flow {
	case "code":
		if is, ok := e.codeFlow("code", true, e.pre, e.main, e.cl, c.Scopes, c.User); ok {
			all = append(all, is)
		}
	case "implicit_id", "implicit_id_token":
		all = e.implicitFlow("implicit", true, e.pre, e.main, e.cl, c.Flow, c.Scopes, c.User)
	case "refresh":
		all = e.refreshFlow()
	case "device":
		all = e.deviceFlow("device", true, e.pre, e.main, e.cl, c.Scopes, c.User)
	case "client_credentials":
		all = e.ccFlow("cc", true, e.main, e.cl, c.Scopes)
	case "jwt_bearer":
		now := time.Now()
		assertion := vkit.AssertionWith(cl.ID, cl.ID, []string{e.issuerOf(e.main)}, "ka", cl.Keys["ka"], now.Add(-5*time.Second), now.Add(5*time.Minute), nil)
		e.rotate(true)
		t0 := time.Now()
		r := e.main.Token(url.Values{"grant_type": {vkit.GBearer}, "assertion": {assertion}, "scope": {strings.Join(c.Scopes, " ")}}, vkit.Cred{Kind: "none"})
		t1 := time.Now()
		if e.checkResp("jwt_bearer", r) {
			if !r.Success() || r.JSON() == nil {
				if !e.faulted() {
					e.fail("C06:flow-incomplete:jwt_bearer", "jwt-bearer grant refused: %s", r.Describe())
				}
			} else {
				is := e.newIssuance("jwt_bearer", true, "jwt_bearer", e.main, nil, t0, t1, fromJSON(r.JSON()))
				is.ClientID, is.Skew = cl.ID, 0 // the grant has no registered client: the assertion issuer acts as client, without clock skew
				is.WantJWT = c.Extras && c.Policy.JWTProfileJWT
				is.Sub = cl.ID
				// the storage grants openid and the custom scope only
				for _, s := range c.Scopes {
					if s == "openid" || s == vkit.CustomScope {
						is.Granted = append(is.Granted, s)
					}
				}
				is.ReqAudience = []string{e.issuerOf(e.main)}
				is.AudCallerChosen = true
				e.judge(is)
				all = append(all, is)
			}
		}
	case "exchange":
		all = e.exchangeFlow()
	}
	mainSeen := false
	for _, is := range all {
		if is.Main {
			mainSeen = true
		}
	}
	if !mainSeen && len(e.res.Viol) == 0 && !e.slow && !e.skipped {
		e.res.Fail("C06:flow-incomplete:"+c.Flow, "flow %s produced no token response and no diagnosis", c.Flow)
	}
	return all
}

func run(c Case) (res *vkit.Result) {
	if c.Conc != nil {
		return runConc(c)
	}
	if c.IL != nil {
		return runIL(c)
	}
	res = &vkit.Result{}
	defer func() {
		if p := recover(); p != nil {
			res.Fail("C06:panic@"+vkit.FirstLibFrame(string(debug.Stack())), "panic outside a request: %v\n%s", p, debug.Stack())
		}
	}()
	cl := c.Client
	helper := newHelper()
	clients := []*vkit.ClientSpec{&cl, helper}
	var other *vkit.ClientSpec
	if c.Other != nil && c.Other.ID != cl.ID && c.Other.ID != helper.ID {
		o := *c.Other
		other = &o
		clients = append(clients, other)
	}
	hook := &claimHook{}
	st, sut, err := buildProvider(c, clients, hook)
	if err != nil {
		res.Fail("C06:harness-build", "provider could not be built from a valid spec: %v", err)
		return res
	}
	e := newEnv(c, res, st, sut, &cl, helper, other, hook)
	e.applyUse()

	// hygiene between cases: when a case with a refused (unencodable-claim) issuance FAILS, whatever that issuance left behind
	// in the runtime's pools (sync.Pool is emptied by two collections) must not make the shrinker's next candidates fail by
	// itself - inside this case it is exactly what the later responses are judged for. Costs nothing while the property holds.
	hadBad := false
	defer func() {
		if hadBad && len(res.Viol) > 0 {
			runtime.GC()
			runtime.GC()
		}
	}()
	for i, s := range c.Earlier {
		if i >= 6 {
			break
		}
		hadBad = hadBad || s.Bad != ""
		e.earlier(i, s)
	}
	all := e.runFlow()

	at := "opaque"
	if cl.JWTAccessToken {
		at = "jwt"
	}
	if c.Flow == "jwt_bearer" {
		at = "opaque"
		if c.Extras && c.Policy.JWTProfileJWT {
			at = "jwt"
		}
	}
	if c.Flow == "implicit_id" {
		at = "none"
	}
	res.Label("flow:"+c.Flow, "router:"+c.Router, "alg:"+c.Sign.Alg, fmt.Sprintf("skew:%d", cl.ClockSkewS), "issuer:"+c.Issuer.Mode)
	if len(c.OldKeys) > 0 {
		res.Label("published-keys>1")
	}
	if c.UseMode != "" {
		res.Label("published-use-absent:" + c.UseMode)
	}
	if c.Roll != nil {
		res.Label(fmt.Sprintf("key-roll:after=%d", c.Roll.After))
		if e.st.SignKey != c.Roll.Next {
			res.Label("key-roll:not-reached")
		}
	}
	if cl.UserinfoAssertion {
		res.Label("userinfo-assertion")
	}
	if c.Extras {
		res.Label("storage-extras")
	}
	if c.Issuer.PreHost != "" && c.Issuer.Mode != "static" {
		res.Label("issuer:split-host")
	}
	if c.OwnVerif != "" {
		res.Label("own-verifiers:config:" + c.OwnVerif)
	}
	if c.Rotate != nil && c.Rotate.Alg != c.Sign.Alg {
		res.Label("key-rotated:other-algorithm")
	}
	if f := c.Fault; f != nil {
		m := f.Method
		if m == "" {
			m = "k-th-call"
		}
		res.Label("fault:planned", "fault:planned:"+m, "fault:kind:"+f.Kind)
	}
	if e.slow {
		res.Grey = true
		res.Label("grey:slow-clock")
	}
	res.NonTrivial = c.Sign.Alg != "RS256" || cl.ClockSkewS > 0 || at == "jwt" || c.Flow != "code"
	variant := ""
	switch c.Flow {
	case "exchange":
		variant = c.TE.SubjectKind + ">" + c.TE.Requested + "/" + c.Policy.TE.DefaultType + fmt.Sprintf("/aud%d/actor=%v/imp=%v", len(c.TE.Audience), c.TE.Actor, c.Policy.TE.Impersonate != "")
	case "refresh":
		variant = fmt.Sprintf("rounds=%d/narrow=%v/persist=%v", c.Refresh.Rounds, c.Refresh.Narrow, c.Policy.NarrowPersists)
	case "implicit_id", "implicit_id_token":
		variant = c.ResponseMode
	}
	res.Key = fmt.Sprintf("%s|%s|%s|%s|%s|at=%s|skew=%d|life=%d|ttl=%d|ua=%v|%s|%s|xaud=%d|iss=%s/%v/%v|old=%d|x=%v|drop=%v/%v|nonce=%v",
		c.Router, c.Flow, variant, cl.AuthMethod, c.Sign.Alg, at, cl.ClockSkewS, cl.IDTokenLifetimeS, c.Policy.AccessTTLS, cl.UserinfoAssertion,
		strings.Join(c.Scopes, ","), cl.ID, len(c.Policy.ExtraAudience), c.Issuer.Mode, c.Issuer.PreHost != "", c.Issuer.FwdHost != "", len(c.OldKeys), c.Extras,
		cl.DropIDTokenScopes, cl.DropATScopes, c.Nonce != "") + fmt.Sprintf("|rot=%v", c.Rotate != nil) + rollKey(c)
	info := map[string]any{"responses": len(all)}
	for _, is := range all {
		if is.Main {
			info["issuer"] = is.Issuer
			info["observed"] = is.Observed
		}
	}
	res.Info = info
	return res
}

// rollKey is the distinctness class of the roll-over / published-use dimensions ("" for cases without them, so that the keys of older cases stay as they were).
func rollKey(c Case) string {
	out := ""
	if c.Roll != nil {
		out += fmt.Sprintf("|roll=%d>%s", c.Roll.After, c.Roll.Next.Alg)
	}
	if c.UseMode != "" {
		out += "|use=" + c.UseMode
	}
	if c.OwnVerif != "" {
		out += "|own=" + c.OwnVerif
	}
	if c.Rotate != nil && c.Rotate.Alg != c.Sign.Alg {
		out += "|rot>" + c.Rotate.Alg
	}
	if f := c.Fault; f != nil {
		out += fmt.Sprintf("|fault=%s#%d/%s@%d", f.Method, f.Call, f.Kind, f.At)
	}
	for i, s := range c.Earlier {
		if i == 0 {
			out += "|earlier="
		}
		out += fmt.Sprintf("%s/%s/%s/%s%s;", s.Flow, s.Client, strings.Join(s.Scopes, ","), s.Bad, s.BadAt)
	}
	return out
}

func (e *env) refreshFlow() []*issuance {
	c := e.c
	var all []*issuance
	first, ok := e.codeFlow("pre:code", false, e.pre, e.pre, e.cl, c.Scopes, c.User)
	if !ok {
		return all
	}
	all = append(all, first)
	rtok := first.Tokens.Refresh
	if rtok == "" {
		e.fail("C06:flow-incomplete:pre:code:token", "offline_access with the refresh grant did not yield a refresh token")
		return all
	}
	for i := 0; i < c.Refresh.Rounds; i++ {
		snap, found := e.st.RefreshSnapshot(rtok)
		if !found {
			e.fail("C06:flow-incomplete:refresh", "refresh token %q delivered to the client is unknown to the storage", rtok)
			return all
		}
		form := url.Values{"grant_type": {vkit.GRefr}, "refresh_token": {rtok}}
		granted := snap.Scopes
		if m := c.Refresh.Narrow[i]; m != 0 {
			var sub []string
			for j, s := range c.Scopes {
				if m&(1<<j) != 0 && has(snap.Scopes, s) {
					sub = append(sub, s)
				}
			}
			if len(sub) > 0 {
				form.Set("scope", strings.Join(sub, " "))
				granted = sub
				e.res.Label("refresh:narrowed")
			}
		}
		step := fmt.Sprintf("refresh#%d", i+1)
		e.rotate(true)
		t0 := time.Now()
		r := e.main.Token(form, e.cred(e.main, e.cl))
		t1 := time.Now()
		if !e.checkResp(step, r) {
			return all
		}
		if !r.Success() || r.JSON() == nil {
			if !e.faulted() {
				e.fail("C06:flow-incomplete:refresh", "%s refused: %s", step, r.Describe())
			}
			return all
		}
		is := e.newIssuance(step, true, "refresh", e.main, e.cl, t0, t1, fromJSON(r.JSON()))
		is.Sub = snap.Subject
		is.AuthTime = snap.AuthTime.Unix()
		is.AMR = snap.AMR
		is.Granted = granted
		is.ReqAudience = snap.Audience
		e.judge(is)
		all = append(all, is)
		rtok = is.Tokens.Refresh
		if rtok == "" {
			if i+1 < c.Refresh.Rounds {
				e.fail("C06:flow-incomplete:refresh", "%s returned no refresh token", step)
			}
			return all
		}
	}
	return all
}

func (e *env) deviceFlow(step string, mainStep bool, a0, a1 *vkit.Agent, cl *vkit.ClientSpec, scopes []string, user string) []*issuance {
	r := a0.DeviceAuthorize(strings.Join(scopes, " "), e.cred(a0, cl))
	if !e.checkResp(step+":authorize", r) {
		return nil
	}
	dc := r.Str("device_code")
	if !r.Success() || dc == "" {
		e.fail("C06:flow-incomplete:"+step+":authorize", "device authorization refused: %s", r.Describe())
		return nil
	}
	if !e.st.ApproveDevice(dc, user) {
		e.fail("C06:flow-incomplete:"+step+":authorize", "device code %q unknown to the storage", dc)
		return nil
	}
	state, _, _ := e.st.DeviceSnapshot(dc)
	e.rotate(mainStep)
	t0 := time.Now()
	tr := a1.Token(url.Values{"grant_type": {vkit.GDevice}, "device_code": {dc}}, e.cred(a1, cl))
	t1 := time.Now()
	if !e.checkResp(step+":token", tr) {
		return nil
	}
	if !tr.Success() && t1.Sub(t0) > time.Second {
		// the device token endpoint works under a 4 s deadline of its own: a stalled machine is not a finding
		e.slow = true
		e.res.Label("grey:device-poll-stalled")
		return nil
	}
	if !tr.Success() || tr.JSON() == nil {
		if !e.refused(step, tr) {
			e.fail("C06:flow-incomplete:"+step+":token", "device token request refused: %s", tr.Describe())
		}
		return nil
	}
	is := e.newIssuance(step, mainStep, "device", a1, cl, t0, t1, fromJSON(tr.JSON()))
	is.Sub = user
	is.AuthTime = state.AuthTime.Unix()
	is.AMR = state.AMR
	is.Granted = state.Scopes
	is.ReqAudience = []string{cl.ID}
	e.judge(is)
	return []*issuance{is}
}

const (
	ttAccess  = "urn:ietf:params:oauth:token-type:access_token"
	ttRefresh = "urn:ietf:params:oauth:token-type:refresh_token"
	ttID      = "urn:ietf:params:oauth:token-type:id_token"
)

func (e *env) exchangeFlow() []*issuance {
	c := e.c
	var all []*issuance
	// subject tokens are obtained by a helper client with JWT access tokens on the same issuer
	// (opaque subject tokens are excluded here: they crash the exchange, which is C09/C15's finding)
	subj, ok := e.codeFlow("pre:subject", false, e.main, e.main, e.helper, []string{"openid", "profile", "offline_access"}, c.User)
	if !ok {
		return all
	}
	all = append(all, subj)
	form := url.Values{"grant_type": {vkit.GTE}}
	switch c.TE.SubjectKind {
	case "access_jwt":
		form.Set("subject_token", subj.Tokens.Access)
		form.Set("subject_token_type", ttAccess)
	case "refresh":
		form.Set("subject_token", subj.Tokens.Refresh)
		form.Set("subject_token_type", ttRefresh)
	default:
		form.Set("subject_token", subj.Tokens.ID)
		form.Set("subject_token_type", ttID)
	}
	if form.Get("subject_token") == "" {
		e.fail("C06:flow-incomplete:pre:subject", "helper flow did not deliver the %s subject token", c.TE.SubjectKind)
		return all
	}
	actor := ""
	if c.TE.Actor {
		actorUser := "u3"
		if c.User == "u3" {
			actorUser = "u1"
		}
		act, ok := e.codeFlow("pre:actor", false, e.main, e.main, e.helper, []string{"openid"}, actorUser)
		if !ok {
			return all
		}
		all = append(all, act)
		form.Set("actor_token", act.Tokens.Access)
		form.Set("actor_token_type", ttAccess)
		actor = actorUser
	}
	requested := c.TE.Requested
	switch requested {
	case "access":
		form.Set("requested_token_type", ttAccess)
	case "refresh":
		form.Set("requested_token_type", ttRefresh)
	case "id":
		form.Set("requested_token_type", ttID)
	default:
		requested = c.Policy.TE.DefaultType
	}
	for _, a := range c.TE.Audience {
		form.Add("audience", a)
	}
	if len(c.TE.Scopes) > 0 {
		form.Set("scope", strings.Join(c.TE.Scopes, " "))
	}
	// the provider reads the presented tokens with its own verifiers: only tokens those are expected to accept are presented
	if (c.TE.SubjectKind != "refresh" && !e.ownReads(form.Get("subject_token"))) || (actor != "" && !e.ownReads(form.Get("actor_token"))) {
		return all
	}
	e.rotate(true)
	t0 := time.Now()
	r := e.main.Token(form, e.cred(e.main, e.cl))
	t1 := time.Now()
	if !e.checkResp("exchange", r) {
		return all
	}
	if !r.Success() || r.JSON() == nil {
		if !e.faulted() {
			e.fail("C06:flow-incomplete:exchange", "token exchange refused: %s", r.Describe())
		}
		return all
	}
	ts := fromJSON(r.JSON())
	if requested == "id" {
		// the ID token travels in the access_token member (RFC 8693 section 2.2.1)
		ts.ID, ts.Access = ts.Access, ""
	}
	is := e.newIssuance("exchange", true, "exchange", e.main, e.cl, t0, t1, ts)
	is.Requested = requested
	is.Sub = c.User
	if c.Policy.TE.Impersonate != "" {
		is.Sub = c.Policy.TE.Impersonate
	}
	is.AuthTimeNow = true
	is.Granted = without(c.TE.Scopes, c.Policy.TE.DropScopes)
	is.ReqAudience = c.TE.Audience
	is.AudCallerChosen = len(c.TE.Audience) > 0
	is.Actor = actor
	e.judge(is)
	all = append(all, is)
	return all
}

var prop = vkit.Prop[Case]{
	ID: "C06",
	Rule: "cases = flow (code, implicit id_token, implicit id_token token, refresh x 1-2 rounds x narrowing, device, client_credentials, jwt-bearer, token-exchange x subject token kind x requested type x audience x actor x impersonation) " +
		"x access token type (opaque/JWT) x 8 signing key kinds (+0-2 rotated-out published keys; optional rotation to another key of the same algorithm or to a key of any other of the 8 kinds (another family) right before the response under test, or a roll-over to a key of any of the 8 kinds that the storage performs by itself after 0-6 further reads of its signing key, i.e. before / between / after the key reads of one response or in a later response of the flow: every token must be self-consistent (header, signature, at_hash / c_hash hash function) under ONE of the keys in force during that response and verify over /keys) x `use` member of the published keys (all 'sig' / absent on all / absent on the signing keys / absent on the rotated-out keys) x client clock skew {0,1,30,300 s} x id-token lifetime x access-token TTL x scope set (with/without openid, custom scope) x userinfo-assertion flag " +
		"x client scope restrictions x extra audience x issuer strategy (static/host/forwarded, split hosts, Forwarded header forms) x provider crypto key x router x client auth method; every token of every response of the flow " +
		"(preparatory ones included) is verified with rp.VerifyTokens / op.VerifyAccessToken over the provider's /keys endpoint, put before the provider's OWN verifiers (op.VerifyAccessToken with Provider.AccessTokenVerifier, op.VerifyIDTokenHint with Provider.IDTokenHintVerifier, /userinfo, /introspect as the client the token was issued to) " +
		"x what the application configured for those verifiers (the first signing algorithm / nothing: library default RS256, ES256, PS256 / all 8; a token whose algorithm the configuration does not cover is grey there, and a token exchange presenting such a token is not driven), at every position of the sequence, i.e. before and after the signing key was replaced by a key of another algorithm, and re-derived independently (crypto/* signature, at_hash, c_hash, AES-CFB unsealing, claims vs. the storage's ground truth, time brackets with a 2 s guard). " +
		"In a quarter of the cases 1-3 EARLIER issuances (code / implicit / device / client_credentials, for users, scope sets, nonces and a second client of their own) run on the same provider and storage before the flow under test and are judged alike; " +
		"during about half of them the storage supplies a custom claim of the custom scope that encoding/json cannot encode (NaN, +Inf, chan, func, map[any]any, failing Marshaler, complex; inside the custom claim's object or as a claim of its own; " +
		"in the private claims of JWT access tokens and in the userinfo claims of id tokens): such an issuance may be refused (nothing asserted about it), every LATER response of the case must still carry only what belongs to its own request. " +
		"In a sixth of the cases the STORAGE FAILS during one issuing request of the flow under test (refresh: either round): every call of one method (Storage.SigningKey, KeySet, SignatureAlgorithms, GetPrivateClaimsFromScopes, SetUserinfoFromScopes, CreateAccessToken, CreateAccessAndRefreshTokens) or the 1st-12th storage call of that request whatever it is, " +
		"with an error value of 14 styles (plain, *oidc.Error, wrapped, context.DeadlineExceeded / Canceled plain and wrapped, the library's sentinels); such cases more often also carry earlier issuances and a rotation of the signing key (to the same or another algorithm), so that the failing request follows successful issuances under the previous key: " +
		"a faulted request answered with an error asserts nothing, whatever tokens it returns are judged by the unchanged oracle (signed with the key that is current NOW, verifying over /keys, claims, hashes, stored token). " +
		"Excluded: opaque subject tokens and requested_token_type=jwt in token exchange (crash / empty token: findings of C09/C15), form_post delivery (C11). " +
		"non-trivial = non-RS256 key, or skew>0, or JWT access token, or non-code flow; distinct = product cell",
	Gen: genCase,
	Run: run,
}

func TestRapid(t *testing.T)  { prop.Check(t) }
func TestReplay(t *testing.T) { prop.Replay(t) }
