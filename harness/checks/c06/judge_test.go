package c06

import (
	"context"
	"fmt"
	"math"
	"net/http"
	"net/url"
	"reflect"
	"strconv"
	"strings"
	"time"

	"github.com/zitadel/oidc/v3/pkg/client/rp"
	"github.com/zitadel/oidc/v3/pkg/oidc"
	"github.com/zitadel/oidc/v3/pkg/op"

	"verif/harness/vkit"
)

// tokenSet is what one response delivered to the client.
type tokenSet struct {
	Access, ID, Refresh string
	TokenType           string
	IssuedType          string
	Scope               string
	HasScope            bool
	ExpiresIn           int64
	HasExpiresIn        bool
}

func fromJSON(m map[string]any) tokenSet {
	var t tokenSet
	t.Access, _ = m["access_token"].(string)
	t.ID, _ = m["id_token"].(string)
	t.Refresh, _ = m["refresh_token"].(string)
	t.TokenType, _ = m["token_type"].(string)
	t.IssuedType, _ = m["issued_token_type"].(string)
	t.Scope, t.HasScope = m["scope"].(string)
	if f, ok := m["expires_in"].(float64); ok {
		t.ExpiresIn, t.HasExpiresIn = int64(f), true
	}
	return t
}

func fromParams(p url.Values) tokenSet {
	var t tokenSet
	t.Access, t.ID, t.Refresh = p.Get("access_token"), p.Get("id_token"), p.Get("refresh_token")
	t.TokenType = p.Get("token_type")
	t.Scope, t.HasScope = p.Get("scope"), p.Has("scope")
	if v := p.Get("expires_in"); v != "" {
		if n, err := strconv.ParseInt(v, 10, 64); err == nil {
			t.ExpiresIn, t.HasExpiresIn = n, true
		}
	}
	return t
}

// issuance = one token-bearing response plus what the model expects of it.
type issuance struct {
	Step     string
	Main     bool
	Kind     string // code | implicit_id | implicit_id_token | refresh | device | client_credentials | jwt_bearer | exchange
	Agent    *vkit.Agent
	Client   *vkit.ClientSpec // nil: jwt-bearer
	ClientID string
	Skew     int64
	WantJWT  bool
	Issuer   string
	T0, T1   time.Time
	Tokens   tokenSet
	Fragment bool
	Code     string // the code bound to this response

	Sub             string
	Nonce           string
	NonceAsserted   bool
	AuthTime        int64 // exact expected auth time (before skew); 0: none
	AuthTimeNow     bool  // auth time is the time of the request
	AMR             []string
	Granted         []string
	ReqAudience     []string
	AudCallerChosen bool
	Actor           string
	Requested       string

	Keys []vkit.SignKeySpec // the signing keys in force while this response was produced (one, or two around a roll-over)

	Observed map[string]any
}

func (e *env) newIssuance(step string, mainStep bool, kind string, a *vkit.Agent, cl *vkit.ClientSpec, t0, t1 time.Time, ts tokenSet) *issuance {
	is := &issuance{Step: step + e.note, Main: mainStep, Kind: kind, Agent: a, Client: cl, T0: t0, T1: t1, Tokens: ts, Issuer: e.issuerOf(a), Observed: map[string]any{}}
	is.Keys = e.signingKeysOf()
	if cl != nil {
		is.ClientID, is.Skew, is.WantJWT = cl.ID, int64(cl.ClockSkewS), cl.JWTAccessToken
	}
	return is
}

const guard = 2 // seconds (DESIGN 3.3)

func (e *env) keySet(a *vkit.Agent) oidc.KeySet {
	hc := &http.Client{Transport: inproc{e.sut.Handler}}
	return rp.NewRemoteKeySet(hc, "http://"+a.Host+e.sut.Paths["keys"])
}

// checkSignature: header alg / kid are those of a signing key in force for this response (the current one; around a roll-over the
// one before or after the switch) and the signature verifies with that very key (crypto/* only). Returns the key the token
// claims to be signed with: everything else in the token (at_hash, c_hash) is judged against that key's algorithm.
func (e *env) checkSignature(is *issuance, what string, j *jwt) vkit.SignKeySpec {
	alg, _ := j.Header["alg"].(string)
	kid, _ := j.Header["kid"].(string)
	cur := is.Keys[len(is.Keys)-1]
	var byAlg *vkit.SignKeySpec
	for i := range is.Keys {
		k := &is.Keys[i]
		if k.Alg == alg && (byAlg == nil || k.KID == kid) {
			byAlg = k
		}
	}
	if byAlg == nil {
		e.fail("C06:sig-alg:"+what, "%s: %s signed with alg %q, the provider's signing key is %s", is.Step, what, alg, describeKeys(is.Keys))
		return cur
	}
	k := *byAlg
	if kid != k.KID {
		e.fail("C06:sig-kid:"+what, "%s: %s carries kid %q, the signing key is %s", is.Step, what, kid, describeKeys(is.Keys))
	}
	if err := verifyJWS(alg, vkit.Key(k.KeyName).Pub, j.Input, j.Sig); err != nil {
		e.fail("C06:sig-invalid:"+what, "%s: %s (alg %s, kid %q) does not verify with the signing key %s/%s it names: %v", is.Step, what, alg, kid, k.KeyName, k.KID, err)
	}
	if len(is.Keys) > 1 {
		if k == is.Keys[0] {
			e.res.Label("key-roll:token-under-old-key:" + what)
		} else {
			e.res.Label("key-roll:token-under-new-key:" + what)
		}
	}
	is.Observed[what+"_key"] = k.KID + "/" + k.Alg
	return k
}

func describeKeys(ks []vkit.SignKeySpec) string {
	var out []string
	for _, k := range ks {
		out = append(out, fmt.Sprintf("%s/%s (kid %q)", k.KeyName, k.Alg, k.KID))
	}
	if len(out) > 1 {
		return strings.Join(out, " rolled over to ") + " during this response"
	}
	return out[0]
}

// hashBits is the size of the hash at_hash / c_hash are built with under alg (OIDC Core 3.1.3.6; EdDSA/Ed25519: SHA-512).
func hashBits(alg string) int {
	switch {
	case strings.HasSuffix(alg, "256"):
		return 256
	case strings.HasSuffix(alg, "384"):
		return 384
	}
	return 512
}

// timeOK reports whether time-dependent sub-claims may be asserted for this response (DESIGN 3.3).
func (e *env) timeOK(is *issuance) bool {
	if is.T1.Sub(is.T0) > time.Second {
		e.slow = true
		return false
	}
	return true
}

func within(v, lo, hi int64) bool { return v >= lo && v <= hi }

func (e *env) judge(is *issuance) {
	e.nIss++
	ts := is.Tokens
	kind := is.Kind

	// ---------------- access token
	var stored *vkit.AccessTok
	if ts.Access != "" {
		isJWT := strings.Count(ts.Access, ".") == 2
		switch {
		case isJWT && !is.WantJWT:
			e.fail("C06:at-type:"+kind, "%s: access token is a JWT although the client is configured for opaque tokens", is.Step)
		case !isJWT && is.WantJWT:
			e.fail("C06:at-type:"+kind, "%s: access token is opaque although JWT access tokens are configured", is.Step)
		}
		if isJWT {
			stored = e.judgeJWTAccess(is)
			e.res.Label("at:jwt:" + kind)
		} else {
			stored = e.judgeOpaque(is)
			e.res.Label("at:opaque:" + kind)
		}
		if stored != nil {
			// expires_in and scope agree with what was stored
			if !ts.HasExpiresIn {
				e.fail("C06:expires_in-missing:"+kind, "%s: response with an access token has no expires_in", is.Step)
			} else if e.timeOK(is) {
				want := float64(stored.Exp.Unix()) + float64(stored.Exp.Nanosecond())/1e9 + float64(is.Skew)
				lo := int64(math.Floor(want-float64(is.T1.UnixNano())/1e9)) - guard
				hi := int64(math.Ceil(want-float64(is.T0.UnixNano())/1e9)) + guard
				if !within(ts.ExpiresIn, lo, hi) {
					e.fail("C06:expires_in:"+kind, "%s: expires_in=%d but stored expiry + skew(%ds) - now is in [%d,%d] (stored TTL %ds, id-token lifetime %ds)", is.Step, ts.ExpiresIn, is.Skew, lo+guard, hi-guard, e.c.Policy.AccessTTLS, idtLifetime(is.Client))
				}
			}
			got := strings.Fields(ts.Scope)
			if !reflect.DeepEqual(got, append([]string{}, stored.Scopes...)) && !(len(got) == 0 && len(stored.Scopes) == 0) {
				if is.Fragment && strings.Contains(ts.Scope, "%") {
					// fragment delivery escapes twice (C11's finding); the scope value cannot be compared there
					e.res.Label("grey:scope-double-escaped-fragment")
				} else {
					e.fail("C06:scope:"+kind, "%s: response scope %q but the stored token has scopes %v", is.Step, ts.Scope, stored.Scopes)
				}
			}
			e.judgeUserinfo(is, stored)
			e.judgeIntrospect(is, stored)
		}
	}

	// ---------------- id token
	if ts.ID != "" {
		e.judgeIDToken(is)
		e.res.Label("idt:" + kind)
	} else {
		switch kind {
		case "code", "implicit_id", "implicit_id_token":
			if has(is.Granted, "openid") {
				e.fail("C06:missing-id-token:"+kind, "%s: openid request answered without an id_token", is.Step)
			}
		case "exchange":
			if is.Requested == "id" {
				e.fail("C06:missing-id-token:"+kind, "%s: id_token requested, none returned", is.Step)
			}
		}
	}
	if ts.Access == "" {
		switch kind {
		case "implicit_id":
		case "exchange":
			if is.Requested != "id" {
				e.fail("C06:missing-access-token:"+kind, "%s: no access token in the response", is.Step)
			}
		default:
			e.fail("C06:missing-access-token:"+kind, "%s: no access token in the response", is.Step)
		}
	}
	if ts.Refresh != "" {
		e.res.Label("rt:" + kind)
	}
}

func idtLifetime(cl *vkit.ClientSpec) int64 {
	if cl == nil {
		return 0
	}
	if cl.IDTokenLifetimeS > 0 {
		return int64(cl.IDTokenLifetimeS)
	}
	return 3600
}

// judgeOpaque: the opaque token unseals with the provider key (only) to "<stored token id>:<subject>".
func (e *env) judgeOpaque(is *issuance) *vkit.AccessTok {
	tok := is.Tokens.Access
	plain, err := unseal(tok, e.key)
	if err != nil {
		e.fail("C06:opaque-unseal:"+is.Kind, "%s: opaque access token %q cannot be unsealed: %v", is.Step, tok, err)
		return nil
	}
	i := strings.Index(plain, ":")
	if i < 0 {
		e.fail("C06:opaque-shape:"+is.Kind, "%s: opaque access token unseals to %q, not <token id>:<subject>", is.Step, plain)
		return nil
	}
	id, sub := plain[:i], plain[i+1:]
	snap, found := e.st.TokenSnapshot(id)
	if !found {
		e.fail("C06:opaque-shape:"+is.Kind, "%s: opaque access token unseals to %q; %q is not a stored token id", is.Step, plain, id)
		return nil
	}
	if sub != snap.Subject || sub != is.Sub {
		e.fail("C06:opaque-subject:"+is.Kind, "%s: opaque access token unseals to %q; stored subject %q, subject of the request %q", is.Step, plain, snap.Subject, is.Sub)
	}
	// not with another key, and not readable without one
	other := providerKey(e.c.CryptoKey ^ 0x33)
	if p2, err := unseal(tok, other); err == nil && p2 == plain {
		e.fail("C06:opaque-other-key", "%s: opaque access token unseals with a different key", is.Step)
	}
	if raw, err := vkit.UnB64(tok); err == nil && strings.Contains(string(raw), plain) {
		e.fail("C06:opaque-plaintext", "%s: opaque access token carries %q in the clear", is.Step, plain)
	}
	is.Observed["opaque"] = plain
	e.res.Label("opaque-unsealed-ok")
	return &snap
}

func (e *env) judgeJWTAccess(is *issuance) *vkit.AccessTok {
	kind := is.Kind
	tok := is.Tokens.Access
	j, err := parseJWT(tok)
	if err != nil {
		e.fail("C06:jwt-malformed:at", "%s: JWT access token malformed: %v", is.Step, err)
		return nil
	}
	is.Observed["at"] = j.Claims
	key := e.checkSignature(is, "at", j)

	e.ownVerifyAT(is, tok, j)

	// the library's own verifier over the published key set
	func() {
		if e.tl != nil && e.tl.isRetired(key.KID) {
			// the issuance overlapped a rotation that retired the key it had read: nothing is said about such a token
			e.res.Label("grey:lib-verify-skipped:key-retired-during-issuance")
			return
		}
		defer e.recoverLib(is.Step + ": op.VerifyAccessToken")
		v := op.NewAccessTokenVerifier(is.Issuer, e.keySet(is.Agent), op.WithSupportedAccessTokenSigningAlgorithms(key.Alg))
		claims, err := op.VerifyAccessToken[*oidc.AccessTokenClaims](context.Background(), tok, v)
		if err != nil {
			e.fail("C06:lib-verify-at:"+kind, "%s: op.VerifyAccessToken(issuer %q, /keys) rejects the JWT access token the OP just issued: %v", is.Step, is.Issuer, err)
		} else if claims.Subject != j.str("sub") {
			e.fail("C06:lib-verify-at:"+kind, "%s: op.VerifyAccessToken returns subject %q, payload says %q", is.Step, claims.Subject, j.str("sub"))
		} else {
			e.res.Label("op.VerifyAccessToken-ok")
		}
	}()

	if got := j.str("iss"); got != is.Issuer {
		e.fail("C06:iss:at:"+e.c.Issuer.Mode, "%s: JWT access token iss=%q, issuer of the request is %q", is.Step, got, is.Issuer)
	}
	if got := j.str("sub"); got != is.Sub {
		e.fail("C06:sub:at:"+kind, "%s: JWT access token sub=%q, subject of the request is %q", is.Step, got, is.Sub)
	}
	if got := j.str("client_id"); got != is.ClientID {
		e.fail("C06:client_id:at:"+kind, "%s: JWT access token client_id=%q, client is %q", is.Step, got, is.ClientID)
	}
	aud, ok := j.aud()
	if !ok {
		e.fail("C06:jwt-malformed:at-aud", "%s: JWT access token aud has a wrong shape: %v", is.Step, j.Claims["aud"])
	} else {
		wantAud := is.ReqAudience
		if len(wantAud) == 0 {
			wantAud = []string{is.ClientID}
		}
		if is.AudCallerChosen && !has(wantAud, is.ClientID) {
			// the caller named the audience (RFC 8693 audience parameter / RFC 7523 assertion audience): whether the client must
			// also be added to an *access* token is left open; only "the audience is the requested one" is asserted
			e.res.Label("grey:at-aud-caller-chosen:" + kind)
			if !sameSet(aud, wantAud) && !sameSet(aud, append([]string{is.ClientID}, wantAud...)) {
				e.fail("C06:aud:at:"+kind, "%s: JWT access token aud=%v, requested audience %v", is.Step, aud, wantAud)
			}
		} else {
			if !has(aud, is.ClientID) {
				e.fail("C06:aud-missing-client:at:"+kind, "%s: JWT access token aud=%v does not contain the client %q", is.Step, aud, is.ClientID)
			}
			if !sameSet(aud, wantAud) {
				e.fail("C06:aud:at:"+kind, "%s: JWT access token aud=%v, audience of the underlying request %v", is.Step, aud, wantAud)
			}
		}
	}

	var stored *vkit.AccessTok
	if snap, found := e.st.TokenSnapshot(j.str("jti")); !found {
		e.fail("C06:jti:at:"+kind, "%s: JWT access token jti=%q is not a stored token id", is.Step, j.str("jti"))
	} else {
		stored = &snap
		if snap.Subject != j.str("sub") {
			e.fail("C06:sub:at:"+kind, "%s: JWT access token sub=%q but token %s is stored for %q", is.Step, j.str("sub"), snap.ID, snap.Subject)
		}
	}

	// time: iat (= nbf) is now - skew; exp is the stored expiry
	iat, okIat := j.num("iat")
	exp, okExp := j.num("exp")
	if !okIat || !okExp {
		e.fail("C06:jwt-malformed:at-time", "%s: JWT access token iat/exp missing or not integral: iat=%v exp=%v", is.Step, j.Claims["iat"], j.Claims["exp"])
	} else {
		if e.timeOK(is) {
			lo, hi := is.T0.Unix()-is.Skew-guard, is.T1.Unix()-is.Skew+guard
			if !within(iat, lo, hi) {
				e.fail("C06:at-iat:"+kind, "%s: JWT access token iat=%d, expected now - skew(%ds) in [%d,%d]", is.Step, iat, is.Skew, lo, hi)
			}
			if nbf, ok := j.num("nbf"); ok && !within(nbf, lo, hi) {
				e.fail("C06:at-nbf:"+kind, "%s: JWT access token nbf=%d, expected now - skew(%ds) in [%d,%d]", is.Step, nbf, is.Skew, lo, hi)
			}
		}
		if stored != nil {
			se := stored.Exp.Unix()
			if exp != se && exp != se+is.Skew {
				e.fail("C06:at-exp:"+kind, "%s: JWT access token exp=%d, stored expiry %d (skew %ds)", is.Step, exp, se, is.Skew)
			}
		}
	}

	// claims only for granted scopes
	granted := is.Granted
	if is.Client != nil && kind != "exchange" {
		// scopes the client's access-token restriction removes are not granted to the token
		// (token exchange: the library hands the claims of the exchanged token to the TokenExchangeStorage with the request's scopes)
		granted = without(granted, is.Client.DropATScopes)
	}
	e.judgeUserClaims(is, "at", j, granted, true)
	return stored
}

func (e *env) recoverLib(where string) {
	if p := recover(); p != nil {
		e.fail("C06:panic@verifier", "%s panicked: %v", where, p)
	}
}

// judgeUserClaims: every user claim present is one of a granted scope and carries the value of the subject.
func (e *env) judgeUserClaims(is *issuance, what string, j *jwt, granted []string, accessToken bool) {
	for name, val := range j.Claims {
		if registeredClaims[name] {
			continue
		}
		switch name {
		case "from_request":
			if !e.c.Extras {
				e.fail("C06:claim-unexpected:"+what+":"+name, "%s: %s carries %s=%v although the storage has no *FromRequest capability", is.Step, what, name, val)
			} else if val != is.ClientID {
				e.fail("C06:claim-value:"+what+":"+name, "%s: %s carries %s=%v, client is %q", is.Step, what, name, val, is.ClientID)
			}
			continue
		case "act":
			want := map[string]any{"sub": is.Actor}
			if is.Actor == "" {
				e.fail("C06:claim-unexpected:"+what+":"+name, "%s: %s carries act=%v without an actor token", is.Step, what, val)
			} else if !reflect.DeepEqual(val, want) {
				e.fail("C06:claim-value:"+what+":"+name, "%s: %s carries act=%v, actor is %q", is.Step, what, val, is.Actor)
			}
			continue
		}
		scope, known := claimScope[name]
		if !known {
			e.res.Label("claim-outside-model:" + name)
			continue
		}
		if !has(granted, scope) {
			e.fail("C06:claim-ungranted:"+what+":"+name, "%s: %s carries %s=%v but scope %q was not granted (granted: %v)", is.Step, what, name, val, scope, granted)
			continue
		}
		if accessToken && name != vkit.CustomClaim {
			e.fail("C06:claim-unexpected:"+what+":"+name, "%s: JWT access token carries user claim %s=%v", is.Step, name, val)
			continue
		}
		want, ok := expectedUserClaim(name, is.Sub, is.ClientID, accessToken)
		if !ok {
			e.fail("C06:claim-unexpected:"+what+":"+name, "%s: %s carries %s=%v for subject %q which has no such attribute", is.Step, what, name, val, is.Sub)
			continue
		}
		if !reflect.DeepEqual(val, want) {
			e.fail("C06:claim-value:"+what+":"+name, "%s: %s carries %s=%v, the subject %q has %v", is.Step, what, name, val, is.Sub, want)
		}
		e.res.Label("claim:" + what + ":" + scope)
	}
}

func (e *env) judgeIDToken(is *issuance) {
	kind := is.Kind
	tok := is.Tokens.ID
	j, err := parseJWT(tok)
	if err != nil {
		e.fail("C06:jwt-malformed:idt", "%s: id token malformed: %v", is.Step, err)
		return
	}
	is.Observed["idt"] = j.Claims
	idtKey := e.checkSignature(is, "idt", j)
	alg := idtKey.Alg
	cl := is.Client
	e.ownVerifyHint(is, tok, j)

	// scopes the id token may draw user claims from
	idtScopes := is.Granted
	if cl != nil && kind != "exchange" {
		// (token exchange: claims come from TokenExchangeStorage.SetUserinfoFromTokenExchangeRequest, which sees the request's scopes)
		idtScopes = without(idtScopes, cl.DropIDTokenScopes)
	}
	effective := idtScopes
	if is.Tokens.Access != "" && cl != nil && !cl.UserinfoAssertion {
		effective = without(effective, userinfoScopes)
	}
	// the storage fills in the subject only with the openid scope: a userinfo lookup for scopes without it blanks `sub`
	subBlanked := kind != "exchange" && len(effective) > 0 && !has(effective, "openid")

	sub := j.str("sub")
	subOK := true
	if sub != is.Sub {
		subOK = false
		if sub == "" && subBlanked {
			e.fail("C06:idt-sub-blanked-without-openid", "%s: id token has no sub: the userinfo scopes %v (request scopes %v) do not contain openid, the subject %q set from the request is overwritten with the empty one", is.Step, effective, is.Granted, is.Sub)
		} else {
			e.fail("C06:sub:idt:"+kind, "%s: id token sub=%q, subject of the underlying request is %q", is.Step, sub, is.Sub)
		}
	}

	// the library's own verifier over the published key set
	func() {
		if e.tl != nil && e.tl.isRetired(idtKey.KID) {
			e.res.Label("grey:lib-verify-skipped:key-retired-during-issuance")
			return
		}
		defer e.recoverLib(is.Step + ": rp.VerifyTokens")
		v := rp.NewIDTokenVerifier(is.Issuer, is.ClientID, e.keySet(is.Agent), rp.WithSupportedSigningAlgorithms(alg),
			rp.WithNonce(func(context.Context) string { return is.Nonce }))
		var err error
		var claims *oidc.IDTokenClaims
		if is.Tokens.Access != "" {
			claims, err = rp.VerifyTokens[*oidc.IDTokenClaims](context.Background(), is.Tokens.Access, tok, v)
		} else {
			claims, err = rp.VerifyIDToken[*oidc.IDTokenClaims](context.Background(), tok, v)
		}
		if err != nil {
			if !subOK && strings.Contains(err.Error(), oidc.ErrSubjectMissing.Error()) {
				return // already reported with its own root cause
			}
			e.fail("C06:lib-verify-idt:"+kind, "%s: rp verifier (issuer %q, client %q, nonce %q, /keys) rejects the id token the OP just issued: %v", is.Step, is.Issuer, is.ClientID, is.Nonce, err)
		} else if claims.Subject != sub {
			e.fail("C06:lib-verify-idt:"+kind, "%s: rp verifier returns subject %q, payload says %q", is.Step, claims.Subject, sub)
		} else if is.Tokens.Access != "" {
			e.res.Label("rp.VerifyTokens-ok")
		} else {
			e.res.Label("rp.VerifyIDToken-ok")
		}
	}()

	if got := j.str("iss"); got != is.Issuer {
		e.fail("C06:iss:idt:"+e.c.Issuer.Mode, "%s: id token iss=%q, issuer of the request is %q", is.Step, got, is.Issuer)
	}
	aud, ok := j.aud()
	if !ok {
		e.fail("C06:jwt-malformed:idt-aud", "%s: id token aud has a wrong shape: %v", is.Step, j.Claims["aud"])
	} else {
		if !has(aud, is.ClientID) {
			e.fail("C06:aud-missing-client:idt:"+kind, "%s: id token aud=%v does not contain the client %q", is.Step, aud, is.ClientID)
		}
		if !sameSet(aud, append([]string{is.ClientID}, is.ReqAudience...)) {
			e.fail("C06:aud:idt:"+kind, "%s: id token aud=%v, audience of the underlying request %v plus the client", is.Step, aud, is.ReqAudience)
		}
		if len(aud) > 1 {
			e.res.Label("idt:multi-aud")
		}
	}
	if got := j.str("azp"); got != is.ClientID {
		e.fail("C06:azp:"+kind, "%s: id token azp=%q, client is %q (aud %v)", is.Step, got, is.ClientID, aud)
	}
	if is.NonceAsserted {
		if got := j.str("nonce"); got != is.Nonce {
			e.fail("C06:nonce:"+kind, "%s: id token nonce=%q, the request carried %q", is.Step, got, is.Nonce)
		}
		if is.Nonce != "" {
			e.res.Label("idt:nonce")
		}
	}
	amr, ok := j.strs("amr")
	if !ok || !reflect.DeepEqual(append([]string{}, amr...), append([]string{}, is.AMR...)) {
		e.fail("C06:amr:"+kind, "%s: id token amr=%v, the underlying request has %v", is.Step, j.Claims["amr"], is.AMR)
	}

	iat, okIat := j.num("iat")
	exp, okExp := j.num("exp")
	life := idtLifetime(cl)
	timeOK := e.timeOK(is)
	if !okIat || !okExp {
		e.fail("C06:jwt-malformed:idt-time", "%s: id token iat/exp missing or not integral: iat=%v exp=%v", is.Step, j.Claims["iat"], j.Claims["exp"])
	} else if timeOK {
		lo, hi := is.T0.Unix()-is.Skew-guard, is.T1.Unix()-is.Skew+guard
		if !within(iat, lo, hi) {
			e.fail("C06:idt-iat:"+kind, "%s: id token iat=%d, expected now - skew(%ds) in [%d,%d]", is.Step, iat, is.Skew, lo, hi)
		}
		lo, hi = is.T0.Unix()+is.Skew+life-guard, is.T1.Unix()+is.Skew+life+guard
		if !within(exp, lo, hi) {
			e.fail("C06:idt-exp:"+kind, "%s: id token exp=%d, expected now + skew(%ds) + lifetime(%ds) in [%d,%d] (access token TTL %ds)", is.Step, exp, is.Skew, life, lo, hi, e.c.Policy.AccessTTLS)
		}
		if d := exp - iat; !within(d, life+2*is.Skew-guard, life+2*is.Skew+guard) {
			e.fail("C06:idt-lifetime:"+kind, "%s: id token exp-iat=%d, expected lifetime(%ds) + 2*skew(%ds)", is.Step, d, life, is.Skew)
		}
	}
	at, okAT := j.num("auth_time")
	switch {
	case is.AuthTimeNow:
		if timeOK {
			lo, hi := is.T0.Unix()-is.Skew-guard, is.T1.Unix()-is.Skew+guard
			if !okAT || !within(at, lo, hi) {
				e.fail("C06:auth_time:"+kind, "%s: id token auth_time=%v, expected time of the request - skew(%ds) in [%d,%d]", is.Step, j.Claims["auth_time"], is.Skew, lo, hi)
			}
		}
	case is.AuthTime != 0:
		if !okAT || at != is.AuthTime-is.Skew {
			e.fail("C06:auth_time:"+kind, "%s: id token auth_time=%v, the underlying request authenticated at %d (skew %ds => %d)", is.Step, j.Claims["auth_time"], is.AuthTime, is.Skew, is.AuthTime-is.Skew)
		}
	}

	// at_hash / c_hash bind to what was delivered with this response
	atHash, cHash := j.str("at_hash"), j.str("c_hash")
	if is.Tokens.Access != "" {
		want := vkit.LeftHalfHash(alg, is.Tokens.Access)
		switch {
		case atHash == "":
			e.fail("C06:at_hash-missing:"+kind, "%s: id token delivered with an access token has no at_hash", is.Step)
		case atHash != want:
			e.fail("C06:at_hash-wrong:"+kind, "%s: id token at_hash=%q, left half of %s hash of the delivered access token is %q", is.Step, atHash, alg, want)
		}
	} else if atHash != "" {
		e.fail("C06:at_hash-unbound:"+kind, "%s: id token has at_hash=%q but no access token was delivered", is.Step, atHash)
	}
	if is.Code != "" {
		want := vkit.LeftHalfHash(alg, is.Code)
		switch {
		case cHash == "":
			e.fail("C06:c_hash-missing:"+kind, "%s: id token issued for a code has no c_hash", is.Step)
		case cHash != want:
			e.fail("C06:c_hash-wrong:"+kind, "%s: id token c_hash=%q, left half of %s hash of the code is %q", is.Step, cHash, alg, want)
		}
	} else if cHash != "" {
		e.fail("C06:c_hash-unbound:"+kind, "%s: id token has c_hash=%q but no code belongs to this response", is.Step, cHash)
	}

	// scopes the client's id-token restriction removes are not granted to the id token
	e.judgeUserClaims(is, "idt", j, idtScopes, false)
	if !has(is.Granted, "openid") {
		e.res.Label("idt:no-openid")
	}
}

// judgeUserinfo: the provider's own reader of access tokens (decrypt / verify + storage lookup) honours the fresh token.
func (e *env) judgeUserinfo(is *issuance, stored *vkit.AccessTok) {
	if ok, why := e.ownCovers(is.Tokens.Access); !ok {
		// the provider's own access-token verifier accepts what the application configured (Case.OwnVerif; vkit.Build: the algorithm
		// of the first signing key only): that it refuses a token of another algorithm is this configuration, not a property of the token
		e.res.Label("grey:userinfo-skipped:" + why)
		return
	}
	r := is.Agent.UserInfo(is.Tokens.Access)
	if r.Panic != nil {
		e.fail("C06:panic@"+r.PanicFrame(), "%s: userinfo panicked: %v", is.Step, r.Panic)
		return
	}
	if !r.Success() {
		e.fail("C06:userinfo-rejects:"+is.Kind, "%s: /userinfo refuses the access token the OP just issued: %s", is.Step, r.Describe())
		return
	}
	// user-backed tokens: the storage answers with the subject only under the openid scope
	if _, user := vkit.Users[stored.Subject]; (!user || has(stored.Scopes, "openid")) && r.Str("sub") != stored.Subject {
		e.fail("C06:userinfo-subject:"+is.Kind, "%s: /userinfo answers sub=%q for the token of %q", is.Step, r.Str("sub"), stored.Subject)
	}
	e.res.Label("userinfo-ok")
}

var _ = fmt.Sprint
