package c06

// Concurrent issuance: an OP serves many token requests at the same time. Several workers, released by a barrier, each drive
// complete flows for a client, user, scope set and nonce of their own against ONE provider and ONE storage; every token of
// every response is judged by the oracle of the sequential check against ITS OWN request (subject, nonce, at_hash / c_hash
// of the same response, claims of the granted scopes of that user / client, aud / azp, stored token). The judging itself
// (the /keys and /userinfo requests of the library's verifiers) runs inside the workers and adds to the traffic.
// TestConcurrent is run from a -race binary (check.json "race_tests"; a data race inside the library kills the process and
// the driver reports the case on disk), TestConcurrentFast from the plain binary with more cases.

import (
	"fmt"
	"runtime/debug"
	"sort"
	"strings"
	"sync"
	"testing"

	"pgregory.net/rapid"

	"verif/harness/vkit"
)

// Worker is one concurrent driver: its flow is repeated Rounds times.
type Worker struct {
	Flow         string          `json:"flow"`
	Client       vkit.ClientSpec `json:"client"`
	Scopes       []string        `json:"scopes"`
	User         string          `json:"user"`
	Nonce        string          `json:"nonce,omitempty"`
	State        string          `json:"state,omitempty"`
	ResponseMode string          `json:"response_mode,omitempty"`
	Refresh      RefreshCfg      `json:"refresh"`
	TE           TECfg           `json:"te"`
	Rounds       int             `json:"rounds"`
}

type Conc struct {
	Workers []Worker `json:"workers"`
}

func genConc(t *rapid.T) Case {
	var c Case
	c.Router = rapid.SampledFrom([]string{"provider", "legacy"}).Draw(t, "router")
	c.Sign.Alg = rapid.SampledFrom(algKinds).Draw(t, "alg")
	c.Sign.KeyName = rapid.SampledFrom(keysFor(c.Sign.Alg)).Draw(t, "key")
	c.Sign.KID = rapid.SampledFrom([]string{"sig-1", "k2"}).Draw(t, "kid")
	c.CryptoKey = byte(rapid.SampledFrom([]int{0, 0x5a}).Draw(t, "cryptokey"))
	is := &c.Issuer
	is.Mode = rapid.SampledFrom([]string{"static", "host"}).Draw(t, "issmode")
	is.Host = "op.example.com"
	if is.Mode == "static" {
		is.Value = rapid.SampledFrom([]string{"https://op.example.com", "https://issuer.example.net:9443/a/b"}).Draw(t, "issuer")
	} else {
		is.Value = rapid.SampledFrom([]string{"", "/t/tenant-1"}).Draw(t, "isspath")
	}
	p := &c.Policy
	p.AccessTTLS = rapid.SampledFrom([]int{60, 300, 7200}).Draw(t, "attl")
	p.ExtraAudience = rapid.SampledFrom([][]string{nil, nil, {"api.example.com"}}).Draw(t, "xaud")
	p.NarrowPersists = rapid.Bool().Draw(t, "narrowpersists")
	c.Extras = rapid.IntRange(0, 3).Draw(t, "extras") == 3
	p.JWTProfileJWT = rapid.Bool().Draw(t, "jbjwt")
	p.TE.DefaultType = rapid.SampledFrom([]string{"access", "refresh", "id"}).Draw(t, "tedefault")

	cc := &Conc{}
	k := rapid.IntRange(2, 8).Draw(t, "workers")
	off := rapid.IntRange(0, len(vkit.AllUserIDs)-1).Draw(t, "useroffset")
	for g := 0; g < k; g++ {
		pre := fmt.Sprintf("w%d-", g)
		var w Worker
		w.Flow = rapid.SampledFrom(flows).Draw(t, pre+"flow")
		w.Client = genClient(t, pre, fmt.Sprintf("w%d-client", g), w.Flow)
		w.Scopes = genScopes(t, w.Flow)
		if rapid.IntRange(0, 1).Draw(t, pre+"custom") == 1 && !has(w.Scopes, vkit.CustomScope) {
			w.Scopes = append(w.Scopes, vkit.CustomScope)
		}
		w.User = vkit.AllUserIDs[(g+off)%len(vkit.AllUserIDs)]
		if rapid.IntRange(0, 3).Draw(t, pre+"nonce") > 0 || strings.HasPrefix(w.Flow, "implicit") {
			w.Nonce = fmt.Sprintf("nonce-of-worker-%d", g)
		}
		if rapid.Bool().Draw(t, pre+"state") {
			w.State = fmt.Sprintf("st-%d", g)
		}
		if strings.HasPrefix(w.Flow, "implicit") {
			w.ResponseMode = rapid.SampledFrom([]string{"", "fragment", "query"}).Draw(t, pre+"rm")
		}
		if w.Flow == "refresh" {
			w.Refresh.Rounds = rapid.IntRange(1, 2).Draw(t, pre+"rrounds")
			for i := 0; i < w.Refresh.Rounds; i++ {
				m := 0
				if rapid.IntRange(0, 2).Draw(t, fmt.Sprintf("%snarrow%d", pre, i)) == 2 {
					m = rapid.IntRange(1, 1<<len(w.Scopes)-1).Draw(t, fmt.Sprintf("%smask%d", pre, i))
				}
				w.Refresh.Narrow = append(w.Refresh.Narrow, m)
			}
		}
		if w.Flow == "exchange" {
			te := &w.TE
			te.SubjectKind = rapid.SampledFrom([]string{"access_jwt", "refresh", "id_token"}).Draw(t, pre+"subjkind")
			te.Requested = rapid.SampledFrom([]string{"", "access", "refresh", "id"}).Draw(t, pre+"requested")
			te.Audience = rapid.SampledFrom([][]string{nil, {"svc.example.com"}, {"svc-1", w.Client.ID}}).Draw(t, pre+"teaud")
			te.Scopes = w.Scopes
			te.Actor = rapid.IntRange(0, 3).Draw(t, pre+"actor") == 3
		}
		w.Rounds = rapid.IntRange(1, 3).Draw(t, pre+"rounds")
		cc.Workers = append(cc.Workers, w)
	}
	c.Conc = cc
	// the case-level client / flow fields mirror worker 0 (they are not used by the concurrent run)
	c.Flow, c.Client, c.Scopes, c.User = "concurrent", cc.Workers[0].Client, cc.Workers[0].Scopes, cc.Workers[0].User
	return c
}

func runConc(c Case) (res *vkit.Result) {
	res = &vkit.Result{}
	defer func() {
		if p := recover(); p != nil {
			res.Fail("C06:panic@"+vkit.FirstLibFrame(string(debug.Stack())), "panic outside a request: %v\n%s", p, debug.Stack())
		}
	}()
	ws := c.Conc.Workers
	if len(ws) > 16 {
		ws = ws[:16]
	}
	helper := newHelper()
	clients := []*vkit.ClientSpec{helper}
	cls := make([]*vkit.ClientSpec, len(ws))
	seen := map[string]bool{helper.ID: true}
	for g := range ws {
		cl := ws[g].Client
		if cl.ID == "" || seen[cl.ID] {
			cl.ID = fmt.Sprintf("%s~w%d", cl.ID, g)
		}
		seen[cl.ID] = true
		cls[g] = &cl
		clients = append(clients, &cl)
	}
	// one signing key throughout: rotation and roll-over belong to the sequential check
	c.Rotate, c.Roll, c.UseMode, c.Earlier, c.Other = nil, nil, "", nil, nil
	c.Fault = nil
	hook := &claimHook{}
	st, sut, err := buildProvider(c, clients, hook)
	if err != nil {
		res.Fail("C06:harness-build", "provider could not be built from a valid spec: %v", err)
		return res
	}
	st.NoJournal = true

	results := make([]*vkit.Result, len(ws))
	issued := make([]int, len(ws))
	start := make(chan struct{})
	var wg sync.WaitGroup
	for g := range ws {
		w := ws[g]
		wc := c
		wc.Conc = nil
		wc.Flow, wc.Client, wc.Scopes, wc.User = w.Flow, *cls[g], w.Scopes, w.User
		wc.Nonce, wc.State, wc.ResponseMode, wc.Refresh, wc.TE = w.Nonce, w.State, w.ResponseMode, w.Refresh, w.TE
		if wc.Flow == "refresh" && (wc.Refresh.Rounds < 1 || len(wc.Refresh.Narrow) < wc.Refresh.Rounds) {
			wc.Refresh = RefreshCfg{Rounds: 1, Narrow: []int{0}}
		}
		r := &vkit.Result{}
		results[g] = r
		e := newEnv(wc, r, st, sut, cls[g], helper, nil, hook)
		rounds := w.Rounds
		if rounds < 1 {
			rounds = 1
		}
		if rounds > 4 {
			rounds = 4
		}
		wg.Add(1)
		go func(g int) {
			defer wg.Done()
			defer func() {
				if p := recover(); p != nil {
					r.Fail("C06:panic@"+vkit.FirstLibFrame(string(debug.Stack())), "panic outside a request: %v\n%s", p, debug.Stack())
				}
			}()
			<-start
			for k := 0; k < rounds; k++ {
				e.note = fmt.Sprintf("@worker%d.%d", g, k+1)
				e.runFlow()
			}
			issued[g] = e.nIss
			if e.slow {
				r.Grey = true
			}
		}(g)
	}
	close(start)
	wg.Wait()

	total := 0
	var flowsSeen []string
	for g, r := range results {
		for _, v := range r.Viol {
			res.Viol = append(res.Viol, vkit.Violation{FP: v.FP, Msg: fmt.Sprintf("[%d concurrent workers; worker %d: %s, client %s, user %s] %s", len(ws), g, ws[g].Flow, cls[g].ID, ws[g].User, v.Msg)})
		}
		res.Labels = append(res.Labels, r.Labels...)
		if r.Grey {
			res.Grey = true
		}
		total += issued[g]
		flowsSeen = append(flowsSeen, ws[g].Flow)
		res.Label("conc:flow:" + ws[g].Flow)
	}
	sort.Strings(flowsSeen)
	res.Label(fmt.Sprintf("conc:workers:%d", len(ws)), "router:"+c.Router, "alg:"+c.Sign.Alg)
	switch {
	case total <= 8:
		res.Label("conc:responses:<=8")
	case total <= 20:
		res.Label("conc:responses:9-20")
	default:
		res.Label("conc:responses:21+")
	}
	if res.Grey {
		res.Label("grey:slow-clock")
	}
	res.NonTrivial = len(ws) >= 2
	var cells []string
	for g := range ws {
		at := "opaque"
		if cls[g].JWTAccessToken {
			at = "jwt"
		}
		cells = append(cells, fmt.Sprintf("%s/%s/%s/x%d/%s", ws[g].Flow, at, strings.Join(ws[g].Scopes, ","), ws[g].Rounds, ws[g].User))
	}
	res.Key = fmt.Sprintf("conc|%s|%s|x=%v|%s", c.Router, c.Sign.Alg, c.Extras, strings.Join(cells, ";"))
	res.Info = map[string]any{"workers": len(ws), "responses": total, "flows": flowsSeen}
	return res
}

var propConc = vkit.Prop[Case]{
	ID: "C06",
	Rule: "concurrent sub-check: ONE provider and ONE storage (both routers, 8 signing key kinds, static / host issuer, storage with / without the *FromRequest extras), 2-8 workers released by a barrier, " +
		"each with a client of its own (opaque / JWT access tokens, clock skew, id-token lifetime, userinfo-assertion flag, scope restrictions, auth method), a user, scope set (custom scope in about half), nonce and state of its own, " +
		"driving its flow (any of the 8 flows of the sequential check, incl. refresh rounds with narrowing and token exchange) 1-3 times; every token of every response is judged inside its worker by the oracle of the " +
		"sequential check against its own request (library verifiers over /keys, /userinfo, independent re-derivation: signature, sub, nonce, at_hash / c_hash of the same response, aud / azp, claims of the granted scopes " +
		"of that user and client, stored token, time brackets). The interleaving is left to the Go scheduler; TestConcurrent runs from a -race binary (a data race report kills the process, the case on disk is reported), " +
		"TestConcurrentFast from the plain binary. non-trivial = at least two workers; distinct = (router, key kind, per-worker flow / token type / scopes / rounds / user)",
	Gen:   genConc,
	Run:   run,
	Track: true,
}

func TestConcurrent(t *testing.T)     { propConc.Check(t) }
func TestConcurrentFast(t *testing.T) { propConc.Check(t) }
