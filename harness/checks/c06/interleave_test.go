package c06

// Interleaving sub-check (TestInterleave): issuances and signing-key rotations on ONE provider under a schedule the harness owns.
//
// "Signed with the provider's current signing key" is a statement about time: which key is current changes when the
// application rotates it, and issuances take time (the storage behind Storage.SigningKey is a database). The schedule of a case
// is a generated list of operations: start the flow of the next worker (optionally with a vkit.Gate that parks the n-th next call
// of Storage.SigningKey on entry - the key is not read yet - or on exit - the key is read, the answer is delayed), rotate the
// signing key to a key of any algorithm (the old key stays published or leaves the published set), release one of the parked calls.
// A rotation is carried out only while every issuance in flight is parked inside a gate (or finished), so "the rotation completed
// before / after the request was started / returned" is known for every request without looking at a clock.
//
// Oracle (schedule independent, from the statement): the token of an issuing request that was started after i rotations and
// returned after j >= i rotations must be signed with one of the keys that were current in between (key i .. key j); for i == j that
// is THE current key. Everything else (library verifiers over /keys at the time of return, the provider's own verifiers, claims,
// hashes, stored token) is judged by the oracle of the sequential check inside the worker, right after the response. A token under a
// key that left the published set while its request was in flight is not put before the verifiers (grey).

import (
	"fmt"
	"runtime/debug"
	"strings"
	"testing"
	"time"

	"pgregory.net/rapid"

	"verif/harness/vkit"
)

// GateSpec parks the (Skip+1)-th next call of Storage.SigningKey (counted over all requests from the registration on).
type GateSpec struct {
	Skip int  `json:"skip"`
	Exit bool `json:"exit,omitempty"` // parked on exit (key read, answer delayed) instead of on entry (key not read yet)
}

// ILOp is one step of the schedule.
type ILOp struct {
	Kind   string            `json:"kind"`             // start | rotate | release
	Gate   *GateSpec         `json:"gate,omitempty"`   // start: registered right before the flow of the next worker is started
	Next   *vkit.SignKeySpec `json:"next,omitempty"`   // rotate: the new signing key
	Retire bool              `json:"retire,omitempty"` // rotate: the old key leaves the published set (otherwise it stays as an old key)
	Pick   int               `json:"pick,omitempty"`   // release: which of the calls parked right now (modulo their number)
}

type Interleave struct {
	Workers []Worker `json:"workers"` // one per start op, in this order
	Ops     []ILOp   `json:"ops"`
}

const (
	ilBound = 300 * time.Millisecond // wait for "the request just started / released has answered or is parked"; selects the schedule only
	ilJoin  = vkit.GateTimeout + 15*time.Second
)

func genIL(t *rapid.T) Case {
	var c Case
	c.Router = rapid.SampledFrom([]string{"provider", "legacy"}).Draw(t, "router")
	c.Sign.Alg = rapid.SampledFrom(algKinds).Draw(t, "alg")
	c.Sign.KeyName = rapid.SampledFrom(keysFor(c.Sign.Alg)).Draw(t, "key")
	c.Sign.KID = rapid.SampledFrom([]string{"sig-1", "k2"}).Draw(t, "kid")
	c.CryptoKey = byte(rapid.SampledFrom([]int{0, 0x5a}).Draw(t, "cryptokey"))
	is := &c.Issuer
	is.Mode = rapid.SampledFrom([]string{"static", "host"}).Draw(t, "issmode")
	is.Host = "op.example.com"
	if is.Mode == "static" {
		is.Value = rapid.SampledFrom([]string{"https://op.example.com", "https://issuer.example.net:9443/a/b"}).Draw(t, "issuer")
	} else {
		is.Value = rapid.SampledFrom([]string{"", "/t/tenant-1"}).Draw(t, "isspath")
	}
	p := &c.Policy
	p.AccessTTLS = rapid.SampledFrom([]int{60, 300, 7200}).Draw(t, "attl")
	p.ExtraAudience = rapid.SampledFrom([][]string{nil, nil, {"api.example.com"}}).Draw(t, "xaud")
	p.NarrowPersists = rapid.Bool().Draw(t, "narrowpersists")
	c.Extras = rapid.IntRange(0, 3).Draw(t, "extras") == 3
	p.JWTProfileJWT = rapid.Bool().Draw(t, "jbjwt")
	p.TE.DefaultType = rapid.SampledFrom([]string{"access", "refresh", "id"}).Draw(t, "tedefault")
	c.OwnVerif = rapid.SampledFrom(ownVerifModes).Draw(t, "ownverif")

	il := &Interleave{}
	k := rapid.IntRange(2, vkit.Scale(3, 4)).Draw(t, "workers")
	for g := 0; g < k; g++ {
		pre := fmt.Sprintf("w%d-", g)
		var w Worker
		w.Flow = rapid.SampledFrom(flows).Draw(t, pre+"flow")
		w.Client = genClient(t, pre, fmt.Sprintf("w%d-client", g), w.Flow)
		w.Scopes = genScopes(t, w.Flow)
		w.User = vkit.AllUserIDs[g%len(vkit.AllUserIDs)]
		if rapid.IntRange(0, 3).Draw(t, pre+"nonce") > 0 || strings.HasPrefix(w.Flow, "implicit") {
			w.Nonce = fmt.Sprintf("nonce-of-worker-%d", g)
		}
		if strings.HasPrefix(w.Flow, "implicit") {
			w.ResponseMode = rapid.SampledFrom([]string{"", "fragment", "query"}).Draw(t, pre+"rm")
		}
		if w.Flow == "refresh" {
			w.Refresh = RefreshCfg{Rounds: rapid.IntRange(1, 2).Draw(t, pre+"rrounds")}
			for i := 0; i < w.Refresh.Rounds; i++ {
				w.Refresh.Narrow = append(w.Refresh.Narrow, 0)
			}
		}
		if w.Flow == "exchange" {
			te := &w.TE
			te.SubjectKind = rapid.SampledFrom([]string{"access_jwt", "refresh", "id_token"}).Draw(t, pre+"subjkind")
			te.Requested = rapid.SampledFrom([]string{"", "access", "refresh", "id"}).Draw(t, pre+"requested")
			te.Audience = rapid.SampledFrom([][]string{nil, {"svc.example.com"}, {"svc-1", w.Client.ID}}).Draw(t, pre+"teaud")
			te.Scopes = w.Scopes
			te.Actor = rapid.IntRange(0, 3).Draw(t, pre+"actor") == 3
		}
		w.Rounds = 1
		il.Workers = append(il.Workers, w)
	}

	// the schedule
	cur := c.Sign
	started, rotations, gates := 0, 0, 0
	genStart := func(label string) ILOp {
		o := ILOp{Kind: "start"}
		if rapid.IntRange(0, 3).Draw(t, label+"gate") > 0 {
			o.Gate = &GateSpec{Skip: rapid.SampledFrom([]int{0, 0, 0, 1, 1, 2, 3}).Draw(t, label+"skip"), Exit: rapid.Bool().Draw(t, label+"exit")}
			gates++
		}
		started++
		return o
	}
	il.Ops = append(il.Ops, genStart("op0-"))
	for i := 1; i < 10; i++ {
		label := fmt.Sprintf("op%d-", i)
		var kinds []string
		if started < k {
			kinds = append(kinds, "start", "start")
		}
		if rotations < 3 {
			kinds = append(kinds, "rotate", "rotate")
		}
		if gates > 0 {
			kinds = append(kinds, "release")
		}
		if started == k {
			kinds = append(kinds, "stop")
		}
		switch rapid.SampledFrom(kinds).Draw(t, label+"kind") {
		case "start":
			il.Ops = append(il.Ops, genStart(label))
		case "rotate":
			rotations++
			nalg := rapid.SampledFrom(algKinds).Draw(t, label+"alg")
			if rapid.IntRange(0, 2).Draw(t, label+"samealg") == 0 {
				nalg = cur.Alg
			}
			var names []string
			for _, n := range keysFor(nalg) {
				if n != cur.KeyName {
					names = append(names, n)
				}
			}
			if len(names) == 0 {
				names = keysFor(nalg)
			}
			next := vkit.SignKeySpec{KeyName: rapid.SampledFrom(names).Draw(t, label+"key"), Alg: nalg, KID: fmt.Sprintf("r%d-%s", rotations, c.Sign.KID)}
			il.Ops = append(il.Ops, ILOp{Kind: "rotate", Next: &next, Retire: rapid.IntRange(0, 2).Draw(t, label+"retire") == 0})
			cur = next
		case "release":
			il.Ops = append(il.Ops, ILOp{Kind: "release", Pick: rapid.IntRange(0, 3).Draw(t, label+"pick")})
		case "stop":
			i = 10
		}
	}
	for started < k {
		il.Ops = append(il.Ops, genStart(fmt.Sprintf("tail%d-", started)))
	}
	c.IL = il
	// the case-level client / flow fields mirror worker 0 (they are not used by the interleaved run)
	c.Flow, c.Client, c.Scopes, c.User = "interleaved", il.Workers[0].Client, il.Workers[0].Scopes, il.Workers[0].User
	return c
}

// ---- execution ------------------------------------------------------------------

type ilRun struct {
	st       *vkit.Store
	done     []chan struct{}
	fin      []bool
	gates    []*vkit.Gate
	specs    []GateSpec
	parked   []bool
	released []bool
	gateJ0   int
}

// poll updates what is observable and returns the number of events so far (flows finished + gates found parked).
func (r *ilRun) poll() int {
	n := 0
	for k, d := range r.done {
		if !r.fin[k] {
			select {
			case <-d:
				r.fin[k] = true
			default:
			}
		}
		if r.fin[k] {
			n++
		}
	}
	waited := false
	for k, g := range r.gates {
		if !r.parked[k] && !r.released[k] {
			waited = true
			if g.WaitParked(100 * time.Microsecond) {
				r.parked[k] = true
			}
		}
		if r.parked[k] {
			n++
		}
	}
	if !waited {
		time.Sleep(100 * time.Microsecond)
	}
	return n
}

func (r *ilRun) settle(prev int) (n int, expired bool) {
	t0 := time.Now()
	for {
		if n = r.poll(); n > prev {
			return n, false
		}
		if time.Since(t0) > ilBound {
			return n, true
		}
	}
}

// held lists the gates with a call parked in them right now.
func (r *ilRun) held() []int {
	var out []int
	for g := range r.gates {
		if r.parked[g] && !r.released[g] {
			out = append(out, g)
		}
	}
	return out
}

// quiescent: every flow that was started has finished or sits in a gate (nothing runs inside the library or the storage).
func (r *ilRun) quiescent() bool {
	r.poll()
	running := 0
	for k := range r.done {
		if !r.fin[k] {
			running++
		}
	}
	return running == len(r.held())
}

// nthNext is the ordinal, as the store counts (per method, from the registration of the first gate on), of the (Skip+1)-th
// next call of SigningKey. Only meaningful while quiescent.
func (r *ilRun) nthNext(g GateSpec) int {
	if r.gateJ0 < 0 {
		r.gateJ0 = len(r.st.Journal)
	}
	n := 0
	for _, e := range r.st.Journal[r.gateJ0:] {
		if e.Method == "SigningKey" {
			n++
		}
	}
	if !g.Exit {
		// calls parked on entry are counted by the store but not journaled yet
		for _, k := range r.held() {
			if !r.specs[k].Exit {
				n++
			}
		}
	}
	return n + 1 + g.Skip
}

func gateName(g GateSpec) string {
	if g.Exit {
		return "exit"
	}
	return "entry"
}

func runIL(c Case) (res *vkit.Result) {
	res = &vkit.Result{}
	defer func() {
		if p := recover(); p != nil {
			res.Fail("C06:panic@"+vkit.FirstLibFrame(string(debug.Stack())), "panic outside a request: %v\n%s", p, debug.Stack())
		}
	}()
	ws := c.IL.Workers
	if len(ws) > 6 {
		ws = ws[:6]
	}
	ops := c.IL.Ops
	if len(ops) > 24 {
		ops = ops[:24]
	}
	helper := newHelper()
	clients := []*vkit.ClientSpec{helper}
	cls := make([]*vkit.ClientSpec, len(ws))
	seen := map[string]bool{helper.ID: true}
	for g := range ws {
		cl := ws[g].Client
		if cl.ID == "" || seen[cl.ID] {
			cl.ID = fmt.Sprintf("%s~w%d", cl.ID, g)
		}
		seen[cl.ID] = true
		cls[g] = &cl
		clients = append(clients, &cl)
	}
	c.Rotate, c.Roll, c.UseMode, c.Earlier, c.Other, c.OldKeys = nil, nil, "", nil, nil, nil
	c.Fault = nil
	hook := &claimHook{}
	st, sut, err := buildProvider(c, clients, hook)
	if err != nil {
		res.Fail("C06:harness-build", "provider could not be built from a valid spec: %v", err)
		return res
	}
	tl := newTimeline(c.Sign)

	results := make([]*vkit.Result, len(ws))
	envs := make([]*env, len(ws))
	for g := range ws {
		w := ws[g]
		wc := c
		wc.IL = nil
		wc.Flow, wc.Client, wc.Scopes, wc.User = w.Flow, *cls[g], w.Scopes, w.User
		wc.Nonce, wc.State, wc.ResponseMode, wc.Refresh, wc.TE = w.Nonce, w.State, w.ResponseMode, w.Refresh, w.TE
		if wc.Flow == "refresh" && (wc.Refresh.Rounds < 1 || len(wc.Refresh.Narrow) < wc.Refresh.Rounds) {
			wc.Refresh = RefreshCfg{Rounds: 1, Narrow: []int{0}}
		}
		results[g] = &vkit.Result{}
		envs[g] = newEnv(wc, results[g], st, sut, cls[g], helper, nil, hook)
		envs[g].tl = tl
	}

	run := &ilRun{st: st, gateJ0: -1}
	var sched []string
	events, next := 0, 0
	nRot, rotWhileHeld, startAfterRotWhileHeld := 0, false, false
	heldSinceRot := false // a call parked before the last rotation is still parked
	for _, o := range ops {
		switch o.Kind {
		case "start":
			if next >= len(ws) {
				continue
			}
			g := next
			next++
			d := "start " + ws[g].Flow
			if o.Gate != nil {
				if run.quiescent() {
					spec := *o.Gate
					if spec.Skip < 0 || spec.Skip > 8 {
						spec.Skip = 0
					}
					run.gates = append(run.gates, st.AddGate("SigningKey", run.nthNext(spec), spec.Exit))
					run.specs = append(run.specs, spec)
					run.parked = append(run.parked, false)
					run.released = append(run.released, false)
					d += fmt.Sprintf(" (gate: SigningKey call +%d, %s)", spec.Skip+1, gateName(spec))
				} else {
					res.Label("il:gate-skipped:storage-not-quiescent")
				}
			}
			if len(run.held()) > 0 {
				res.Label("il:start:while-an-issuance-is-parked")
				if heldSinceRot {
					startAfterRotWhileHeld = true
					res.Label("il:start:after-a-rotation-while-an-earlier-issuance-is-still-parked")
				}
			}
			sched = append(sched, d)
			dn := make(chan struct{})
			run.done = append(run.done, dn)
			run.fin = append(run.fin, false)
			go func(g int) {
				defer close(dn)
				e, r := envs[g], results[g]
				defer func() {
					if p := recover(); p != nil {
						r.Fail("C06:panic@"+vkit.FirstLibFrame(string(debug.Stack())), "panic outside a request: %v\n%s", p, debug.Stack())
					}
				}()
				e.note = fmt.Sprintf("@issuance%d", g+1)
				e.runFlow()
				if e.slow {
					r.Grey = true
				}
			}(g)
			var expired bool
			if events, expired = run.settle(events); expired {
				res.Label("il:schedule:request-neither-finished-nor-parked-within-bound")
			}
		case "rotate":
			if o.Next == nil || !vkit.AlgFitsKey(o.Next.Alg, vkit.Key(o.Next.KeyName)) {
				continue
			}
			if !run.quiescent() {
				if events, _ = run.settle(events); !run.quiescent() {
					// a request is running (or blocked on something the harness does not own): the storage is not touched under it
					res.Label("il:rotate-skipped:storage-not-quiescent")
					continue
				}
			}
			old := st.SignKey
			nk := *o.Next
			nk.KID = fmt.Sprintf("r%d-%s", nRot+1, c.Sign.KID) // distinct kids also in a hand-edited case
			var pub []vkit.PubKeySpec
			for _, k := range st.PubKeys {
				if o.Retire && k.KID == old.KID {
					continue
				}
				pub = append(pub, k)
			}
			st.PubKeys = append(pub, vkit.PubKeySpec{KeyName: nk.KeyName, Alg: nk.Alg, KID: nk.KID, Use: "sig"})
			st.SignKey = nk
			tl.push(nk, o.Retire)
			nRot++
			d := fmt.Sprintf("rotate %s/%s -> %s/%s", old.KID, old.Alg, nk.KID, nk.Alg)
			res.Label("il:rotation")
			if o.Retire {
				d += " (old key retired)"
				res.Label("il:rotation:old-key-retired")
			}
			if nk.Alg != old.Alg {
				res.Label("il:rotation:other-algorithm")
			}
			heldSinceRot = false
			for _, g := range run.held() {
				rotWhileHeld, heldSinceRot = true, true
				res.Label("il:rotation:while-an-issuance-is-parked-in-SigningKey:" + gateName(run.specs[g]))
			}
			sched = append(sched, d)
		case "release":
			h := run.held()
			if len(h) == 0 {
				continue
			}
			pick := o.Pick
			if pick < 0 {
				pick = -pick
			}
			g := h[pick%len(h)]
			run.gates[g].Release()
			run.released[g] = true
			sched = append(sched, fmt.Sprintf("release gate %d", g+1))
			events, _ = run.settle(events)
			if len(run.held()) == 0 {
				heldSinceRot = false
			}
		}
	}
	// every worker is started at some point (a case cut short by hand or by the shrinker still runs all of its flows)
	for _, g := range run.held() {
		res.Label("il:gate:" + gateName(run.specs[g]) + ":parked-until-the-end")
	}
	for g := range run.gates {
		if run.parked[g] {
			res.Label("il:gate:" + gateName(run.specs[g]) + ":parked")
		} else {
			res.Label("il:gate:" + gateName(run.specs[g]) + ":not-reached-when-set")
		}
		run.gates[g].Release()
		run.released[g] = true
	}
	deadline := time.After(ilJoin)
	for k, d := range run.done {
		select {
		case <-d:
		case <-deadline:
			// every blocking point the harness owns is open: the request is stuck inside the library (its goroutine is lost)
			res.Fail("C06:il:request-never-answered", "interleaved issuance %d (%s): no answer %v after every storage call was released; schedule: %s", k+1, ws[k].Flow, ilJoin, strings.Join(sched, "; "))
			return res
		}
	}
	gateTimedOut := false
	for g := range run.gates {
		if run.gates[g].TimedOut {
			res.Label("il:gate-timed-out") // harness trouble (machine stalled for 20 s); the interleaving was not the intended one
			res.Grey, gateTimedOut = true, true
		}
	}

	total := 0
	for g := 0; g < next; g++ {
		r := results[g]
		if gateTimedOut && len(r.Viol) > 0 {
			// a parked call resumed by itself: the harness may have written the storage's keys under a running request; nothing is concluded
			res.Label("il:verdicts-dropped:gate-timed-out")
			r.Viol = nil
		}
		for _, v := range r.Viol {
			res.Viol = append(res.Viol, vkit.Violation{FP: v.FP, Msg: fmt.Sprintf("[interleaved schedule: %s; issuance %d: %s, client %s, user %s] %s", strings.Join(sched, "; "), g+1, ws[g].Flow, cls[g].ID, ws[g].User, v.Msg)})
		}
		res.Labels = append(res.Labels, r.Labels...)
		if r.Grey {
			res.Grey = true
		}
		total += envs[g].nIss
		res.Label("il:flow:" + ws[g].Flow)
	}
	res.Label(fmt.Sprintf("il:issuances:%d", next), fmt.Sprintf("il:rotations:%d", nRot), "router:"+c.Router, "alg:"+c.Sign.Alg)
	if c.OwnVerif != "" {
		res.Label("own-verifiers:config:" + c.OwnVerif)
	}
	if res.Grey {
		res.Label("grey:slow-clock")
	}
	res.NonTrivial = rotWhileHeld
	if startAfterRotWhileHeld {
		res.Label("il:class:issuance-started-after-a-completed-rotation-overlaps-one-started-before")
	}
	var cells []string
	for g := range ws {
		at := "opaque"
		if cls[g].JWTAccessToken {
			at = "jwt"
		}
		cells = append(cells, fmt.Sprintf("%s/%s/%s", ws[g].Flow, at, strings.Join(ws[g].Scopes, ",")))
	}
	res.Key = fmt.Sprintf("il|%s|%s|own=%s|%s|%s", c.Router, c.Sign.Alg, c.OwnVerif, strings.Join(cells, ";"), strings.Join(sched, ";"))
	res.Info = map[string]any{"issuances": next, "responses": total, "rotations": nRot, "schedule": sched}
	return res
}

var propIL = vkit.Prop[Case]{
	ID: "C06",
	Rule: "interleaving sub-check: ONE provider and ONE storage (both routers, 8 signing key kinds, static / host issuer, provider's own verifiers configured for the first algorithm / not at all / all algorithms), " +
		"2-3 workers (thorough: 2-4) with a client, user, scope set, nonce and flow (any of the 8) of their own, and a generated schedule of up to 10 operations: start the flow of the next worker, optionally after registering a vkit.Gate " +
		"that parks the 1st-4th next call of Storage.SigningKey on entry (key not read yet) or on exit (key read, answer delayed); rotate the signing key to a key of any of the 8 kinds (old key stays published / leaves the published set), " +
		"carried out only while every flow in flight is parked or finished; release one of the parked calls. Every token of every response is judged inside its worker by the oracle of the sequential check, with the signing key " +
		"requirement taken from the schedule: a request started after i rotations and answered after j rotations must carry tokens under one of key i..key j (exactly the current key when i = j), verifying over /keys as published when it is answered " +
		"(tokens under a key retired while their request was in flight: grey). non-trivial = a rotation took place while an issuance was parked inside Storage.SigningKey; distinct = (router, key kind, verifier configuration, per-worker flow / token type / scopes, schedule)",
	Gen:   genIL,
	Run:   run,
	Track: true,
}

// TestInterleave is registered in check.json "tests".
func TestInterleave(t *testing.T) { propIL.Check(t) }
