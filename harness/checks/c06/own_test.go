package c06

// The provider's OWN verifiers.
//
// "Passes the library's own verification against the provider's published key set" has two readers: a relying party that
// builds its verifier from discovery + /keys (rp.VerifyTokens, op.NewAccessTokenVerifier over a remote key set: judge_test.go)
// and the provider itself, which reads the tokens it issued through Provider.AccessTokenVerifier (userinfo, introspection,
// revocation, token exchange) and Provider.IDTokenHintVerifier (end_session, token exchange). Every issued token is also put
// before those, directly (op.VerifyAccessToken / op.VerifyIDTokenHint with the verifier the provider hands out for the request's
// issuer) and through the HTTP endpoints, at every position of a sequence on one provider: before and after the signing key was
// replaced by a key of another algorithm family.
//
// Which algorithms the provider's verifiers accept is configuration (Case.OwnVerif): the cells where the configuration does not
// cover the algorithm of the token are grey (a provider signing with EdDSA whose application left the default list RS256 /
// ES256 / PS256 in place refuses its own tokens on the unchanged tree; the statement does not say which side is wrong there).

import (
	"context"
	"sync"
	"time"

	"github.com/zitadel/oidc/v3/pkg/oidc"
	"github.com/zitadel/oidc/v3/pkg/op"

	"verif/harness/vkit"
)

var ownVerifModes = []string{"", "", "", "none", "none", "none", "all", "all"}

// libDefaultAlgs: what a verifier accepts when the application named no algorithms (documented on oidc.Verifier.SupportedSignAlgs).
var libDefaultAlgs = []string{"RS256", "ES256", "PS256"}

// rebuildOwnVerif replaces the provider of sut (built by vkit.Build, which always names the first signing algorithm to both
// verifiers) by one that differs in the verifier options only.
func rebuildOwnVerif(sut *vkit.SUT, spec vkit.ProviderSpec, st *vkit.Store, mode string) error {
	cfg := &op.Config{
		DefaultLogoutRedirectURI: spec.DefaultLogoutURI,
		CodeMethodS256:           spec.S256,
		AuthMethodPost:           spec.Post,
		AuthMethodPrivateKeyJWT:  spec.PKJWT,
		GrantTypeRefreshToken:    spec.Refresh,
		RequestObjectSupported:   spec.ReqObj,
		DeviceAuthorization: op.DeviceAuthorizationConfig{
			Lifetime: time.Duration(spec.Device.LifetimeS) * time.Second, PollInterval: time.Duration(spec.Device.PollS) * time.Second,
			UserFormPath: spec.Device.UserFormPath, UserFormURL: spec.Device.UserFormURL,
			UserCode: op.UserCodeConfig{CharSet: spec.Device.CharSet, CharAmount: spec.Device.CharAmount, DashInterval: spec.Device.DashInterval},
		},
	}
	copy(cfg.CryptoKey[:], providerKey(spec.CryptoKey))
	opts := []op.Option{op.WithLogger(vkit.DiscardLogger())}
	if mode == "all" {
		opts = append(opts,
			op.WithAccessTokenVerifierOpts(op.WithSupportedAccessTokenSigningAlgorithms(algKinds...)),
			op.WithIDTokenHintVerifierOpts(op.WithSupportedIDTokenHintSigningAlgorithms(algKinds...)))
	}
	if spec.Insecure {
		opts = append(opts, op.WithAllowInsecure())
	}
	var issuer func(bool) (op.IssuerFromRequest, error)
	switch spec.IssuerMode {
	case "host":
		issuer = op.IssuerFromHost(spec.Issuer)
	case "forwarded":
		issuer = op.IssuerFromForwardedOrHost(spec.Issuer)
	default:
		issuer = op.StaticIssuer(spec.Issuer)
	}
	defer vkit.RestoreDefaultEndpoints()
	stg := st.Shaped(spec.Caps)
	if spec.WrapStorage != nil {
		stg = spec.WrapStorage(stg)
	}
	p, err := op.NewProvider(cfg, stg, issuer, opts...)
	if err != nil {
		return err
	}
	sut.Provider = p
	if spec.Router == "legacy" {
		sut.Handler = op.RegisterLegacyServer(op.NewLegacyServer(p, vkit.PristineEndpoints()), op.AuthorizeCallbackHandler(p), op.WithFallbackLogger(vkit.DiscardLogger()))
	} else {
		sut.Handler = p
	}
	return nil
}

// ownExpect: must the provider's own verifiers accept a token signed with alg under the configuration of the case?
// false = the configuration does not cover the algorithm: nothing is asserted.
func (e *env) ownExpect(alg string) bool {
	switch e.c.OwnVerif {
	case "none":
		return has(libDefaultAlgs, alg)
	case "all":
		return has(algKinds, alg)
	}
	return alg == e.c.Sign.Alg
}

// ownCovers: the provider's own verifiers are expected to read the JWT tok (algorithm covered by their configuration, key still published).
func (e *env) ownCovers(tok string) (covered bool, why string) {
	j, err := parseJWT(tok)
	if err != nil {
		return true, "" // opaque tokens are not read by a verifier
	}
	alg, _ := j.Header["alg"].(string)
	kid, _ := j.Header["kid"].(string)
	if !e.ownExpect(alg) {
		return false, "alg-outside-op-verifier-config"
	}
	if e.tl != nil && e.tl.isRetired(kid) {
		return false, "key-retired-meanwhile"
	}
	return true, ""
}

// ownReads: the provider is expected to be able to read tok when it is presented as the subject / actor token of a token exchange;
// otherwise the exchange is not driven (grey).
func (e *env) ownReads(tok string) bool {
	ok, why := e.ownCovers(tok)
	if !ok {
		e.skipped = true
		e.res.Label("grey:exchange-skipped:presented-token:" + why)
	}
	return ok
}

func (e *env) ownCtx(is *issuance) context.Context {
	return op.ContextWithIssuer(context.Background(), is.Issuer)
}

// ownVerifyAT: the verifier the provider hands out for the issuer of the request accepts the JWT access token just issued.
func (e *env) ownVerifyAT(is *issuance, tok string, j *jwt) {
	if ok, why := e.ownCovers(tok); !ok {
		e.res.Label("grey:own-verify-at-skipped:" + why)
		return
	}
	defer e.recoverLib(is.Step + ": op.VerifyAccessToken(provider.AccessTokenVerifier)")
	ctx := e.ownCtx(is)
	claims, err := op.VerifyAccessToken[*oidc.AccessTokenClaims](ctx, tok, e.sut.Provider.AccessTokenVerifier(ctx))
	switch {
	case err != nil:
		e.fail("C06:own-verify-at:"+is.Kind, "%s: the provider's own access token verifier (Provider.AccessTokenVerifier, verifier options of the application: %s) rejects the JWT access token (alg %v, kid %v) the OP just issued: %v",
			is.Step, e.ownConfig(), j.Header["alg"], j.Header["kid"], err)
	case claims.Subject != j.str("sub"):
		e.fail("C06:own-verify-at:"+is.Kind, "%s: the provider's own access token verifier returns subject %q, payload says %q", is.Step, claims.Subject, j.str("sub"))
	default:
		e.res.Label("own-verify-at-ok", "own-verify-at-ok:"+e.ownConfigLabel())
	}
}

// ownVerifyHint: the id_token_hint verifier the provider hands out accepts the ID token just issued.
func (e *env) ownVerifyHint(is *issuance, tok string, j *jwt) {
	if ok, why := e.ownCovers(tok); !ok {
		e.res.Label("grey:own-verify-idt-skipped:" + why)
		return
	}
	defer e.recoverLib(is.Step + ": op.VerifyIDTokenHint(provider.IDTokenHintVerifier)")
	ctx := e.ownCtx(is)
	claims, err := op.VerifyIDTokenHint[*oidc.IDTokenClaims](ctx, tok, e.sut.Provider.IDTokenHintVerifier(ctx))
	switch {
	case err != nil:
		e.fail("C06:own-verify-idt:"+is.Kind, "%s: the provider's own id_token_hint verifier (Provider.IDTokenHintVerifier, verifier options of the application: %s) rejects the ID token (alg %v, kid %v) the OP just issued: %v",
			is.Step, e.ownConfig(), j.Header["alg"], j.Header["kid"], err)
	case claims.Subject != j.str("sub"):
		e.fail("C06:own-verify-idt:"+is.Kind, "%s: the provider's own id_token_hint verifier returns subject %q, payload says %q", is.Step, claims.Subject, j.str("sub"))
	default:
		e.res.Label("own-verify-idt-ok", "own-verify-idt-ok:"+e.ownConfigLabel())
	}
}

func (e *env) ownConfigLabel() string {
	if e.c.OwnVerif == "" {
		return "first-alg"
	}
	return e.c.OwnVerif
}

func (e *env) ownConfig() string {
	switch e.c.OwnVerif {
	case "none":
		return "none (library default RS256, ES256, PS256)"
	case "all":
		return "all 8 algorithms"
	}
	return e.c.Sign.Alg
}

// judgeIntrospect: the introspection endpoint, asked by the client the token was issued to, reports the fresh token active.
// Only for callers the endpoint serves without further conditions: a confidential client with a secret over basic
// authentication that is in the audience of the stored token.
func (e *env) judgeIntrospect(is *issuance, stored *vkit.AccessTok) {
	cl := is.Client
	if cl == nil || cl.AuthMethod != "client_secret_basic" || cl.Secret == "" || !has(stored.Audience, cl.ID) {
		return
	}
	if ok, why := e.ownCovers(is.Tokens.Access); !ok {
		e.res.Label("grey:introspection-skipped:" + why)
		return
	}
	r := is.Agent.Introspect(is.Tokens.Access, e.cred(is.Agent, cl))
	if r.Panic != nil {
		e.fail("C06:panic@"+r.PanicFrame(), "%s: introspection panicked: %v", is.Step, r.Panic)
		return
	}
	m := r.JSON()
	if !r.Success() || m == nil {
		e.fail("C06:introspection-rejects:"+is.Kind, "%s: /introspect refuses the client %q the access token was just issued to: %s", is.Step, cl.ID, r.Describe())
		return
	}
	if active, _ := m["active"].(bool); !active {
		e.fail("C06:introspection-inactive:"+is.Kind, "%s: /introspect reports the access token the OP just issued to %q as inactive (verifier options of the application: %s): %s", is.Step, cl.ID, e.ownConfig(), r.Describe())
		return
	}
	if sub, _ := m["sub"].(string); sub != stored.Subject {
		e.fail("C06:introspection-subject:"+is.Kind, "%s: /introspect answers sub=%q for the token of %q", is.Step, sub, stored.Subject)
		return
	}
	e.res.Label("introspection-ok")
}

// ---- the keys in force over time (interleaving sub-check) ----

// timeline records the rotations the harness performed: hist[i] is the signing key after i rotations.
type timeline struct {
	mu      sync.Mutex
	hist    []vkit.SignKeySpec
	retired map[string]bool // kid -> the key left the published set
}

func newTimeline(first vkit.SignKeySpec) *timeline {
	return &timeline{hist: []vkit.SignKeySpec{first}, retired: map[string]bool{}}
}

// epoch is the number of rotations completed so far.
func (t *timeline) epoch() int {
	t.mu.Lock()
	defer t.mu.Unlock()
	return len(t.hist) - 1
}

// since returns the keys that were current at some time from epoch e0 until now.
func (t *timeline) since(e0 int) []vkit.SignKeySpec {
	t.mu.Lock()
	defer t.mu.Unlock()
	if e0 < 0 || e0 >= len(t.hist) {
		e0 = len(t.hist) - 1
	}
	return append([]vkit.SignKeySpec(nil), t.hist[e0:]...)
}

func (t *timeline) push(next vkit.SignKeySpec, retireOld bool) {
	t.mu.Lock()
	defer t.mu.Unlock()
	if retireOld {
		t.retired[t.hist[len(t.hist)-1].KID] = true
	}
	t.hist = append(t.hist, next)
}

func (t *timeline) isRetired(kid string) bool {
	t.mu.Lock()
	defer t.mu.Unlock()
	return t.retired[kid]
}
