package c06

import (
	"crypto"
	"crypto/aes"
	"crypto/cipher"
	"crypto/ecdsa"
	"crypto/ed25519"
	"crypto/rsa"
	"crypto/sha256"
	"crypto/sha512"
	"encoding/base64"
	"encoding/json"
	"errors"
	"fmt"
	"math/big"
	"net/http"
	"net/http/httptest"
	"reflect"
	"sort"
	"strings"

	"verif/harness/vkit"
)

// ---- in-process transport: the RP side of the library talks to sut.Handler without a socket ----

type inproc struct{ h http.Handler }

func (t inproc) RoundTrip(r *http.Request) (resp *http.Response, err error) {
	r2 := r.Clone(r.Context())
	r2.Host = r.URL.Host
	r2.RequestURI = r.URL.RequestURI()
	rec := httptest.NewRecorder()
	defer func() {
		if p := recover(); p != nil {
			resp, err = nil, fmt.Errorf("panic while serving %s: %v", r.URL, p)
		}
	}()
	t.h.ServeHTTP(rec, r2)
	return rec.Result(), nil
}

// ---- independent crypto (crypto/* only) ----

// providerKey recomputes the 32-byte crypto key the way vkit.Build derives it from the spec byte.
func providerKey(b byte) []byte {
	k := make([]byte, 32)
	for i := range k {
		k[i] = byte(i*7+3) ^ b
	}
	return k
}

// unseal is AES-256-CFB with the IV in the first block over base64url (no padding) text.
func unseal(token string, key []byte) (string, error) {
	raw, err := base64.RawURLEncoding.DecodeString(token)
	if err != nil {
		return "", err
	}
	if len(raw) < aes.BlockSize {
		return "", errors.New("shorter than one block")
	}
	blk, err := aes.NewCipher(key)
	if err != nil {
		return "", err
	}
	out := make([]byte, len(raw)-aes.BlockSize)
	cipher.NewCFBDecrypter(blk, raw[:aes.BlockSize]).XORKeyStream(out, raw[aes.BlockSize:])
	return string(out), nil
}

func hashOf(alg string) (crypto.Hash, []byte, func([]byte) []byte) {
	switch {
	case strings.HasSuffix(alg, "256"):
		return crypto.SHA256, nil, func(b []byte) []byte { s := sha256.Sum256(b); return s[:] }
	case strings.HasSuffix(alg, "384"):
		return crypto.SHA384, nil, func(b []byte) []byte { s := sha512.Sum384(b); return s[:] }
	case strings.HasSuffix(alg, "512"):
		return crypto.SHA512, nil, func(b []byte) []byte { s := sha512.Sum512(b); return s[:] }
	}
	return 0, nil, nil
}

// verifyJWS checks a compact JWS signature with the standard library only.
func verifyJWS(alg string, pub crypto.PublicKey, signingInput, sig []byte) error {
	if alg == "EdDSA" {
		k, ok := pub.(ed25519.PublicKey)
		if !ok {
			return errors.New("key is not ed25519")
		}
		if !ed25519.Verify(k, signingInput, sig) {
			return errors.New("ed25519 signature invalid")
		}
		return nil
	}
	ch, _, hf := hashOf(alg)
	if hf == nil {
		return fmt.Errorf("unknown alg %q", alg)
	}
	digest := hf(signingInput)
	switch alg[:2] {
	case "RS":
		k, ok := pub.(*rsa.PublicKey)
		if !ok {
			return errors.New("key is not rsa")
		}
		return rsa.VerifyPKCS1v15(k, ch, digest, sig)
	case "PS":
		k, ok := pub.(*rsa.PublicKey)
		if !ok {
			return errors.New("key is not rsa")
		}
		return rsa.VerifyPSS(k, ch, digest, sig, &rsa.PSSOptions{SaltLength: rsa.PSSSaltLengthAuto})
	case "ES":
		k, ok := pub.(*ecdsa.PublicKey)
		if !ok {
			return errors.New("key is not ecdsa")
		}
		n := (k.Curve.Params().BitSize + 7) / 8
		if len(sig) != 2*n {
			return fmt.Errorf("ecdsa signature has %d bytes, want %d", len(sig), 2*n)
		}
		r := new(big.Int).SetBytes(sig[:n])
		s := new(big.Int).SetBytes(sig[n:])
		if !ecdsa.Verify(k, digest, r, s) {
			return errors.New("ecdsa signature invalid")
		}
		return nil
	}
	return fmt.Errorf("unknown alg %q", alg)
}

// jwt is a compact JWS decoded with encoding/json only.
type jwt struct {
	Header map[string]any
	Claims map[string]any
	Input  []byte
	Sig    []byte
}

func parseJWT(tok string) (*jwt, error) {
	p := strings.Split(tok, ".")
	if len(p) != 3 {
		return nil, fmt.Errorf("%d segments", len(p))
	}
	hb, err := base64.RawURLEncoding.DecodeString(p[0])
	if err != nil {
		return nil, fmt.Errorf("header: %v", err)
	}
	pb, err := base64.RawURLEncoding.DecodeString(p[1])
	if err != nil {
		return nil, fmt.Errorf("payload: %v", err)
	}
	sb, err := base64.RawURLEncoding.DecodeString(p[2])
	if err != nil {
		return nil, fmt.Errorf("signature: %v", err)
	}
	j := &jwt{Input: []byte(p[0] + "." + p[1]), Sig: sb}
	if err := json.Unmarshal(hb, &j.Header); err != nil || j.Header == nil {
		return nil, fmt.Errorf("header is not a JSON object: %v", err)
	}
	if err := json.Unmarshal(pb, &j.Claims); err != nil || j.Claims == nil {
		return nil, fmt.Errorf("payload is not a JSON object: %v", err)
	}
	return j, nil
}

func (j *jwt) str(k string) string {
	s, _ := j.Claims[k].(string)
	return s
}

// num returns an integral numeric claim.
func (j *jwt) num(k string) (int64, bool) {
	f, ok := j.Claims[k].(float64)
	if !ok {
		return 0, false
	}
	return int64(f), f == float64(int64(f))
}

// aud returns the audience as a list (string or array of strings); ok=false for any other shape.
func (j *jwt) aud() ([]string, bool) {
	switch v := j.Claims["aud"].(type) {
	case nil:
		return nil, true
	case string:
		return []string{v}, true
	case []any:
		out := make([]string, 0, len(v))
		for _, e := range v {
			s, ok := e.(string)
			if !ok {
				return nil, false
			}
			out = append(out, s)
		}
		return out, true
	}
	return nil, false
}

func (j *jwt) strs(k string) ([]string, bool) {
	v, present := j.Claims[k]
	if !present {
		return nil, true
	}
	a, ok := v.([]any)
	if !ok {
		return nil, false
	}
	out := make([]string, 0, len(a))
	for _, e := range a {
		s, ok := e.(string)
		if !ok {
			return nil, false
		}
		out = append(out, s)
	}
	return out, true
}

func has(l []string, s string) bool {
	for _, x := range l {
		if x == s {
			return true
		}
	}
	return false
}

func sameSet(a, b []string) bool {
	x := append([]string(nil), a...)
	y := append([]string(nil), b...)
	sort.Strings(x)
	sort.Strings(y)
	x, y = uniq(x), uniq(y)
	return reflect.DeepEqual(x, y)
}

func uniq(s []string) []string {
	out := s[:0:0]
	for i, v := range s {
		if i == 0 || v != s[i-1] {
			out = append(out, v)
		}
	}
	return out
}

func without(scopes, drop []string) []string {
	out := []string{}
	for _, s := range scopes {
		if !has(drop, s) {
			out = append(out, s)
		}
	}
	return out
}

// ---- the model of "claims of a scope" (written from vkit.Users, independent of the storage code path) ----

var userinfoScopes = []string{"profile", "email", "address", "phone"}

// claimScope maps every user claim the storage can emit to the scope that grants it.
var claimScope = map[string]string{
	"preferred_username": "profile", "name": "profile", "given_name": "profile", "family_name": "profile", "locale": "profile",
	"email": "email", "email_verified": "email",
	"phone_number": "phone", "phone_number_verified": "phone",
	"address":        "address",
	vkit.CustomClaim: vkit.CustomScope,
}

// expectedUserClaim returns the value claim name must have for user u / client cl when it is present.
func expectedUserClaim(name, user, clientID string, accessToken bool) (any, bool) {
	u := vkit.Users[user]
	if name == vkit.CustomClaim {
		if accessToken || u == nil {
			return map[string]any{"client": clientID}, true
		}
		return map[string]any{"client": clientID, "user": u.ID}, true
	}
	if u == nil {
		return nil, false
	}
	switch name {
	case "preferred_username":
		return u.Username, true
	case "name":
		return u.Given + " " + u.Family, true
	case "given_name":
		return u.Given, true
	case "family_name":
		return u.Family, true
	case "locale":
		return u.Locale, true
	case "email":
		return u.Email, true
	case "email_verified":
		return u.EmailVerified, true
	case "phone_number":
		return u.Phone, true
	case "phone_number_verified":
		return u.PhoneVerified, true
	case "address":
		return map[string]any{"locality": "town-of-" + u.ID}, true
	}
	return nil, false
}

// registered JWT / OIDC claims that are not user claims
var registeredClaims = map[string]bool{
	"iss": true, "sub": true, "aud": true, "exp": true, "iat": true, "nbf": true, "auth_time": true, "nonce": true, "acr": true, "amr": true,
	"azp": true, "client_id": true, "jti": true, "at_hash": true, "c_hash": true, "sid": true, "scope": true,
}
