package c11

// Interleavings (via=ilv): 2-3 responses of ONE provider whose production overlaps in time. Every response is produced
// in its own goroutine; the harness owns every point at which one of them can be held: the getters of the auth request
// (the storage's auth requests on the HTTP path, the harness's own request objects on the direct path), the
// Authorizer's Encoder() and the encoder's Encode. A generated schedule says at which gate call a step is parked and
// how many later steps run (until they finish or park themselves) before it is released. Exactly one goroutine runs at
// any time and every hand-over is awaited, so a case is as deterministic as a sequence; no verdict depends on timing.

import (
	"context"
	"fmt"
	"net/http"
	"runtime/debug"
	"strings"
	"time"

	httphelper "github.com/zitadel/oidc/v3/pkg/http"
	"github.com/zitadel/oidc/v3/pkg/oidc"
	"github.com/zitadel/oidc/v3/pkg/op"
	"pgregory.net/rapid"

	"verif/harness/vkit"
)

// gate counts the gate calls of one step and parks the step's goroutine at the holdAt-th of them.
type gate struct {
	holdAt  int
	hits    int
	trace   []string
	heldAt  string
	parked  chan string
	release chan struct{}
}

func newGate(holdAt int) *gate {
	return &gate{holdAt: holdAt, parked: make(chan string), release: make(chan struct{})}
}

// hit is called on the step's goroutine (nil gate: no interleaving, nothing happens).
func (g *gate) hit(name string) {
	if g == nil {
		return
	}
	g.hits++
	if len(g.trace) < 24 {
		g.trace = append(g.trace, name)
	}
	if g.hits == g.holdAt {
		g.heldAt = name
		g.parked <- name
		<-g.release
	}
}

// ---- gated views of the one provider ------------------------------------------------------

type gatedEncoder struct {
	inner httphelper.Encoder
	g     *gate
}

func (e gatedEncoder) Encode(src any, dst map[string][]string) error {
	e.g.hit("Encode")
	return e.inner.Encode(src, dst)
}

// gatedProvider is the provider of the case seen by ONE request: same object underneath, but Encoder() and the auth
// requests handed out by Storage() report to the request's gate.
type gatedProvider struct {
	op.OpenIDProvider
	g  *gate
	st op.Storage
}

func (p *gatedProvider) Storage() op.Storage { return p.st }
func (p *gatedProvider) Encoder() httphelper.Encoder {
	p.g.hit("Encoder()")
	return gatedEncoder{p.OpenIDProvider.Encoder(), p.g}
}

type gatedStorage struct {
	op.Storage
	g *gate
}

func (s *gatedStorage) AuthRequestByID(ctx context.Context, id string) (op.AuthRequest, error) {
	ar, err := s.Storage.AuthRequestByID(ctx, id)
	if err != nil || ar == nil {
		return ar, err
	}
	ga := &gatedAR{AuthRequest: ar, g: s.g}
	if ss, ok := ar.(op.AuthRequestSessionState); ok {
		return gatedARSS{ga, ss}, nil
	}
	return ga, nil
}

// the storage recognises its own request types: hand them back unwrapped
func ungate(r op.TokenRequest) op.TokenRequest {
	switch a := r.(type) {
	case *gatedAR:
		return a.AuthRequest
	case gatedARSS:
		return a.AuthRequest
	}
	return r
}

func (s *gatedStorage) CreateAccessToken(ctx context.Context, r op.TokenRequest) (string, time.Time, error) {
	return s.Storage.CreateAccessToken(ctx, ungate(r))
}

func (s *gatedStorage) CreateAccessAndRefreshTokens(ctx context.Context, r op.TokenRequest, cur string) (string, string, time.Time, error) {
	return s.Storage.CreateAccessAndRefreshTokens(ctx, ungate(r), cur)
}

type gatedAR struct {
	op.AuthRequest
	g *gate
}

func (a *gatedAR) GetRedirectURI() string { a.g.hit("GetRedirectURI"); return a.AuthRequest.GetRedirectURI() }
func (a *gatedAR) GetState() string       { a.g.hit("GetState"); return a.AuthRequest.GetState() }
func (a *gatedAR) GetResponseType() oidc.ResponseType {
	a.g.hit("GetResponseType")
	return a.AuthRequest.GetResponseType()
}
func (a *gatedAR) GetResponseMode() oidc.ResponseMode {
	a.g.hit("GetResponseMode")
	return a.AuthRequest.GetResponseMode()
}

type gatedARSS struct {
	*gatedAR
	ss op.AuthRequestSessionState
}

func (a gatedARSS) GetSessionState() string { a.g.hit("GetSessionState"); return a.ss.GetSessionState() }

func (e *env) authorizer(g *gate) op.OpenIDProvider {
	if g == nil {
		return e.sut.Provider
	}
	return &gatedProvider{OpenIDProvider: e.sut.Provider, g: g, st: &gatedStorage{Storage: e.sut.Provider.Storage(), g: g}}
}

func (e *env) encoder(g *gate) httphelper.Encoder {
	if g == nil {
		return e.sut.Provider.Encoder()
	}
	return gatedEncoder{e.sut.Provider.Encoder(), g}
}

// handler: the router of the case, or (g != nil) a router of the same kind built for one request around the gated view.
func (e *env) handler(g *gate) http.Handler {
	if g == nil {
		return e.sut.Handler
	}
	gp := e.authorizer(g)
	if e.sut.Spec.Router == "legacy" {
		return op.RegisterLegacyServer(op.NewLegacyServer(gp, vkit.PristineEndpoints()), op.AuthorizeCallbackHandler(gp), op.WithFallbackLogger(vkit.DiscardLogger()))
	}
	return op.CreateRouter(gp)
}

// ---- generator ----------------------------------------------------------------------------

var (
	ilvVias     = []string{"http", "http", "http", "http", "autherror", "autherror", "tryerror", "tryerror", "url", "form"}
	ilvErrPaths = []string{"none", "none", "no_login", "no_login", "bad_prompt", "prompt_none", "unsupported_rt", "no_scope"}
)

// gateable: error paths of the HTTP flow that need no fault of the (shared) storage.
func gateable(p string) bool {
	for _, x := range ilvErrPaths {
		if x == p {
			return true
		}
	}
	return false
}

func genIlvStep(t *rapid.T) Case {
	s := genSingle(t, ilvVias)
	if s.Via == "http" {
		s.ErrPath = rapid.SampledFrom(ilvErrPaths).Draw(t, "ilverrpath")
		s.StoreErr = nil // steps of an interleaving use no storage faults
	}
	if s.Resp == "error" && (s.Via == "autherror" || s.Via == "tryerror") && rapid.IntRange(0, 3).Draw(t, "useshared") == 0 {
		s.ErrRef = 1
	}
	s.HoldAt = rapid.IntRange(0, 10).Draw(t, "holdat")
	s.HoldFor = rapid.IntRange(1, 2).Draw(t, "holdfor")
	return s
}

// genIlv: 2-3 steps; every second case makes the later steps requests of the same kind as the first (same path, mode,
// type, error) with their own state / session_state / redirect URI - the situation of two clients in the same condition.
func genIlv(t *rapid.T) Case {
	c := Case{Via: "ilv"}
	c.Router = rapid.SampledFrom([]string{"provider", "legacy"}).Draw(t, "router")
	c.SharedErrs = rapid.SliceOfN(rapid.Custom(genErrSpec), 0, 1).Draw(t, "shared")
	c.Steps = rapid.SliceOfN(rapid.Custom(genIlvStep), 2, 3).Draw(t, "steps")
	alike := rapid.Bool().Draw(t, "alike")
	for i := range c.Steps {
		s := &c.Steps[i]
		if alike && i > 0 {
			f := c.Steps[0]
			s.Via, s.Mode, s.RT, s.ErrPath, s.AppType, s.Resp, s.JWTAccess = f.Via, f.Mode, f.RT, f.ErrPath, f.AppType, f.Resp, f.JWTAccess
			s.RTReq, s.RTReg = f.RTReq, append([]string(nil), f.RTReg...)
			s.ErrKind, s.ErrCode, s.ErrDesc, s.ErrRef = f.ErrKind, f.ErrCode, f.ErrDesc, f.ErrRef
			s.Code, s.IDToken, s.AccessToken, s.TokenType, s.ExpiresIn = f.Code+fmt.Sprint(i), f.IDToken, f.AccessToken, f.TokenType, f.ExpiresIn
			for _, fl := range []string{"err_code", "err_desc", "code", "id_token", "access_token", "token_type"} {
				setFlag(&s.Bytes, fl, has(f.Bytes, fl))
			}
			if s.Via == "http" && s.URIKind != "https" {
				s.AppType = "native"
			}
			if s.Via == "form" {
				s.Mode = "form_post"
			}
			if s.Resp != "code" {
				s.Code = ""
			}
		}
		s.Router = c.Router
		if s.ErrRef > len(c.SharedErrs) {
			s.ErrRef = 0
		}
		if s.ErrRef > 0 {
			s.inheritErr(c.SharedErrs[s.ErrRef-1])
		}
	}
	return c
}

// ---- run ------------------------------------------------------------------------------------

// ilvStep is one step of an interleaving at run time.
type ilvStep struct {
	c      Case
	sub    *vkit.Result
	g      *gate
	h      *httpRun // via=http
	exec   func()   // runs on the step's goroutine
	done   chan struct{}
	state   int // 0 not started / running, 1 parked, 2 finished
	started bool
	skip    bool
	during []int // steps that ran (a part of) their response while this one was parked
}

const ilvDeadline = 90 * time.Second

// crossTalkFP: fingerprint endings of "the state / session_state of this response is not its own". When the error
// VALUE of the step is one the caller also handed to another step of the interleaving, the root cause is named.
var crossTalkFP = []string{":altered:state", ":altered:session_state", ":unexpected:state", ":unexpected:session_state", ":missing:state", ":missing:session_state"}

const fpCallerErrorWritten = "C11:error-redirect-writes-into-callers-error-value"

func runIlv(res *vkit.Result, c Case) {
	steps := c.Steps
	if len(steps) > 4 {
		steps = steps[:4]
	}
	e := newEnv(c.Router, c.SharedErrs)
	run := make([]*ilvStep, len(steps))

	// phase 1 (sequential, ungated): registrations and the requests that precede the judged one
	for i, s := range steps {
		s.Router = c.Router
		s.BrokenWriter = s.BrokenWriter && s.Via != "http"
		if (s.Via == "url" || s.Via == "form") && s.ErrRef > 0 {
			// these paths make the harness itself write state into the error value: a fresh value per step
			s.ErrRef = 0
		}
		st := &ilvStep{c: s, sub: &vkit.Result{}, g: newGate(s.HoldAt), done: make(chan struct{})}
		run[i] = st
		switch s.Via {
		case "http":
			if !gateable(s.ErrPath) {
				st.skip = true
				break
			}
			st.h = newHTTPRun(e, s, s.Mode, -1)
			if s.ErrPath == "none" || s.ErrPath == "no_login" {
				st.h.authorize(nil)
			}
			h := st.h
			g := st.g
			st.exec = func() {
				if h.next == 0 {
					h.authorize(g)
				}
				if h.next == 1 {
					h.callback(g)
				}
			}
		case "url", "form", "autherror", "tryerror":
			sub, sc, g := st.sub, s, st.g
			st.exec = func() { judgeDirect(sub, e, sc, g) }
		default:
			st.skip = true
		}
		if st.skip {
			st.sub.Grey = true
			st.sub.Label("grey:ilv-step-not-interleavable")
			st.state = 2
		}
	}

	// phase 2: the schedule. Exactly one step goroutine is runnable at any time; this goroutine waits for it to park or finish.
	stuck := ""
	await := func(i int) {
		st := run[i]
		select {
		case <-st.g.parked:
			st.state = 1
		case <-st.done:
			st.state = 2
		case <-time.After(ilvDeadline):
			stuck = fmt.Sprintf("step %d neither finished nor reached a gate within %v (gate calls so far: %v)", i+1, ilvDeadline, st.g.hits)
		}
	}
	// running(i): step i is about to run; every step parked at this moment sees (a part of) it happen inside its hold
	running := func(i int) {
		for j, o := range run {
			if j != i && o.state == 1 {
				o.during = append(o.during, i)
			}
		}
	}
	start := func(i int) {
		st := run[i]
		running(i)
		st.started = true
		go func() {
			defer close(st.done)
			defer func() {
				if p := recover(); p != nil {
					st.sub.Fail("C11:panic@"+vkit.FirstLibFrame(string(debug.Stack())), "panic: %v", p)
				}
			}()
			st.exec()
		}()
		await(i)
	}
	resume := func(i int) {
		running(i)
		run[i].g.release <- struct{}{}
		await(i) // a step parks once (its gate counter has passed HoldAt): it finishes now
	}
	for k, st := range run {
		if st.skip || stuck != "" {
			continue
		}
		start(k)
		for j := 0; j < k && stuck == ""; j++ {
			hf := run[j].c.HoldFor
			if hf < 1 {
				hf = 1
			}
			if run[j].state == 1 && j+hf <= k {
				resume(j)
			}
		}
	}
	for j := range run {
		if run[j].state == 1 && stuck == "" {
			resume(j)
		}
	}
	if stuck != "" {
		// let every goroutine go and wait for it: nothing may outlive the case
		for _, st := range run {
			if !st.started {
				continue
			}
			go func(st *ilvStep) {
				for {
					select {
					case <-st.g.parked:
					case st.g.release <- struct{}{}:
					case <-st.done:
						return
					}
				}
			}(st)
		}
		for _, st := range run {
			if st.started {
				select {
				case <-st.done:
				case <-time.After(ilvDeadline):
				}
			}
		}
		res.Fail("C11:interleaving:stuck", "interleaving on one provider (%s): %s; every blocking point is owned by the harness, so the library blocked on its own", scheduleOf(run), stuck)
		res.Info = map[string]any{"violations": []string{"C11:interleaving:stuck"}}
		return
	}

	// phase 3: judge (HTTP flows) and classify, on this goroutine
	refUses := map[int]int{}
	for _, st := range run {
		if st.c.ErrRef > 0 && (st.c.Via == "autherror" || st.c.Via == "tryerror") {
			refUses[st.c.ErrRef]++
		}
	}
	res.Grey = true
	keys, perStep := []string{}, []any{}
	held, overlapped, samePath := 0, false, false
	for i, st := range run {
		sub, s := st.sub, st.c
		if !st.skip {
			if st.h != nil {
				if st.h.out.stage == "callback" && s.RT == "code" {
					st.h.out.codeOf = st.h.id
				}
				func() {
					defer func() {
						if p := recover(); p != nil {
							sub.Fail("C11:panic@"+vkit.FirstLibFrame(string(debug.Stack())), "panic: %v", p)
						}
					}()
					judgeHTTPOut(sub, e, s, st.h.out)
				}()
			}
			classify(sub, s)
		}
		where := "ran through"
		if st.g.heldAt != "" {
			held++
			overlapped = overlapped || len(st.during) > 0
			others := []string{}
			for _, o := range st.during {
				others = append(others, fmt.Sprint(o+1))
			}
			where = fmt.Sprintf("held at its gate call %d = %s (its gate calls: %s) while step(s) %s ran", s.HoldAt, st.g.heldAt, strings.Join(st.g.trace, ","), strings.Join(others, ","))
			res.Label("ilv:held-at:" + st.g.heldAt)
		}
		sharedInFlight := s.ErrRef > 0 && refUses[s.ErrRef] > 1 && (s.Via == "autherror" || s.Via == "tryerror")
		for _, v := range sub.Viol {
			fp := v.FP
			if sharedInFlight {
				for _, suffix := range crossTalkFP {
					if strings.HasSuffix(fp, suffix) {
						fp = fpCallerErrorWritten
					}
				}
			}
			res.Viol = append(res.Viol, vkit.Violation{FP: fp, Msg: fmt.Sprintf("step %d of %d interleaved on one provider (%s; %s): %s", i+1, len(run), scheduleOf(run), where, v.Msg)})
		}
		res.Labels = append(res.Labels, sub.Labels...)
		res.NonTrivial = res.NonTrivial || sub.NonTrivial
		res.Grey = res.Grey && sub.Grey
		keys = append(keys, fmt.Sprintf("%s|held@%s", sub.Key, st.g.heldAt))
		perStep = append(perStep, sub.Info)
		for _, o := range run[:i] {
			if o.c.Via == s.Via && o.c.ErrPath == s.ErrPath && o.c.ErrKind == s.ErrKind && outcomeOf(o.c) == outcomeOf(s) {
				samePath = true
			}
		}
		if sharedInFlight {
			res.Label("ilv:error-value-in-flight-twice")
		}
	}
	res.Label("via:ilv", fmt.Sprintf("ilv:len:%d", len(run)), fmt.Sprintf("ilv:held:%d", held))
	if overlapped {
		res.Label("ilv:response-produced-while-another-is-held")
	}
	if samePath {
		res.Label("ilv:two-responses-of-the-same-kind")
		if overlapped {
			res.Label("ilv:same-kind-overlapping")
		}
	}
	res.Key = "ilv|" + c.Router + "|" + strings.Join(keys, "||")
	fps := []string{}
	for _, v := range res.Viol {
		fps = append(fps, v.FP)
	}
	res.Info = map[string]any{"violations": fps, "steps": perStep, "schedule": scheduleOf(run)}
}

// scheduleOf: one word per step, for messages.
func scheduleOf(run []*ilvStep) string {
	w := []string{}
	for _, st := range run {
		s := st.c
		d := s.Via + "/" + outcomeOf(s)
		if s.Via == "http" {
			d += "/" + s.ErrPath
		}
		if s.Mode != "" {
			d += "/" + s.Mode
		}
		if s.ErrRef > 0 {
			d += fmt.Sprintf("/shared-error-%d", s.ErrRef)
		}
		if st.g.heldAt != "" {
			d += "/held@" + st.g.heldAt
		}
		w = append(w, d)
	}
	return strings.Join(w, ", ")
}
