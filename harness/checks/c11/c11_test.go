// Package c11: authorization response parameters arrive intact and cannot inject markup (property C11).
package c11

import (
	"context"
	"crypto/ed25519"
	"encoding/json"
	"errors"
	"fmt"
	"net/http"
	"net/http/httptest"
	"net/url"
	"reflect"
	"runtime/debug"
	"sort"
	"strconv"
	"strings"
	"sync"
	"testing"
	"unicode/utf8"

	"github.com/zitadel/oidc/v3/pkg/oidc"
	"github.com/zitadel/oidc/v3/pkg/op"
	"pgregory.net/rapid"

	"verif/harness/vkit"
)

// ErrSpec describes an error VALUE that lives as long as the provider of a sequence (a sentinel of the storage, a
// package-level error of the embedding application) and is answered by several steps.
type ErrSpec struct {
	Kind    string `json:"kind"` // a standard error code (typed constructor) | plain | json
	Code    string `json:"code,omitempty"`
	Desc    string `json:"desc,omitempty"`
	Wrapped bool   `json:"wrapped,omitempty"` // handed over inside a plain error (fmt.Errorf("storage: %w", e))
	// Bytes: which of "code", "desc" hold the Latin-1 spelling of a BYTE string (see Case.Bytes)
	Bytes []string `json:"bytes,omitempty"`
}

// Case is one authorization response (or error) pushed through one delivery path, or (via=seq) a sequence of such
// responses produced one after the other by ONE provider in one process.
type Case struct {
	Via          string   `json:"via"`    // http | url | form | autherror | tryerror | seq | ilv
	Router       string   `json:"router"` // provider | legacy
	Mode         string   `json:"mode"`   // "" (absent) | query | fragment | form_post
	RT           string   `json:"response_type"`
	URI          string   `json:"redirect_uri"`
	URIKind      string   `json:"uri_kind"` // label of the generator branch (https, http, loopback, ipv6, custom, hostile, fuzz)
	State        string   `json:"state"`
	SessionState string   `json:"session_state"`
	Scopes       []string `json:"scopes,omitempty"`

	// Bytes names the value fields (state, session_state, code, access_token, id_token, token_type, err_code, err_desc) that
	// hold the LATIN-1 SPELLING of a byte string: every rune U+0000..U+00FF stands for one byte, so that values which are
	// not valid UTF-8 (what a client can send percent-encoded, what a storage or driver can hold) survive the JSON form of
	// the case. run() replaces the spelling by the byte string before anything is executed.
	Bytes []string `json:"bytes,omitempty"`

	// via=http
	// StoreErr (error paths create_fail, cb_store_fail, cb_client_fail): the error VALUE the failing storage call returns
	// (nil: the anonymous injected fault of vkit)
	StoreErr  *ErrSpec `json:"store_err,omitempty"`
	AppType   string `json:"app_type,omitempty"`
	ErrPath   string `json:"err_path,omitempty"` // none | no_login | cb_store_fail | cb_client_fail | bad_prompt | prompt_none | create_fail | unsupported_rt | no_scope
	JWTAccess bool   `json:"jwt_access,omitempty"`
	// the SPELLING of the response type (RT stays the response type itself, in canonical spelling)
	RTReq string   `json:"rt_req,omitempty"` // response_type exactly as the request spells it: values in any order, repeated values, additional / leading / trailing spaces ("" = RT)
	RTReg []string `json:"rt_reg,omitempty"` // response types of the client registration as spelled there (empty = code, id_token, id_token token)

	// direct calls
	Resp        string `json:"resp,omitempty"` // code | token | error
	Code        string `json:"code,omitempty"`
	AccessToken string `json:"access_token,omitempty"`
	IDToken     string `json:"id_token,omitempty"`
	TokenType   string `json:"token_type,omitempty"`
	ExpiresIn   uint64 `json:"expires_in,omitempty"`
	ErrKind     string `json:"err_kind,omitempty"` // a standard error code (typed constructor) | plain (errors.New) | json (oidc.Error decoded from JSON, arbitrary code)
	ErrCode     string `json:"err_code,omitempty"` // err_kind=json
	ErrDesc     string `json:"err_desc,omitempty"`

	// via=seq: 2-5 responses on one long-lived provider; every step is judged with the per-response oracle
	Steps      []Case    `json:"steps,omitempty"`
	SharedErrs []ErrSpec `json:"shared_errs,omitempty"`

	// a step of a sequence
	BrokenWriter bool `json:"broken_writer,omitempty"` // the http.ResponseWriter of this step accepts Accept body bytes and fails from then on (user agent gone)
	Accept       int  `json:"accept,omitempty"`
	ErrRef       int  `json:"err_ref,omitempty"` // >0: the error answered is shared_errs[err_ref-1] of the sequence (the same value every time), not a fresh one

	// a step of an interleaving (via=ilv): the response is produced in its own goroutine that is parked at the
	// HoldAt-th gate call (0: runs through) while the next HoldFor steps are started and run until they finish or park
	HoldAt  int `json:"hold_at,omitempty"`
	HoldFor int `json:"hold_for,omitempty"`
}

// ---- generator ----------------------------------------------------------------------

var (
	modes     = []string{"", "query", "fragment", "form_post"}
	rts       = []string{"code", "id_token", "id_token token"}
	stdScopes = []string{"profile", "email", "phone", "address", "offline_access"}
	errCodes  = []string{"invalid_request", "invalid_scope", "unauthorized_client", "server_error", "interaction_required", "login_required", "request_not_supported", "access_denied"}
)

var (
	singleVias = []string{"http", "http", "http", "url", "url", "form", "form", "autherror", "tryerror"}
	stepVias   = []string{"http", "http", "url", "form", "form", "form", "autherror", "autherror", "autherror", "tryerror", "tryerror"}
)

func genCase(t *rapid.T) Case {
	switch rapid.IntRange(0, 4).Draw(t, "shape") {
	case 0:
		return genSeq(t)
	case 1:
		return genIlv(t)
	}
	return genSingle(t, singleVias)
}

// genSeq: 2-5 responses of one provider, 0-2 long-lived error values some error steps share, some steps with a
// ResponseWriter that breaks after Accept bytes. Steps and error values are drawn as slices of self-contained
// elements so that the shrinker can drop the ones a violation does not need.
func genSeq(t *rapid.T) Case {
	c := Case{Via: "seq"}
	c.Router = rapid.SampledFrom([]string{"provider", "legacy"}).Draw(t, "router")
	c.SharedErrs = rapid.SliceOfN(rapid.Custom(genErrSpec), 0, 2).Draw(t, "shared")
	c.Steps = rapid.SliceOfN(rapid.Custom(genStep), 2, 5).Draw(t, "steps")
	for i := range c.Steps {
		s := &c.Steps[i]
		s.Router = c.Router
		if s.ErrRef > len(c.SharedErrs) {
			s.ErrRef = 0
		}
		if s.ErrRef > 0 {
			s.inheritErr(c.SharedErrs[s.ErrRef-1])
		}
	}
	return c
}

func genErrSpec(t *rapid.T) ErrSpec {
	sp := ErrSpec{Kind: rapid.SampledFrom(append([]string{"json", "plain"}, errCodes...)).Draw(t, "sharedkind")}
	if sp.Kind == "json" {
		sp.Code = genMaybeBytes(t, "sharedcode", "code", &sp.Bytes)
	}
	if rapid.IntRange(0, 7).Draw(t, "sharednodesc") > 0 || sp.Kind == "plain" {
		sp.Desc = genMaybeBytes(t, "shareddesc", "desc", &sp.Bytes)
	}
	sp.Wrapped = rapid.IntRange(0, 3).Draw(t, "sharedwrapped") == 0
	return sp
}

// genMaybeBytes: a value for the named field; one in five is a byte string (Latin-1 spelling, the field is noted in flags).
func genMaybeBytes(t *rapid.T, label, field string, flags *[]string) string {
	if rapid.IntRange(0, 4).Draw(t, label+"raw") == 0 {
		*flags = append(*flags, field)
		return genByteValue(t, label)
	}
	return genValue(t, label)
}

func genMaybeBytesTokenish(t *rapid.T, label, field string, flags *[]string) string {
	if rapid.IntRange(0, 4).Draw(t, label+"raw") == 0 {
		*flags = append(*flags, field)
		return genByteValue(t, label)
	}
	return genTokenish(t, label)
}

func has(list []string, x string) bool {
	for _, l := range list {
		if l == x {
			return true
		}
	}
	return false
}

// setFlag makes the membership of field in *flags equal to on.
func setFlag(flags *[]string, field string, on bool) {
	out := []string(nil)
	for _, f := range *flags {
		if f != field {
			out = append(out, f)
		}
	}
	if on {
		out = append(out, field)
	}
	*flags = out
}

// inheritErr: the step answers the long-lived error value sp; its own err_* fields describe that value.
func (c *Case) inheritErr(sp ErrSpec) {
	c.ErrKind, c.ErrCode, c.ErrDesc = sp.Kind, sp.Code, sp.Desc
	setFlag(&c.Bytes, "err_code", has(sp.Bytes, "code"))
	setFlag(&c.Bytes, "err_desc", has(sp.Bytes, "desc"))
}

func genStep(t *rapid.T) Case {
	s := genSingle(t, stepVias)
	if s.Resp == "error" && rapid.IntRange(0, 2).Draw(t, "useshared") > 0 {
		s.ErrRef = rapid.IntRange(1, 2).Draw(t, "errref")
	}
	if (s.Via == "form" || s.Via == "http" || s.Via == "autherror") && rapid.IntRange(0, 2).Draw(t, "broken") == 0 {
		s.BrokenWriter = true
		s.Accept = rapid.IntRange(0, 700).Draw(t, "accept")
	}
	return s
}

func genSingle(t *rapid.T, vias []string) Case {
	var c Case
	c.Via = rapid.SampledFrom(vias).Draw(t, "via")
	c.Router = rapid.SampledFrom([]string{"provider", "legacy"}).Draw(t, "router")
	c.Mode = rapid.SampledFrom(modes).Draw(t, "mode")
	c.RT = rapid.SampledFrom(rts).Draw(t, "rt")
	if c.Via == "form" {
		c.Mode = "form_post"
	}
	c.URI, c.URIKind = genURI(t)
	if c.Via == "form" && rapid.IntRange(0, 3).Draw(t, "hostile") == 0 {
		c.URI, c.URIKind = genHostileURI(t), "hostile"
	}
	if rapid.IntRange(0, 9).Draw(t, "nostate") > 0 {
		c.State = genMaybeBytes(t, "state", "state", &c.Bytes)
	}
	if rapid.IntRange(0, 2).Draw(t, "withss") > 0 {
		c.SessionState = genMaybeBytes(t, "ss", "session_state", &c.Bytes)
	}
	c.Scopes = append([]string{"openid"}, rapid.SliceOfNDistinct(rapid.SampledFrom(stdScopes), 0, 2, rapid.ID[string]).Draw(t, "scopes")...)
	switch c.Via {
	case "http":
		c.AppType = "native"
		if c.URIKind == "https" {
			c.AppType = rapid.SampledFrom([]string{"web", "user_agent", "native"}).Draw(t, "apptype")
		}
		c.ErrPath = rapid.SampledFrom([]string{"none", "none", "none", "none", "none", "none", "no_login", "cb_store_fail", "cb_client_fail", "bad_prompt", "prompt_none", "create_fail", "unsupported_rt", "no_scope"}).Draw(t, "errpath")
		c.JWTAccess = rapid.Bool().Draw(t, "jwtat")
		if storeFails(c.ErrPath) && rapid.IntRange(0, 3).Draw(t, "storeerr") > 0 {
			sp := genErrSpec(t)
			c.StoreErr = &sp
		}
		genSpelling(t, &c)
	case "url", "form":
		c.Resp = rapid.SampledFrom([]string{"code", "token", "error"}).Draw(t, "resp")
		if c.Resp == "code" {
			c.RT = "code"
		} else if c.Resp == "token" {
			c.RT = rapid.SampledFrom(rts[1:]).Draw(t, "rtimplicit")
		}
	default:
		c.Resp = "error"
	}
	switch c.Resp {
	case "code":
		c.Code = genMaybeBytesTokenish(t, "code", "code", &c.Bytes)
	case "token":
		c.IDToken = genMaybeBytesTokenish(t, "idt", "id_token", &c.Bytes)
		if c.RT == "id_token token" {
			c.AccessToken = genMaybeBytesTokenish(t, "at", "access_token", &c.Bytes)
			c.ExpiresIn = rapid.SampledFrom([]uint64{0, 1, 299, 300, 3600, 1<<32 + 1, 1<<64 - 1}).Draw(t, "exp")
		}
		c.TokenType = "Bearer"
		if rapid.IntRange(0, 4).Draw(t, "oddtt") == 0 {
			c.TokenType = genMaybeBytes(t, "tt", "token_type", &c.Bytes)
		}
	case "error":
		c.ErrKind = rapid.SampledFrom(append([]string{"plain", "plain", "json"}, errCodes...)).Draw(t, "errkind")
		if c.ErrKind == "json" {
			c.ErrCode = genMaybeBytes(t, "errcode", "err_code", &c.Bytes)
		}
		if rapid.IntRange(0, 7).Draw(t, "nodesc") > 0 || c.ErrKind == "plain" {
			c.ErrDesc = genMaybeBytes(t, "desc", "err_desc", &c.Bytes)
		}
	}
	return c
}

// storeFails: error paths of the HTTP flow on which a storage call fails.
func storeFails(errPath string) bool {
	return errPath == "create_fail" || errPath == "cb_store_fail" || errPath == "cb_client_fail"
}

// ---- byte strings: from the serialised case to the executed one ----------------------------

func (c *Case) valueField(name string) *string {
	switch name {
	case "state":
		return &c.State
	case "session_state":
		return &c.SessionState
	case "code":
		return &c.Code
	case "access_token":
		return &c.AccessToken
	case "id_token":
		return &c.IDToken
	case "token_type":
		return &c.TokenType
	case "err_code":
		return &c.ErrCode
	case "err_desc":
		return &c.ErrDesc
	}
	return nil
}

func resolveSpec(sp ErrSpec) (ErrSpec, bool) {
	ok := true
	for _, f := range sp.Bytes {
		var good bool
		switch f {
		case "code":
			sp.Code, good = unspell(sp.Code)
		case "desc":
			sp.Desc, good = unspell(sp.Desc)
		}
		ok = ok && good
	}
	return sp, ok
}

// resolve returns the case that is executed: every field named in Bytes is replaced by the byte string it spells
// (recursively for steps, long-lived error values and the storage's error). ok=false: a flagged field is not a Latin-1
// spelling, or the name is unknown (hand-written / fuzzed cases only). The case handed in is not modified.
func resolve(c Case) (Case, bool) {
	ok := true
	seen := map[string]bool{}
	for _, f := range c.Bytes {
		p := c.valueField(f)
		if p == nil || seen[f] {
			ok = false
			continue
		}
		seen[f] = true
		var good bool
		*p, good = unspell(*p)
		ok = ok && good
	}
	if c.StoreErr != nil {
		sp, good := resolveSpec(*c.StoreErr)
		c.StoreErr, ok = &sp, ok && good
	}
	if len(c.SharedErrs) > 0 {
		specs := make([]ErrSpec, len(c.SharedErrs))
		for i, sp := range c.SharedErrs {
			var good bool
			specs[i], good = resolveSpec(sp)
			ok = ok && good
		}
		c.SharedErrs = specs
	}
	if len(c.Steps) > 0 {
		steps := make([]Case, len(c.Steps))
		for i, s := range c.Steps {
			var good bool
			steps[i], good = resolve(s)
			ok = ok && good
		}
		c.Steps = steps
	}
	return c, ok
}

// ---- oracle -------------------------------------------------------------------------

// want is one parameter the redirect URI must receive: exactly once, with exactly this value
// (or, for tokens minted inside the provider, a value that passes verify).
type want struct {
	name   string
	val    string
	verify func(got string) string // non-nil: functional check instead of equality; returns a complaint or ""
}

type judge struct {
	res     *vkit.Result
	c       Case
	mode    string
	isError bool
	sound   bool
	where   string
	absent  []string // response parameters the provider did not produce for THIS response: none of them may arrive with a value
	// refused: the provider did not accept the request's spelling of the response type (or refused the request before it
	// looked at it) and no response_mode was named: the statement does not say which part of the Location carries the refusal
	refused bool
	// leakClass: suffix of the "tokens / parameters of a fragment-mode response in the query" fingerprint
	leakClass string
}

// named are the response parameters the statement lists.
var named = []string{"code", "state", "session_state", "access_token", "id_token", "token_type", "expires_in", "error", "error_description"}

// allBut: every named parameter that is not among wants.
func allBut(wants []want) []string {
	var out []string
	for _, n := range named {
		has := false
		for _, w := range wants {
			has = has || w.name == n
		}
		if !has {
			out = append(out, n)
		}
	}
	return out
}

func wantChannel(mode, rt string, isError bool) string {
	switch mode {
	case "query":
		return "query"
	case "fragment":
		return "fragment"
	case "form_post":
		if !isError {
			return "form"
		}
		return "any" // the statement does not say which channel carries an error of a form_post request
	}
	if rt == "code" {
		return "query"
	}
	return "fragment"
}

func preQuery(uri string) url.Values {
	u, err := url.Parse(uri)
	if err != nil {
		return url.Values{}
	}
	q, _ := url.ParseQuery(u.RawQuery)
	return q
}

// values compares the decoded parameters of one channel with the expectation.
func (j *judge) values(ch string, got url.Values, wants []want) {
	res := j.res
	doubleEsc := []string{}
	for _, w := range wants {
		g, present := got[w.name]
		if ch == "form" && w.name == "session_state" && !present {
			res.Fail("C11:form_post-omits-session_state", "%s: form_post response carries no session_state input although the provider produced session_state %q (code, state etc. are there: %v)", j.where, clip(w.val), keysOf(got))
			continue
		}
		if !present {
			exp := fmt.Sprintf("expected %q", clip(w.val))
			if w.verify != nil {
				exp = "minted by the provider"
			}
			res.Fail("C11:"+ch+":missing:"+w.name, "%s: parameter %s (%s) does not arrive in the %s; delivered: %v", j.where, w.name, exp, ch, keysOf(got))
			continue
		}
		if len(g) != 1 {
			res.Fail("C11:"+ch+":duplicated:"+w.name, "%s: parameter %s arrives %d times in the %s: %q", j.where, w.name, len(g), ch, g)
			continue
		}
		if w.verify != nil {
			if msg := w.verify(g[0]); msg != "" {
				res.Fail("C11:"+ch+":altered:"+w.name, "%s: %s delivered in the %s is not the value the provider minted: %s", j.where, w.name, ch, msg)
			}
			continue
		}
		if g[0] == w.val {
			continue
		}
		if ch == "form" && !utf8.ValidString(w.val) {
			// an HTML document is text: a byte sequence that is not valid UTF-8 has no spelling in it (a browser decoding the
			// page replaces it before it submits the form), so no implementation can deliver it through form_post; only the
			// markup claims are judged for such values
			res.Label("grey:form-invalid-utf8")
			continue
		}
		if ch == "form" && strings.ContainsAny(w.val, "\r\n\x00") && normNL(g[0]) == normNL(w.val) {
			// HTML cannot carry NUL, and CR / LF do not survive the parser's newline normalisation (nor a browser's form submission)
			res.Label("grey:form-nul-cr-lf")
			continue
		}
		if ch == "fragment" {
			if u, err := url.QueryUnescape(g[0]); err == nil && u == w.val {
				doubleEsc = append(doubleEsc, fmt.Sprintf("%s: sent %q, fragment decodes to %q", w.name, clip(w.val), clip(g[0])))
				continue
			}
		}
		res.Fail("C11:"+ch+":altered:"+w.name, "%s: parameter %s arrives in the %s as %q, expected %q", j.where, w.name, ch, clip(g[0]), clip(w.val))
	}
	// nothing but the parameters of this response: a value for a parameter the provider did not produce for it
	// (the session_state / code / state of another response, an error next to a code) is not "exactly the values the provider produced"
	for _, n := range j.absent {
		for _, v := range got[n] {
			if v != "" {
				res.Fail("C11:"+ch+":unexpected:"+n, "%s: the %s carries %s=%q although this response has no %s (its parameters: %v; delivered: %v)", j.where, ch, n, clip(v), n, wantNames(wants), keysOf(got))
				break
			}
		}
	}
	if len(doubleEsc) > 0 {
		res.Fail("C11:fragment-double-escaped", "%s: fragment is percent-encoded twice, a user agent that form-decodes the fragment once gets escaped text: %s", j.where, strings.Join(doubleEsc, "; "))
	}
	// scope of an implicit response: when it is delivered it is one space-delimited value
	if g, ok := got["scope"]; ok && !j.isError && len(j.c.Scopes) > 0 {
		if len(g) != 1 || g[0] != strings.Join(j.c.Scopes, " ") {
			if ch == "fragment" && len(g) == 1 {
				if u, err := url.QueryUnescape(g[0]); err == nil && u == strings.Join(j.c.Scopes, " ") {
					return
				}
			}
			res.Fail("C11:"+ch+":altered:scope", "%s: scope arrives in the %s as %q, expected the single value %q", j.where, ch, g, strings.Join(j.c.Scopes, " "))
		}
	}
}

func wantNames(ws []want) []string {
	out := make([]string, 0, len(ws))
	for _, w := range ws {
		out = append(out, w.name)
	}
	sort.Strings(out)
	return out
}

func normNL(s string) string {
	s = strings.ReplaceAll(s, "\r\n", "\n")
	s = strings.ReplaceAll(s, "\r", "\n")
	return strings.ReplaceAll(s, "\x00", "\ufffd")
}

func keysOf(v url.Values) []string {
	k := make([]string, 0, len(v))
	for n := range v {
		k = append(k, n)
	}
	sort.Strings(k)
	return k
}

// location judges a redirect target (Location header or the URL a direct function returned).
func (j *judge) location(loc string, wants []want) {
	res := j.res
	l := decodeLocation(loc)
	if l.parseErr != nil {
		res.Fail("C11:location-unparseable", "%s: redirect target %q does not parse: %v", j.where, clip(loc), l.parseErr)
		return
	}
	if !sameTarget(l.u, j.c.URI) {
		res.Fail("C11:wrong-target", "%s: redirect target %q is not the redirect URI %q", j.where, clip(loc), j.c.URI)
		return
	}
	if l.queryErr != nil {
		res.Fail("C11:query-undecodable", "%s: query of %q does not form-decode: %v", j.where, clip(loc), l.queryErr)
		return
	}
	// query parameters of the registered URI are preserved (multiset)
	pre := preQuery(j.c.URI)
	rest, missing := subtract(l.query, pre)
	if len(missing) > 0 {
		res.Fail("C11:registered-query-lost", "%s: query parameters %v of the redirect URI %q are gone or changed in %q", j.where, missing, j.c.URI, clip(loc))
	}
	ch := wantChannel(j.mode, j.c.RT, j.isError)
	if j.refused && j.mode == "" {
		ch = "query"
		if l.hasFrag && len(rest) == 0 {
			ch = "fragment"
		}
		res.Label("refused-spelling-delivered-by:" + ch)
	}
	if ch == "any" {
		ch = "query"
		if l.hasFrag && len(rest) == 0 {
			ch = "fragment"
		}
		res.Label("form_post-error-delivered-by:" + ch)
	}
	res.Label("channel:" + ch)
	switch ch {
	case "query":
		j.values("query", rest, wants)
	case "fragment":
		if len(rest) > 0 {
			res.Fail("C11:fragment:leaks-into-query"+j.leakClass, "%s: fragment-mode response puts %v into the query of %q", j.where, keysOf(rest), clip(loc))
			return
		}
		if !l.hasFrag {
			res.Fail("C11:fragment:absent", "%s: fragment-mode response %q has no fragment", j.where, clip(loc))
			return
		}
		if l.fragErr != nil {
			res.Fail("C11:fragment-undecodable", "%s: fragment %q does not form-decode: %v", j.where, clip(l.fragRaw), l.fragErr)
			return
		}
		j.values("fragment", l.frag, wants)
	case "form":
		res.Fail("C11:form:not-a-form", "%s: form_post response was a redirect to %q", j.where, clip(loc))
	}
}

// hasInvalidUTF8: some value of the (resolved) case is a byte string that is not valid UTF-8.
func hasInvalidUTF8(c Case) bool {
	for _, v := range []string{c.State, c.SessionState, c.Code, c.AccessToken, c.IDToken, c.TokenType, c.ErrCode, c.ErrDesc, c.URI} {
		if !utf8.ValidString(v) {
			return true
		}
	}
	return false
}

var scriptSchemes = map[string]bool{"javascript": true, "data": true, "vbscript": true}

// form judges an auto-submitting form document.
func (j *judge) form(body []byte, wants []want, valuesToo bool) {
	res := j.res
	res.Label("channel:form")
	f := parseFormDoc(body, hasInvalidUTF8(j.c))
	if len(f.problems) > 0 {
		res.Fail("C11:form_post:markup-injection", "%s: the form document deviates from the fixed skeleton (html > head > meta, body[onload] > form[method=post][action] > hidden inputs): %s; redirect_uri=%q state=%q", j.where, strings.Join(f.problems, "; "), clip(j.c.URI), clip(j.c.State))
	}
	if !f.hasAction {
		return
	}
	if sch := browserScheme(f.action); scriptSchemes[sch] {
		res.Fail("C11:form_post:script-url-action", "%s: form action %q is a %s: URL (redirect_uri %q)", j.where, clip(f.action), sch, clip(j.c.URI))
	}
	switch {
	case f.action == "#ZgotmplZ":
		res.Label("form-action:neutralised")
	case !j.sound:
		res.Label("form-action:hostile-uri-not-compared")
	case f.action == j.c.URI:
		res.Label("form-action:exact")
	default:
		res.Fail("C11:form_post:action-altered", "%s: form action is %q, redirect URI is %q", j.where, clip(f.action), j.c.URI)
	}
	if valuesToo {
		j.values("form", f.inputs, wants)
	}
}

// ---- execution: HTTP flow -------------------------------------------------------------

const subject = "u1"

type httpOut struct {
	final   *vkit.Resp // the response that must carry the authorization response
	stage   string     // authorize | callback
	code    string     // code handed to the storage (journal)
	codeOf  string     // interleaved flows: the auth request whose code must arrive
	panicFP string
}

var signKey = vkit.SignKeySpec{KeyName: "ed1", Alg: "EdDSA", KID: "sig1"}

// env is the provider all responses of a case come from: a fresh one per single case, ONE for all steps of a sequence.
type env struct {
	st      *vkit.Store
	fs      *faultyStorage
	sut     *vkit.SUT
	ag      *vkit.Agent
	nClient int
	shared  []sharedErr
}

type sharedErr struct {
	val        error
	code, desc string
	ok         bool
}

func newEnv(router string, specs []ErrSpec) *env {
	st := vkit.NewStore(nil, signKey, vkit.StorePolicy{})
	fs := &faultyStorage{}
	spec := vkit.DefaultProviderSpec(router)
	spec.WrapStorage = func(s op.Storage) op.Storage { fs.Storage = s; return fs }
	sut := vkit.MustBuild(spec, st)
	e := &env{st: st, fs: fs, sut: sut, ag: vkit.NewAgent(sut)}
	for _, sp := range specs {
		var se sharedErr
		se.val, se.code, se.desc, se.ok = buildErrorSpec(sp)
		e.shared = append(e.shared, se)
	}
	return e
}

// faultyStorage sits between the provider and the storage of the case: the calls named by fail return the error VALUE
// the case generated (a typed / decoded *oidc.Error with its own description, optionally wrapped, or a plain error)
// instead of reaching the storage.
type faultyStorage struct {
	op.Storage
	mu   sync.Mutex
	fail map[string]error
}

func (s *faultyStorage) set(err error, methods ...string) {
	s.mu.Lock()
	defer s.mu.Unlock()
	s.fail = map[string]error{}
	for _, m := range methods {
		s.fail[m] = err
	}
}

func (s *faultyStorage) failure(method string) error {
	s.mu.Lock()
	defer s.mu.Unlock()
	return s.fail[method]
}

func (s *faultyStorage) CreateAuthRequest(ctx context.Context, r *oidc.AuthRequest, userID string) (op.AuthRequest, error) {
	if err := s.failure("CreateAuthRequest"); err != nil {
		return nil, err
	}
	return s.Storage.CreateAuthRequest(ctx, r, userID)
}

func (s *faultyStorage) SaveAuthCode(ctx context.Context, id, code string) error {
	if err := s.failure("SaveAuthCode"); err != nil {
		return err
	}
	return s.Storage.SaveAuthCode(ctx, id, code)
}

func (s *faultyStorage) DeleteAuthRequest(ctx context.Context, id string) error {
	if err := s.failure("DeleteAuthRequest"); err != nil {
		return err
	}
	return s.Storage.DeleteAuthRequest(ctx, id)
}

func (s *faultyStorage) GetClientByClientID(ctx context.Context, id string) (op.Client, error) {
	if err := s.failure("GetClientByClientID"); err != nil {
		return nil, err
	}
	return s.Storage.GetClientByClientID(ctx, id)
}

// brokenWriter is the ResponseWriter of a user agent that went away: it takes `accept` body bytes and fails from then on.
type brokenWriter struct {
	hdr    http.Header
	status int
	body   []byte
	accept int
	failed bool
}

func (w *brokenWriter) Header() http.Header { return w.hdr }
func (w *brokenWriter) WriteHeader(code int) {
	if w.status == 0 {
		w.status = code
	}
}
func (w *brokenWriter) Write(p []byte) (int, error) {
	if w.status == 0 {
		w.status = 200
	}
	if !w.failed && len(p) <= w.accept {
		w.accept -= len(p)
		w.body = append(w.body, p...)
		return len(p), nil
	}
	n := 0
	if !w.failed {
		n = w.accept
		w.body = append(w.body, p[:n]...)
	}
	w.accept, w.failed = 0, true
	return n, errors.New("write tcp: broken pipe")
}

// get issues one GET against the provider; accept >= 0: through a brokenWriter; g != nil: through a router built for this
// request around the same provider whose Authorizer / Storage / auth requests report their getter calls to the gate g.
func (e *env) get(path string, q url.Values, accept int, g *gate) *vkit.Resp {
	target := path
	if len(q) > 0 {
		target += "?" + q.Encode()
	}
	r := httptest.NewRequest("GET", "http://"+e.sut.Host+target, nil)
	r.Host = e.sut.Host
	h := e.handler(g)
	if accept < 0 {
		return vkit.Serve(h, e.st, r)
	}
	w := &brokenWriter{hdr: http.Header{}, accept: accept}
	resp := &vkit.Resp{Req: e.st.BeginRequest(), JournalAtWrite: -1}
	func() {
		defer func() {
			if p := recover(); p != nil {
				resp.Panic = p
				resp.Stack = string(debug.Stack())
			}
		}()
		h.ServeHTTP(w, r)
	}()
	resp.Status, resp.Header, resp.Body = w.status, w.hdr, w.body
	if resp.Status == 0 && resp.Panic == nil {
		resp.Status = 200
	}
	resp.JournalAtEnd = e.st.JournalLen()
	return resp
}

// httpRun is one authorize -> login -> callback flow for a client registered for it, split into its two requests so
// that an interleaving can run the first one ahead of time and the one that produces the judged response under a gate.
type httpRun struct {
	e      *env
	c      Case
	mode   string
	accept int
	cl     *vkit.ClientSpec
	out    *httpOut
	serr   error  // the error value the failing storage call returns (nil: vkit's injected fault)
	id     string // auth request the authorize request created
	next   int    // 0: authorize, 1: callback, 2: finished
}

func newHTTPRun(e *env, c Case, mode string, accept int) *httpRun {
	rtsReg := c.registered()
	e.nClient++
	cl := &vkit.ClientSpec{ID: fmt.Sprintf("client-%d", e.nClient), AppType: c.AppType, AuthMethod: "none", DevMode: c.URIKind != "https", GrantTypes: []string{vkit.GCode, vkit.GImpl},
		ResponseTypes: rtsReg, RedirectURIs: []string{c.URI}, JWTAccessToken: c.JWTAccess}
	// no request is being served while a client is registered (the steps of an interleaving are registered before any of them starts)
	e.st.Clients[cl.ID] = cl
	h := &httpRun{e: e, c: c, mode: mode, accept: accept, cl: cl, out: &httpOut{}}
	if c.StoreErr != nil && storeFails(c.ErrPath) {
		// a fresh value per flow
		if ev, _, _, ok := buildErrorSpec(*c.StoreErr); ok {
			h.serr = ev
		}
	}
	return h
}

// authorize sends the authorization request. The policy of the storage is read by CreateAuthRequest, i.e. before any
// gate of this request; only one request runs at any time, so setting it right before the request is race-free.
func (h *httpRun) authorize(g *gate) {
	c, st, out := h.c, h.e.st, h.out
	st.Policy.SessionState = c.SessionState
	st.Policy.PromptNoneLoginError = c.ErrPath == "prompt_none"
	st.SetFaults()
	h.e.fs.set(nil)
	q := url.Values{"client_id": {h.cl.ID}, "redirect_uri": {c.URI}, "response_type": {c.reqRT()}, "scope": {strings.Join(c.Scopes, " ")}, "nonce": {"n-1"}}
	if c.State != "" {
		q.Set("state", c.State)
	}
	if h.mode != "" {
		q.Set("response_mode", h.mode)
	}
	switch c.ErrPath {
	case "bad_prompt":
		q.Set("prompt", "none login")
	case "prompt_none":
		q.Set("prompt", "none")
	case "no_scope":
		q.Del("scope")
	case "create_fail":
		if h.serr != nil {
			h.e.fs.set(h.serr, "CreateAuthRequest")
		} else {
			st.SetFaults(vkit.Fault{Method: "CreateAuthRequest", Kind: "error"})
		}
	}
	h.next = 2
	auth := h.e.get(h.e.sut.Paths["authorization"], q, h.accept, g)
	h.e.fs.set(nil)
	out.final, out.stage = auth, "authorize"
	if auth.Panic != nil {
		out.panicFP = auth.PanicFrame()
		return
	}
	id, toLogin := vkit.LoginRequestID(auth)
	if !toLogin {
		return
	}
	h.id, h.next = id, 1
	if c.ErrPath != "no_login" {
		st.Login(id, subject)
	}
}

// callback sends the request the login UI redirects the user agent to.
func (h *httpRun) callback(g *gate) {
	c, st, out := h.c, h.e.st, h.out
	switch c.ErrPath {
	case "cb_store_fail":
		if h.serr != nil {
			h.e.fs.set(h.serr, "SaveAuthCode", "DeleteAuthRequest")
		} else {
			st.SetFaults(vkit.Fault{Method: "SaveAuthCode", Kind: "error"}, vkit.Fault{Method: "DeleteAuthRequest", Kind: "error"})
		}
	case "cb_client_fail":
		if h.serr != nil {
			h.e.fs.set(h.serr, "GetClientByClientID")
		} else {
			st.SetFaults(vkit.Fault{Method: "GetClientByClientID", Kind: "error"})
		}
	}
	h.next = 2
	cb := h.e.get(h.e.sut.CallbackPath(), url.Values{"id": {h.id}}, h.accept, g)
	if h.serr != nil {
		h.e.fs.set(nil)
	}
	if g == nil {
		st.SetFaults()
	}
	out.final, out.stage = cb, "callback"
	if cb.Panic != nil {
		out.panicFP = cb.PanicFrame()
		return
	}
	if g != nil {
		// requests overlap: the journal's request numbers do not tell whose call it was; the code is looked up by the auth request (codeOf)
		return
	}
	for _, je := range st.CallsOf(cb.Req) {
		if je.Method == "SaveAuthCode" && len(je.Args) == 2 && !je.Fault {
			out.code = je.Args[1]
		}
	}
}

// runHTTP drives authorize -> login -> callback for a client registered for this run; accept >= 0: every response of
// the run is written to a brokenWriter.
func runHTTP(e *env, c Case, mode string, accept int) *httpOut {
	h := newHTTPRun(e, c, mode, accept)
	h.authorize(nil)
	if h.next == 1 {
		h.callback(nil)
	}
	return h.out
}

// delivered: what kind of answer is r with respect to the redirect URI?
func delivered(r *vkit.Resp, uri string) string {
	switch {
	case r.IsRedirect():
		if l := decodeLocation(r.Location()); l.parseErr == nil && sameTarget(l.u, uri) {
			return "redirect"
		}
		return "redirect-elsewhere"
	case r.Status == 200 && strings.Contains(string(r.Body), "<form"):
		return "form"
	}
	return "direct"
}

func verifyIDToken(tok string) string {
	t, ok := vkit.SplitCompact(tok)
	if !ok {
		return fmt.Sprintf("%q is not a compact JWS", clip(tok))
	}
	sig, err := vkit.UnB64(t.Sig)
	if err != nil {
		return "signature segment is not base64url: " + err.Error()
	}
	pub, _ := vkit.Key("ed1").Pub.(ed25519.PublicKey)
	if !ed25519.Verify(pub, t.SigningInput(), sig) {
		return fmt.Sprintf("signature of %q does not verify under the provider's key", clip(tok))
	}
	pl, err := vkit.UnB64(t.Payload)
	if err != nil {
		return "payload segment is not base64url"
	}
	var m map[string]any
	if json.Unmarshal(pl, &m) != nil || m["sub"] != subject {
		return fmt.Sprintf("payload %q is not the ID token of %s", clip(string(pl)), subject)
	}
	return ""
}

func judgeHTTP(res *vkit.Result, e *env, c Case) {
	accept := -1
	if c.BrokenWriter {
		accept = c.Accept
	}
	judgeHTTPOut(res, e, c, runHTTP(e, c, c.Mode, accept))
}

// judgeHTTPOut judges the response an HTTP flow ended with.
func judgeHTTPOut(res *vkit.Result, e *env, c Case, out *httpOut) {
	if out.panicFP != "" {
		res.Fail("C11:panic@"+out.panicFP, "panic in %s: %v", out.stage, out.final.Panic)
		return
	}
	if c.BrokenWriter {
		// the user agent is gone: nothing arrives anywhere, nothing to judge about THIS response
		res.Grey = true
		res.Label("grey:aborted-write", "aborted:http:"+out.stage)
		return
	}
	sound, why := soundURI(c.URI)
	if !sound {
		res.Grey = true
		_ = why
		res.Label("grey:uri-outside-value-domain")
		return
	}
	isError := c.ErrPath != "none"
	where := fmt.Sprintf("http/%s %s (mode %q, type %q, %s)", c.Router, out.stage, c.Mode, c.RT, c.ErrPath)
	refused, leakClass := false, ""
	if literal := has(c.registered(), c.reqRT()); c.spelled() || (!literal && c.registeredAsSet()) {
		// the response type is the SET of values the request names. Whether a provider accepts a request whose spelling is
		// not the canonical one, or is not literally the one of the registration, is its own business (nothing is asserted
		// about that); but an accepted request is answered through the response mode of its response type
		rt := canonRT(c.reqRT())
		if !has(rts, rt) {
			res.Grey = true
			res.Label("grey:response-type-outside-domain")
			return
		}
		c.RT = rt
		where = fmt.Sprintf("http/%s %s (mode %q, type %q spelled %q by the request, client registered for %q, %s)", c.Router, out.stage, c.Mode, c.RT, c.reqRT(), c.registered(), c.ErrPath)
		if out.stage == "authorize" {
			// never handed to the login UI: refused (for its spelling or for something the provider checks before)
			refused, isError = true, true
			res.Label("rt-spelling:refused")
		} else if literal {
			leakClass = ":response-type-spelled-as-registered"
			res.Label("rt-spelling:accepted:as-registered")
		} else {
			leakClass = ":response-type-spelling-not-registered"
			res.Label("rt-spelling:accepted:not-registered")
		}
	}
	j := &judge{res: res, c: c, mode: c.Mode, isError: isError, sound: true, where: where, refused: refused, leakClass: leakClass}
	kind := delivered(out.final, c.URI)
	res.Label("http:" + out.stage + ":" + kind)
	var wants []want
	if c.State != "" {
		wants = append(wants, want{name: "state", val: c.State})
	} else {
		j.absent = append(j.absent, "state")
	}
	if c.SessionState == "" {
		// no auth request of this storage has a session state
		j.absent = append(j.absent, "session_state")
	}
	if !isError {
		res.Label("must-deliver")
		j.absent = append(j.absent, "error", "error_description")
		switch c.RT {
		case "code":
			j.absent = append(j.absent, "access_token", "id_token")
		case "id_token":
			j.absent = append(j.absent, "code", "access_token")
		default:
			j.absent = append(j.absent, "code")
		}
		if kind != "redirect" && kind != "form" {
			res.Fail("C11:http:no-delivery", "%s: fault-free request for a registered redirect URI was not answered towards %q: %s", j.where, c.URI, out.final.Describe())
			return
		}
		switch c.RT {
		case "code":
			if out.codeOf != "" {
				// interleaved requests: the code is the one the storage holds for THIS auth request
				id := out.codeOf
				wants = append(wants, want{name: "code", verify: func(got string) string {
					if owner, ok := e.st.CodeRequest(got); !ok || owner != id {
						return fmt.Sprintf("%q is not a code the storage holds for auth request %s (it belongs to %q)", clip(got), id, owner)
					}
					return ""
				}})
			} else if out.code == "" {
				res.Fail("C11:http:no-code-stored", "%s: no code was handed to the storage", j.where)
				return
			} else {
				wants = append(wants, want{name: "code", val: out.code})
			}
			if c.SessionState != "" {
				wants = append(wants, want{name: "session_state", val: c.SessionState})
			}
		default:
			wants = append(wants, want{name: "id_token", verify: verifyIDToken})
			if c.RT == "id_token token" {
				wants = append(wants, want{name: "access_token", verify: func(got string) string {
					ui := e.ag.UserInfo(got)
					if ui.Panic != nil || !ui.Success() || ui.Str("sub") != subject {
						return fmt.Sprintf("%q is not accepted by the userinfo endpoint: %s", clip(got), ui.Describe())
					}
					return ""
				}})
				wants = append(wants, want{name: "token_type", val: "Bearer"})
				wants = append(wants, want{name: "expires_in", verify: func(got string) string {
					n, err := strconv.ParseUint(got, 10, 64)
					if err != nil || n < 270 || n > 300 {
						return fmt.Sprintf("%q is not the lifetime of the access token (300 s)", clip(got))
					}
					return ""
				}})
			}
			if c.SessionState != "" {
				// the library's implicit response type has no session_state member: the provider does not produce one
				res.Label("grey:implicit-session_state-not-produced")
			}
		}
		if kind == "form" {
			if c.Mode != "form_post" {
				res.Fail("C11:http:unrequested-form", "%s: answered with a form although response_mode is %q", j.where, c.Mode)
			}
			j.form(out.final.Body, wants, true)
			return
		}
		j.location(out.final.Location(), wants)
		return
	}
	// error responses
	if kind != "redirect" {
		// answered directly (validation errors on the Server router, ...): nothing travels to the redirect URI
		res.Grey = true
		res.Label("grey:error-answered-directly")
		if kind == "form" {
			j.form(out.final.Body, nil, false)
		}
		return
	}
	res.Label("error-redirect")
	j.absent = append(j.absent, "code", "access_token", "id_token")
	errWant := want{name: "error", verify: func(got string) string {
		if got == "" {
			return "empty error code"
		}
		return ""
	}}
	if out.stage == "callback" && c.SessionState != "" {
		wants = append(wants, want{name: "session_state", val: c.SessionState})
	}
	// the storage call failed with a generated error value that has a description: does the provider hand the storage's
	// description on to the client on this path? The reference is the same scenario (query mode) with a description of
	// plain letters: when that one arrives (possibly inside a text of the provider), the provider produces "the storage's
	// description (inside that text)" as error_description, and this is what must arrive here, byte for byte
	probed := false
	if c.StoreErr != nil && storeFails(c.ErrPath) && c.StoreErr.Desc != "" {
		res.Label("storage-error:" + kindClass(c.StoreErr.Kind))
		pc, sp := c, *c.StoreErr
		sp.Desc = probeDesc
		pc.StoreErr = &sp
		ref := runHTTP(e, pc, "query", -1)
		if ref.panicFP == "" && delivered(ref.final, c.URI) == "redirect" {
			l := decodeLocation(ref.final.Location())
			if l.parseErr == nil && l.queryErr == nil {
				rest, _ := subtract(l.query, preQuery(c.URI))
				if d := rest["error_description"]; len(d) == 1 && strings.Count(d[0], probeDesc) == 1 {
					i := strings.Index(d[0], probeDesc)
					wants = append(wants, want{name: "error_description", val: d[0][:i] + c.StoreErr.Desc + d[0][i+len(probeDesc):]})
					if e := rest["error"]; len(e) == 1 && e[0] != "" {
						errWant = want{name: "error", val: e[0]}
					}
					probed = true
					res.Label("error-description:the-storage's")
				}
			}
		}
		if !probed {
			res.Label("error-description:the-provider's-own")
		}
	}
	// what the provider produced as error / error_description is otherwise not predictable from the statement; it is the
	// same in every response mode, so the query-mode run of the same scenario is the reference (metamorphic)
	if !probed && c.Mode != "query" {
		ref := runHTTP(e, c, "query", -1)
		if ref.panicFP == "" && delivered(ref.final, c.URI) == "redirect" {
			l := decodeLocation(ref.final.Location())
			if l.parseErr == nil && l.queryErr == nil {
				rest, _ := subtract(l.query, preQuery(c.URI))
				if e := rest["error"]; len(e) == 1 && e[0] != "" {
					errWant = want{name: "error", val: e[0]}
				}
				if d := rest["error_description"]; len(d) == 1 {
					wants = append(wants, want{name: "error_description", val: d[0]})
				}
				res.Label("error-compared-with-query-mode")
			}
		}
	}
	wants = append(wants, errWant)
	j.location(out.final.Location(), wants)
}

const probeDesc = "probe-description-7f3a"

func kindClass(kind string) string {
	if kind == "plain" || kind == "json" {
		return kind
	}
	return "typed"
}

// ---- execution: direct functions --------------------------------------------------------

type codeResponse struct {
	Code         string `schema:"code"`
	State        string `schema:"state,omitempty"`
	SessionState string `schema:"session_state,omitempty"`
}

// errReq is the auth request of a direct AuthRequestError / TryErrorRedirect call; its getters report to the gate of
// the step (nil outside interleavings).
type errReq struct {
	uri, rt, state, mode string
	g                    *gate
}

func (e *errReq) GetRedirectURI() string             { e.g.hit("GetRedirectURI"); return e.uri }
func (e *errReq) GetResponseType() oidc.ResponseType { e.g.hit("GetResponseType"); return oidc.ResponseType(e.rt) }
func (e *errReq) GetState() string                   { e.g.hit("GetState"); return e.state }
func (e *errReq) GetResponseMode() oidc.ResponseMode { e.g.hit("GetResponseMode"); return oidc.ResponseMode(e.mode) }

type errReqSS struct {
	*errReq
	ss string
}

func (e errReqSS) GetSessionState() string { e.g.hit("GetSessionState"); return e.ss }

// stdCtor maps the RFC 6749 / OIDC error codes to the library's typed constructors.
var stdCtor = map[string]func() *oidc.Error{
	"invalid_request": oidc.ErrInvalidRequest, "invalid_scope": oidc.ErrInvalidScope, "unauthorized_client": oidc.ErrUnauthorizedClient,
	"server_error": oidc.ErrServerError, "interaction_required": oidc.ErrInteractionRequired, "login_required": oidc.ErrLoginRequired,
	"request_not_supported": oidc.ErrRequestNotSupported, "access_denied": oidc.ErrAccessDenied,
}

// buildError returns the error value of the case and the (error, error_description) it stands for.
func buildError(c Case) (error, string, string, bool) {
	return buildErrorSpec(ErrSpec{Kind: c.ErrKind, Code: c.ErrCode, Desc: c.ErrDesc})
}

func buildErrorSpec(sp ErrSpec) (error, string, string, bool) {
	var oe *oidc.Error
	code := sp.Kind
	switch sp.Kind {
	case "plain":
		if sp.Wrapped {
			return fmt.Errorf("storage: %w", errors.New(sp.Desc)), "server_error", "storage: " + sp.Desc, true
		}
		return errors.New(sp.Desc), "server_error", sp.Desc, true
	case "json":
		// an *oidc.Error with an arbitrary code: decoded from JSON as an RP-side caller would get it; JSON cannot carry byte
		// strings, those are put into the (exported) fields directly
		if sp.Code == "" {
			return nil, "", "", false
		}
		oe = new(oidc.Error)
		if utf8.ValidString(sp.Code) && utf8.ValidString(sp.Desc) {
			b, _ := json.Marshal(map[string]string{"error": sp.Code, "error_description": sp.Desc})
			if err := json.Unmarshal(b, oe); err != nil {
				return nil, "", "", false
			}
		} else {
			reflect.ValueOf(oe).Elem().FieldByName("ErrorType").SetString(sp.Code)
			oe.Description = sp.Desc
		}
		code = sp.Code
	default:
		ctor, ok := stdCtor[sp.Kind]
		if !ok {
			return nil, "", "", false
		}
		oe = ctor()
		oe.Description = sp.Desc
	}
	if sp.Wrapped {
		return fmt.Errorf("storage: %w", oe), code, sp.Desc, true
	}
	return oe, code, sp.Desc, true
}

func judgeDirect(res *vkit.Result, e *env, c Case, g *gate) {
	enc := e.encoder(g)
	sound, why := soundURI(c.URI)
	isError := c.Resp == "error"
	j := &judge{res: res, c: c, mode: c.Mode, isError: isError, sound: sound, where: fmt.Sprintf("%s(%s response, mode %q, type %q)", viaName[c.Via], c.Resp, c.Mode, c.RT)}
	if !sound {
		_ = why
		res.Label("uri:outside-value-domain")
	}

	var response any
	var wants []want
	add := func(name, val string) {
		if val != "" {
			wants = append(wants, want{name: name, val: val})
		}
	}
	var errVal error
	switch c.Resp {
	case "code":
		response = &codeResponse{Code: c.Code, State: c.State, SessionState: c.SessionState}
		add("code", c.Code)
		add("state", c.State)
		add("session_state", c.SessionState)
	case "token":
		response = &oidc.AccessTokenResponse{AccessToken: c.AccessToken, TokenType: c.TokenType, ExpiresIn: c.ExpiresIn, IDToken: c.IDToken, State: c.State, Scope: c.Scopes}
		add("access_token", c.AccessToken)
		add("token_type", c.TokenType)
		if c.ExpiresIn != 0 {
			add("expires_in", strconv.FormatUint(c.ExpiresIn, 10))
		}
		add("id_token", c.IDToken)
		add("state", c.State)
	case "error":
		ev, code, desc, ok := buildError(c)
		if c.ErrRef > 0 {
			// the long-lived value of the sequence: the same instance for every step that refers to it
			ok = c.ErrRef <= len(e.shared) && e.shared[c.ErrRef-1].ok
			if ok {
				se := e.shared[c.ErrRef-1]
				ev, code, desc = se.val, se.code, se.desc
				res.Label("error-value:shared")
			}
		}
		if !ok {
			res.Grey = true
			res.Label("grey:error-not-constructible")
			return
		}
		errVal = ev
		add("error", code)
		add("error_description", desc)
		add("state", c.State)
		add("session_state", c.SessionState)
		if c.Via == "url" || c.Via == "form" {
			oe := oidc.DefaultToServerError(ev, ev.Error())
			oe.State, oe.SessionState = c.State, c.SessionState
			response = oe
		}
	default:
		res.Grey = true
		return
	}
	j.absent = allBut(wants)

	// the ResponseWriter of the step
	rec := httptest.NewRecorder()
	var w http.ResponseWriter = rec
	if c.BrokenWriter {
		w = &brokenWriter{hdr: http.Header{}, accept: c.Accept}
	}

	switch c.Via {
	case "url":
		u, err := op.AuthResponseURL(c.URI, oidc.ResponseType(c.RT), oidc.ResponseMode(c.Mode), response, enc)
		if !sound {
			res.Grey = true
			return
		}
		if err != nil {
			res.Fail("C11:url:refused", "%s: AuthResponseURL(%q) = %v for a well-formed redirect URI", j.where, c.URI, err)
			return
		}
		res.Label("must-deliver")
		if c.Mode == "form_post" {
			// the function only builds URLs; which part carries the parameters for form_post is the caller's business
			j.isError = true
		}
		j.location(u, wants)
	case "form":
		err := op.AuthResponseFormPost(w, c.URI, response, enc)
		if c.BrokenWriter {
			res.Grey = true
			res.Label("grey:aborted-write", "aborted:form")
			return
		}
		if err != nil {
			res.Label("form:refused")
			if sound && !isError {
				res.Fail("C11:form:refused", "%s: AuthResponseFormPost(%q) = %v for a well-formed redirect URI", j.where, c.URI, err)
			}
			return
		}
		if sound && !isError {
			res.Label("must-deliver")
		} else {
			// hostile redirect URI or an error document (the library itself never posts errors): only the markup claims are judged
			res.Label("markup-only")
		}
		j.form(rec.Body.Bytes(), wants, sound && !isError)
	case "autherror":
		if !sound {
			res.Grey = true
			return
		}
		var ar op.ErrAuthRequest = &errReq{c.URI, c.RT, c.State, c.Mode, g}
		if c.SessionState != "" {
			ar = errReqSS{&errReq{c.URI, c.RT, c.State, c.Mode, g}, c.SessionState}
		}
		op.AuthRequestError(w, httptest.NewRequest("GET", "/authorize/callback", nil), ar, errVal, e.authorizer(g))
		if c.BrokenWriter {
			res.Grey = true
			res.Label("grey:aborted-write", "aborted:autherror")
			return
		}
		if rec.Code < 300 || rec.Code > 399 {
			res.Fail("C11:autherror:not-redirected", "%s: AuthRequestError answered %d %q instead of redirecting to %q", j.where, rec.Code, clip(rec.Body.String()), c.URI)
			return
		}
		res.Label("must-deliver")
		j.location(rec.Header().Get("Location"), wants)
	case "tryerror":
		if !sound {
			res.Grey = true
			return
		}
		var ar op.ErrAuthRequest = &errReq{c.URI, c.RT, c.State, c.Mode, g}
		if c.SessionState != "" {
			ar = errReqSS{&errReq{c.URI, c.RT, c.State, c.Mode, g}, c.SessionState}
		}
		red, err := op.TryErrorRedirect(context.Background(), ar, errVal, enc, vkit.DiscardLogger())
		if err != nil || red == nil {
			res.Fail("C11:tryerror:not-redirected", "%s: TryErrorRedirect = %v instead of a redirect to %q", j.where, err, c.URI)
			return
		}
		res.Label("must-deliver")
		j.location(red.URL, wants)
	}
}

var viaName = map[string]string{"url": "AuthResponseURL", "form": "AuthResponseFormPost", "autherror": "AuthRequestError", "tryerror": "TryErrorRedirect"}

// ---- run ---------------------------------------------------------------------------------

func validCase(c Case) bool {
	for _, s := range append([]string{c.State, c.SessionState, c.URI, c.Code, c.AccessToken, c.IDToken, c.TokenType, c.ErrCode, c.ErrDesc}, c.Scopes...) {
		if !utf8.ValidString(s) {
			return false
		}
	}
	specs := c.SharedErrs
	if c.StoreErr != nil {
		specs = append(append([]ErrSpec(nil), specs...), *c.StoreErr)
	}
	for _, sp := range specs {
		if !utf8.ValidString(sp.Code) || !utf8.ValidString(sp.Desc) {
			return false
		}
	}
	for _, s := range c.Steps {
		if !validCase(s) {
			return false
		}
	}
	return true
}

func run(c Case) (res *vkit.Result) {
	res = &vkit.Result{}
	defer func() {
		if p := recover(); p != nil {
			res.Fail("C11:panic@"+vkit.FirstLibFrame(string(debug.Stack())), "panic: %v", p)
		}
	}()
	if !validCase(c) {
		// the serialised form of a case is JSON: byte strings are spelled in Latin-1 (Case.Bytes), never raw
		res.Grey = true
		res.Label("grey:case-not-utf8")
		return res
	}
	c, ok := resolve(c)
	if !ok {
		res.Grey = true
		res.Label("grey:bytes-field-not-a-latin1-spelling")
		return res
	}
	if c.Via == "seq" {
		runSeq(res, c)
		return res
	}
	if c.Via == "ilv" {
		runIlv(res, c)
		return res
	}
	runOne(res, newEnv(c.Router, nil), c)
	return res
}

// writesForm: does the step render the form_post page (given that nothing fails before)?
func writesForm(s Case) bool {
	return s.Via == "form" || (s.Via == "http" && s.Mode == "form_post" && s.ErrPath == "none")
}

// closing is the fixed last response of a sequence that had a broken writer: one more form_post page, so that what an
// aborted response left behind in the process is seen inside the sequence that caused it (and not by the next case).
var closing = Case{Via: "form", Mode: "form_post", RT: "code", Resp: "code", URI: "https://rp.example.com/cb?tenant=z", URIKind: "https",
	State: "closing+/= state", Code: "closing-c0de", Scopes: []string{"openid"}}

// runSeq produces the responses of all steps with ONE provider (and one process-wide library state) and judges each
// of them with the per-response oracle.
func runSeq(res *vkit.Result, c Case) {
	steps := c.Steps
	if len(steps) > 8 {
		steps = steps[:8]
	}
	e := newEnv(c.Router, c.SharedErrs)
	aborted := 0
	for _, s := range steps {
		if s.BrokenWriter {
			aborted++
		}
	}
	if aborted > 0 {
		cl := closing
		cl.Router = c.Router
		steps = append(append([]Case(nil), steps...), cl)
		res.Label("seq:closing-form")
	}
	res.Grey = true
	keys := []string{}
	perStep := []any{}
	for i, s := range steps {
		s.Router = c.Router
		sub := &vkit.Result{}
		func() {
			defer func() {
				if p := recover(); p != nil {
					sub.Fail("C11:panic@"+vkit.FirstLibFrame(string(debug.Stack())), "panic: %v", p)
				}
			}()
			if s.Via == "seq" || s.Via == "ilv" {
				sub.Grey = true
				return
			}
			runOne(sub, e, s)
		}()
		for _, v := range sub.Viol {
			res.Viol = append(res.Viol, vkit.Violation{FP: v.FP, Msg: fmt.Sprintf("step %d of %d on one provider (%s): %s", i+1, len(steps), historyOf(steps[:i]), v.Msg)})
		}
		res.Labels = append(res.Labels, sub.Labels...)
		res.NonTrivial = res.NonTrivial || sub.NonTrivial
		res.Grey = res.Grey && sub.Grey
		keys = append(keys, sub.Key)
		perStep = append(perStep, sub.Info)
	}

	// classes of histories
	res.Label("via:seq", fmt.Sprintf("seq:len:%d", len(c.Steps)))
	if aborted > 0 {
		res.Label("seq:has-aborted-write")
	}
	modesSeen, outcomes, refUses := map[string]bool{}, map[string]bool{}, map[int]int{}
	abortedForm, formAfterAbort, ssOnRef, ssThenNone := false, false, map[int]bool{}, false
	for _, s := range c.Steps {
		modesSeen[s.Mode] = true
		outcomes[outcomeOf(s)] = true
		if writesForm(s) {
			if abortedForm && !s.BrokenWriter {
				formAfterAbort = true
			}
			abortedForm = abortedForm || s.BrokenWriter
		}
		if s.ErrRef > 0 && s.Resp == "error" && s.Via != "http" {
			refUses[s.ErrRef]++
			if s.SessionState != "" {
				ssOnRef[s.ErrRef] = true
			} else if ssOnRef[s.ErrRef] && (s.Via == "autherror" || s.Via == "tryerror") && !s.BrokenWriter {
				ssThenNone = true
			}
		}
	}
	if len(modesSeen) > 1 {
		res.Label("seq:mixed-modes")
	}
	if len(outcomes) > 1 {
		res.Label("seq:success-and-error")
	}
	if abortedForm {
		res.Label("seq:aborted-form_post-page")
	}
	if formAfterAbort {
		res.Label("seq:form_post-after-aborted-form_post")
	}
	for _, n := range refUses {
		if n > 1 {
			res.Label("seq:error-value-answered-repeatedly")
			break
		}
	}
	if ssThenNone {
		res.Label("seq:error-value:with-session_state-then-without")
	}
	res.Key = "seq|" + c.Router + "|" + strings.Join(keys, "||")
	fps := []string{}
	for _, v := range res.Viol {
		fps = append(fps, v.FP)
	}
	res.Info = map[string]any{"violations": fps, "steps": perStep}
}

func outcomeOf(c Case) string {
	if c.Resp == "error" || (c.Via == "http" && c.ErrPath != "none") {
		return "error"
	}
	return "success"
}

// historyOf: one word per earlier step, for the violation message.
func historyOf(prev []Case) string {
	if len(prev) == 0 {
		return "first response"
	}
	w := []string{}
	for _, s := range prev {
		d := s.Via + "/" + outcomeOf(s)
		if s.Mode != "" {
			d += "/" + s.Mode
		}
		if s.ErrRef > 0 {
			d += fmt.Sprintf("/shared-error-%d", s.ErrRef)
		}
		if s.SessionState != "" {
			d += "/session_state"
		}
		if s.BrokenWriter {
			d += fmt.Sprintf("/writer-broke-after-%d-bytes", s.Accept)
		}
		w = append(w, d)
	}
	return "after " + strings.Join(w, ", ")
}

// runOne produces one response with the provider of e and judges it.
func runOne(res *vkit.Result, e *env, c Case) {
	switch c.Via {
	case "http":
		judgeHTTP(res, e, c)
	case "url", "form", "autherror", "tryerror":
		judgeDirect(res, e, c, nil)
	default:
		res.Grey = true
		return
	}
	classify(res, c)
}

// classify adds the class labels, the non-triviality verdict and the distinctness key of one response.
func classify(res *vkit.Result, c Case) {
	values := []string{c.State, c.SessionState, c.Code, c.AccessToken, c.IDToken, c.ErrDesc, c.ErrCode}
	if c.TokenType != "Bearer" {
		values = append(values, c.TokenType)
	}
	if c.StoreErr != nil && storeFails(c.ErrPath) {
		values = append(values, c.StoreErr.Desc, c.StoreErr.Code)
		if !utf8.ValidString(c.StoreErr.Desc) {
			res.Label("bytes:storage-error-description")
		}
	}
	classSet := map[string]bool{}
	for _, v := range values {
		for _, cl := range charClasses(v) {
			classSet[cl] = true
		}
		for _, k := range invalidKinds(v) {
			res.Label("invalid-utf8:" + k)
		}
	}
	// which parameters of this response are byte strings that are not valid UTF-8
	for _, f := range c.Bytes {
		if p := c.valueField(f); p != nil && !utf8.ValidString(*p) {
			res.Label("bytes:" + f)
		}
	}
	classes := make([]string, 0, len(classSet))
	for k := range classSet {
		classes = append(classes, k)
		res.Label("chars:" + k)
	}
	sort.Strings(classes)
	uriQ := len(preQuery(c.URI)) > 0
	outcome := outcomeOf(c)
	what := c.Resp
	if c.Via == "http" {
		what = c.ErrPath
	}
	modeL := c.Mode
	if modeL == "" {
		modeL = "absent"
	}
	res.Label("via:"+c.Via, "mode:"+modeL, "type:"+c.RT, "outcome:"+outcome, "uri:"+c.URIKind)
	if c.Via == "http" {
		res.Label("router:"+c.Router, "errpath:"+c.ErrPath)
		res.Label("rt-request:"+spellingClass(c), "rt-registration:"+registrationClass(c))
		if c.spelled() && c.Mode == "" {
			res.Label("rt-spelled:no-response_mode")
		}
	}
	if uriQ {
		res.Label("uri:with-query")
		if hasRepeatedKey(preQuery(c.URI)) {
			res.Label("uri:repeated-key")
		}
	}
	if strings.Contains(c.URI, "#") {
		res.Label("uri:with-fragment")
	}
	if c.State == "" {
		res.Label("state:absent")
	}
	if c.SessionState != "" {
		res.Label("session_state:present")
	}
	res.NonTrivial = len(classes) > 0 || uriQ
	res.Key = fmt.Sprintf("%s|%s|%s|%s|%s|%s|q=%v|f=%v|%v", c.Via, c.Router, modeL, c.RT, what, c.URIKind, uriQ, strings.Contains(c.URI, "#"), classes)
	if c.StoreErr != nil && storeFails(c.ErrPath) {
		res.Key += "|storeerr:" + kindClass(c.StoreErr.Kind)
	}
	if c.Via == "http" && (c.spelled() || len(c.RTReg) > 0) {
		res.Key += "|rt:" + spellingClass(c) + "/reg:" + registrationClass(c)
	}
	if c.BrokenWriter {
		res.Key += fmt.Sprintf("|broken@%d", c.Accept/100)
	}
	if c.ErrRef > 0 {
		res.Key += fmt.Sprintf("|shared%d", c.ErrRef)
	}
	fps := []string{}
	for _, v := range res.Viol {
		fps = append(fps, v.FP)
	}
	obs := []string{}
	for _, l := range res.Labels {
		for _, p := range []string{"channel:", "http:", "form-action:", "form_post-error-delivered-by:", "grey:", "markup-only", "form:refused", "aborted:", "error-value:", "error-description:"} {
			if strings.HasPrefix(l, p) {
				obs = append(obs, l)
			}
		}
	}
	res.Info = map[string]any{"violations": fps, "observed": obs}
}

func hasRepeatedKey(q url.Values) bool {
	for _, v := range q {
		if len(v) > 1 {
			return true
		}
	}
	return false
}

var prop = vkit.Prop[Case]{
	ID: "C11",
	Rule: "cases = delivery path (HTTP authorize->login->callback on both routers incl. 7 error paths | AuthResponseURL | AuthResponseFormPost | AuthRequestError | TryErrorRedirect) x response_mode (absent, query, fragment, form_post) x response type (code, id_token, id_token token) x success/error x " +
		"values for state / session_state / code / tokens / error / error_description built from alphanumerics, standard and URL base64, ASCII punctuation, percent sequences, full-Unicode strings, markup fragments, control characters, 200-6000 character runs; " +
		"one value in five is a BYTE string that need not be valid UTF-8 (what a client can send percent-encoded in state, what a storage holds as session state or code, what a driver reports as failure text): 1-5 pieces from lone continuation bytes, overlong forms, truncated multi-byte sequences (also right before & = quote >), UTF-8 encoded surrogates, sequences beyond U+10FFFF and the bytes FE / FF, Latin-1 text, random bytes, next to valid multi-byte characters, NUL and U+FFFD itself (so that a replacement or a transcoding is visible) and pieces of the character classes above; the case holds the Latin-1 spelling of such a value (Case.Bytes names the fields) and stays JSON; all comparisons are on the bytes of the Go strings x " +
		"redirect URI (https, http, loopback, IPv6, custom scheme incl. opaque; 0-4 pre-existing query pairs with repeated keys, '+', %20, escaped delimiters, bare keys; optional fragment; for AuthResponseFormPost also hostile strings). " +
		"Decoding as a user agent: query = form-decoded RawQuery of the Location, fragment = text after '#' of the raw Location form-decoded once, form = golang.org/x/net/html parse tree compared with the fixed skeleton. " +
		"On the HTTP error paths on which a storage call fails (CreateAuthRequest; SaveAuthCode / DeleteAuthRequest; GetClientByClientID) three cases in four let the call return a generated error VALUE (typed or JSON-decoded *oidc.Error with its own code and description, optionally wrapped with %w, or a plain error; description drawn like every other value, byte strings included): a reference run of the same scenario in query mode with a description of plain letters tells whether the provider hands the storage's description on as error_description (verbatim or inside a text of its own) - if so exactly that description must arrive, otherwise the query-mode run of the same scenario is the reference. " +
		"Excluded from the value domain (counted as grey labels): byte strings that are not valid UTF-8 as VALUES of a form_post page (an HTML document cannot spell them, a browser replaces them before it submits the form: such pages are judged for markup only, after decoding them the way a browser does) and in redirect URIs; NUL / CR / LF in form_post values (HTML cannot carry them); registered URIs whose own query uses a response parameter name, contains ';' or bad escapes, userinfo; action equality for non-http(s) schemes (html/template's inert #ZgotmplZ accepted) and hostile URIs. " +
		"One case in five is a SEQUENCE of 2-5 such responses (success and error, mixed modes / types / paths, auth requests with and without session state) produced one after the other by ONE provider in one process: some steps write to a ResponseWriter that accepts 0-700 body bytes and fails from then on (not judged: nothing arrives; a fixed closing form_post response follows), some error steps answer one of 0-2 long-lived error VALUES of the sequence (typed / JSON-decoded *oidc.Error, optionally wrapped, or plain) instead of a fresh one; every step is judged with the per-response oracle. " +
		"One case in five is an INTERLEAVING of 2-3 responses on ONE provider (HTTP flows ending in success, interaction_required, or a validation error of the authorize endpoint (prompt, scope, response type, login_required from the storage); direct AuthRequestError / TryErrorRedirect / AuthResponseURL / AuthResponseFormPost; every second case: requests of the same kind with their own state / session_state / redirect URI): each response is produced in its own goroutine and every getter the library calls on the auth request (GetState, GetSessionState, GetResponseMode, GetRedirectURI, GetResponseType), Authorizer.Encoder() and Encoder.Encode is a gate of the harness; the generated schedule parks step i at its HoldAt-th gate call (0-10) while the next 1-2 steps run until they finish or park, then releases it; one goroutine runs at a time and every hand-over is awaited (deterministic, replays exactly); every response is judged with the per-response oracle (the code of an interleaved flow = the code the storage holds for ITS auth request). One error step in four answers a long-lived error VALUE of the case. " +
		"SPELLING of the response type (HTTP flows): one request in four spells its response type in another legal way - every permutation of the space-delimited values (token id_token), 0-2 repeated values at any position, 1-3 spaces between values, 0-2 leading / trailing spaces - and one client registration in three spells the implicit type as `token id_token` (alone, or next to `id_token token`). The response type of a request is the SET of its values (OAuth 2.0 Multiple Response Type Encoding Practices: the order does not matter). Whether the provider accepts a request whose spelling is not canonical or not literally the registered one is not asserted (a request that is not handed to the login UI counts as refused: its error may arrive in query or fragment when no response_mode was named, state etc. are still compared exactly); every ACCEPTED request is judged like the canonical spelling: explicit response_mode, else fragment for every type that delivers tokens and query for code, all parameters recovered from that part, nothing of a fragment-mode response in the query. " +
		"Per response: each parameter of THIS response is recovered exactly once and unchanged, and no named response parameter the provider did not produce for it (code, state, session_state, tokens, error, error_description) arrives with a value. " +
		"non-trivial = some value has a character outside [A-Za-z0-9_-] or the redirect URI has a query; distinct = (path, router, mode, type, response kind / error path, URI kind, query?, fragment?, set of character classes incl. invalid-utf8[, spelling class of the request's response type / of the registration, broken writer, shared error, kind of the storage's error value]); a sequence = the list of its steps' classes; an interleaving = the list of its steps' classes and the gates they were held at",
	Gen: genCase,
	Run: run,
}

func TestRapid(t *testing.T)  { prop.Check(t) }
func TestReplay(t *testing.T) { prop.Replay(t) }
