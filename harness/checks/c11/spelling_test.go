package c11

// Spellings of the response type. A response type is a space-delimited list of values whose order does not matter
// (OAuth 2.0 Multiple Response Type Encoding Practices, section 3): `token id_token` names the same response type as
// `id_token token`. A request may spell it in any order, repeat a value, or carry additional / leading / trailing
// spaces; a client registration may spell it in canonical or permuted order. Which spellings a provider accepts is not
// the business of this property - but every request it DOES accept is answered through the response mode that applies
// to its response type (explicit response_mode, else fragment for every type that delivers tokens, query for code),
// and every parameter is recovered from that part of the Location.

import (
	"sort"
	"strings"

	"pgregory.net/rapid"
)

// canonRT: the response type a spelling names = its set of values, in the library's canonical order
// ("code", "id_token", "id_token token"; any other set: values sorted).
func canonRT(spelling string) string {
	set := map[string]bool{}
	for _, v := range strings.Split(spelling, " ") {
		if v != "" {
			set[v] = true
		}
	}
	vals := make([]string, 0, len(set))
	for v := range set {
		vals = append(vals, v)
	}
	sort.Strings(vals) // id_token < token
	return strings.Join(vals, " ")
}

// reqRT: response_type exactly as the authorization request carries it.
func (c Case) reqRT() string {
	if c.RTReq != "" {
		return c.RTReq
	}
	return c.RT
}

// spelled: the request does not use the canonical spelling of its response type.
func (c Case) spelled() bool { return c.RTReq != "" && c.RTReq != c.RT }

// registered: the response types of the client registration of an HTTP flow, as spelled there.
func (c Case) registered() []string {
	reg := c.RTReg
	if len(reg) == 0 {
		reg = rts
	}
	if c.ErrPath != "unsupported_rt" {
		return reg
	}
	// the client is not registered for the requested response type, in whatever spelling
	var out []string
	for _, r := range reg {
		if canonRT(r) != canonRT(c.reqRT()) {
			out = append(out, r)
		}
	}
	return out
}

// registeredAsSet: some registered response type names the same set of values as the request's.
func (c Case) registeredAsSet() bool {
	for _, r := range c.registered() {
		if canonRT(r) == canonRT(c.reqRT()) {
			return true
		}
	}
	return false
}

// spellingClass: how RTReq differs from the canonical spelling (label / distinctness class).
func spellingClass(c Case) string {
	if !c.spelled() {
		return "canonical"
	}
	parts := strings.Split(c.RTReq, " ")
	var vals []string
	for _, p := range parts {
		if p != "" {
			vals = append(vals, p)
		}
	}
	var cl []string
	seen, dup := map[string]bool{}, false
	var firsts []string
	for _, v := range vals {
		if seen[v] {
			dup = true
			continue
		}
		seen[v] = true
		firsts = append(firsts, v)
	}
	if strings.Join(firsts, " ") != canonRT(c.RTReq) {
		cl = append(cl, "permuted")
	}
	if dup {
		cl = append(cl, "duplicated-value")
	}
	if len(parts) != len(vals) {
		cl = append(cl, "extra-spaces")
	}
	if len(cl) == 0 {
		return "other"
	}
	return strings.Join(cl, "+")
}

// registrationClass: canonical | permuted | both (spelling of `id_token token` in the client registration).
func registrationClass(c Case) string {
	canon, perm := false, false
	for _, r := range c.registered() {
		if strings.Contains(r, " ") {
			if r == canonRT(r) {
				canon = true
			} else {
				perm = true
			}
		}
	}
	switch {
	case canon && perm:
		return "both"
	case perm:
		return "permuted"
	}
	return "canonical"
}

var (
	regPermuted = []string{"code", "id_token", "token id_token"}
	regBoth     = []string{"code", "id_token", "id_token token", "token id_token"}
)

// genRTSpelling: a legal spelling of the response type rt other than (or, rarely, equal to) the canonical one: every
// permutation of its values, 0-2 repeated values at any position, 1-3 spaces between values, 0-2 leading / trailing spaces.
func genRTSpelling(t *rapid.T, rt string) string {
	vals := strings.Split(rt, " ")
	kind := rapid.SampledFrom([]string{"perm", "perm", "dup", "spaces", "mix"}).Draw(t, "rtspellkind")
	if kind == "perm" && len(vals) < 2 {
		kind = rapid.SampledFrom([]string{"dup", "spaces", "mix"}).Draw(t, "rtspellkind1")
	}
	seq := append([]string(nil), vals...)
	if len(vals) > 1 {
		seq = rapid.Permutation(vals).Draw(t, "rtperm")
		if kind == "perm" && strings.Join(seq, " ") == rt {
			// every order but the canonical one: rotate
			seq = append(append([]string(nil), seq[1:]...), seq[0])
		}
	}
	ndup := 0
	switch kind {
	case "dup":
		ndup = rapid.IntRange(1, 2).Draw(t, "rtndup")
	case "mix":
		ndup = rapid.IntRange(0, 2).Draw(t, "rtndup")
	}
	for i := 0; i < ndup; i++ {
		v := rapid.SampledFrom(vals).Draw(t, "rtdupv")
		pos := rapid.IntRange(0, len(seq)).Draw(t, "rtduppos")
		seq = append(seq[:pos], append([]string{v}, seq[pos:]...)...)
	}
	if kind != "spaces" && kind != "mix" {
		return strings.Join(seq, " ")
	}
	lead := rapid.IntRange(0, 2).Draw(t, "rtlead")
	trail := rapid.IntRange(0, 2).Draw(t, "rttrail")
	var sb strings.Builder
	sb.WriteString(strings.Repeat(" ", lead))
	for i, v := range seq {
		if i > 0 {
			sb.WriteString(strings.Repeat(" ", rapid.IntRange(1, 3).Draw(t, "rtsep")))
		}
		sb.WriteString(v)
	}
	sb.WriteString(strings.Repeat(" ", trail))
	return sb.String()
}

// genSpelling adds the spelling dimension to an HTTP flow: one request in four spells its response type in a
// non-canonical way; one registration in three spells `id_token token` as `token id_token` (alone or next to the
// canonical spelling).
func genSpelling(t *rapid.T, c *Case) {
	if rapid.IntRange(0, 3).Draw(t, "rtspelled") == 0 {
		if s := genRTSpelling(t, c.RT); s != c.RT {
			c.RTReq = s
		}
	}
	switch rapid.IntRange(0, 5).Draw(t, "rtreg") {
	case 0:
		c.RTReg = append([]string(nil), regPermuted...)
	case 1:
		c.RTReg = append([]string(nil), regBoth...)
	}
}
