package c11

import (
	"testing"
	"unicode/utf8"
)

// decodeFuzz is the data-provider layer of the native fuzz target: byte 0 selects delivery path, response mode,
// response type and router; byte 1 is the length of the state; then the state bytes; the rest is the redirect URI.
// The same hostile bytes are also used as session_state and as error description, so every sink sees them.
func decodeFuzz(b []byte) (Case, bool) {
	if len(b) < 2 {
		return Case{}, false
	}
	sel := b[0]
	n := int(b[1])
	rest := b[2:]
	if n > len(rest) {
		n = len(rest)
	}
	state, uri := string(rest[:n]), string(rest[n:])
	if !utf8.ValidString(uri) || len(state) > 4096 || len(uri) > 4096 {
		return Case{}, false
	}
	// a state that is not valid UTF-8 is a byte string: the case carries its Latin-1 spelling (and so do the values derived from it)
	raw := !utf8.ValidString(state)
	if raw {
		state = spell(state)
	}
	if uri == "" {
		uri = "https://rp.example.com/cb"
	}
	c := Case{
		Via:     []string{"url", "form", "autherror", "http"}[sel&3],
		Mode:    modes[(sel>>2)&3],
		RT:      rts[int(sel>>4)%3],
		Router:  []string{"provider", "legacy"}[sel>>7],
		URI:     uri,
		URIKind: "fuzz",
		State:   state,
		Scopes:  []string{"openid", "profile"},
	}
	if sel&0x40 != 0 {
		c.SessionState = state
	}
	if raw {
		c.Bytes = []string{"state", "session_state", "code", "access_token", "err_desc"}
	}
	switch c.Via {
	case "form":
		c.Mode = "form_post"
		fallthrough
	case "url":
		if c.RT == "code" {
			c.Resp, c.Code = "code", "c0de-"+state
		} else {
			c.Resp, c.IDToken, c.TokenType = "token", "h.p.s", "Bearer"
			if c.RT == "id_token token" {
				c.AccessToken, c.ExpiresIn = "at-"+state, 300
			}
		}
	case "autherror":
		c.Resp, c.ErrKind, c.ErrDesc = "error", "plain", "failed: "+state
	case "http":
		c.AppType = "native"
		c.ErrPath = []string{"none", "no_login"}[(sel>>6)&1]
	}
	return c, true
}

func fuzzSeed(sel byte, state, uri string) []byte {
	return append(append([]byte{sel, byte(len(state))}, state...), uri...)
}

func FuzzAuthResponse(f *testing.F) {
	var seeds [][]byte
	uris := []string{"https://rp.example.com/cb", "https://rp.example.com/cb?x=1&a=a+b&a=%2B", "com.example.app:/cb", "http://[::1]:8080/cb?k%20sp=%26%3D#frag", "https://rp.example.com/cb\"><script>alert(1)</script>"}
	states := []string{"xyz", "a+b/c=", "\"><b>&amp;'", "100% é \U0001F600", "", "st\xff\xfe\xe4-1", "\xc0\"><b>\xed\xa0\x80"}
	sel := byte(0)
	for _, u := range uris {
		for _, s := range states {
			seeds = append(seeds, fuzzSeed(sel, s, u))
			sel += 37
		}
	}
	prop.Fuzz(f, seeds, decodeFuzz)
}
