package c11

import (
	"encoding/base64"
	"fmt"
	"net/url"
	"regexp"
	"sort"
	"strings"
	"unicode/utf8"

	"golang.org/x/net/html"
	"pgregory.net/rapid"

	"verif/harness/vkit"
)

// ---- value generators -----------------------------------------------------------

// ASCII punctuation the statement names explicitly, plus the rest of the printable punctuation.
var punct = []string{"+", "/", "=", "&", "%", "#", "?", ";", " ", "\"", "'", "<", ">", "`", "\\", "{", "}", "|", "^", "~", "[", "]", "@", "!", "$", "(", ")", "*", ",", ":", ".", "-", "_"}

var percentSeqs = []string{"%41", "%2B", "%2b", "%20", "%25", "%", "%%", "%zz", "%0", "%00", "%0A", "%E2%9C%93", "%c3%28", "+%20+", "%252B", "%u2028"}

var markup = []string{
	"\"><script>alert(1)</script>", "\" onfocus=\"alert(1)\" autofocus=\"", "'/><input name=code value=evil>", "</form><form action=https://evil.example.net>",
	"&quot;", "&amp;lt;", "&#34;", "&#x22;x", "&lt;b&gt;", "<!--", "-->", "<![CDATA[", "]]>", "</textarea>", "<svg/onload=alert(1)>", "{{.}}", "{{ .RedirectURI }}",
	"javascript:alert(1)", "\" formaction=\"https://evil.example.net", "x\"y'z`w", "a=b&c=d", "/>", "\\\"", "value=", "'><",
}

var uniPieces = []string{
	"\u00e9", "\u00df", "\u0416", "\u4e2d\u6587", "\U0001F600", "\u2028", "\u2029", "\ufeff", "\u202e", "\u200b", "\u0301", "e\u0301", "\uff1c\uff1e", "\uff02",
	"\ud7ff", "\ue000", "\ufffd", "\uffff", "\U0010ffff", "\u00a0", "\u0085", "\u3000", "\u00ad", "\u0130", "\u212a", "\u00ff", "\u0080",
}

var controls = []string{"\t", "\n", "\r", "\r\n", "\x00", "\x7f", "\x1b", "\x0c", "\x01", "\x1f"}

func genPiece(t *rapid.T, label string) string {
	switch rapid.SampledFrom([]string{"alnum", "alnum", "b64std", "b64url", "punct", "punct", "punct", "percent", "unicode", "unipiece", "markup", "control", "ascii"}).Draw(t, label+"k") {
	case "alnum":
		return rapid.StringMatching(`[A-Za-z0-9_-]{1,8}`).Draw(t, label+"a")
	case "b64std":
		return base64.StdEncoding.EncodeToString(rapid.SliceOfN(rapid.Byte(), 1, 20).Draw(t, label+"b"))
	case "b64url":
		return base64.URLEncoding.EncodeToString(rapid.SliceOfN(rapid.Byte(), 1, 20).Draw(t, label+"b"))
	case "punct":
		return strings.Join(rapid.SliceOfN(rapid.SampledFrom(punct), 1, 4).Draw(t, label+"p"), "")
	case "percent":
		return rapid.SampledFrom(percentSeqs).Draw(t, label+"pc")
	case "unicode":
		return strings.ToValidUTF8(rapid.StringN(1, 6, -1).Draw(t, label+"u"), "\ufffd")
	case "unipiece":
		return rapid.SampledFrom(uniPieces).Draw(t, label+"up")
	case "markup":
		return rapid.SampledFrom(markup).Draw(t, label+"m")
	case "control":
		return rapid.SampledFrom(controls).Draw(t, label+"c")
	default:
		return rapid.StringMatching(`[ -~]{1,8}`).Draw(t, label+"as")
	}
}

// genValue: a parameter value built from 1..5 pieces of the classes above; sometimes very long.
func genValue(t *rapid.T, label string) string {
	switch rapid.IntRange(0, 19).Draw(t, label+"shape") {
	case 0, 1, 2:
		return rapid.StringMatching(`[A-Za-z0-9_-]{1,16}`).Draw(t, label+"plain")
	case 3:
		// the standard-base64 state of DESIGN §7 row 8 and friends
		return rapid.SampledFrom([]string{"a+b/c=", "a b", "a+b", "100%", "a&b=c", "a#b", "x?y", "a;b", "\"", "<", "é", "+", "=", "/", " "}).Draw(t, label+"classic")
	case 4:
		n := rapid.IntRange(200, vkit.Scale(1500, 6000)).Draw(t, label+"len")
		unit := genPiece(t, label+"unit")
		var sb strings.Builder
		for sb.Len() < n {
			sb.WriteString(unit)
		}
		return sb.String()
	}
	n := rapid.IntRange(1, 5).Draw(t, label+"n")
	var sb strings.Builder
	for i := 0; i < n; i++ {
		sb.WriteString(genPiece(t, fmt.Sprintf("%s%d", label, i)))
	}
	return sb.String()
}

func genTokenish(t *rapid.T, label string) string {
	if rapid.IntRange(0, 2).Draw(t, label+"jwtlike") > 0 {
		return rapid.StringMatching(`[A-Za-z0-9_-]{4,20}\.[A-Za-z0-9_-]{4,30}\.[A-Za-z0-9_-]{4,20}`).Draw(t, label+"jwt")
	}
	return genValue(t, label)
}

// ---- byte strings -----------------------------------------------------------------
//
// A Go string (and an HTTP parameter, percent-encoded) is a sequence of BYTES; nothing makes a client send valid UTF-8
// in `state`, a storage hold valid UTF-8 in a session state or a database driver report its failure in UTF-8. The Case
// stays JSON-serialisable: a field named in Case.Bytes (ErrSpec.Bytes) holds the LATIN-1 SPELLING of its byte string
// (one rune U+0000..U+00FF per byte); run() turns it into the byte string before anything is executed.

// byteSeqs: sequences that are not valid UTF-8, one list per reason, plus valid sequences (U+FFFD itself, two- to
// four-byte characters, NUL) next to which a replacement / transcoding of the invalid ones is visible.
var byteSeqs = map[string][]string{
	"lone-continuation": {"\x80", "\xbf", "\x80\x80", "a\x80b", "\xa9"},
	"overlong":          {"\xc0\x80", "\xc0\xaf", "\xc1\xbf", "\xe0\x80\xaf", "\xf0\x80\x80\xaf", "\xc0\xa2", "\xc0\xbc", "\xe0\x80\xbc"},
	"truncated":         {"\xc3", "\xe2\x82", "\xf0\x9f\x98", "\xe2", "\xc3x", "\xe2\x82=", "\xf0\x9f\x98&", "\xc3\"", "\xe2\x82\">", "\xf0'"},
	"surrogate":         {"\xed\xa0\x80", "\xed\xbf\xbf", "\xed\xa0\xbd\xed\xb8\x80", "\xed\xb0\x80"},
	"beyond":            {"\xf4\x90\x80\x80", "\xf5\x80\x80\x80", "\xf8\x88\x80\x80\x80", "\xfc\x84\x80\x80\x80\x80", "\xfe", "\xff", "\xff\xfe", "\xfe\xff", "\xff\xff\xff\xff"},
	"latin1":            {"Verbindung schl\xe4gt fehl", "caf\xe9", "\xa3100", "na\xefve", "Stra\xdfe", "\xbfqu\xe9?", "\xe9\xe8\xea", "d\xe9j\xe0 vu", "\xa0", "\xad", "ERREUR: cl\xe9 dupliqu\xe9e"},
	"valid":             {"\xef\xbf\xbd", "\xc3\xa9", "\xe2\x9c\x93", "\xf0\x9f\x98\x80", "\x00", "\xc2\x80", "\xef\xbb\xbf", "\xc3\xa4"},
}

var byteSeqKinds = []string{"lone-continuation", "overlong", "truncated", "surrogate", "beyond", "latin1", "latin1", "valid", "random", "random", "piece", "piece"}

// spell: the Latin-1 spelling of a byte string (valid UTF-8, JSON-safe).
func spell(b string) string {
	var sb strings.Builder
	for i := 0; i < len(b); i++ {
		sb.WriteRune(rune(b[i]))
	}
	return sb.String()
}

// unspell: the byte string a Latin-1 spelling stands for; ok=false when s has a rune above U+00FF.
func unspell(s string) (string, bool) {
	b := make([]byte, 0, len(s))
	for _, r := range s {
		if r > 0xff {
			return s, false
		}
		b = append(b, byte(r))
	}
	return string(b), true
}

// genByteValue: the Latin-1 spelling of a byte string built from 1..5 pieces: sequences that are not valid UTF-8 (by
// reason), Latin-1 text, random bytes, and pieces of the character generator above (UTF-8 encoded), so that invalid
// sequences sit next to delimiters, quotes, percent signs and valid multi-byte characters; sometimes very long.
func genByteValue(t *rapid.T, label string) string {
	piece := func(l string) string {
		k := rapid.SampledFrom(byteSeqKinds).Draw(t, l+"bk")
		switch k {
		case "random":
			return string(rapid.SliceOfN(rapid.Byte(), 1, 12).Draw(t, l+"rb"))
		case "piece":
			return genPiece(t, l+"pp")
		}
		return rapid.SampledFrom(byteSeqs[k]).Draw(t, l+"bs")
	}
	if rapid.IntRange(0, 19).Draw(t, label+"bshape") == 19 {
		n := rapid.IntRange(200, vkit.Scale(1500, 6000)).Draw(t, label+"blen")
		unit := piece(label + "bunit")
		var sb strings.Builder
		for sb.Len() < n {
			sb.WriteString(unit)
		}
		return spell(sb.String())
	}
	n := rapid.IntRange(1, 5).Draw(t, label+"bn")
	var sb strings.Builder
	for i := 0; i < n; i++ {
		sb.WriteString(piece(fmt.Sprintf("%s%d", label, i)))
	}
	return spell(sb.String())
}

// invalidKinds: why s is not valid UTF-8 (one word per kind of ill-formed sequence it contains; empty for valid UTF-8).
func invalidKinds(s string) []string {
	set := map[string]bool{}
	for i := 0; i < len(s); {
		r, w := utf8.DecodeRuneInString(s[i:])
		if r != utf8.RuneError || w != 1 {
			i += w
			continue
		}
		b := s[i]
		next := byte(0)
		hasNext := i+1 < len(s)
		if hasNext {
			next = s[i+1]
		}
		cont := hasNext && next >= 0x80 && next <= 0xbf
		switch {
		case b >= 0x80 && b <= 0xbf:
			set["lone-continuation"] = true
		case b == 0xc0 || b == 0xc1:
			set["overlong"] = true
		case b >= 0xf5:
			set["never-valid-byte"] = true
		case !cont:
			set["truncated"] = true
		case b == 0xe0 && next < 0xa0, b == 0xf0 && next < 0x90:
			set["overlong"] = true
		case b == 0xed && next >= 0xa0:
			set["surrogate"] = true
		case b == 0xf4 && next >= 0x90:
			set["beyond-10ffff"] = true
		default:
			set["truncated"] = true
		}
		i++
	}
	out := make([]string, 0, len(set))
	for k := range set {
		out = append(out, k)
	}
	sort.Strings(out)
	return out
}

// ---- redirect URI generators ------------------------------------------------------

// names the provider itself adds; a registered URI carrying one of them in its own query makes "which value wins"
// undefined, so the generator never produces them (sound input domain).
var reserved = map[string]bool{"code": true, "state": true, "session_state": true, "access_token": true, "id_token": true, "token_type": true,
	"expires_in": true, "error": true, "error_description": true, "scope": true, "refresh_token": true, "error_uri": true, "iss": true}

var (
	webHosts   = []string{"rp.example.com", "app.example.org:8443", "RP.Example.COM", "xn--bcher-kva.example"}
	loopHosts  = []string{"localhost:8080", "127.0.0.1:7777", "localhost"}
	v6Hosts    = []string{"[::1]:8080", "[::1]", "[2001:db8::1]", "[fe80::1]:443"}
	uriPaths   = []string{"", "/", "/cb", "/auth/callback", "/a%20b/c", "/cb;v=1", "/~user/cb", "/%E2%9C%93", "/a+b", "/cb/", "/x=y&z", "/c:b", "/%2F%2f"}
	qKeys      = []string{"x", "a", "a", "a", "utm_source", "k%20sp", "q", "flag", "k+p", "%C3%A9", "redirect", "Code", "st-ate", "a.b", "a%5B0%5D"}
	qVals      = []string{"1", "b", "a+b", "a%20b", "%2B", "%26%3D", "", "%E2%9C%93", "c%2Fd", "~-._", "https%3A%2F%2Fx.example%2Fy%3Fz%3D1", "a/b?c", "%25", "%23frag", "2", "B"}
	customURIs = []string{"com.example.app:/cb", "myapp://callback", "com.example.app:/oauth/cb", "org.example:/", "org.example:cb", "x-app+v1.2://host/path"}
	fragments  = []string{"frag", "a=b", "/route", "x=1&y=2", "top"}
)

func genQuery(t *rapid.T, label string) string {
	n := rapid.SampledFrom([]int{0, 0, 0, 1, 1, 2, 3, 4}).Draw(t, label+"nq")
	var parts []string
	for i := 0; i < n; i++ {
		k := rapid.SampledFrom(qKeys).Draw(t, fmt.Sprintf("%sk%d", label, i))
		if rapid.IntRange(0, 7).Draw(t, fmt.Sprintf("%sbare%d", label, i)) == 0 {
			parts = append(parts, k)
			continue
		}
		parts = append(parts, k+"="+rapid.SampledFrom(qVals).Draw(t, fmt.Sprintf("%sv%d", label, i)))
	}
	return strings.Join(parts, "&")
}

// genURI returns a redirect URI in normalised spelling and its kind.
func genURI(t *rapid.T) (string, string) {
	kind := rapid.SampledFrom([]string{"https", "https", "https", "http", "loopback", "ipv6", "ipv6", "custom", "custom"}).Draw(t, "urikind")
	var base string
	switch kind {
	case "https":
		base = "https://" + rapid.SampledFrom(webHosts).Draw(t, "host") + rapid.SampledFrom(uriPaths).Draw(t, "path")
	case "http":
		base = "http://" + rapid.SampledFrom(webHosts).Draw(t, "host") + rapid.SampledFrom(uriPaths).Draw(t, "path")
	case "loopback":
		base = "http://" + rapid.SampledFrom(loopHosts).Draw(t, "host") + rapid.SampledFrom(uriPaths).Draw(t, "path")
	case "ipv6":
		base = rapid.SampledFrom([]string{"http", "https"}).Draw(t, "v6scheme") + "://" + rapid.SampledFrom(v6Hosts).Draw(t, "host") + rapid.SampledFrom(uriPaths).Draw(t, "path")
	default:
		base = rapid.SampledFrom(customURIs).Draw(t, "custom")
	}
	if q := genQuery(t, "q"); q != "" {
		base += "?" + q
	}
	if rapid.IntRange(0, 7).Draw(t, "withfrag") == 0 {
		base += "#" + rapid.SampledFrom(fragments).Draw(t, "frag")
	}
	return base, kind
}

var hostileURIs = []string{
	"https://rp.example.com/cb\"><script>alert(1)</script>", "javascript:alert(1)", "JaVaScRiPt:alert(document.domain)", " javascript:alert(1)", "java\tscript:alert(1)",
	"data:text/html,<script>alert(1)</script>", "vbscript:msgbox(1)", "https://rp.example.com/cb?a=\"onmouseover=\"alert(1)", "https://rp.example.com/cb' onload='x",
	"\" formaction=\"https://evil.example.net", "https://rp.example.com/cb?x=<b>&y='", "https://rp.example.com/ cb", "https://rp.example.com/cb?q=a b", "//evil.example.net/cb",
	"https://rp.example.com/cb?x=%zz", "https://rp.example.com/cb?a=1;b=2", "https://user:pw@rp.example.com/cb", "https://rp.example.com/cb?state=fixed", "/relative/cb", "",
	"https://rp.example.com/cb#a\"b", "https://rp.example.com/c(b)'", "https://rp.example.com/{{.}}", "https://rp.example.com/cb?x=&amp;y=&#34;", "http://[::1]:namedport/cb", "ht tp://x/",
}

func genHostileURI(t *rapid.T) string {
	if rapid.IntRange(0, 2).Draw(t, "hostilemix") == 0 {
		return "https://rp.example.com/cb?x=" + genValue(t, "hu")
	}
	return rapid.SampledFrom(hostileURIs).Draw(t, "hostileuri")
}

var (
	schemeRE  = regexp.MustCompile(`^[a-z][a-z0-9+.-]*$`)
	safeBytes = func() [256]bool {
		var s [256]bool
		for _, c := range "abcdefghijklmnopqrstuvwxyzABCDEFGHIJKLMNOPQRSTUVWXYZ0123456789-._~:/?#[]@!$&*+,;=%" {
			s[c] = true
		}
		return s
	}()
)

// soundURI: is s a redirect URI of the input domain the value assertions are made for? Absolute, lower-case scheme,
// only URI characters that neither net/url nor html/template respell, valid percent escapes, no userinfo, a query that
// form-decodes without error, has no ';' and does not already use a response parameter name, and a spelling that
// url.Parse/String leaves alone ("normalised spelling").
func soundURI(s string) (bool, string) {
	if s == "" {
		return false, "empty"
	}
	for i := 0; i < len(s); i++ {
		if !safeBytes[s[i]] {
			return false, "char"
		}
		if s[i] == '%' && !(ishex(s, i+1) && ishex(s, i+2)) {
			return false, "percent"
		}
	}
	if strings.Count(s, "#") > 1 {
		return false, "fragment"
	}
	u, err := url.Parse(s)
	if err != nil {
		return false, "parse"
	}
	if !schemeRE.MatchString(u.Scheme) || !strings.HasPrefix(s, u.Scheme+":") {
		return false, "scheme"
	}
	if u.User != nil || strings.Contains(s, "@") {
		return false, "userinfo"
	}
	if (u.Scheme == "http" || u.Scheme == "https") && u.Host == "" {
		return false, "host"
	}
	if strings.ContainsAny(u.RawQuery, ";") {
		return false, "semicolon"
	}
	q, err := url.ParseQuery(u.RawQuery)
	if err != nil {
		return false, "query"
	}
	for k := range q {
		if reserved[k] {
			return false, "reserved-name"
		}
	}
	if u.String() != s {
		return false, "respelled"
	}
	return true, ""
}

func ishex(s string, i int) bool {
	if i >= len(s) {
		return false
	}
	c := s[i]
	return c >= '0' && c <= '9' || c >= 'a' && c <= 'f' || c >= 'A' && c <= 'F'
}

// ---- user agent: Location ---------------------------------------------------------

type located struct {
	raw      string
	u        *url.URL
	query    url.Values // form-decoded RawQuery (strict)
	queryErr error
	hasFrag  bool
	fragRaw  string
	frag     url.Values // text after the first '#' of the RAW location, form-decoded once (strict)
	fragErr  error
	parseErr error
}

func decodeLocation(loc string) *located {
	l := &located{raw: loc}
	before := loc
	if i := strings.Index(loc, "#"); i >= 0 {
		l.hasFrag = true
		l.fragRaw = loc[i+1:]
		before = loc[:i]
		if strings.Contains(l.fragRaw, ";") {
			l.fragErr = fmt.Errorf("raw ';' in fragment")
		} else {
			l.frag, l.fragErr = url.ParseQuery(l.fragRaw)
		}
	}
	l.u, l.parseErr = url.Parse(loc)
	if l.parseErr != nil {
		return l
	}
	_ = before
	l.query, l.queryErr = url.ParseQuery(l.u.RawQuery)
	return l
}

// sameTarget: location points at uri (ignoring query and fragment).
func sameTarget(lu *url.URL, uri string) bool {
	pr, err := url.Parse(uri)
	if err != nil || lu == nil {
		return false
	}
	if lu.Scheme != pr.Scheme || lu.Opaque != pr.Opaque || lu.Host != pr.Host || lu.EscapedPath() != pr.EscapedPath() {
		return false
	}
	if (lu.User == nil) != (pr.User == nil) || (lu.User != nil && lu.User.String() != pr.User.String()) {
		return false
	}
	return true
}

// subtract removes the multiset pre from all; ok=false when some pre-existing pair is missing.
func subtract(all, pre url.Values) (rest url.Values, missing []string) {
	rest = url.Values{}
	for k, vs := range all {
		rest[k] = append([]string(nil), vs...)
	}
	keys := make([]string, 0, len(pre))
	for k := range pre {
		keys = append(keys, k)
	}
	sort.Strings(keys)
	for _, k := range keys {
		for _, v := range pre[k] {
			found := false
			for i, h := range rest[k] {
				if h == v {
					rest[k] = append(rest[k][:i:i], rest[k][i+1:]...)
					found = true
					break
				}
			}
			if !found {
				missing = append(missing, fmt.Sprintf("%s=%q", k, v))
			}
		}
		if len(rest[k]) == 0 {
			delete(rest, k)
		}
	}
	return rest, missing
}

// ---- user agent: the auto-submitting form -------------------------------------------

const onloadJS = "javascript:document.forms[0].submit()"

type formDoc struct {
	problems  []string
	action    string
	hasAction bool
	inputs    url.Values
	order     []string
}

var inputNames = map[string]bool{"state": true, "code": true, "id_token": true, "access_token": true, "token_type": true, "expires_in": true,
	"session_state": true, "error": true, "error_description": true, "scope": true}

func attrMap(n *html.Node, f *formDoc) map[string]string {
	m := map[string]string{}
	for _, a := range n.Attr {
		k := a.Key
		if a.Namespace != "" {
			k = a.Namespace + ":" + k
		}
		if _, dup := m[k]; dup {
			f.problems = append(f.problems, fmt.Sprintf("<%s> has attribute %q twice", n.Data, k))
		}
		m[k] = a.Val
	}
	return m
}

func onlyAttrs(n *html.Node, m map[string]string, f *formDoc, allowed ...string) {
	ok := map[string]bool{}
	for _, a := range allowed {
		ok[a] = true
	}
	for k, v := range m {
		if !ok[k] {
			f.problems = append(f.problems, fmt.Sprintf("<%s> carries unexpected attribute %s=%q", n.Data, k, clip(v)))
		}
	}
}

func clip(s string) string {
	if len(s) > 120 {
		return s[:120] + "..."
	}
	return s
}

// parseFormDoc parses the body the way a browser does (golang.org/x/net/html implements the HTML5 algorithm) and
// compares the tree with the fixed skeleton of an auto-submitting form: html > (head > meta[charset]) + (body[onload] >
// form[method=post][action] > input[type=hidden][name][value]*), whitespace text only, nothing else.
//
// byteValues: some value of the response is a byte string that is not valid UTF-8. A page that carries such bytes is
// decoded by the browser first (the UTF-8 decoder turns every ill-formed sequence into U+FFFD and never consumes an
// ASCII byte with it), then parsed; for all other responses a page that is not valid UTF-8 is a deviation by itself.
func parseFormDoc(body []byte, byteValues bool) *formDoc {
	f := &formDoc{inputs: url.Values{}}
	text := string(body)
	if !utf8.Valid(body) {
		if !byteValues {
			f.problems = append(f.problems, "body is not valid UTF-8")
		}
		text = strings.ToValidUTF8(text, "\ufffd")
	}
	doc, err := html.Parse(strings.NewReader(text))
	if err != nil {
		f.problems = append(f.problems, "html.Parse: "+err.Error())
		return f
	}
	count := map[string]int{}
	var walk func(n *html.Node)
	walk = func(n *html.Node) {
		switch n.Type {
		case html.TextNode:
			if strings.TrimSpace(n.Data) != "" {
				f.problems = append(f.problems, fmt.Sprintf("text %q in the document", clip(n.Data)))
			}
		case html.CommentNode:
			f.problems = append(f.problems, fmt.Sprintf("comment %q in the document", clip(n.Data)))
		case html.ElementNode:
			count[n.Data]++
			parent := ""
			if n.Parent != nil && n.Parent.Type == html.ElementNode {
				parent = n.Parent.Data
			}
			m := attrMap(n, f)
			switch n.Data {
			case "html":
				onlyAttrs(n, m, f)
			case "head":
				onlyAttrs(n, m, f)
			case "meta":
				onlyAttrs(n, m, f, "charset")
				if parent != "head" {
					f.problems = append(f.problems, "<meta> outside <head>")
				}
			case "body":
				onlyAttrs(n, m, f, "onload")
				if v, ok := m["onload"]; ok && v != onloadJS {
					f.problems = append(f.problems, fmt.Sprintf("body onload is %q", clip(v)))
				}
			case "form":
				onlyAttrs(n, m, f, "method", "action")
				if parent != "body" {
					f.problems = append(f.problems, "<form> outside <body>")
				}
				if strings.ToLower(m["method"]) != "post" {
					f.problems = append(f.problems, fmt.Sprintf("form method is %q", m["method"]))
				}
				f.action, f.hasAction = m["action"]
			case "input":
				onlyAttrs(n, m, f, "type", "name", "value")
				if parent != "form" {
					f.problems = append(f.problems, "<input> outside <form>")
				}
				if m["type"] != "hidden" {
					f.problems = append(f.problems, fmt.Sprintf("input type is %q", m["type"]))
				}
				name, hasName := m["name"]
				if !hasName || !inputNames[name] {
					f.problems = append(f.problems, fmt.Sprintf("input with unexpected name %q", clip(name)))
				}
				if _, hasVal := m["value"]; !hasVal {
					f.problems = append(f.problems, fmt.Sprintf("input %q without value attribute", clip(name)))
				}
				f.inputs[name] = append(f.inputs[name], m["value"])
				f.order = append(f.order, name)
			default:
				f.problems = append(f.problems, fmt.Sprintf("unexpected element <%s>", clip(n.Data)))
			}
		}
		for ch := n.FirstChild; ch != nil; ch = ch.NextSibling {
			walk(ch)
		}
	}
	walk(doc)
	for _, e := range []string{"html", "head", "body", "form"} {
		if count[e] != 1 {
			f.problems = append(f.problems, fmt.Sprintf("%d <%s> elements", count[e], e))
		}
	}
	if count["meta"] > 1 {
		f.problems = append(f.problems, fmt.Sprintf("%d <meta> elements", count["meta"]))
	}
	if count["form"] == 1 && !f.hasAction {
		f.problems = append(f.problems, "form without action")
	}
	return f
}

// browserScheme extracts the scheme of an attribute URL the way the URL parser of a browser does: leading C0 controls
// and spaces are stripped, TAB / LF / CR are removed anywhere, then everything up to the first ':' (if it looks like a scheme).
func browserScheme(s string) string {
	s = strings.TrimLeftFunc(s, func(r rune) bool { return r <= 0x20 })
	s = strings.NewReplacer("\t", "", "\n", "", "\r", "").Replace(s)
	i := strings.Index(s, ":")
	if i <= 0 {
		return ""
	}
	sch := strings.ToLower(s[:i])
	for j, c := range sch {
		if !(c >= 'a' && c <= 'z' || j > 0 && (c >= '0' && c <= '9' || c == '+' || c == '-' || c == '.')) {
			return ""
		}
	}
	return sch
}

// ---- character classes ---------------------------------------------------------------

func charClasses(s string) []string {
	set := map[string]bool{}
	if len(s) > 150 {
		set["long"] = true
	}
	if !utf8.ValidString(s) {
		set["invalid-utf8"] = true
	}
	for _, r := range s {
		switch {
		case r >= 'a' && r <= 'z' || r >= 'A' && r <= 'Z' || r >= '0' && r <= '9' || r == '_' || r == '-':
		case r == '+' || r == '/' || r == '=':
			set["b64"] = true
		case r == '&' || r == '#' || r == '?' || r == ';':
			set["urlmeta"] = true
		case r == '%':
			set["percent"] = true
		case r == ' ':
			set["space"] = true
		case r == '"' || r == '\'' || r == '`':
			set["quote"] = true
		case r == '<' || r == '>':
			set["angle"] = true
		case r == '\r' || r == '\n' || r == 0:
			set["nul-cr-lf"] = true
		case r < 0x20 || r == 0x7f:
			set["control"] = true
		case r < 0x80:
			set["punct"] = true
		case r > 0xffff:
			set["astral"] = true
		default:
			set["nonascii"] = true
		}
	}
	out := make([]string, 0, len(set))
	for k := range set {
		out = append(out, k)
	}
	sort.Strings(out)
	return out
}

func plain(s string) bool { return len(charClasses(s)) == 0 }
