// Package c01: RP ID-token validation is sound and complete (property C01).
package c01

import (
	"context"
	"encoding/json"
	"fmt"
	"reflect"
	"runtime/debug"
	"sort"
	"strings"
	"sync"
	"testing"
	"time"

	jose "github.com/go-jose/go-jose/v4"
	"github.com/zitadel/oidc/v3/pkg/client/rp"
	libcrypto "github.com/zitadel/oidc/v3/pkg/crypto"
	"github.com/zitadel/oidc/v3/pkg/oidc"
	"pgregory.net/rapid"

	"verif/harness/vkit"
)

// ---- case ---------------------------------------------------------------------

type Config struct {
	Issuer    string   `json:"issuer"`
	ClientID  string   `json:"client_id"`
	OffsetS   int      `json:"offset_s"`   // -1: constructor default (1s)
	MaxIATS   int      `json:"max_iat_s"`  // 0: off
	MaxAuthS  int      `json:"max_auth_s"` // 0: off
	NonceMode string   `json:"nonce_mode"` // default | fixed | nil | ctx (the nonce function reads the expected nonce from the context of the call)
	Nonce     string   `json:"nonce"`      // for fixed
	ACR       []string `json:"acr"`        // nil: no acr policy
	Algs      []string `json:"algs"`       // nil: default list
}

// TimeSpec is a time claim: absent, or now+Rel seconds (evaluated at run time).
type TimeSpec struct {
	Absent bool `json:"absent,omitempty"`
	Rel    int  `json:"rel"`
}

// Neighbours are legitimate claims the statement does not mention: registered JWT / OIDC / RFC 9068 / RFC 8693 claims that
// sit next to the checked ones, and custom claims with look-alike names. They must have no influence on the verdict and
// come back with the other claims.
type Neighbours struct {
	ClientID *string        `json:"client_id,omitempty"` // RFC 9068 client_id: equal to the RP's client id, another party, empty
	Scope    *string        `json:"scope,omitempty"`
	JTI      *string        `json:"jti,omitempty"`
	NbfRel   *int           `json:"nbf_rel,omitempty"` // nbf = now+rel (only values in the past: a token that is already valid)
	AMR      []string       `json:"amr,omitempty"`
	SID      *string        `json:"sid,omitempty"`
	CHash    string         `json:"c_hash,omitempty"` // "" absent | code (hash of a code) | at (hash of the access token) | junk
	Act      bool           `json:"act,omitempty"`    // RFC 8693 actor
	Custom   map[string]any `json:"custom,omitempty"` // look-alike custom members (audience, authorized_party, cid, s_hash, ...)
}

type TokenSpec struct {
	Iss       *string     `json:"iss"`
	Sub       *string     `json:"sub"`
	Aud       any         `json:"aud"` // nil (absent) | string | []string
	Azp       *string     `json:"azp"`
	Exp       TimeSpec    `json:"exp"`
	Iat       TimeSpec    `json:"iat"`
	AuthTime  TimeSpec    `json:"auth_time"`
	Nonce     *string     `json:"nonce"`
	Acr       *string     `json:"acr"`
	AtHash    string      `json:"at_hash"` // absent | correct | otheralg | full | othertoken | junk
	Alg       string      `json:"alg"`
	Key       string      `json:"key"`   // pool key used to sign
	Extra     bool        `json:"extra"` // add custom claims
	AccessTok string      `json:"access_token"`
	WithAT    bool        `json:"with_at"` // call VerifyTokens instead of VerifyIDToken
	Nb        *Neighbours `json:"nb,omitempty"`
	// Via: the entry point of pkg/client/rp the token is delivered through (only with Case.RP): "" = rp.VerifyIDToken /
	// rp.VerifyTokens with the RP's verifier | code | handler | userinfo | refresh (see rp_test.go). The entry points
	// other than "" receive the token in a token response of the fake OP, together with AccessTok.
	Via string `json:"via,omitempty"`
	// Typed: claim name -> kind of JSON value the member is present with instead of a value of the expected JSON type
	// (see kindsOf): null, a number, a bool, an array, an object, for the time claims a string. Applied after everything
	// else, also to members that would otherwise be absent.
	Typed map[string]string `json:"typed,omitempty"`
	// On: which verifier / relying party of the case the token is delivered to (only with Case.Reuse.Second): 0 = the
	// first, 1 = the second one.
	On int `json:"on,omitempty"`
}

// ReuseSpec is what an application that configures several verifiers / relying parties in a loop does with the option
// slices it passes to the constructors: it keeps them, overwrites elements with the options of another configuration
// and constructs the next verifier / relying party from them. The configuration a verifier was CONSTRUCTED with is the
// one that applies to it; constructing another one changes nothing for the first.
type ReuseSpec struct {
	// Other: another generated configuration (its issuer / client id are not used: those are constructor arguments)
	Other Config `json:"other"`
	// Spare: spare capacity of the kept []rp.VerifierOption
	Spare int `json:"spare,omitempty"`
	// Writes: after the construction of the first and before any verification, kept[i mod len(kept)] = options of
	// Other[j mod len(options of Other)] for every (i, j)
	Writes [][2]int `json:"writes,omitempty"`
	// Second: "" | inner: a second verifier / relying party is constructed from the kept slice(s) as they are after the
	// writes | outer (relying party): the rp.WithVerifierOpts element of the kept []rp.Option is overwritten with
	// rp.WithVerifierOpts(options of Other...) and a second relying party is constructed from that slice
	Second string `json:"second,omitempty"`
	// Vals: the []string inside the options (acr levels, algorithms) are sub-slices of lists the caller keeps (vals_test.go)
	Vals *ValsSpec `json:"vals,omitempty"`
}

// Step is one entry of a history on ONE verifier instance in one process: a verification, or a call of an exported helper
// that a relying party may use between verifications.
type Step struct {
	Op     string     `json:"op"`                // verify | hasher | claimhash | hashstring | verifyat | overwrite
	Tok    *TokenSpec `json:"tok,omitempty"`     // verify
	Alg    string     `json:"alg,omitempty"`     // helpers: signature algorithm
	Data   string     `json:"data,omitempty"`    // helpers: the string that is hashed / the access token
	Use    string     `json:"use,omitempty"`     // hasher: write | write+sum | write+sum+reset; hashstring: half | full
	AtHash string     `json:"at_hash,omitempty"` // verifyat: class of the presented at_hash
	Writes [][2]int   `json:"writes,omitempty"`  // overwrite (only with Case.Reuse): further writes into the kept option slice, between verifications
	ValOps []ValOp    `json:"val_ops,omitempty"` // overwrite (only with Case.Reuse.Vals): in-place changes of the caller's value lists
}

type Case struct {
	Cfg     Config    `json:"cfg"`
	Tok     TokenSpec `json:"tok"`
	Trusted []string  `json:"trusted"` // pool keys the verifier trusts (kid = key name)

	// V=0: one verification, key set published as kidOf describes. V=2: every trusted key under its own name, StandIn
	// publishes kid -> another key ("" = nothing): a token signed by the key named kid meets the wrong key / no key.
	V       int               `json:"v,omitempty"`
	StandIn map[string]string `json:"stand_in,omitempty"`
	Steps   []Step            `json:"steps,omitempty"` // run after the verification of Tok, same verifier
	Conc    [][]Step          `json:"conc,omitempty"`  // goroutines released together on one verifier; Tok is the first step of goroutine 0

	// RP != nil: the verifier is the one of a RelyingParty built by rp.NewRelyingPartyOIDC + rp.WithVerifierOpts against a
	// fake OP (RoundTripper); its key set is the RP's remote key set fed from the fake OP's JWKS. All verifications of the
	// case run on this ONE RelyingParty, each through its TokenSpec.Via.
	RP *RPSpec `json:"rp,omitempty"`

	// Reuse != nil: the option slices handed to the constructors are kept, overwritten and reused by the harness
	Reuse *ReuseSpec `json:"reuse,omitempty"`
}

// ---- generator ------------------------------------------------------------------

const (
	goodIssuer = "https://issuer.example.com"
	goodClient = "client-1"
)

var allAlgs = []string{"RS256", "RS384", "RS512", "PS256", "PS384", "PS512", "ES256", "ES384", "ES512", "EdDSA"}

func sp(s string) *string { return &s }
func ip(i int) *int       { return &i }

func genCfg(t *rapid.T) Config {
	var cfg Config
	cfg.Issuer = rapid.SampledFrom([]string{goodIssuer, goodIssuer + "/", "https://issuer.example.com/oidc"}).Draw(t, "issuer")
	cfg.ClientID = rapid.SampledFrom([]string{goodClient, "client-2", "c"}).Draw(t, "client")
	cfg.OffsetS = rapid.SampledFrom([]int{-1, -1, 0, 1, 5, 60}).Draw(t, "offset")
	cfg.MaxIATS = rapid.SampledFrom([]int{0, 0, 10, 300}).Draw(t, "maxiat")
	cfg.MaxAuthS = rapid.SampledFrom([]int{0, 0, 60, 3600}).Draw(t, "maxauth")
	cfg.NonceMode = rapid.SampledFrom([]string{"default", "fixed", "fixed", "nil", "ctx"}).Draw(t, "noncemode")
	if cfg.NonceMode == "fixed" || cfg.NonceMode == "ctx" {
		cfg.Nonce = rapid.SampledFrom([]string{"n-1", "N-1", "n 1"}).Draw(t, "cfgnonce")
	}
	if rapid.IntRange(0, 2).Draw(t, "acrpolicy") == 0 {
		cfg.ACR = rapid.SampledFrom([][]string{{"loa2"}, {"loa1", "loa2"}, {}}).Draw(t, "acrlist")
	}
	cfg.Algs = rapid.SampledFrom([][]string{nil, nil, {"RS256"}, {"ES256", "EdDSA"}, {"PS256", "RS384"}, {"ES384", "ES512", "RS512", "PS384", "PS512"}}).Draw(t, "algs")
	return cfg
}

func allowedAlgs(cfg Config) []string {
	if cfg.Algs == nil {
		return []string{"RS256", "ES256", "PS256"}
	}
	return cfg.Algs
}

func fittingKeys(alg string) []string {
	var fitting []string
	for _, n := range vkit.KeyNames {
		if vkit.AlgFitsKey(alg, vkit.Key(n)) {
			fitting = append(fitting, n)
		}
	}
	return fitting
}

// genToken draws alg, key and claims of one token for a verifier configured with cfg. atBias: most tokens come as a
// token response (with access token and at_hash).
func genToken(t *rapid.T, cfg Config, atBias bool, via string) TokenSpec {
	var tok TokenSpec
	tok.Via = via
	// signing key and alg: mostly one the verifier allows
	if rapid.IntRange(0, 9).Draw(t, "algok") > 0 {
		tok.Alg = rapid.SampledFrom(allowedAlgs(cfg)).Draw(t, "alg")
	} else {
		tok.Alg = rapid.SampledFrom(allAlgs).Draw(t, "alg")
	}
	tok.Key = rapid.SampledFrom(fittingKeys(tok.Alg)).Draw(t, "key")

	// canonical valid token relative to the config
	now := 0
	tok.Iss = sp(cfg.Issuer)
	tok.Sub = sp("user-1")
	tok.Aud = []string{cfg.ClientID}
	tok.Exp = TimeSpec{Rel: 3600}
	tok.Iat = TimeSpec{Rel: now - 5}
	tok.AuthTime = TimeSpec{Rel: now - 20}
	switch cfg.NonceMode {
	case "fixed", "ctx":
		tok.Nonce = sp(cfg.Nonce)
	case "nil":
		if rapid.Bool().Draw(t, "anynonce") {
			tok.Nonce = sp("whatever")
		}
	}
	if cfg.ACR != nil && len(cfg.ACR) > 0 {
		tok.Acr = sp(cfg.ACR[0])
	}
	tok.AtHash = "absent"
	tok.AccessTok = rapid.SampledFrom([]string{"at-1", "eyJhbGciOiJSUzI1NiJ9.e30.c2ln", "", "at-2-" + strings.Repeat("z", 200)}).Draw(t, "at")
	if via != "" {
		// a token response: always verified together with its access token; a response without one is rare
		tok.WithAT = true
		if tok.AccessTok == "" && rapid.IntRange(0, 3).Draw(t, "emptyat") > 0 {
			tok.AccessTok = "at-3"
		}
	} else {
		tok.WithAT = rapid.Bool().Draw(t, "withat")
		if atBias && !tok.WithAT {
			tok.WithAT = rapid.IntRange(0, 3).Draw(t, "withat2") > 0
		}
	}
	if tok.WithAT {
		tok.AtHash = rapid.SampledFrom([]string{"absent", "correct", "correct", "correct"}).Draw(t, "athash0")
	}
	tok.Extra = rapid.Bool().Draw(t, "extra")
	if rapid.Bool().Draw(t, "neighbours") {
		tok.Nb = genNeighbours(t, cfg)
	}

	// mutate 0..3 dimensions
	nmut := rapid.SampledFrom([]int{0, 0, 1, 1, 1, 2, 2, 3}).Draw(t, "nmut")
	for i := 0; i < nmut; i++ {
		mutate(t, cfg, &tok)
	}
	return tok
}

type customClaim struct {
	k string
	v []any
}

// genNeighbours: claims the statement does not speak about. All of them are things an OP may put into an ID token.
func genNeighbours(t *rapid.T, cfg Config) *Neighbours {
	nb := &Neighbours{}
	cid := cfg.ClientID
	if rapid.IntRange(0, 9).Draw(t, "nb_client_id") < 6 {
		nb.ClientID = rapid.SampledFrom([]*string{sp(cid), sp(cid), sp("other-client"), sp("x"), sp("")}).Draw(t, "client_id")
	}
	if rapid.IntRange(0, 2).Draw(t, "nb_scope") == 0 {
		nb.Scope = rapid.SampledFrom([]*string{sp("openid"), sp("openid profile email"), sp("")}).Draw(t, "scope")
	}
	if rapid.IntRange(0, 2).Draw(t, "nb_jti") == 0 {
		nb.JTI = rapid.SampledFrom([]*string{sp("jti-1"), sp(cid), sp("0")}).Draw(t, "jti")
	}
	if rapid.IntRange(0, 2).Draw(t, "nb_nbf") == 0 {
		nb.NbfRel = ip(rapid.SampledFrom([]int{-5, -30, -3600, -86400}).Draw(t, "nbf"))
	}
	if rapid.IntRange(0, 2).Draw(t, "nb_amr") == 0 {
		nb.AMR = rapid.SampledFrom([][]string{{"pwd"}, {"pwd", "otp"}, {"loa2"}, {cid}}).Draw(t, "amr")
	}
	if rapid.IntRange(0, 2).Draw(t, "nb_sid") == 0 {
		nb.SID = rapid.SampledFrom([]*string{sp("sid-1"), sp(cid), sp("n-1")}).Draw(t, "sid")
	}
	if rapid.IntRange(0, 2).Draw(t, "nb_c_hash") == 0 {
		nb.CHash = rapid.SampledFrom([]string{"code", "at", "junk"}).Draw(t, "c_hash")
	}
	if rapid.IntRange(0, 5).Draw(t, "nb_act") == 0 {
		nb.Act = true
	}
	// custom members; names differ from every registered member also when letter case is ignored
	pool := []customClaim{
		{"audience", []any{cid, "x", []any{cid, "x"}, []any{"x", "y"}}},
		{"authorized_party", []any{cid, "x"}},
		{"cid", []any{cid, "x"}},
		{"s_hash", []any{"LDktKdoQak3Pk0cnXxCltA", "AAAA"}},
		{"issuer", []any{cfg.Issuer, "https://evil.example.com"}},
		{"expires_in", []any{3600.0, -1.0, 0.0}},
		{"acr_values", []any{"loa1 loa2", "loa3"}},
		{"nonce_supported", []any{true, false}},
		{"at_hash_alg", []any{"RS512", "none"}},
	}
	n := rapid.SampledFrom([]int{0, 0, 1, 1, 2, 3}).Draw(t, "ncustom")
	for i := 0; i < n; i++ {
		e := rapid.SampledFrom(pool).Draw(t, "customname")
		if nb.Custom == nil {
			nb.Custom = map[string]any{}
		}
		nb.Custom[e.k] = rapid.SampledFrom(e.v).Draw(t, "customvalue")
	}
	return nb
}

// trust decides, once per signing key of a case, whether the verifier's key set holds it (mostly yes) or - under the
// same kid - another key of the same kind, or nothing.
func trust(t *rapid.T, c *Case, tok *TokenSpec) {
	if contains(c.Trusted, tok.Key) {
		return
	}
	if _, ok := c.StandIn[tok.Key]; ok {
		return
	}
	if rapid.IntRange(0, 9).Draw(t, "untrusted") > 0 {
		c.Trusted = append(c.Trusted, tok.Key)
		return
	}
	if c.StandIn == nil {
		c.StandIn = map[string]string{}
	}
	c.StandIn[tok.Key] = "" // nothing to stand in: the kid is simply unknown to the verifier
	for _, n := range fittingKeys(tok.Alg) {
		if n != tok.Key {
			c.StandIn[tok.Key] = n
			break
		}
	}
}

func genTrustedToken(t *rapid.T, c *Case, atBias bool) TokenSpec {
	on, cfg := genTarget(t, c)
	tok := genToken(t, cfg, atBias, genVia(t, c))
	tok.On = on
	retarget(t, c, cfg, &tok)
	trust(t, c, &tok)
	return tok
}

func genHelper(t *rapid.T, algs []string) Step {
	st := Step{Op: rapid.SampledFrom([]string{"hasher", "hasher", "hasher", "claimhash", "hashstring", "verifyat"}).Draw(t, "helper")}
	if len(algs) > 0 && rapid.IntRange(0, 9).Draw(t, "helperalgnear") < 7 {
		st.Alg = rapid.SampledFrom(algs).Draw(t, "helperalg")
	} else {
		st.Alg = rapid.SampledFrom(allAlgs).Draw(t, "helperalg")
	}
	st.Data = rapid.SampledFrom([]string{"state-of-the-auth-request", "at-1", "", "code-1", strings.Repeat("s", 300)}).Draw(t, "helperdata")
	switch st.Op {
	case "hasher":
		st.Use = rapid.SampledFrom([]string{"write", "write+sum", "write+sum", "write+sum+reset"}).Draw(t, "hasheruse")
	case "hashstring":
		st.Use = rapid.SampledFrom([]string{"half", "full"}).Draw(t, "hashstringuse")
	case "verifyat":
		st.AtHash = rapid.SampledFrom([]string{"absent", "correct", "correct", "otheralg", "full", "othertoken", "junk"}).Draw(t, "verifyathash")
	}
	return st
}

// algsOf: the algorithms the case speaks about so far (helpers mostly use one of them).
func algsOf(c *Case) []string {
	algs := []string{c.Tok.Alg}
	add := func(steps []Step) {
		for _, s := range steps {
			if s.Tok != nil {
				algs = append(algs, s.Tok.Alg)
			}
		}
	}
	add(c.Steps)
	for _, g := range c.Conc {
		add(g)
	}
	return append(algs, allowedAlgs(c.Cfg)...)
}

// genCase: 60 % single verifications on a fresh verifier, 40 % histories on one verifier.
func genCase(t *rapid.T) Case {
	c := Case{V: 2}
	c.Cfg = genCfg(t)
	if rapid.IntRange(0, 9).Draw(t, "rp") < 4 {
		c.RP = genRP(t)
	}
	if rapid.IntRange(0, 9).Draw(t, "reuse") < 3 {
		c.Reuse = genReuse(t, &c)
	}
	seq := rapid.IntRange(0, 9).Draw(t, "kind") >= 6
	c.Tok = genTrustedToken(t, &c, seq)
	if !seq {
		return c
	}
	nver := rapid.IntRange(1, 4).Draw(t, "nver") // 2..5 verifications in all
	toks := []TokenSpec{c.Tok}
	for i := 0; i < nver; i++ {
		nh := rapid.SampledFrom([]int{0, 0, 1, 1, 1, 2}).Draw(t, "nhelpers")
		for j := 0; j < nh; j++ {
			c.Steps = append(c.Steps, genHelper(t, algsOf(&c)))
		}
		if c.Reuse != nil && rapid.IntRange(0, 3).Draw(t, "overwrite") == 0 {
			st := Step{Op: "overwrite", Writes: genWrites(t, 1)}
			if v := c.Reuse.Vals; v != nil {
				st.ValOps = genValOps(t, v, rapid.IntRange(0, 2).Draw(t, "nstepvalops"))
			}
			c.Steps = append(c.Steps, st)
		}
		var tok TokenSpec
		if rapid.IntRange(0, 4).Draw(t, "again") == 0 {
			// an earlier token response once more (fresh signature, same claims), on an RP through any entry point
			tok = toks[rapid.IntRange(0, len(toks)-1).Draw(t, "which")]
			if tok.Via = genVia(t, &c); tok.Via != "" {
				tok.WithAT = true
			}
			if c.Reuse != nil && c.Reuse.Second != "" {
				// ... also by the other verifier / relying party of the case
				tok.On = rapid.IntRange(0, 1).Draw(t, "againon")
			}
		} else {
			tok = genTrustedToken(t, &c, true)
		}
		toks = append(toks, tok)
		tk := tok
		c.Steps = append(c.Steps, Step{Op: "verify", Tok: &tk})
	}
	return c
}

// genConcCase: 2-6 goroutines with 1-3 steps each (mostly verifications of token responses) on one verifier.
func genConcCase(t *rapid.T) Case {
	c := Case{V: 2}
	c.Cfg = genCfg(t)
	if rapid.IntRange(0, 9).Draw(t, "rp") < 4 {
		c.RP = genRP(t)
	}
	if rapid.IntRange(0, 9).Draw(t, "reuse") < 3 {
		c.Reuse = genReuse(t, &c)
	}
	c.Tok = genTrustedToken(t, &c, true)
	k := rapid.IntRange(2, 6).Draw(t, "goroutines")
	for g := 0; g < k; g++ {
		n := rapid.IntRange(1, 3).Draw(t, "nsteps")
		if g == 0 {
			n-- // Tok is its first step
		}
		steps := []Step{}
		for i := 0; i < n; i++ {
			if rapid.IntRange(0, 4).Draw(t, "helperstep") == 0 {
				steps = append(steps, genHelper(t, algsOf(&c)))
				continue
			}
			tok := genTrustedToken(t, &c, true)
			steps = append(steps, Step{Op: "verify", Tok: &tok})
		}
		c.Conc = append(c.Conc, steps)
	}
	return c
}

var boundaryDeltas = []int{-3600, -30, -5, -3, -2, -1, 0, 1, 2, 3, 5, 30, 3600}

func mutate(t *rapid.T, cfg Config, tok *TokenSpec) {
	dim := rapid.SampledFrom([]string{"iss", "sub", "aud", "azp", "exp", "iat", "auth_time", "nonce", "acr", "at_hash", "aud", "azp", "exp", "iat", "type", "type"}).Draw(t, "dim")
	off := cfg.OffsetS
	if off < 0 {
		off = 1
	}
	switch dim {
	case "iss":
		tok.Iss = rapid.SampledFrom([]*string{nil, sp(""), sp(cfg.Issuer + "/"), sp(strings.TrimSuffix(cfg.Issuer, "/")), sp("https://evil.example.com"), sp(strings.ToUpper(cfg.Issuer))}).Draw(t, "iss")
	case "sub":
		tok.Sub = rapid.SampledFrom([]*string{nil, sp(""), sp("other")}).Draw(t, "sub")
	case "aud":
		cid := cfg.ClientID
		tok.Aud = rapid.SampledFrom([]any{nil, cid, "x", []string{}, []string{cid}, []string{cid, "x"}, []string{"x"}, []string{"x", cid, "y"}, []string{"x", "y"}, []string{cid, cid}, []string{cid + "x"}}).Draw(t, "aud")
		if len(audOf(*tok)) > 1 && rapid.Bool().Draw(t, "azpwithaud") {
			// the form several audiences legitimately come in: azp names the RP
			tok.Azp = sp(cid)
		}
	case "azp":
		tok.Azp = rapid.SampledFrom([]*string{nil, sp(""), sp(cfg.ClientID), sp("x"), sp(cfg.ClientID + " ")}).Draw(t, "azp")
	case "exp":
		if rapid.IntRange(0, 5).Draw(t, "expabs") == 0 {
			tok.Exp = TimeSpec{Absent: true}
		} else {
			// boundaries: exp == now (the statement's bound) and exp == now+offset (the code's bound)
			base := rapid.SampledFrom([]int{0, off, -off}).Draw(t, "expbase")
			tok.Exp = TimeSpec{Rel: base + rapid.SampledFrom(boundaryDeltas).Draw(t, "expd")}
		}
	case "iat":
		switch rapid.IntRange(0, 3).Draw(t, "iatkind") {
		case 0:
			tok.Iat = TimeSpec{Absent: true}
		case 1: // future boundaries: iat == now and iat == now+offset
			base := rapid.SampledFrom([]int{0, off, 2 * off}).Draw(t, "iatbase")
			tok.Iat = TimeSpec{Rel: base + rapid.SampledFrom(boundaryDeltas).Draw(t, "iatd")}
		default: // age boundary: iat == now-maxIAT
			m := cfg.MaxIATS
			if m == 0 {
				m = 300
			}
			tok.Iat = TimeSpec{Rel: -m + rapid.SampledFrom(boundaryDeltas).Draw(t, "iatd2")}
		}
	case "auth_time":
		if rapid.IntRange(0, 2).Draw(t, "atabs") == 0 {
			tok.AuthTime = TimeSpec{Absent: true}
		} else {
			m := cfg.MaxAuthS
			if m == 0 {
				m = 60
			}
			tok.AuthTime = TimeSpec{Rel: -m + rapid.SampledFrom(boundaryDeltas).Draw(t, "authd")}
		}
	case "nonce":
		tok.Nonce = rapid.SampledFrom([]*string{nil, sp(""), sp("n-1"), sp("N-1"), sp("other")}).Draw(t, "nonce")
	case "acr":
		tok.Acr = rapid.SampledFrom([]*string{nil, sp(""), sp("loa1"), sp("loa2"), sp("loa3")}).Draw(t, "acr")
	case "at_hash":
		tok.WithAT = true
		tok.AtHash = rapid.SampledFrom([]string{"absent", "correct", "otheralg", "full", "othertoken", "junk", "empty"}).Draw(t, "athash")
	case "type":
		name := rapid.SampledFrom(typedClaims).Draw(t, "typedclaim")
		if tok.Typed == nil {
			tok.Typed = map[string]string{}
		}
		tok.Typed[name] = rapid.SampledFrom(kindsOf(name)).Draw(t, "typedkind")
		if name == "at_hash" && rapid.IntRange(0, 3).Draw(t, "typedwithat") > 0 {
			tok.WithAT = true // at_hash only speaks when the ID token comes with an access token
		}
	}
}

// ---- execution -----------------------------------------------------------------

type staticKeySet struct{ keys []jose.JSONWebKey }

func (s *staticKeySet) VerifySignature(ctx context.Context, jws *jose.JSONWebSignature) ([]byte, error) {
	kid, alg := oidc.GetKeyIDAndAlg(jws)
	key, err := oidc.FindMatchingKey(kid, oidc.KeyUseSignature, alg, s.keys...)
	if err != nil {
		return nil, err
	}
	return jws.Verify(&key)
}

func absTime(ts TimeSpec, now time.Time) (int64, bool) {
	if ts.Absent {
		return 0, false
	}
	return now.Unix() + int64(ts.Rel), true
}

func otherAlgFor(alg string) string {
	if strings.HasSuffix(alg, "256") {
		return "RS512"
	}
	return "RS256"
}

// hashOfClass: the at_hash value of a class for (alg, access token); ok=false: the member is absent.
func hashOfClass(class, alg, at string) (string, bool) {
	switch class {
	case "correct":
		return vkit.LeftHalfHash(alg, at), true
	case "otheralg":
		return vkit.LeftHalfHash(otherAlgFor(alg), at), true
	case "full":
		// full (not left-half) hash: twice the left-half length
		h := vkit.LeftHalfHash(alg, at)
		return h + h, true
	case "othertoken":
		return vkit.LeftHalfHash(alg, at+"x"), true
	case "junk":
		return "AAAA", true
	case "empty":
		return "", true
	}
	return "", false
}

func buildPayload(tok TokenSpec, now time.Time) (map[string]any, []byte) {
	m := map[string]any{}
	if tok.Iss != nil {
		m["iss"] = *tok.Iss
	}
	if tok.Sub != nil {
		m["sub"] = *tok.Sub
	}
	if tok.Aud != nil {
		m["aud"] = tok.Aud
	}
	if tok.Azp != nil {
		m["azp"] = *tok.Azp
	}
	if v, ok := absTime(tok.Exp, now); ok {
		m["exp"] = v
	}
	if v, ok := absTime(tok.Iat, now); ok {
		m["iat"] = v
	}
	if v, ok := absTime(tok.AuthTime, now); ok {
		m["auth_time"] = v
	}
	if tok.Nonce != nil {
		m["nonce"] = *tok.Nonce
	}
	if tok.Acr != nil {
		m["acr"] = *tok.Acr
	}
	if h, ok := hashOfClass(tok.AtHash, tok.Alg, tok.AccessTok); ok {
		m["at_hash"] = h
	}
	if tok.Extra {
		m["custom_s"] = "v"
		m["custom_n"] = 12.5
		m["custom_o"] = map[string]any{"k": []any{"a", 1.0, true}}
		m["email"] = "u@example.com"
	}
	if nb := tok.Nb; nb != nil {
		if nb.ClientID != nil {
			m["client_id"] = *nb.ClientID
		}
		if nb.Scope != nil {
			m["scope"] = *nb.Scope
		}
		if nb.JTI != nil {
			m["jti"] = *nb.JTI
		}
		if nb.NbfRel != nil {
			m["nbf"] = now.Unix() + int64(*nb.NbfRel)
		}
		if nb.AMR != nil {
			m["amr"] = nb.AMR
		}
		if nb.SID != nil {
			m["sid"] = *nb.SID
		}
		switch nb.CHash {
		case "code":
			m["c_hash"] = vkit.LeftHalfHash(tok.Alg, "code-1")
		case "at":
			m["c_hash"] = vkit.LeftHalfHash(tok.Alg, tok.AccessTok)
		case "junk":
			m["c_hash"] = "AAAA"
		}
		if nb.Act {
			m["act"] = map[string]any{"sub": "admin-1", "iss": "https://issuer.example.com"}
		}
		for k, v := range nb.Custom {
			if _, taken := m[k]; !taken {
				m[k] = v
			}
		}
	}
	applyTyped(m, tok, now)
	b, _ := json.Marshal(m)
	return m, b
}

func audOf(tok TokenSpec) []string {
	switch a := tok.Aud.(type) {
	case string:
		return []string{a}
	case []string:
		return a
	case []any: // after JSON round trip of the case
		out := make([]string, 0, len(a))
		for _, x := range a {
			out = append(out, fmt.Sprint(x))
		}
		return out
	}
	return nil
}

func contains(l []string, s string) bool {
	for _, x := range l {
		if x == s {
			return true
		}
	}
	return false
}

const guard = 2 // seconds of clock-rounding margin on both sides of every bound

// verdict: +1 must accept, -1 must reject, 0 grey. reasons name the failed conditions.
// The model looks at the claims the statement names and at nothing else (tok.Nb and tok.Extra are invisible to it).
//
// via = the entry point. The conditions are the same for all of them, with one exception: rp.RefreshTokens and the nonce.
// The nonce belongs to the authentication request; OIDC Core 12.2 says the ID token of a refresh response SHOULD NOT carry
// one (and if it does, it must repeat the original one, which an RP no longer holds). The unchanged library applies the
// verifier's nonce function on refresh like everywhere else; an implementation that does not would follow Core 12.2. What
// "the configured nonce requirement" is for a refresh response is therefore not decided by the statement: a token whose
// nonce condition fails is grey there (neither side asserted); all other conditions are asserted as everywhere.
func model(cfg Config, tok TokenSpec, keyOK bool, via string) (verdict int, reject []string, grey []string) {
	off := cfg.OffsetS
	if off < 0 {
		off = 1
	}
	rej := func(s string) { reject = append(reject, s) }
	gry := func(s string) { grey = append(grey, s) }

	// JSON null = absent; mist = members that are present with a value of another JSON type than the expected one
	// (see typed_test.go): such a token is never must-accept
	tok, mist, mistNames := splitTyped(tok)
	for _, name := range mistNames {
		gry("type:" + name)
	}
	is := func(name string) bool { _, ok := mist[name]; return ok }

	if is("iss") || tok.Iss == nil || *tok.Iss != cfg.Issuer {
		rej("iss") // whatever the member is, it does not name the issuer
	}
	if !is("sub") && (tok.Sub == nil || *tok.Sub == "") {
		rej("sub")
	}
	a := audOf(tok) // the string members
	if is("aud") && !strings.HasPrefix(mist["aud"], "mixed") {
		a = nil // a number / bool / object / array of arrays lists no client id
	}
	if !contains(a, cfg.ClientID) {
		rej("aud")
	}
	azp := ""
	if tok.Azp != nil {
		azp = *tok.Azp
	}
	if is("azp") || (azp != "" && azp != cfg.ClientID) {
		rej("azp-mismatch") // present and not the client id
	}
	if len(a) > 1 && azp == "" && !is("azp") {
		rej("azp-missing")
	}
	// signature
	if !contains(allowedAlgs(cfg), tok.Alg) {
		rej("alg")
	}
	if !keyOK {
		rej("key")
	}
	// expiration: must hold exp > now; configured offset is extra strictness the code documents
	if is("exp") {
		// not decided
	} else if tok.Exp.Absent {
		rej("exp-absent")
	} else {
		switch {
		case tok.Exp.Rel <= -guard:
			rej("expired")
		case tok.Exp.Rel >= off+guard:
		default:
			gry("exp-window")
		}
	}
	if is("iat") {
		// not decided
	} else if tok.Iat.Absent {
		rej("iat-absent")
	} else {
		switch {
		case tok.Iat.Rel >= off+guard:
			rej("iat-future")
		case tok.Iat.Rel <= -guard:
		default:
			gry("iat-future-window")
		}
		if cfg.MaxIATS > 0 {
			switch {
			case tok.Iat.Rel <= -cfg.MaxIATS-guard:
				rej("iat-old")
			case tok.Iat.Rel >= -cfg.MaxIATS+guard:
			default:
				gry("iat-old-window")
			}
		}
	}
	rejNonce := func() {
		if via == viaRefresh {
			gry("refresh-nonce")
		} else {
			rej("nonce")
		}
	}
	switch cfg.NonceMode {
	case "default":
		if is("nonce") || (tok.Nonce != nil && *tok.Nonce != "") {
			rejNonce()
		}
	case "fixed", "ctx":
		if is("nonce") || tok.Nonce == nil || *tok.Nonce != cfg.Nonce {
			rejNonce()
		}
	}
	if cfg.ACR != nil {
		acr := ""
		if tok.Acr != nil {
			acr = *tok.Acr
		}
		if is("acr") || !contains(cfg.ACR, acr) {
			rej("acr")
		}
	}
	if cfg.MaxAuthS > 0 && !is("auth_time") {
		if tok.AuthTime.Absent {
			rej("auth_time-absent")
		} else {
			switch {
			case tok.AuthTime.Rel <= -cfg.MaxAuthS-guard:
				rej("auth_time-old")
			case tok.AuthTime.Rel >= -cfg.MaxAuthS+guard:
			default:
				gry("auth_time-window")
			}
		}
	}
	if tok.WithAT || via != "" {
		if is("at_hash") {
			rej("at_hash") // present and not the left-half hash of the access token
		} else {
			switch tok.AtHash {
			case "otheralg", "full", "othertoken", "junk":
				rej("at_hash")
			}
		}
	}
	if via != "" && tok.AccessTok == "" {
		// not a token response (RFC 6749 5.1: access_token is required); the OAuth2 layer may refuse it before any verification
		gry("response-without-access-token")
	}
	if len(reject) > 0 {
		return -1, reject, grey
	}
	if len(grey) > 0 {
		return 0, nil, grey
	}
	return 1, nil, nil
}

// normJSON brings both sides to the same JSON-level form. The statement says the
// claims come back "unchanged": values are compared after the documented tolerant
// decoding (aud string == one-element array) and ignoring members whose value is
// empty (omitempty on re-marshal), which carry no information.
func normJSON(v any) any {
	b, _ := json.Marshal(v)
	var out map[string]any
	json.Unmarshal(b, &out)
	for k, x := range out {
		switch y := x.(type) {
		case string:
			if y == "" {
				delete(out, k)
			} else if k == "aud" {
				out[k] = []any{y}
			}
		case []any:
			if len(y) == 0 {
				delete(out, k)
			}
		case nil:
			delete(out, k)
		}
	}
	return out
}

// keySet publishes the verifier's keys.
func keySet(c Case) *staticKeySet {
	var keys []jose.JSONWebKey
	if c.V == 0 {
		for _, n := range c.Trusted {
			keys = append(keys, vkit.Key(n).JWK(kidOf(c, n), "sig", ""))
		}
		return &staticKeySet{keys: keys}
	}
	for _, n := range c.Trusted {
		keys = append(keys, vkit.Key(n).JWK(n, "sig", ""))
	}
	kids := make([]string, 0, len(c.StandIn))
	for kid := range c.StandIn {
		kids = append(kids, kid)
	}
	sort.Strings(kids)
	for _, kid := range kids {
		if n := c.StandIn[kid]; n != "" && n != kid && !contains(c.Trusted, kid) {
			keys = append(keys, vkit.Key(n).JWK(kid, "sig", ""))
		}
	}
	return &staticKeySet{keys: keys}
}

func kidOf(c Case, keyName string) string {
	// (V=0) the trusted set publishes each key under the name of the *signing* key when it
	// stands in for it (same kid, other key), otherwise under its own name
	if !contains(c.Trusted, c.Tok.Key) {
		return c.Tok.Key
	}
	return keyName
}

// sut: the verifier(s) under test - on their own (public constructor), or inside a RelyingParty. With Case.Reuse there
// may be two of them, constructed one after the other from option slices the caller keeps and overwrites.
type sut struct {
	vs      []*rp.IDTokenVerifier // verifiers on their own
	parties []rp.RelyingParty
	cfgs    []Config // the configuration each was constructed with
	srcs    [][2]int
	op      *fakeOP
	keep    *keep
	sym     *lists // the model's own copy of the caller's value lists (nil without Case.Reuse.Vals)
}

// applyVals: the caller changes its value lists in place (the real ones and, in step, the model's).
func (s *sut) applyVals(ops []ValOp) {
	if s.sym == nil {
		return
	}
	s.keep.lists.apply(ops)
	s.sym.apply(ops)
}

// verifier: as an application gets at it when it needs it.
func (s *sut) verifier(on int) *rp.IDTokenVerifier {
	if s.parties != nil {
		return s.parties[on].IDTokenVerifier()
	}
	return s.vs[on]
}

func (s *sut) party(on int) rp.RelyingParty {
	if s.parties == nil {
		return nil
	}
	return s.parties[on]
}

func newSUT(c Case) (*sut, error) {
	p := planOf(c)
	s := &sut{keep: newKeep(c), cfgs: p.cfgs, srcs: p.srcs}
	k := s.keep
	vals := valsOf(c)
	if vals != nil {
		s.sym = newLists(vals)
	}
	construct := func() error {
		if c.RP == nil {
			s.vs = append(s.vs, rp.NewIDTokenVerifier(c.Cfg.Issuer, c.Cfg.ClientID, keySet(c), k.inner...))
			return nil
		}
		party, err := rp.NewRelyingPartyOIDC(context.Background(), c.Cfg.Issuer, c.Cfg.ClientID, "secret", "https://rp.example.com/callback",
			[]string{"openid", "offline_access"}, k.outer...)
		if err != nil {
			return err
		}
		s.parties = append(s.parties, party)
		return nil
	}
	if c.RP != nil {
		s.op = newFakeOP(c)
		k.outer = partyOpts(c, s.op, k.inner)
	}
	if err := construct(); err != nil {
		return nil, err
	}
	if c.Reuse == nil {
		return s, nil
	}
	// the caller goes on to its next configuration
	if vals != nil {
		s.applyVals(vals.Early)
		s.sym.handOther(vals)
	}
	k.buildOther(c)
	if vals != nil {
		s.applyVals(vals.Ops)
	}
	k.overwrite(c.Reuse.Writes)
	switch secondOf(c) {
	case "inner":
		if err := construct(); err != nil {
			return nil, err
		}
	case "outer":
		k.outer[outerVerifierOpts] = rp.WithVerifierOpts(k.otherOpts...)
		if err := construct(); err != nil {
			return nil, err
		}
	}
	return s, nil
}

// built is a signed token (claims relative to the wall clock t0).
type built struct {
	pm    map[string]any
	token string
	t0    time.Time
	via   string
	on    int    // the verifier / relying party of the case it goes to
	cfg   Config // the configuration that one was constructed with
	alias *Config // != nil: the same with the policies read from the caller's lists as they are now (changed in place since)
	prep  prepared
}

// buildToken signs the token and sets up its delivery (fake OP answer, callback request).
func buildToken(c Case, s *sut, tok *TokenSpec, t0 time.Time) built {
	pm, payload := buildPayload(*tok, t0)
	b := built{pm: pm, token: vkit.MustSignJWT(tok.Alg, tok.Key, vkit.Key(tok.Key), payload), t0: t0, via: viaOf(c, tok), on: onOf(c, tok)}
	b.cfg = s.cfgs[b.on]
	if s.sym != nil && b.on < len(s.srcs) {
		b.alias = aliasView(b.cfg, s.srcs[b.on], s.sym)
	}
	b.prep = prepare(b.cfg, s.party(b.on), b.via, tok, b.token)
	return b
}

// outcome of one library call.
type outcome struct {
	claims *oidc.IDTokenClaims
	err    error
	out    string // helpers: what came back
	pan    any
	stack  string
	t1     time.Time
}

// execVerify only calls the library (it also runs inside the goroutines of the concurrent sub-check).
func execVerify(s *sut, tok *TokenSpec, b *built) (o outcome) {
	defer func() {
		if p := recover(); p != nil {
			o.pan, o.stack = p, string(debug.Stack())
		}
		o.t1 = time.Now()
	}()
	switch {
	case b.prep.err != nil:
		o.err = b.prep.err
	case b.via != "":
		o.claims, o.err = deliver(s.party(b.on), b.via, b.prep)
	case tok.WithAT:
		o.claims, o.err = rp.VerifyTokens[*oidc.IDTokenClaims](b.prep.ctx, tok.AccessTok, b.token, s.verifier(b.on))
	default:
		o.claims, o.err = rp.VerifyIDToken[*oidc.IDTokenClaims](b.prep.ctx, b.token, s.verifier(b.on))
	}
	return o
}

// execHelper: exported functions a relying party may call between (or next to) verifications.
func execHelper(s *Step) (o outcome) {
	defer func() {
		if p := recover(); p != nil {
			o.pan, o.stack = p, string(debug.Stack())
		}
		o.t1 = time.Now()
	}()
	alg := jose.SignatureAlgorithm(s.Alg)
	switch s.Op {
	case "hasher":
		// e.g. an s_hash of the state, computed with the hash that belongs to the signature algorithm
		h, err := libcrypto.GetHashAlgorithm(alg)
		if err != nil || h == nil {
			o.err = fmt.Errorf("no hash: %v", err)
			return o
		}
		h.Write([]byte(s.Data))
		if strings.Contains(s.Use, "sum") {
			o.out = vkit.B64(h.Sum(nil))
		}
		if strings.Contains(s.Use, "reset") {
			h.Reset()
		}
	case "claimhash":
		o.out, o.err = oidc.ClaimHash(s.Data, alg)
	case "hashstring":
		h, err := libcrypto.GetHashAlgorithm(alg)
		if err != nil || h == nil {
			o.err = fmt.Errorf("no hash: %v", err)
			return o
		}
		o.out = libcrypto.HashString(h, s.Data, s.Use == "half")
	case "verifyat":
		hash, _ := hashOfClass(s.AtHash, s.Alg, s.Data)
		o.err = rp.VerifyAccessToken(s.Data, hash, alg)
	}
	return o
}

type stepInfo struct {
	Op       string   `json:"op"`
	Accepted bool     `json:"accepted"`
	Model    int      `json:"model"`
	Reject   []string `json:"reject,omitempty"`
	Grey     []string `json:"grey,omitempty"`
	Via      string   `json:"via,omitempty"`
	key      string
	nontriv  bool
}

// judgeVerify is the per-token oracle: the same for a single verification, a step of a history and a step of a goroutine.
func judgeVerify(res *vkit.Result, c Case, tok TokenSpec, b built, o outcome, where string) stepInfo {
	if o.pan != nil {
		res.Fail("C01:panic@"+vkit.FirstLibFrame(o.stack), "%sverifier panicked: %v", where, o.pan)
		return stepInfo{Op: "verify"}
	}
	via := b.via
	verdict, reject, grey := model(b.cfg, tok, contains(c.Trusted, tok.Key), via)
	if b.prep.err != nil {
		// the harness could not set the delivery up (login redirect of the RP did not hand out cookies): nothing was verified
		res.Label("delivery-not-set-up")
		return stepInfo{Op: "verify", Via: via, Grey: []string{"delivery-not-set-up"}}
	}
	// Claims are relative to the truncated second of t0 (up to 1 s behind the clock) and the library rounds
	// now+offset to the nearest second (up to 0.5 s ahead), so the 2 s guard holds only while the case takes
	// less than 0.5 s: beyond 400 ms (loaded machine) the time-dependent verdicts are grey.
	if o.t1.Sub(b.t0) > 400*time.Millisecond {
		verdict = 0
		grey = append(grey, "slow-clock")
	}
	if b.alias != nil {
		// the caller changed, in place, elements this verifier's policies were built from
		res.Label("vals:policy-elements-changed-in-place-by-caller")
		if v2, _, _ := model(*b.alias, tok, contains(c.Trusted, tok.Key), via); v2 != verdict {
			verdict = 0
			grey = append(grey, "values-changed-in-place-by-caller")
			res.Label("vals:grey-verdict-depends-on-construction-vs-present-values")
		}
	}
	claims, err := o.claims, o.err
	accepted := err == nil
	at := "" // entry point in fingerprints and messages (none for the verifier called directly: the fingerprints of before)
	if via != "" {
		at = "@" + via
		where += "delivered through " + entryName[via] + ": "
	}

	switch verdict {
	case 1:
		res.Label("must-accept")
		if !accepted {
			res.Fail("C01:complete"+at, "%svalid token rejected: %v", where, err)
		}
	case -1:
		res.Label("must-reject")
		sort.Strings(reject)
		for _, r := range reject {
			res.Label("reject:" + r)
		}
		if accepted {
			res.Fail("C01:sound:"+strings.Join(reject, "+")+at, "%stoken accepted although it violates %v", where, reject)
		}
	default:
		res.Label("grey")
	}
	if accepted {
		res.Label("accepted")
		// claims are returned unchanged: compare the re-marshalled claims with the signed JSON
		if claims == nil {
			res.Fail("C01:no-claims", "%sneither claims nor an error returned", where)
		} else {
			got := normJSON(claims).(map[string]any)
			want := normJSON(b.pm).(map[string]any)
			for name, kind := range tok.Typed {
				if kind != "null" {
					// what a tolerant decoder hands back for a member of another JSON type is not decided by the statement
					delete(got, name)
					delete(want, name)
				}
			}
			if !reflect.DeepEqual(got, want) {
				gb, _ := json.Marshal(got)
				wb, _ := json.Marshal(want)
				res.Fail("C01:claims-unchanged"+at, "%sreturned claims differ from the signed payload: got %s want %s", where, gb, wb)
			}
			if string(claims.GetSignatureAlgorithm()) != tok.Alg {
				res.Fail("C01:sigalg", "%sSignatureAlg=%q, header alg=%q", where, claims.GetSignatureAlgorithm(), tok.Alg)
			}
		}
	} else {
		if claims != nil {
			res.Fail("C01:claims-on-error", "%sclaims returned together with error %v", where, err)
		}
	}
	labelNeighbours(res, b.cfg, tok, verdict)
	labelVia(res, c, via, verdict, reject)
	labelTyped(res, tok, verdict)
	labelReuse(res, c, tok, b, verdict)
	labelVals(res, c, tok, b, verdict)

	nm := len(reject) + len(grey)
	return stepInfo{Op: "verify", Accepted: accepted, Model: verdict, Reject: reject, Grey: grey, Via: via,
		nontriv: nm >= 2 || len(grey) > 0 || len(audOf(tok)) > 1,
		key:     "via=" + via + fmt.Sprintf(" on=%d ", b.on) + tokKey(tok, verdict, reject, grey)}
}

// labelVia: the entry point classes; sole:<condition> = tokens that violate exactly one condition, i.e. the ones that
// get through when one entry point forgets that condition.
func labelVia(res *vkit.Result, c Case, via string, verdict int, reject []string) {
	if c.RP == nil {
		res.Label("entry:verifier")
		return
	}
	name := via
	if name == "" {
		name = "rp-verifier"
	}
	res.Label("entry:" + name + "/" + map[int]string{1: "must-accept", -1: "must-reject", 0: "grey"}[verdict])
	if len(reject) == 1 {
		res.Label("entry:" + name + "/sole:" + reject[0])
	}
	if c.RP.AlgsFromDiscovery {
		res.Label("rp:algs-from-discovery")
	}
	if c.RP.Cookies != "" && (via == viaHandler || via == viaUserinfo) {
		res.Label("rp:handler-with-" + c.RP.Cookies + "-cookies")
	}
}

var verdictName = map[int]string{1: "must-accept", -1: "must-reject", 0: "grey"}

// labelTyped: members present with another JSON type (or null).
func labelTyped(res *vkit.Result, tok TokenSpec, verdict int) {
	if len(tok.Typed) == 0 {
		return
	}
	res.Label("type:any/" + verdictName[verdict])
	for name, kind := range tok.Typed {
		res.Label("type:" + name + "=" + kind)
	}
}

// labelReuse: kept option slices. differs = the configuration the verifier was constructed with and the one the
// caller's slice describes at that moment give this token different verdicts (these tokens tell the two apart).
func labelReuse(res *vkit.Result, c Case, tok TokenSpec, b built, verdict int) {
	if c.Reuse == nil {
		return
	}
	p := planOf(c)
	res.Label(fmt.Sprintf("reuse:on=%d/%s", b.on, verdictName[verdict]))
	other := p.now
	if b.on == 1 {
		other = p.cfgs[0]
	}
	if v2, _, _ := model(other, tok, contains(c.Trusted, tok.Key), b.via); v2 != verdict && v2 != 0 && verdict != 0 {
		res.Label(fmt.Sprintf("reuse:on=%d/verdict-differs-under-the-other-configuration/%s", b.on, verdictName[verdict]))
	}
}

func labelNeighbours(res *vkit.Result, cfg Config, tok TokenSpec, verdict int) {
	nb := tok.Nb
	if nb == nil {
		return
	}
	v := map[int]string{1: "must-accept", -1: "must-reject", 0: "grey"}[verdict]
	res.Label("nb:any/" + v)
	if nb.ClientID != nil {
		cls := "diff"
		switch *nb.ClientID {
		case cfg.ClientID:
			cls = "eq"
		case "":
			cls = "empty"
		}
		azp := "azp"
		if tok.Azp == nil || *tok.Azp == "" {
			azp = "noazp"
		}
		multi := "aud<=1"
		if len(audOf(tok)) > 1 {
			multi = "aud>1"
		}
		res.Label("nb:client_id=" + cls + "/" + azp + "/" + multi + "/" + v)
	}
	for _, e := range []struct {
		name    string
		present bool
	}{{"scope", nb.Scope != nil}, {"jti", nb.JTI != nil}, {"nbf", nb.NbfRel != nil}, {"amr", nb.AMR != nil},
		{"sid", nb.SID != nil}, {"c_hash", nb.CHash != ""}, {"act", nb.Act}, {"custom", len(nb.Custom) > 0}} {
		if e.present {
			res.Label("nb:" + e.name)
		}
	}
}

// judgeHelper: helpers must not panic; a direct rp.VerifyAccessToken is an at_hash verification and is judged as such.
func judgeHelper(res *vkit.Result, s Step, o outcome, where string) stepInfo {
	res.Label("helper:" + s.Op)
	if o.pan != nil {
		res.Fail("C01:panic@"+vkit.FirstLibFrame(o.stack), "%s%s(%s) panicked: %v", where, s.Op, s.Alg, o.pan)
		return stepInfo{Op: s.Op}
	}
	if s.Op == "verifyat" {
		switch s.AtHash {
		case "absent", "empty", "correct":
			if o.err != nil {
				res.Fail("C01:verifyat:complete", "%srp.VerifyAccessToken(%q, at_hash class %s, %s) = %v", where, s.Data, s.AtHash, s.Alg, o.err)
			}
		default:
			if o.err == nil {
				res.Fail("C01:verifyat:sound", "%srp.VerifyAccessToken(%q, at_hash class %s, %s) accepted", where, s.Data, s.AtHash, s.Alg)
			}
		}
	}
	return stepInfo{Op: s.Op, Accepted: o.err == nil, key: s.Op + ":" + s.Alg + ":" + s.Use + s.AtHash}
}

func hashFamily(alg string) string {
	switch {
	case strings.HasSuffix(alg, "256"):
		return "sha256"
	case strings.HasSuffix(alg, "384"):
		return "sha384"
	}
	return "sha512"
}

func run(c Case) *vkit.Result {
	res := &vkit.Result{}
	c = normal(c)
	v, err := newSUT(c)
	if err != nil {
		// discovery against the fake OP is not what this property is about: nothing asserted
		res.Label("rp-not-built")
		res.Info = map[string]any{"rp_setup_error": err.Error()}
		res.Grey = true
		return res
	}
	if c.Reuse != nil {
		p := planOf(c)
		what := "verifier"
		if c.RP != nil {
			what = "rp"
		}
		res.Label("reuse:" + what + "/second=" + secondOf(c))
		labelValsCase(res, c)
		if !reflect.DeepEqual(p.now, c.Cfg) {
			res.Label("reuse:slice-describes-another-configuration-after-construction")
		} else {
			res.Label("reuse:slice-unchanged-or-equivalent")
		}
	}
	if len(c.Conc) > 0 {
		runConc(c, v, res)
		return res
	}
	if len(c.Steps) == 0 {
		// one verification on a fresh verifier; the token is built relative to the wall clock right before the call
		b := buildToken(c, v, &c.Tok, time.Now())
		o := execVerify(v, &c.Tok, &b)
		si := judgeVerify(res, c, c.Tok, b, o, "")
		res.Info = map[string]any{"accepted": si.Accepted, "model": si.Model, "reject": si.Reject, "grey": si.Grey}
		res.Grey = si.Model == 0
		res.NonTrivial = si.nontriv
		res.Key = cfgKey(c.Cfg) + reuseKey(c) + " " + si.key
		return res
	}

	// history on one verifier: every verification is judged by the per-token oracle, with its own t0/t1 bracket
	steps := append([]Step{{Op: "verify", Tok: &c.Tok}}, c.Steps...)
	var infos []stepInfo
	keys := []string{"seq", cfgKey(c.Cfg) + reuseKey(c)}
	nver, allGrey := 0, true
	dirty := map[string]bool{} // hash families an application-side hasher was written to (and not reset) so far
	for i := range steps {
		s := steps[i]
		where := fmt.Sprintf("step %d of %d: ", i+1, len(steps))
		var si stepInfo
		if s.Op == "verify" && s.Tok != nil {
			b := buildToken(c, v, s.Tok, time.Now())
			o := execVerify(v, s.Tok, &b)
			si = judgeVerify(res, c, *s.Tok, b, o, where)
			nver++
			allGrey = allGrey && si.Model == 0
			if i > 0 {
				res.Label("seq:later-verification")
				if si.Model == 1 && s.Tok.WithAT && s.Tok.AtHash == "correct" && dirty[hashFamily(s.Tok.Alg)] {
					res.Label("seq:valid-at_hash-after-app-hashed-with-same-family")
				}
			}
		} else if s.Op == "overwrite" {
			// the caller writes into its own slice again; every verifier keeps the configuration it was constructed with
			if v.keep != nil {
				v.keep.overwrite(s.Writes)
				v.applyVals(s.ValOps)
			}
			res.Label("reuse:overwrite-between-verifications")
			si = stepInfo{Op: s.Op, key: fmt.Sprintf("overwrite%v", s.Writes)}
		} else {
			o := execHelper(&s)
			si = judgeHelper(res, s, o, where)
			if s.Op == "hasher" && !strings.Contains(s.Use, "reset") && o.err == nil {
				dirty[hashFamily(s.Alg)] = true
			}
		}
		infos = append(infos, si)
		keys = append(keys, si.key)
	}
	res.Label(fmt.Sprintf("seq:verifications=%d", nver))
	res.Info = infos
	res.Grey = allGrey
	res.NonTrivial = nver >= 2
	res.Key = strings.Join(keys, " | ")
	return res
}

// runConc: the goroutines only call the library; tokens are built before, every step is judged after all have ended.
func runConc(c Case, v *sut, res *vkit.Result) {
	lists := make([][]Step, len(c.Conc))
	for g := range c.Conc {
		if g == 0 {
			lists[g] = append([]Step{{Op: "verify", Tok: &c.Tok}}, c.Conc[g]...)
		} else {
			lists[g] = c.Conc[g]
		}
	}
	toks := make([][]built, len(lists))
	outs := make([][]outcome, len(lists))
	t0 := time.Now()
	for g, steps := range lists {
		toks[g] = make([]built, len(steps))
		outs[g] = make([]outcome, len(steps))
		for i, s := range steps {
			if s.Op == "verify" && s.Tok != nil {
				toks[g][i] = buildToken(c, v, s.Tok, t0)
			}
		}
	}
	start := make(chan struct{})
	var wg sync.WaitGroup
	for g := range lists {
		wg.Add(1)
		go func(g int) {
			defer wg.Done()
			<-start
			for i := range lists[g] {
				s := &lists[g][i]
				if s.Op == "verify" && s.Tok != nil {
					outs[g][i] = execVerify(v, s.Tok, &toks[g][i])
				} else {
					outs[g][i] = execHelper(s)
				}
			}
		}(g)
	}
	close(start)
	wg.Wait()

	var infos [][]stepInfo
	keys := []string{"conc", cfgKey(c.Cfg) + reuseKey(c)}
	nver, allGrey := 0, true
	withHash := map[string]int{}
	for g, steps := range lists {
		var gi []stepInfo
		for i, s := range steps {
			where := fmt.Sprintf("goroutine %d of %d, step %d: ", g+1, len(lists), i+1)
			var si stepInfo
			if s.Op == "verify" && s.Tok != nil {
				si = judgeVerify(res, c, *s.Tok, toks[g][i], outs[g][i], where)
				nver++
				allGrey = allGrey && si.Model == 0
				if h, ok := hashOfClass(s.Tok.AtHash, s.Tok.Alg, s.Tok.AccessTok); ok && h != "" && s.Tok.WithAT && si.Model >= 0 {
					withHash[hashFamily(s.Tok.Alg)]++
				}
			} else {
				si = judgeHelper(res, s, outs[g][i], where)
			}
			gi = append(gi, si)
			keys = append(keys, fmt.Sprintf("g%d:%s", g, si.key))
		}
		infos = append(infos, gi)
	}
	for _, n := range withHash {
		if n >= 2 {
			res.Label("conc:>=2-valid-responses-with-at_hash-of-one-hash-family")
			break
		}
	}
	res.Label(fmt.Sprintf("conc:goroutines=%d", len(lists)))
	res.Info = infos
	res.Grey = allGrey
	res.NonTrivial = len(lists) >= 2 && nver >= 2
	res.Key = strings.Join(keys, " | ")
}

func cfgKey(cfg Config) string {
	return fmt.Sprintf("cfg[%s|%s|%d|%d|%d|%s|%v|%v]", cfg.Issuer, cfg.ClientID, cfg.OffsetS, cfg.MaxIATS, cfg.MaxAuthS, cfg.NonceMode, cfg.ACR, cfg.Algs)
}

func tokKey(tok TokenSpec, verdict int, reject, grey []string) string {
	nb := ""
	if tok.Nb != nil {
		nb = " nb"
		if tok.Nb.ClientID != nil {
			nb += ":client_id=" + *tok.Nb.ClientID
		}
	}
	return fmt.Sprintf("v=%d r=%v g=%v aud=%d alg=%s at=%s/%v rel=%d/%d/%d%s",
		verdict, reject, grey, len(audOf(tok)), tok.Alg, tok.AtHash, tok.WithAT, tok.Exp.Rel, tok.Iat.Rel, tok.AuthTime.Rel, nb+typedKey(tok))
}

const ruleEntry = "entry point dimension: 40 % of the cases put the verifier inside a RelyingParty built by rp.NewRelyingPartyOIDC + rp.WithVerifierOpts(all generated verifier options) against a fake OP in an http.RoundTripper " +
	"(discovery, JWKS feeding the RP's remote key set, token endpoint, userinfo; allowed algs via WithSupportedSigningAlgorithms or via discovery + WithSigningAlgsFromDiscovery; no / state / PKCE cookie handler); each token of such a case is delivered through a generated entry point: " +
	"rp.VerifyIDToken / rp.VerifyTokens with the RP's verifier, rp.CodeExchange, rp.CodeExchangeHandler (claims as the callback gets them; login redirect through rp.AuthURLHandler first when cookies are configured), " +
	"rp.CodeExchangeHandler + rp.UserinfoCallback, rp.RefreshTokens; the token endpoint answers with exactly the generated token + access token and the same per-token oracle decides " +
	"(only difference: a failing nonce condition on rp.RefreshTokens is grey, OIDC Core 12.2; a response without access_token is grey for completeness)"

const ruleToken = "verifier config (issuer, client, offset, max iat age, max auth age, nonce mode incl. a nonce function that reads the expected nonce from the context of the call, acr list, alg list) x signed token with 0-3 mutated claim dimensions incl. times at +-{0,1,2,3,5,30,3600}s around each bound; " +
	"half of the tokens also carry generated neighbour claims the statement does not mention (client_id equal / other party / empty, scope, jti, nbf in the past, amr, sid, c_hash, act, look-alike custom members " +
	"audience / authorized_party / cid / s_hash / issuer / ...), which the model does not see: they must not change the verdict and must come back with the signed claims; " +
	"JSON type dimension (mutation 'type'): any of iss, sub, aud (also as array of arrays / array of strings plus a number or null), azp, nonce, acr, amr, at_hash, c_hash, exp, iat, auth_time is present as null / number / 0 / bool / array of the right value / object " +
	"(times also as decimal or RFC 3339 string): null = absent; a member present with a value that cannot satisfy its condition (iss, aud, azp, nonce with a nonce requirement, acr with an acr policy, at_hash next to an access token) is must-reject; " +
	"every other member of another JSON type makes the token grey (never must-accept), and such members are left out of the claims comparison"

const ruleReuse = "kept option slices (30 % of the cases, verifier on its own and RelyingParty alike): the harness keeps the []rp.VerifierOption it passes to rp.NewIDTokenVerifier / rp.WithVerifierOpts and the []rp.Option it passes to rp.NewRelyingPartyOIDC (with 0-4 elements of spare capacity), " +
	"and after the construction, before any verification, overwrites 0-3 generated elements with options of ANOTHER generated configuration; optionally a second verifier / RelyingParty is constructed from the slice as it is then (or, RelyingParty, from the []rp.Option whose WithVerifierOpts element was overwritten with the other configuration's options); " +
	"histories write into the slice again between verifications; the RelyingParty's verifier is fetched with IDTokenVerifier() at each use; each token goes to the first or the second and is made for that one's configuration (2/3) or for the other one's (1/3); " +
	"oracle = the per-token model under the configuration in force when that verifier was constructed (options folded in slice order over the constructor defaults); " +
	"caller-owned VALUE slices (half of these cases): the []string handed to oidc.DefaultACRVerifier / rp.WithSupportedSigningAlgorithms(algs...) are sub-slices (prefix / suffix / whole / middle, acr also empty) of ONE list of 2-4 acr levels and / or ONE list of 2-5 algorithms the harness keeps " +
	"(a generated permutation, i.e. mostly not sorted, 0-2 elements of spare capacity): the first configuration's policies are built and the first verifier constructed, then the other configuration's policies are built from overlapping sub-slices of the same backing arrays; " +
	"before and after that, and between verifications of a history, the caller sorts / reverses / overwrites an element of / appends to its lists in place (0-2 changes each time); tokens of such cases also carry an acr / alg from anywhere in the caller's list and any configured acr; " +
	"oracle = the per-token model under the VALUES each policy was constructed with (tracked in a second set of slices the library never sees); only a token whose verdict differs between those values and what the caller's list holds at the same places at the time of the call (the caller changed them in place) is grey"

var prop = vkit.Prop[Case]{
	ID: "C01",
	Rule: "cases = " + ruleToken + "; 60 % one verification on a fresh verifier, 40 % histories of 2-5 verifications (generated tokens, or an earlier token response once more) on ONE verifier in one process, " +
		"interleaved with 0-2 generated calls of exported helpers a relying party may use (crypto.GetHashAlgorithm + Write [+ Sum] [+ Reset] on the returned hash, oidc.ClaimHash, crypto.HashString, rp.VerifyAccessToken directly), " +
		"every verification judged by the same per-token oracle with its own t0/t1 bracket; " + ruleEntry + "; " + ruleReuse + "; histories on one RelyingParty mix the entry points (an earlier token response is re-delivered through another one); " +
		"non-trivial = >=2 conditions violated or in a tolerance window, or any time within the window, or multi-audience, or a history with >=2 verifications; distinct = (config, per verification: entry point, verdict, violated set, window set, aud size, alg, at_hash class, relative times, client_id neighbour, members of another JSON type, which verifier of the case; per helper: op, alg, use; kept-slice plan: writes, configuration the slice describes, configuration of the second verifier)",
	Gen: genCase,
	Run: run,
}

// concurrent sub-check (run from a -race binary, see check.json race_tests)
var propConc = vkit.Prop[Case]{
	ID: "C01",
	Rule: "concurrent sub-check (-race binary, GORACE=halt_on_error): 2-6 goroutines with 1-3 steps each (verifications of generated valid and invalid token responses, mostly with access token and at_hash; 1 in 5 an exported helper call) " +
		"on ONE shared verifier, tokens built and signed before, goroutines released together by a barrier, they only call the library and store what it returned; every verification is judged after all goroutines have ended by the per-token oracle " +
		"(claims relative to the common t0; a goroutine that finished later than t0+400 ms is grey); a data race report kills the process and the driver reports the case on disk; " +
		"tokens = " + ruleToken + "; " + ruleEntry + " (all goroutines share the one RelyingParty; the fake OP is stateless, the answer for a call travels in the call's context); " + ruleReuse + " (writes only before the goroutines start; they share both verifiers); non-trivial = >=2 goroutines and >=2 verifications; distinct = (config, per goroutine the verification / helper classes)",
	Gen:   genConcCase,
	Run:   run,
	Track: true,
}

func TestRapid(t *testing.T)      { prop.Check(t) }
func TestReplay(t *testing.T)     { prop.Replay(t) }
func TestConcurrent(t *testing.T) { propConc.Check(t) }
