// Package c01: RP ID-token validation is sound and complete (property C01).
package c01

import (
	"context"
	"encoding/json"
	"fmt"
	"reflect"
	"sort"
	"strings"
	"testing"
	"time"

	jose "github.com/go-jose/go-jose/v4"
	"github.com/zitadel/oidc/v3/pkg/client/rp"
	"github.com/zitadel/oidc/v3/pkg/oidc"
	"pgregory.net/rapid"

	"verif/harness/vkit"
)

// ---- case ---------------------------------------------------------------------

type Config struct {
	Issuer    string   `json:"issuer"`
	ClientID  string   `json:"client_id"`
	OffsetS   int      `json:"offset_s"`    // -1: constructor default (1s)
	MaxIATS   int      `json:"max_iat_s"`   // 0: off
	MaxAuthS  int      `json:"max_auth_s"`  // 0: off
	NonceMode string   `json:"nonce_mode"`  // default | fixed | nil
	Nonce     string   `json:"nonce"`       // for fixed
	ACR       []string `json:"acr"`         // nil: no acr policy
	Algs      []string `json:"algs"`        // nil: default list
}

// TimeSpec is a time claim: absent, or now+Rel seconds (evaluated at run time).
type TimeSpec struct {
	Absent bool `json:"absent,omitempty"`
	Rel    int  `json:"rel"`
}

type TokenSpec struct {
	Iss       *string  `json:"iss"`
	Sub       *string  `json:"sub"`
	Aud       any      `json:"aud"` // nil (absent) | string | []string
	Azp       *string  `json:"azp"`
	Exp       TimeSpec `json:"exp"`
	Iat       TimeSpec `json:"iat"`
	AuthTime  TimeSpec `json:"auth_time"`
	Nonce     *string  `json:"nonce"`
	Acr       *string  `json:"acr"`
	AtHash    string   `json:"at_hash"` // absent | correct | otheralg | full | othertoken | junk
	Alg       string   `json:"alg"`
	Key       string   `json:"key"`     // pool key used to sign
	Extra     bool     `json:"extra"`   // add custom claims
	AccessTok string   `json:"access_token"`
	WithAT    bool     `json:"with_at"` // call VerifyTokens instead of VerifyIDToken
}

type Case struct {
	Cfg     Config    `json:"cfg"`
	Tok     TokenSpec `json:"tok"`
	Trusted []string  `json:"trusted"` // pool keys the verifier trusts (kid = key name)
}

// ---- generator ------------------------------------------------------------------

const (
	goodIssuer = "https://issuer.example.com"
	goodClient = "client-1"
)

func sp(s string) *string { return &s }

func genCase(t *rapid.T) Case {
	var c Case
	c.Cfg.Issuer = rapid.SampledFrom([]string{goodIssuer, goodIssuer + "/", "https://issuer.example.com/oidc"}).Draw(t, "issuer")
	c.Cfg.ClientID = rapid.SampledFrom([]string{goodClient, "client-2", "c"}).Draw(t, "client")
	c.Cfg.OffsetS = rapid.SampledFrom([]int{-1, -1, 0, 1, 5, 60}).Draw(t, "offset")
	c.Cfg.MaxIATS = rapid.SampledFrom([]int{0, 0, 10, 300}).Draw(t, "maxiat")
	c.Cfg.MaxAuthS = rapid.SampledFrom([]int{0, 0, 60, 3600}).Draw(t, "maxauth")
	c.Cfg.NonceMode = rapid.SampledFrom([]string{"default", "fixed", "fixed", "nil"}).Draw(t, "noncemode")
	if c.Cfg.NonceMode == "fixed" {
		c.Cfg.Nonce = rapid.SampledFrom([]string{"n-1", "N-1", "n 1"}).Draw(t, "cfgnonce")
	}
	if rapid.IntRange(0, 2).Draw(t, "acrpolicy") == 0 {
		c.Cfg.ACR = rapid.SampledFrom([][]string{{"loa2"}, {"loa1", "loa2"}, {}}).Draw(t, "acrlist")
	}
	c.Cfg.Algs = rapid.SampledFrom([][]string{nil, nil, {"RS256"}, {"ES256", "EdDSA"}, {"PS256", "RS384"}, {"ES384", "ES512", "RS512", "PS384", "PS512"}}).Draw(t, "algs")

	// signing key and alg: mostly one the verifier allows
	allowed := c.Cfg.Algs
	if allowed == nil {
		allowed = []string{"RS256", "ES256", "PS256"}
	}
	if rapid.IntRange(0, 9).Draw(t, "algok") > 0 {
		c.Tok.Alg = rapid.SampledFrom(allowed).Draw(t, "alg")
	} else {
		c.Tok.Alg = rapid.SampledFrom([]string{"RS256", "RS384", "RS512", "PS256", "PS384", "PS512", "ES256", "ES384", "ES512", "EdDSA"}).Draw(t, "alg")
	}
	var fitting []string
	for _, n := range vkit.KeyNames {
		if vkit.AlgFitsKey(c.Tok.Alg, vkit.Key(n)) {
			fitting = append(fitting, n)
		}
	}
	c.Tok.Key = rapid.SampledFrom(fitting).Draw(t, "key")
	c.Trusted = []string{c.Tok.Key}
	if rapid.IntRange(0, 9).Draw(t, "untrusted") == 0 {
		// sign with a key the verifier does not trust (same kid published for another key if one exists)
		c.Trusted = nil
		for _, n := range fitting {
			if n != c.Tok.Key {
				c.Trusted = append(c.Trusted, n)
				break
			}
		}
	}

	// canonical valid token relative to the config
	now := 0
	tok := &c.Tok
	tok.Iss = sp(c.Cfg.Issuer)
	tok.Sub = sp("user-1")
	tok.Aud = []string{c.Cfg.ClientID}
	tok.Exp = TimeSpec{Rel: 3600}
	tok.Iat = TimeSpec{Rel: now - 5}
	tok.AuthTime = TimeSpec{Rel: now - 20}
	switch c.Cfg.NonceMode {
	case "fixed":
		tok.Nonce = sp(c.Cfg.Nonce)
	case "nil":
		if rapid.Bool().Draw(t, "anynonce") {
			tok.Nonce = sp("whatever")
		}
	}
	if c.Cfg.ACR != nil && len(c.Cfg.ACR) > 0 {
		tok.Acr = sp(c.Cfg.ACR[0])
	}
	tok.AtHash = "absent"
	tok.AccessTok = rapid.SampledFrom([]string{"at-1", "eyJhbGciOiJSUzI1NiJ9.e30.c2ln", ""}).Draw(t, "at")
	tok.WithAT = rapid.Bool().Draw(t, "withat")
	if tok.WithAT {
		tok.AtHash = rapid.SampledFrom([]string{"absent", "correct", "correct", "correct"}).Draw(t, "athash0")
	}
	tok.Extra = rapid.Bool().Draw(t, "extra")

	// mutate 0..3 dimensions
	nmut := rapid.SampledFrom([]int{0, 0, 1, 1, 1, 2, 2, 3}).Draw(t, "nmut")
	for i := 0; i < nmut; i++ {
		mutate(t, &c)
	}
	return c
}

var boundaryDeltas = []int{-3600, -30, -5, -3, -2, -1, 0, 1, 2, 3, 5, 30, 3600}

func mutate(t *rapid.T, c *Case) {
	tok := &c.Tok
	dim := rapid.SampledFrom([]string{"iss", "sub", "aud", "azp", "exp", "iat", "auth_time", "nonce", "acr", "at_hash", "aud", "azp", "exp", "iat"}).Draw(t, "dim")
	off := c.Cfg.OffsetS
	if off < 0 {
		off = 1
	}
	switch dim {
	case "iss":
		tok.Iss = rapid.SampledFrom([]*string{nil, sp(""), sp(c.Cfg.Issuer + "/"), sp(strings.TrimSuffix(c.Cfg.Issuer, "/")), sp("https://evil.example.com"), sp(strings.ToUpper(c.Cfg.Issuer))}).Draw(t, "iss")
	case "sub":
		tok.Sub = rapid.SampledFrom([]*string{nil, sp(""), sp("other")}).Draw(t, "sub")
	case "aud":
		cid := c.Cfg.ClientID
		tok.Aud = rapid.SampledFrom([]any{nil, cid, "x", []string{}, []string{cid}, []string{cid, "x"}, []string{"x"}, []string{"x", cid, "y"}, []string{"x", "y"}, []string{cid, cid}, []string{cid + "x"}}).Draw(t, "aud")
	case "azp":
		tok.Azp = rapid.SampledFrom([]*string{nil, sp(""), sp(c.Cfg.ClientID), sp("x"), sp(c.Cfg.ClientID + " ")}).Draw(t, "azp")
	case "exp":
		if rapid.IntRange(0, 5).Draw(t, "expabs") == 0 {
			tok.Exp = TimeSpec{Absent: true}
		} else {
			// boundaries: exp == now (the statement's bound) and exp == now+offset (the code's bound)
			base := rapid.SampledFrom([]int{0, off, -off}).Draw(t, "expbase")
			tok.Exp = TimeSpec{Rel: base + rapid.SampledFrom(boundaryDeltas).Draw(t, "expd")}
		}
	case "iat":
		switch rapid.IntRange(0, 3).Draw(t, "iatkind") {
		case 0:
			tok.Iat = TimeSpec{Absent: true}
		case 1: // future boundaries: iat == now and iat == now+offset
			base := rapid.SampledFrom([]int{0, off, 2 * off}).Draw(t, "iatbase")
			tok.Iat = TimeSpec{Rel: base + rapid.SampledFrom(boundaryDeltas).Draw(t, "iatd")}
		default: // age boundary: iat == now-maxIAT
			m := c.Cfg.MaxIATS
			if m == 0 {
				m = 300
			}
			tok.Iat = TimeSpec{Rel: -m + rapid.SampledFrom(boundaryDeltas).Draw(t, "iatd2")}
		}
	case "auth_time":
		if rapid.IntRange(0, 2).Draw(t, "atabs") == 0 {
			tok.AuthTime = TimeSpec{Absent: true}
		} else {
			m := c.Cfg.MaxAuthS
			if m == 0 {
				m = 60
			}
			tok.AuthTime = TimeSpec{Rel: -m + rapid.SampledFrom(boundaryDeltas).Draw(t, "authd")}
		}
	case "nonce":
		tok.Nonce = rapid.SampledFrom([]*string{nil, sp(""), sp("n-1"), sp("N-1"), sp("other")}).Draw(t, "nonce")
	case "acr":
		tok.Acr = rapid.SampledFrom([]*string{nil, sp(""), sp("loa1"), sp("loa2"), sp("loa3")}).Draw(t, "acr")
	case "at_hash":
		tok.WithAT = true
		tok.AtHash = rapid.SampledFrom([]string{"absent", "correct", "otheralg", "full", "othertoken", "junk", "empty"}).Draw(t, "athash")
	}
}

// ---- execution -----------------------------------------------------------------

type staticKeySet struct{ keys []jose.JSONWebKey }

func (s *staticKeySet) VerifySignature(ctx context.Context, jws *jose.JSONWebSignature) ([]byte, error) {
	kid, alg := oidc.GetKeyIDAndAlg(jws)
	key, err := oidc.FindMatchingKey(kid, oidc.KeyUseSignature, alg, s.keys...)
	if err != nil {
		return nil, err
	}
	return jws.Verify(&key)
}

func absTime(ts TimeSpec, now time.Time) (int64, bool) {
	if ts.Absent {
		return 0, false
	}
	return now.Unix() + int64(ts.Rel), true
}

func otherAlgFor(alg string) string {
	if strings.HasSuffix(alg, "256") {
		return "RS512"
	}
	return "RS256"
}

func buildPayload(c Case, now time.Time) (map[string]any, []byte) {
	m := map[string]any{}
	tok := c.Tok
	if tok.Iss != nil {
		m["iss"] = *tok.Iss
	}
	if tok.Sub != nil {
		m["sub"] = *tok.Sub
	}
	if tok.Aud != nil {
		m["aud"] = tok.Aud
	}
	if tok.Azp != nil {
		m["azp"] = *tok.Azp
	}
	if v, ok := absTime(tok.Exp, now); ok {
		m["exp"] = v
	}
	if v, ok := absTime(tok.Iat, now); ok {
		m["iat"] = v
	}
	if v, ok := absTime(tok.AuthTime, now); ok {
		m["auth_time"] = v
	}
	if tok.Nonce != nil {
		m["nonce"] = *tok.Nonce
	}
	if tok.Acr != nil {
		m["acr"] = *tok.Acr
	}
	switch tok.AtHash {
	case "correct":
		m["at_hash"] = vkit.LeftHalfHash(tok.Alg, tok.AccessTok)
	case "otheralg":
		m["at_hash"] = vkit.LeftHalfHash(otherAlgFor(tok.Alg), tok.AccessTok)
	case "full":
		// full (not left-half) hash: twice the left-half length
		h := vkit.LeftHalfHash(tok.Alg, tok.AccessTok)
		m["at_hash"] = h + h
	case "othertoken":
		m["at_hash"] = vkit.LeftHalfHash(tok.Alg, tok.AccessTok+"x")
	case "junk":
		m["at_hash"] = "AAAA"
	case "empty":
		m["at_hash"] = ""
	}
	if tok.Extra {
		m["custom_s"] = "v"
		m["custom_n"] = 12.5
		m["custom_o"] = map[string]any{"k": []any{"a", 1.0, true}}
		m["email"] = "u@example.com"
	}
	b, _ := json.Marshal(m)
	return m, b
}

func aud(c Case) []string {
	switch a := c.Tok.Aud.(type) {
	case string:
		return []string{a}
	case []string:
		return a
	case []any: // after JSON round trip of the case
		out := make([]string, 0, len(a))
		for _, x := range a {
			out = append(out, fmt.Sprint(x))
		}
		return out
	}
	return nil
}

func contains(l []string, s string) bool {
	for _, x := range l {
		if x == s {
			return true
		}
	}
	return false
}

const guard = 2 // seconds of clock-rounding margin on both sides of every bound

// verdict: +1 must accept, -1 must reject, 0 grey. reasons name the failed conditions.
func model(c Case) (verdict int, reject []string, grey []string) {
	tok, cfg := c.Tok, c.Cfg
	off := cfg.OffsetS
	if off < 0 {
		off = 1
	}
	rej := func(s string) { reject = append(reject, s) }
	gry := func(s string) { grey = append(grey, s) }

	if tok.Iss == nil || *tok.Iss != cfg.Issuer {
		rej("iss")
	}
	if tok.Sub == nil || *tok.Sub == "" {
		rej("sub")
	}
	a := aud(c)
	if !contains(a, cfg.ClientID) {
		rej("aud")
	}
	azp := ""
	if tok.Azp != nil {
		azp = *tok.Azp
	}
	if azp != "" && azp != cfg.ClientID {
		rej("azp-mismatch")
	}
	if len(a) > 1 && azp == "" {
		rej("azp-missing")
	}
	// signature
	alg := tok.Alg
	allowed := cfg.Algs
	if allowed == nil {
		allowed = []string{"RS256", "ES256", "PS256"}
	}
	if !contains(allowed, alg) {
		rej("alg")
	}
	if !contains(c.Trusted, tok.Key) {
		rej("key")
	}
	// expiration: must hold exp > now; configured offset is extra strictness the code documents
	if tok.Exp.Absent {
		rej("exp-absent")
	} else {
		switch {
		case tok.Exp.Rel <= -guard:
			rej("expired")
		case tok.Exp.Rel >= off+guard:
		default:
			gry("exp-window")
		}
	}
	if tok.Iat.Absent {
		rej("iat-absent")
	} else {
		switch {
		case tok.Iat.Rel >= off+guard:
			rej("iat-future")
		case tok.Iat.Rel <= -guard:
		default:
			gry("iat-future-window")
		}
		if cfg.MaxIATS > 0 {
			switch {
			case tok.Iat.Rel <= -cfg.MaxIATS-guard:
				rej("iat-old")
			case tok.Iat.Rel >= -cfg.MaxIATS+guard:
			default:
				gry("iat-old-window")
			}
		}
	}
	switch cfg.NonceMode {
	case "default":
		if tok.Nonce != nil && *tok.Nonce != "" {
			rej("nonce")
		}
	case "fixed":
		if tok.Nonce == nil || *tok.Nonce != cfg.Nonce {
			rej("nonce")
		}
	}
	if cfg.ACR != nil {
		acr := ""
		if tok.Acr != nil {
			acr = *tok.Acr
		}
		if !contains(cfg.ACR, acr) {
			rej("acr")
		}
	}
	if cfg.MaxAuthS > 0 {
		if tok.AuthTime.Absent {
			rej("auth_time-absent")
		} else {
			switch {
			case tok.AuthTime.Rel <= -cfg.MaxAuthS-guard:
				rej("auth_time-old")
			case tok.AuthTime.Rel >= -cfg.MaxAuthS+guard:
			default:
				gry("auth_time-window")
			}
		}
	}
	if tok.WithAT {
		switch tok.AtHash {
		case "otheralg", "full", "othertoken", "junk":
			rej("at_hash")
		}
	}
	if len(reject) > 0 {
		return -1, reject, grey
	}
	if len(grey) > 0 {
		return 0, nil, grey
	}
	return 1, nil, nil
}

// normJSON brings both sides to the same JSON-level form. The statement says the
// claims come back "unchanged": values are compared after the documented tolerant
// decoding (aud string == one-element array) and ignoring members whose value is
// empty (omitempty on re-marshal), which carry no information.
func normJSON(v any) any {
	b, _ := json.Marshal(v)
	var out map[string]any
	json.Unmarshal(b, &out)
	for k, x := range out {
		switch y := x.(type) {
		case string:
			if y == "" {
				delete(out, k)
			} else if k == "aud" {
				out[k] = []any{y}
			}
		case []any:
			if len(y) == 0 {
				delete(out, k)
			}
		case nil:
			delete(out, k)
		}
	}
	return out
}

func run(c Case) *vkit.Result {
	res := &vkit.Result{}
	// verifier through the public constructor
	var keys []jose.JSONWebKey
	for _, n := range c.Trusted {
		keys = append(keys, vkit.Key(n).JWK(kidOf(c, n), "sig", ""))
	}
	ks := &staticKeySet{keys: keys}
	var opts []rp.VerifierOption
	if c.Cfg.OffsetS >= 0 {
		opts = append(opts, rp.WithIssuedAtOffset(time.Duration(c.Cfg.OffsetS)*time.Second))
	}
	if c.Cfg.MaxIATS > 0 {
		opts = append(opts, rp.WithIssuedAtMaxAge(time.Duration(c.Cfg.MaxIATS)*time.Second))
	}
	if c.Cfg.MaxAuthS > 0 {
		opts = append(opts, rp.WithAuthTimeMaxAge(time.Duration(c.Cfg.MaxAuthS)*time.Second))
	}
	switch c.Cfg.NonceMode {
	case "fixed":
		n := c.Cfg.Nonce
		opts = append(opts, rp.WithNonce(func(context.Context) string { return n }))
	case "nil":
		opts = append(opts, rp.WithNonce(nil))
	}
	if c.Cfg.ACR != nil {
		opts = append(opts, rp.WithACRVerifier(oidc.DefaultACRVerifier(c.Cfg.ACR)))
	}
	if c.Cfg.Algs != nil {
		opts = append(opts, rp.WithSupportedSigningAlgorithms(c.Cfg.Algs...))
	}
	v := rp.NewIDTokenVerifier(c.Cfg.Issuer, c.Cfg.ClientID, ks, opts...)

	// the token is built relative to the wall clock right before the call
	t0 := time.Now()
	pm, payload := buildPayload(c, t0)
	token := vkit.MustSignJWT(c.Tok.Alg, c.Tok.Key, vkit.Key(c.Tok.Key), payload)

	var (
		claims *oidc.IDTokenClaims
		err    error
		pan    any
	)
	func() {
		defer func() { pan = recover() }()
		if c.Tok.WithAT {
			claims, err = rp.VerifyTokens[*oidc.IDTokenClaims](context.Background(), c.Tok.AccessTok, token, v)
		} else {
			claims, err = rp.VerifyIDToken[*oidc.IDTokenClaims](context.Background(), token, v)
		}
	}()
	t1 := time.Now()
	if pan != nil {
		res.Fail("C01:panic", "verifier panicked: %v", pan)
		return res
	}
	verdict, reject, grey := model(c)
	// Claims are relative to the truncated second of t0 (up to 1 s behind the clock) and the library rounds
	// now+offset to the nearest second (up to 0.5 s ahead), so the 2 s guard holds only while the case takes
	// less than 0.5 s: beyond 400 ms (loaded machine) the time-dependent verdicts are grey.
	if t1.Sub(t0) > 400*time.Millisecond {
		verdict = 0
		grey = append(grey, "slow-clock")
	}
	accepted := err == nil

	res.Info = map[string]any{"accepted": accepted, "model": verdict, "reject": reject, "grey": grey}
	switch verdict {
	case 1:
		res.Label("must-accept")
		if !accepted {
			res.Fail("C01:complete", "valid token rejected: %v", err)
		}
	case -1:
		res.Label("must-reject")
		sort.Strings(reject)
		for _, r := range reject {
			res.Label("reject:" + r)
		}
		if accepted {
			res.Fail("C01:sound:"+strings.Join(reject, "+"), "token accepted although it violates %v", reject)
		}
	default:
		res.Label("grey")
		res.Grey = true
	}
	if accepted {
		res.Label("accepted")
		// claims are returned unchanged: compare the re-marshalled claims with the signed JSON
		got := normJSON(claims)
		want := normJSON(pm)
		if !reflect.DeepEqual(got, want) {
			gb, _ := json.Marshal(got)
			wb, _ := json.Marshal(want)
			res.Fail("C01:claims-unchanged", "returned claims differ from the signed payload: got %s want %s", gb, wb)
		}
		if string(claims.GetSignatureAlgorithm()) != c.Tok.Alg {
			res.Fail("C01:sigalg", "SignatureAlg=%q, header alg=%q", claims.GetSignatureAlgorithm(), c.Tok.Alg)
		}
	} else {
		if claims != nil {
			res.Fail("C01:claims-on-error", "claims returned together with error %v", err)
		}
	}

	// non-triviality and class key
	nm := len(reject) + len(grey)
	res.NonTrivial = nm >= 2 || len(grey) > 0 || len(aud(c)) > 1
	res.Key = classKey(c, verdict, reject, grey)
	return res
}

func kidOf(c Case, keyName string) string {
	// the trusted set publishes each key under the name of the *signing* key when it
	// stands in for it (same kid, other key), otherwise under its own name
	if !contains(c.Trusted, c.Tok.Key) {
		return c.Tok.Key
	}
	return keyName
}

func classKey(c Case, verdict int, reject, grey []string) string {
	cfg := c.Cfg
	return fmt.Sprintf("cfg[%s|%s|%d|%d|%d|%s|%v|%v] v=%d r=%v g=%v aud=%d alg=%s at=%s/%v rel=%d/%d/%d",
		cfg.Issuer, cfg.ClientID, cfg.OffsetS, cfg.MaxIATS, cfg.MaxAuthS, cfg.NonceMode, cfg.ACR, cfg.Algs,
		verdict, reject, grey, len(aud(c)), c.Tok.Alg, c.Tok.AtHash, c.Tok.WithAT, c.Tok.Exp.Rel, c.Tok.Iat.Rel, c.Tok.AuthTime.Rel)
}

var prop = vkit.Prop[Case]{
	ID: "C01",
	Rule: "cases = verifier config (issuer, client, offset, max iat age, max auth age, nonce mode, acr list, alg list) x signed token with 0-3 mutated claim dimensions incl. times at +-{0,1,2,3,5,30,3600}s around each bound; " +
		"non-trivial = >=2 conditions violated or in a tolerance window, or any time within the window, or multi-audience; distinct = (config, verdict, violated set, window set, aud size, alg, at_hash class, relative times)",
	Gen: genCase,
	Run: run,
}

func TestRapid(t *testing.T)  { prop.Check(t) }
func TestReplay(t *testing.T) { prop.Replay(t) }
