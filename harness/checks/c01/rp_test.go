package c01

// Entry points: the same (configuration, token) pair is delivered through every way a relying party of pkg/client/rp
// verifies an ID token and hands its claims back. The relying party is built by rp.NewRelyingPartyOIDC +
// rp.WithVerifierOpts(...) against a fake OP that lives in an http.RoundTripper (no sockets): discovery, JWKS, token
// endpoint and userinfo. The per-token oracle (model / judgeVerify) is the same for every entry point.

import (
	"bytes"
	"context"
	"encoding/json"
	"fmt"
	"io"
	"net/http"
	"net/http/httptest"
	"net/url"
	"strings"

	jose "github.com/go-jose/go-jose/v4"
	"github.com/zitadel/oidc/v3/pkg/client/rp"
	httphelper "github.com/zitadel/oidc/v3/pkg/http"
	"github.com/zitadel/oidc/v3/pkg/oidc"
	"pgregory.net/rapid"
)

// RPSpec: the verifier lives inside a RelyingParty (Case.RP != nil). Everything here is configuration the statement does
// not mention and that must not change the verdict.
type RPSpec struct {
	// the allowed algorithms (Cfg.Algs) reach the verifier through the discovery document + rp.WithSigningAlgsFromDiscovery
	// instead of rp.WithSupportedSigningAlgorithms
	AlgsFromDiscovery bool `json:"algs_from_discovery,omitempty"`
	// what the discovery document lists otherwise (the RP did not ask for it: no influence)
	DiscAlgs []string `json:"disc_algs,omitempty"`
	// "" | state (rp.WithCookieHandler) | pkce (rp.WithPKCE): the callback handler entry points then go through
	// rp.AuthURLHandler first and carry its cookies
	Cookies string `json:"cookies,omitempty"`
}

// entry points (TokenSpec.Via); "" = rp.VerifyIDToken / rp.VerifyTokens called with the verifier (of the RP)
const (
	viaCode     = "code"     // rp.CodeExchange
	viaHandler  = "handler"  // rp.CodeExchangeHandler, claims as the callback receives them
	viaUserinfo = "userinfo" // rp.CodeExchangeHandler + rp.UserinfoCallback
	viaRefresh  = "refresh"  // rp.RefreshTokens
)

var entryName = map[string]string{viaCode: "rp.CodeExchange", viaHandler: "rp.CodeExchangeHandler (callback)",
	viaUserinfo: "rp.CodeExchangeHandler + rp.UserinfoCallback", viaRefresh: "rp.RefreshTokens"}

var allVias = []string{"", viaCode, viaCode, viaHandler, viaUserinfo, viaRefresh, viaRefresh, viaRefresh}

func genRP(t *rapid.T) *RPSpec {
	r := &RPSpec{}
	r.AlgsFromDiscovery = rapid.IntRange(0, 3).Draw(t, "algsfromdiscovery") == 0
	if !r.AlgsFromDiscovery {
		r.DiscAlgs = rapid.SampledFrom([][]string{nil, {"RS256"}, allAlgs, {"ES512"}}).Draw(t, "discalgs")
	}
	r.Cookies = rapid.SampledFrom([]string{"", "", "state", "pkce"}).Draw(t, "cookies")
	return r
}

func genVia(t *rapid.T, c *Case) string {
	if c.RP == nil {
		return ""
	}
	return rapid.SampledFrom(allVias).Draw(t, "via")
}

// viaOf: the entry point a token is delivered through in this case.
func viaOf(c Case, tok *TokenSpec) string {
	if c.RP == nil {
		return ""
	}
	switch tok.Via {
	case viaCode, viaHandler, viaUserinfo, viaRefresh:
		return tok.Via
	}
	return ""
}

// ---- fake OP ----------------------------------------------------------------------

// opCall is what the OP answers to the requests of ONE library call; it travels in the context of that call, so the
// transport holds no mutable state (goroutines of the concurrent sub-check share it).
type opCall struct {
	tokenResponse []byte
	userinfo      []byte
}

type opCallKey struct{}

type fakeOP struct {
	disc []byte
	jwks []byte
}

func jsonResponse(r *http.Request, status int, body []byte) *http.Response {
	return &http.Response{
		Status: fmt.Sprintf("%d %s", status, http.StatusText(status)), StatusCode: status,
		Proto: "HTTP/1.1", ProtoMajor: 1, ProtoMinor: 1,
		Header: http.Header{"Content-Type": []string{"application/json"}, "Cache-Control": []string{"no-store"}},
		Body:   io.NopCloser(bytes.NewReader(body)), ContentLength: int64(len(body)), Request: r,
	}
}

func (op *fakeOP) RoundTrip(r *http.Request) (*http.Response, error) {
	if r.Body != nil {
		io.Copy(io.Discard, r.Body)
		r.Body.Close()
	}
	call, _ := r.Context().Value(opCallKey{}).(*opCall)
	p := r.URL.Path
	switch {
	case strings.HasSuffix(p, oidc.DiscoveryEndpoint):
		return jsonResponse(r, 200, op.disc), nil
	case strings.HasSuffix(p, "/keys"):
		return jsonResponse(r, 200, op.jwks), nil
	case strings.HasSuffix(p, "/token") && call != nil:
		return jsonResponse(r, 200, call.tokenResponse), nil
	case strings.HasSuffix(p, "/userinfo") && call != nil:
		return jsonResponse(r, 200, call.userinfo), nil
	}
	return jsonResponse(r, 400, []byte(`{"error":"invalid_request","error_description":"fake OP: nothing prepared"}`)), nil
}

func newFakeOP(c Case) *fakeOP {
	base := strings.TrimSuffix(c.Cfg.Issuer, "/")
	disc := map[string]any{
		"issuer":                   c.Cfg.Issuer,
		"authorization_endpoint":   base + "/authorize",
		"token_endpoint":           base + "/token",
		"userinfo_endpoint":        base + "/userinfo",
		"jwks_uri":                 base + "/keys",
		"response_types_supported": []string{"code"},
		"subject_types_supported":  []string{"public"},
	}
	algs := c.RP.DiscAlgs
	if c.RP.AlgsFromDiscovery {
		algs = c.Cfg.Algs
	}
	if len(algs) > 0 {
		disc["id_token_signing_alg_values_supported"] = algs
	}
	op := &fakeOP{}
	op.disc, _ = json.Marshal(disc)
	op.jwks, _ = json.Marshal(jose.JSONWebKeySet{Keys: keySet(c).keys})
	return op
}

var (
	cookieHashKey = []byte("0123456789abcdef0123456789abcdef")
	cookieEncKey  = []byte("fedcba9876543210fedcba9876543210")
)

// position of the rp.WithVerifierOpts element in the []rp.Option of partyOpts
const outerVerifierOpts = 1

// partyOpts: the []rp.Option the relying parties of the case are constructed from; inner is the caller's
// []rp.VerifierOption (handed over as it is: rp.WithVerifierOpts(inner...)).
func partyOpts(c Case, op *fakeOP, inner []rp.VerifierOption) []rp.Option {
	opts := []rp.Option{
		rp.WithHTTPClient(&http.Client{Transport: op}),
		rp.WithVerifierOpts(inner...),
	}
	if c.RP.AlgsFromDiscovery {
		opts = append(opts, rp.WithSigningAlgsFromDiscovery())
	}
	switch c.RP.Cookies {
	case "state":
		opts = append(opts, rp.WithCookieHandler(httphelper.NewCookieHandler(cookieHashKey, cookieEncKey)))
	case "pkce":
		opts = append(opts, rp.WithPKCE(httphelper.NewCookieHandler(cookieHashKey, nil, httphelper.WithUnsecure())))
	}
	return opts
}

// ---- one delivery -----------------------------------------------------------------

// prepared is everything one library call needs besides the verifier: built before the call (and before the goroutines
// of the concurrent sub-check start).
type prepared struct {
	ctx context.Context
	req *http.Request // callback request (handler entry points)
	err error         // the harness could not set the call up; the step is grey
}

type nonceKey struct{}

// callContext: the context the application hands to the library with a call to a verifier constructed with cfg.
func callContext(cfg Config) context.Context {
	ctx := context.Background()
	if cfg.NonceMode == "ctx" {
		ctx = context.WithValue(ctx, nonceKey{}, cfg.Nonce)
	}
	return ctx
}

func prepare(cfg Config, party rp.RelyingParty, via string, tok *TokenSpec, token string) prepared {
	if via == "" {
		return prepared{ctx: callContext(cfg)}
	}
	resp := map[string]any{
		"access_token":  tok.AccessTok,
		"token_type":    "Bearer",
		"expires_in":    3600,
		"refresh_token": "rt-next",
		"id_token":      token,
	}
	call := &opCall{}
	call.tokenResponse, _ = json.Marshal(resp)
	sub := ""
	if tok.Sub != nil {
		sub = *tok.Sub
	}
	call.userinfo, _ = json.Marshal(map[string]any{"sub": sub})
	p := prepared{ctx: context.WithValue(callContext(cfg), opCallKey{}, call)}
	if via != viaHandler && via != viaUserinfo {
		return p
	}
	const state = "st-1"
	p.req = httptest.NewRequest(http.MethodGet, "https://rp.example.com/callback?"+url.Values{"code": {"code-1"}, "state": {state}}.Encode(), nil).WithContext(p.ctx)
	if party.CookieHandler() != nil {
		// the login redirect sets the state (and PKCE) cookies the callback handler wants back
		rec := httptest.NewRecorder()
		rp.AuthURLHandler(func() string { return state }, party)(rec, httptest.NewRequest(http.MethodGet, "https://rp.example.com/login", nil))
		cookies := rec.Result().Cookies()
		if rec.Code != http.StatusFound || len(cookies) == 0 {
			p.err = fmt.Errorf("rp.AuthURLHandler: status %d, %d cookies", rec.Code, len(cookies))
			return p
		}
		for _, ck := range cookies {
			p.req.AddCookie(&http.Cookie{Name: ck.Name, Value: ck.Value})
		}
	}
	return p
}

type tokensT = oidc.Tokens[*oidc.IDTokenClaims]

// deliver calls the entry point and reports what the application got: claims, or an error.
func deliver(party rp.RelyingParty, via string, p prepared) (*oidc.IDTokenClaims, error) {
	var tokens *tokensT
	var err error
	switch via {
	case viaCode:
		tokens, err = rp.CodeExchange[*oidc.IDTokenClaims](p.ctx, "code-1", party)
	case viaRefresh:
		tokens, err = rp.RefreshTokens[*oidc.IDTokenClaims](p.ctx, party, "rt-1", "", "")
	case viaHandler, viaUserinfo:
		called := 0
		var h http.HandlerFunc
		if via == viaHandler {
			h = rp.CodeExchangeHandler(func(w http.ResponseWriter, r *http.Request, tk *tokensT, state string, _ rp.RelyingParty) {
				called++
				tokens = tk
			}, party)
		} else {
			h = rp.CodeExchangeHandler(rp.UserinfoCallback(func(w http.ResponseWriter, r *http.Request, tk *tokensT, state string, _ rp.RelyingParty, info *oidc.UserInfo) {
				called++
				tokens = tk
			}), party)
		}
		rec := httptest.NewRecorder()
		h(rec, p.req)
		if called == 0 {
			return nil, fmt.Errorf("callback not invoked: status %d %s", rec.Code, strings.TrimSpace(rec.Body.String()))
		}
	}
	if err != nil {
		if tokens != nil {
			return tokens.IDTokenClaims, err
		}
		return nil, err
	}
	if tokens == nil || tokens.IDTokenClaims == nil {
		// the response carried an id_token; the application got no claims for it
		return nil, fmt.Errorf("no error and no ID token claims returned")
	}
	return tokens.IDTokenClaims, nil
}
