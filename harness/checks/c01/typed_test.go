package c01

// JSON type of the claims: every member the statement names (and amr / c_hash next to them) may be present with a JSON
// value of another type than the expected one. The model judges such a token from the statement alone:
//   - JSON null and absent are the same ("absent");
//   - a member that is present with a value that cannot satisfy its condition (an azp that is not the client id -
//     whatever its type -, an at_hash that is not the left-half hash, a nonce other than the expected one, an iss that
//     is not the issuer, an aud that does not list the client id, an acr outside the configured list) means that no
//     claims may be returned;
//   - everything else about a mistyped member is not decided by the statement (a mistyped sub, a time given as a string,
//     a mixed audience array, amr, c_hash): such a token is never must-accept, and only must-reject for other reasons.

import (
	"fmt"
	"sort"
	"strings"
	"time"
)

var typedClaims = []string{"iss", "sub", "aud", "azp", "nonce", "acr", "amr", "at_hash", "c_hash", "exp", "iat", "auth_time",
	"azp", "at_hash", "nonce", "aud"}

var timeClaims = map[string]bool{"exp": true, "iat": true, "auth_time": true}

// kindsOf: the JSON values a member is replaced with.
func kindsOf(name string) []string {
	switch {
	case timeClaims[name]:
		// decimal: the number as a string; rfc3339: the time as a string; array: [number]
		return []string{"null", "decimal", "rfc3339", "true", "array", "object"}
	case name == "aud":
		// nested: [[...]]; mixed: the string members and a number; mixed-null: the string members and null
		return []string{"null", "number", "true", "object", "nested", "mixed", "mixed-null"}
	case name == "amr":
		return []string{"null", "string", "number", "object", "mixed"}
	}
	// string members; array: [the string the member would have had]
	return []string{"null", "number", "zero", "true", "false", "array", "object"}
}

// applyTyped replaces the members named in tok.Typed in the payload.
func applyTyped(m map[string]any, tok TokenSpec, now time.Time) {
	for name, kind := range tok.Typed {
		cur, has := m[name]
		if !has {
			switch {
			case timeClaims[name]:
				cur = now.Unix()
			case name == "aud" || name == "amr":
				cur = []string{"x"}
			default:
				cur = "x"
			}
		}
		list := func() []any {
			var out []any
			switch l := cur.(type) {
			case string:
				out = append(out, l)
			case []string:
				for _, x := range l {
					out = append(out, x)
				}
			case []any:
				out = append(out, l...)
			}
			return out
		}
		switch kind {
		case "null":
			m[name] = nil
		case "number":
			m[name] = 4711
		case "zero":
			m[name] = 0
		case "true":
			m[name] = true
		case "false":
			m[name] = false
		case "array":
			m[name] = []any{cur}
		case "nested":
			m[name] = []any{list()}
		case "object":
			m[name] = map[string]any{"value": cur}
		case "mixed":
			m[name] = append(list(), 4711)
		case "mixed-null":
			m[name] = append(list(), nil)
		case "string":
			if l := list(); len(l) > 0 {
				m[name] = l[0]
			} else {
				m[name] = "pwd"
			}
		case "decimal":
			m[name] = fmt.Sprint(cur)
		case "rfc3339":
			sec, _ := cur.(int64)
			m[name] = time.Unix(sec, 0).UTC().Format(time.RFC3339)
		}
	}
}

// splitTyped: the token with its null members made absent (what the model looks at), and the members that are present
// with a value of another JSON type (sorted).
func splitTyped(tok TokenSpec) (TokenSpec, map[string]string, []string) {
	mist := map[string]string{}
	var names []string
	for name, kind := range tok.Typed {
		if kind != "null" {
			mist[name] = kind
			names = append(names, name)
			continue
		}
		switch name {
		case "iss":
			tok.Iss = nil
		case "sub":
			tok.Sub = nil
		case "aud":
			tok.Aud = nil
		case "azp":
			tok.Azp = nil
		case "nonce":
			tok.Nonce = nil
		case "acr":
			tok.Acr = nil
		case "at_hash":
			tok.AtHash = "absent"
		case "exp":
			tok.Exp = TimeSpec{Absent: true}
		case "iat":
			tok.Iat = TimeSpec{Absent: true}
		case "auth_time":
			tok.AuthTime = TimeSpec{Absent: true}
		}
	}
	sort.Strings(names)
	return tok, mist, names
}

func typedKey(tok TokenSpec) string {
	if len(tok.Typed) == 0 {
		return ""
	}
	var parts []string
	for name, kind := range tok.Typed {
		parts = append(parts, name+"="+kind)
	}
	sort.Strings(parts)
	return " typed[" + strings.Join(parts, ",") + "]"
}
