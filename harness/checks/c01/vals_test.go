package c01

// Value slices kept by the caller (Case.Reuse.Vals): the []string an application hands to oidc.DefaultACRVerifier and
// rp.WithSupportedSigningAlgorithms are its own: ONE ranked list of assurance levels (in ranking order, i.e. not
// sorted) of which a strict policy takes levels[:k] and a standard policy levels[j:] or the whole list, ONE list of
// algorithms of which each tenant gets a sub-slice. The policies of the two configurations of a case are built from
// sub-slices of one backing array, one after the other; the caller goes on using its list (sorts it, reverses it,
// overwrites an element, appends to it).
//
// Oracle: the per-token model under the VALUES each policy was constructed with. Building another policy from an
// overlapping sub-slice changes nothing for the first. Where the caller itself changed, in place, the elements a
// policy was built from, the statement does not say whether the values at construction or the caller's present ones
// are "the configured" ones (the unchanged library keeps the caller's slice): a token whose verdict differs between
// the two is grey; every other token is judged as always.
//
// Everything the model knows about the lists comes from the Case (a second, symbolic set of slices the library never
// sees), never from the slices handed to the library.

import (
	"fmt"
	"slices"

	"pgregory.net/rapid"
)

// ValOp: one in-place change the caller makes to one of its lists.
type ValOp struct {
	List string `json:"list"`        // acr | algs
	Op   string `json:"op"`          // sort | reverse | set | append
	I    int    `json:"i,omitempty"` // set: index (mod len)
	V    string `json:"v,omitempty"` // set, append
}

type ValsSpec struct {
	// Levels: the caller's list of acr values as it is before anything is built; AlgList: its list of algorithms
	Levels  []string `json:"levels,omitempty"`
	AlgList []string `json:"alg_list,omitempty"`
	// Spare: spare capacity of the two backing arrays
	Spare int `json:"spare,omitempty"`
	// [lo, hi): the sub-slice of the list (as it is then) a configuration's policy is built from; nil: the configuration
	// has a list of its own (Config.ACR / Config.Algs as generated)
	CfgACR    *[2]int `json:"cfg_acr,omitempty"`
	OtherACR  *[2]int `json:"other_acr,omitempty"`
	CfgAlgs   *[2]int `json:"cfg_algs,omitempty"`
	OtherAlgs *[2]int `json:"other_algs,omitempty"`
	// Early: changes after the first verifier was constructed and before the other configuration's policies are built;
	// Ops: changes after those were built (before the writes into the option slice and the second construction)
	Early []ValOp `json:"early,omitempty"`
	Ops   []ValOp `json:"ops,omitempty"`
}

// lists: the caller's variables. Used twice per case: once for the slices the library gets, once as the model's own.
type lists struct {
	levels, algList []string
	acr, algs       [2][]string // handed over for [0] Cfg, [1] Other; nil: not taken from the list
}

func sub(list []string, b *[2]int) []string {
	if b == nil || list == nil {
		return nil
	}
	lo, hi := b[0], b[1]
	if lo < 0 {
		lo = 0
	}
	if lo > len(list) {
		lo = len(list)
	}
	if hi < lo {
		hi = lo
	}
	if hi > len(list) {
		hi = len(list)
	}
	return list[lo:hi]
}

func newLists(v *ValsSpec) *lists {
	l := &lists{}
	if v == nil {
		return l
	}
	spare := v.Spare
	if spare < 0 {
		spare = 0
	}
	if v.Levels != nil {
		l.levels = make([]string, len(v.Levels), len(v.Levels)+spare)
		copy(l.levels, v.Levels)
	}
	if v.AlgList != nil {
		l.algList = make([]string, len(v.AlgList), len(v.AlgList)+spare)
		copy(l.algList, v.AlgList)
	}
	l.acr[0], l.algs[0] = sub(l.levels, v.CfgACR), sub(l.algList, v.CfgAlgs)
	if len(l.algs[0]) == 0 {
		l.algs[0] = nil // a verifier without any algorithm is not a configuration of the input domain
	}
	return l
}

// handOther: the sub-slices the other configuration's policies are built from, of the lists as they are now.
func (l *lists) handOther(v *ValsSpec) {
	if v == nil {
		return
	}
	l.acr[1], l.algs[1] = sub(l.levels, v.OtherACR), sub(l.algList, v.OtherAlgs)
	if len(l.algs[1]) == 0 {
		l.algs[1] = nil
	}
}

func (l *lists) apply(ops []ValOp) {
	for _, op := range ops {
		p := &l.levels
		if op.List == "algs" {
			p = &l.algList
		}
		if *p == nil {
			continue
		}
		switch op.Op {
		case "sort":
			slices.Sort(*p)
		case "reverse":
			slices.Reverse(*p)
		case "set":
			if len(*p) > 0 {
				(*p)[mod(op.I, len(*p))] = op.V
			}
		case "append":
			*p = append(*p, op.V)
		}
	}
}

// handed: the slices of the caller an option is built from (nil: the configuration's own list).
type handed struct{ acr, algs []string }

func (l *lists) handed(i int) handed {
	if l == nil {
		return handed{}
	}
	return handed{l.acr[i], l.algs[i]}
}

func valsOf(c Case) *ValsSpec {
	if c.Reuse == nil {
		return nil
	}
	return c.Reuse.Vals
}

// derive writes the values the policies are constructed with into the two configurations (what the model judges by).
func derive(cfg, other *Config, v *ValsSpec) {
	if v == nil {
		return
	}
	l := newLists(v)
	if l.acr[0] != nil {
		cfg.ACR = slices.Clone(l.acr[0])
	}
	if l.algs[0] != nil {
		cfg.Algs = slices.Clone(l.algs[0])
	}
	l.apply(v.Early)
	l.handOther(v)
	if l.acr[1] != nil {
		other.ACR = slices.Clone(l.acr[1])
	}
	if l.algs[1] != nil {
		other.Algs = slices.Clone(l.algs[1])
	}
}

// normal: the case with the configurations derived from the lists (idempotent; generated cases already are).
func normal(c Case) Case {
	if valsOf(c) == nil {
		return c
	}
	r := *c.Reuse
	c.Reuse = &r
	derive(&c.Cfg, &r.Other, r.Vals)
	return c
}

// sourcesOf: which configuration's policy (0 Cfg, 1 Other, -1 none) the acr / algs of a verifier constructed with the
// options refs come from.
func sourcesOf(c Case, refs []optRef) [2]int {
	src := [2]int{-1, -1}
	for _, r := range refs {
		from := 0
		if r.other {
			from = 1
		}
		switch r.dim {
		case "acr":
			src[0] = from
		case "algs":
			src[1] = from
		}
	}
	if !withAlgsOpt(c) {
		src[1] = -1 // from the discovery document: decoded by the library, no slice of the caller
	}
	return src
}

// aliasView: the configuration of a verifier if its policies consisted of what the caller's list holds NOW at the
// places they were built from; nil when that is the configuration it was constructed with.
func aliasView(cfg Config, src [2]int, sym *lists) *Config {
	if sym == nil {
		return nil
	}
	a := cfg
	differs := false
	if src[0] >= 0 && sym.acr[src[0]] != nil && !slices.Equal(sym.acr[src[0]], cfg.ACR) {
		a.ACR, differs = slices.Clone(sym.acr[src[0]]), true
	}
	if src[1] >= 0 && sym.algs[src[1]] != nil && !slices.Equal(sym.algs[src[1]], cfg.Algs) {
		a.Algs, differs = slices.Clone(sym.algs[src[1]]), true
	}
	if !differs {
		return nil
	}
	return &a
}

func overlap(a, b *[2]int) bool {
	return a != nil && b != nil && a[0] < b[1] && b[0] < a[1]
}

// ---- generator ------------------------------------------------------------------

var acrPool = []string{"loa2", "loa1", "loa3", "loa0"}

func genBounds(t *rapid.T, n int, nonEmpty bool, label string) *[2]int {
	min := 0
	if nonEmpty {
		min = 1
	}
	switch rapid.SampledFrom([]string{"prefix", "prefix", "suffix", "full", "mid"}).Draw(t, label+"kind") {
	case "prefix":
		return &[2]int{0, rapid.IntRange(1, n).Draw(t, label+"k")}
	case "suffix":
		return &[2]int{rapid.IntRange(0, n-1).Draw(t, label+"j"), n}
	case "full":
		return &[2]int{0, n}
	}
	lo := rapid.IntRange(0, n-1).Draw(t, label+"lo")
	return &[2]int{lo, rapid.IntRange(lo+min, n).Draw(t, label+"hi")}
}

func genValOps(t *rapid.T, v *ValsSpec, n int) []ValOp {
	var ops []ValOp
	for k := 0; k < n; k++ {
		var op ValOp
		switch {
		case v.Levels != nil && v.AlgList != nil:
			op.List = rapid.SampledFrom([]string{"acr", "algs"}).Draw(t, "oplist")
		case v.AlgList != nil:
			op.List = "algs"
		default:
			op.List = "acr"
		}
		op.Op = rapid.SampledFrom([]string{"sort", "sort", "reverse", "set", "set", "append"}).Draw(t, "valop")
		if op.Op == "set" || op.Op == "append" {
			op.I = rapid.IntRange(0, 4).Draw(t, "opi")
			pool := append([]string{"loa9"}, acrPool...)
			if op.List == "algs" {
				pool = allAlgs
			}
			op.V = rapid.SampledFrom(pool).Draw(t, "opv")
		}
		ops = append(ops, op)
	}
	return ops
}

func genVals(t *rapid.T) *ValsSpec {
	v := &ValsSpec{Spare: rapid.SampledFrom([]int{0, 0, 2}).Draw(t, "valspare")}
	what := rapid.SampledFrom([]string{"acr", "acr", "algs", "both"}).Draw(t, "vallists")
	maybe := func(b *[2]int, label string) *[2]int {
		if rapid.IntRange(0, 5).Draw(t, label+"own") == 0 {
			return nil
		}
		return b
	}
	if what != "algs" {
		n := rapid.IntRange(2, 4).Draw(t, "nlevels")
		v.Levels = rapid.Permutation(acrPool).Draw(t, "levels")[:n]
		v.CfgACR = maybe(genBounds(t, n, false, "cfgacr"), "cfgacr")
		v.OtherACR = maybe(genBounds(t, n, false, "otheracr"), "otheracr")
	}
	if what != "acr" {
		n := rapid.IntRange(2, 5).Draw(t, "nalglist")
		v.AlgList = rapid.Permutation(allAlgs).Draw(t, "alglist")[:n]
		v.CfgAlgs = maybe(genBounds(t, n, true, "cfgalgs"), "cfgalgs")
		v.OtherAlgs = maybe(genBounds(t, n, true, "otheralgs"), "otheralgs")
	}
	v.Early = genValOps(t, v, rapid.SampledFrom([]int{0, 0, 0, 1}).Draw(t, "nearly"))
	v.Ops = genValOps(t, v, rapid.SampledFrom([]int{0, 0, 1, 2}).Draw(t, "nvalops"))
	return v
}

// retarget: tokens of a case with caller-owned lists also probe the list itself: an acr anywhere in the caller's list
// (inside or outside the sub-slice the policy was built from), another configured value than the first, an algorithm
// anywhere in the caller's list.
func retarget(t *rapid.T, c *Case, cfg Config, tok *TokenSpec) {
	v := valsOf(*c)
	if v == nil {
		return
	}
	if len(v.Levels) > 0 {
		switch rapid.IntRange(0, 3).Draw(t, "acrfromlist") {
		case 0:
			tok.Acr = sp(rapid.SampledFrom(v.Levels).Draw(t, "listacr"))
		case 1:
			if len(cfg.ACR) > 0 && tok.Acr != nil && *tok.Acr == cfg.ACR[0] {
				tok.Acr = sp(rapid.SampledFrom(cfg.ACR).Draw(t, "cfgacrany"))
			}
		}
	}
	if len(v.AlgList) > 0 && rapid.IntRange(0, 3).Draw(t, "algfromlist") == 0 {
		tok.Alg = rapid.SampledFrom(v.AlgList).Draw(t, "listalg")
		tok.Key = rapid.SampledFrom(fittingKeys(tok.Alg)).Draw(t, "listalgkey")
	}
}

func valsKey(c Case) string {
	v := valsOf(c)
	if v == nil {
		return ""
	}
	b := func(p *[2]int) string {
		if p == nil {
			return "-"
		}
		return fmt.Sprintf("%d:%d", p[0], p[1])
	}
	return fmt.Sprintf("|vals[%v+%d %v acr=%s,%s algs=%s,%s early=%d ops=%d]", v.Levels, v.Spare, v.AlgList,
		b(v.CfgACR), b(v.OtherACR), b(v.CfgAlgs), b(v.OtherAlgs), len(v.Early), len(v.Ops))
}

// ---- labels ---------------------------------------------------------------------

func labelVals(res interface{ Label(...string) }, c Case, tok TokenSpec, b built, verdict int) {
	v := valsOf(c)
	if v == nil {
		return
	}
	vn := verdictName[verdict]
	res.Label("vals:any/" + vn)
	if overlap(v.CfgACR, v.OtherACR) && b.cfg.ACR != nil {
		order := "sorted"
		if !slices.IsSorted(v.Levels) {
			order = "unsorted"
		}
		res.Label(fmt.Sprintf("vals:acr-policies-from-overlapping-sub-slices-of-%s-list/on=%d/%s", order, b.on, vn))
	}
	if overlap(v.CfgAlgs, v.OtherAlgs) && withAlgsOpt(c) {
		order := "sorted"
		if !slices.IsSorted(v.AlgList) {
			order = "unsorted"
		}
		res.Label(fmt.Sprintf("vals:alg-lists-from-overlapping-sub-slices-of-%s-list/on=%d/%s", order, b.on, vn))
	}
	if b.cfg.ACR != nil && tok.Acr != nil && contains(v.Levels, *tok.Acr) && !contains(b.cfg.ACR, *tok.Acr) {
		res.Label("vals:acr-elsewhere-in-the-callers-list/" + vn)
	}
	if contains(v.AlgList, tok.Alg) && !contains(allowedAlgs(b.cfg), tok.Alg) {
		res.Label("vals:alg-elsewhere-in-the-callers-list/" + vn)
	}
}

func labelValsCase(res interface{ Label(...string) }, c Case) {
	v := valsOf(c)
	if v == nil {
		return
	}
	what := "acr"
	switch {
	case v.Levels != nil && v.AlgList != nil:
		what = "acr+algs"
	case v.AlgList != nil:
		what = "algs"
	}
	res.Label("vals:lists=" + what)
	if len(v.Early) > 0 {
		res.Label("vals:caller-changes-list-before-second-policy-is-built")
	}
	if len(v.Ops) > 0 {
		res.Label("vals:caller-changes-list-after-both-policies-are-built")
	}
}
