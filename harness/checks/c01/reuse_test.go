package c01

// Option slices kept by the caller (Case.Reuse): an application that sets up one verifier / relying party per tenant
// builds its []rp.VerifierOption / []rp.Option once, overwrites the tenant specific elements and constructs the next
// one. The harness does the same with generated configurations: the slices handed to rp.NewIDTokenVerifier /
// rp.WithVerifierOpts / rp.NewRelyingPartyOIDC are kept, elements are overwritten with options of another generated
// configuration after the construction (and between verifications), and a second verifier / relying party may be
// constructed from the reused slice. The oracle is the per-token model under the configuration each verifier was
// constructed with.

import (
	"context"
	"fmt"
	"time"

	"github.com/zitadel/oidc/v3/pkg/client/rp"
	"github.com/zitadel/oidc/v3/pkg/oidc"
	"pgregory.net/rapid"
)

// optDims: the option dimensions a configuration is expressed with, in the order of the slice.
func optDims(cfg Config, withAlgs bool) []string {
	var d []string
	if cfg.OffsetS >= 0 {
		d = append(d, "offset")
	}
	if cfg.MaxIATS > 0 {
		d = append(d, "maxiat")
	}
	if cfg.MaxAuthS > 0 {
		d = append(d, "maxauth")
	}
	switch cfg.NonceMode {
	case "fixed", "ctx", "nil":
		d = append(d, "nonce")
	}
	if cfg.ACR != nil {
		d = append(d, "acr")
	}
	if cfg.Algs != nil && withAlgs {
		d = append(d, "algs")
	}
	return d
}

func makeOpt(cfg Config, dim string, h handed) rp.VerifierOption {
	switch dim {
	case "offset":
		return rp.WithIssuedAtOffset(time.Duration(cfg.OffsetS) * time.Second)
	case "maxiat":
		return rp.WithIssuedAtMaxAge(time.Duration(cfg.MaxIATS) * time.Second)
	case "maxauth":
		return rp.WithAuthTimeMaxAge(time.Duration(cfg.MaxAuthS) * time.Second)
	case "nonce":
		switch cfg.NonceMode {
		case "fixed":
			n := cfg.Nonce
			return rp.WithNonce(func(context.Context) string { return n })
		case "ctx":
			// what WithNonce's context parameter is for: the application stores the nonce of the authentication request in
			// the context it hands to the library (every call of the harness carries it, see callContext)
			return rp.WithNonce(func(ctx context.Context) string {
				n, _ := ctx.Value(nonceKey{}).(string)
				return n
			})
		}
		return rp.WithNonce(nil)
	case "acr":
		if h.acr != nil {
			// a sub-slice of the caller's list of levels, handed over as it is
			return rp.WithACRVerifier(oidc.DefaultACRVerifier(h.acr))
		}
		return rp.WithACRVerifier(oidc.DefaultACRVerifier(cfg.ACR))
	case "algs":
		if h.algs != nil {
			return rp.WithSupportedSigningAlgorithms(h.algs...)
		}
		return rp.WithSupportedSigningAlgorithms(cfg.Algs...)
	}
	panic("unknown option dimension " + dim)
}

func optsOf(cfg Config, withAlgs bool, h handed) []rp.VerifierOption {
	var opts []rp.VerifierOption
	for _, dim := range optDims(cfg, withAlgs) {
		opts = append(opts, makeOpt(cfg, dim, h))
	}
	return opts
}

// optRef names one element of an option slice: a dimension and the configuration its value comes from.
type optRef struct {
	dim   string
	other bool
}

func withAlgsOpt(c Case) bool { return c.RP == nil || !c.RP.AlgsFromDiscovery }

// effective: the configuration a verifier has that is constructed with the options refs (applied in order to the
// constructor's defaults) for the issuer and client id of the case.
func effective(c Case, refs []optRef) Config {
	cfg := Config{Issuer: c.Cfg.Issuer, ClientID: c.Cfg.ClientID, OffsetS: -1, NonceMode: "default"}
	for _, r := range refs {
		src := c.Cfg
		if r.other {
			src = c.Reuse.Other
		}
		switch r.dim {
		case "offset":
			cfg.OffsetS = src.OffsetS
		case "maxiat":
			cfg.MaxIATS = src.MaxIATS
		case "maxauth":
			cfg.MaxAuthS = src.MaxAuthS
		case "nonce":
			cfg.NonceMode, cfg.Nonce = src.NonceMode, src.Nonce
		case "acr":
			cfg.ACR = src.ACR
		case "algs":
			cfg.Algs = src.Algs
		}
	}
	if !withAlgsOpt(c) {
		// the relying party takes the algorithms from the discovery document (which lists Cfg.Algs), after the caller's options
		cfg.Algs = c.Cfg.Algs
	}
	return cfg
}

func refsOf(cfg Config, withAlgs, other bool) []optRef {
	var refs []optRef
	for _, d := range optDims(cfg, withAlgs) {
		refs = append(refs, optRef{d, other})
	}
	return refs
}

// write applies kept[i mod len(kept)] = otherOpts[j mod len(otherOpts)] to the symbolic slice; effective = number of
// writes that changed an element.
func writeRefs(refs []optRef, otherDims []string, writes [][2]int) (effectiveWrites int) {
	if len(refs) == 0 || len(otherDims) == 0 {
		return 0
	}
	for _, w := range writes {
		i, j := mod(w[0], len(refs)), mod(w[1], len(otherDims))
		refs[i] = optRef{otherDims[j], true}
		effectiveWrites++
	}
	return effectiveWrites
}

func mod(a, n int) int {
	a %= n
	if a < 0 {
		a += n
	}
	return a
}

// plan: the configurations of a case. cfgs[k] = what verifier / relying party k was constructed with; now = what the
// kept slice describes after the writes that follow the construction of the first (equal to cfgs[1] for Second=inner).
type plan struct {
	cfgs   []Config
	srcs   [][2]int // per verifier: which configuration's acr / algs policy it holds (sourcesOf)
	now    Config
	writes int
}

func planOf(c Case) plan {
	p := plan{cfgs: []Config{c.Cfg}, now: c.Cfg}
	if c.Reuse == nil {
		return p
	}
	wa := withAlgsOpt(c)
	refs := refsOf(c.Cfg, wa, false)
	p.srcs = append(p.srcs, sourcesOf(c, refs))
	p.writes = writeRefs(refs, optDims(c.Reuse.Other, wa), c.Reuse.Writes)
	p.now = effective(c, refs)
	switch secondOf(c) {
	case "inner":
		p.cfgs = append(p.cfgs, p.now)
		p.srcs = append(p.srcs, sourcesOf(c, refs))
	case "outer":
		p.cfgs = append(p.cfgs, effective(c, refsOf(c.Reuse.Other, wa, true)))
		p.srcs = append(p.srcs, sourcesOf(c, refsOf(c.Reuse.Other, wa, true)))
	}
	return p
}

func secondOf(c Case) string {
	if c.Reuse == nil {
		return ""
	}
	switch c.Reuse.Second {
	case "inner":
		return "inner"
	case "outer":
		if c.RP == nil {
			return "inner" // a verifier on its own has one slice only
		}
		return "outer"
	}
	return ""
}

// onOf: the verifier / relying party of the case a token is delivered to.
func onOf(c Case, tok *TokenSpec) int {
	if secondOf(c) != "" && tok.On == 1 {
		return 1
	}
	return 0
}

// ---- generator ------------------------------------------------------------------

func genWrites(t *rapid.T, min int) [][2]int {
	n := rapid.IntRange(min, 3).Draw(t, "nwrites")
	var w [][2]int
	for k := 0; k < n; k++ {
		w = append(w, [2]int{rapid.IntRange(0, 5).Draw(t, "wi"), rapid.IntRange(0, 5).Draw(t, "wj")})
	}
	return w
}

func genReuse(t *rapid.T, c *Case) *ReuseSpec {
	r := &ReuseSpec{Other: genCfg(t)}
	r.Other.Issuer, r.Other.ClientID = c.Cfg.Issuer, c.Cfg.ClientID
	r.Spare = rapid.SampledFrom([]int{0, 0, 1, 4}).Draw(t, "spare")
	r.Writes = genWrites(t, 0)
	r.Second = rapid.SampledFrom([]string{"", "inner", "inner", "outer"}).Draw(t, "second")
	if rapid.Bool().Draw(t, "vals") {
		// the []string inside the options are the caller's too: sub-slices of one list (vals_test.go)
		r.Vals = genVals(t)
		derive(&c.Cfg, &r.Other, r.Vals)
	}
	return r
}

// genTarget: which verifier the next token goes to, and the configuration the token is made for: mostly the one of
// that verifier, otherwise the other configuration of the case (a token of the other tenant; the one a verifier that
// picked up the overwritten options would judge by).
func genTarget(t *rapid.T, c *Case) (int, Config) {
	if c.Reuse == nil {
		return 0, c.Cfg
	}
	p := planOf(*c)
	on := 0
	if len(p.cfgs) > 1 {
		on = rapid.SampledFrom([]int{0, 0, 1}).Draw(t, "on")
	}
	target, other := p.cfgs[on], p.now
	if on == 1 {
		other = p.cfgs[0]
	} else if len(p.cfgs) > 1 && rapid.Bool().Draw(t, "othersecond") {
		other = p.cfgs[1]
	}
	if rapid.IntRange(0, 2).Draw(t, "tokfor") == 0 {
		return on, other
	}
	return on, target
}

// ---- execution -------------------------------------------------------------------

// keep: the slices of the caller.
type keep struct {
	inner     []rp.VerifierOption // handed to rp.NewIDTokenVerifier / rp.WithVerifierOpts
	outer     []rp.Option         // handed to rp.NewRelyingPartyOIDC
	otherOpts []rp.VerifierOption
	lists     *lists // the caller's []string lists the policies are built from (Case.Reuse.Vals)
}

func newKeep(c Case) *keep {
	k := &keep{lists: newLists(valsOf(c))}
	base := optsOf(c.Cfg, withAlgsOpt(c), k.lists.handed(0))
	spare := 0
	if c.Reuse != nil {
		spare = c.Reuse.Spare
	}
	if len(base) > 0 || spare > 0 {
		k.inner = make([]rp.VerifierOption, len(base), len(base)+spare)
		copy(k.inner, base)
	}
	return k
}

// buildOther: the caller goes on to its next configuration and builds its options (after the first construction).
func (k *keep) buildOther(c Case) {
	k.lists.handOther(valsOf(c))
	k.otherOpts = optsOf(c.Reuse.Other, withAlgsOpt(c), k.lists.handed(1))
}

// overwrite: the caller writes into its own slice.
func (k *keep) overwrite(writes [][2]int) {
	if len(k.inner) == 0 || len(k.otherOpts) == 0 {
		return
	}
	for _, w := range writes {
		k.inner[mod(w[0], len(k.inner))] = k.otherOpts[mod(w[1], len(k.otherOpts))]
	}
}

func reuseKey(c Case) string {
	if c.Reuse == nil {
		return ""
	}
	p := planOf(c)
	s := fmt.Sprintf(" reuse[%s|writes=%d|now=%s", secondOf(c), p.writes, cfgKey(p.now))
	if len(p.cfgs) > 1 {
		s += "|second=" + cfgKey(p.cfgs[1])
	}
	return s + valsKey(c) + "]"
}
