package c20

import (
	"context"
	"errors"
	"fmt"
	"time"

	jose "github.com/go-jose/go-jose/v4"

	"github.com/zitadel/oidc/v3/pkg/oidc"
	"github.com/zitadel/oidc/v3/pkg/op"

	"verif/harness/vkit"
)

// ---- shared verifier objects (concurrent sub-check) -----------------------------------------------------------
//
// op.Provider builds its verifiers per request, but a custom op.Server, a resource server that verifies locally or a gateway
// holds ONE op.JWTProfileVerifier / op.AccessTokenVerifier / op.IDTokenHintVerifier for its lifetime and verifies the
// assertions and tokens of all its clients with it, from all its request goroutines. So the case owns one of each (built
// before the goroutines start, never used before them in a cold case) and the programs verify assertions of DIFFERENT
// clients and tokens of different subjects on them; every verification is a twin op (the same verification alone after
// the join must come out the same: accepted for the same client / subject, or refused), and the race detector watches
// the verifier objects.

// staticKeySet verifies with one public key (the provider's signing key as the harness knows it).
type staticKeySet struct{ pub any }

func (k staticKeySet) VerifySignature(_ context.Context, jws *jose.JSONWebSignature) ([]byte, error) {
	return jws.Verify(k.pub)
}

// clientKeySet verifies client assertions by key ID alone (what op.NewJWTProfileVerifierKeySet is given).
type clientKeySet struct{ keys map[string]any }

func (k clientKeySet) VerifySignature(_ context.Context, jws *jose.JSONWebSignature) ([]byte, error) {
	if len(jws.Signatures) != 1 {
		return nil, errors.New("want one signature")
	}
	pub, ok := k.keys[jws.Signatures[0].Header.KeyID]
	if !ok {
		return nil, errors.New("unknown key id")
	}
	return jws.Verify(pub)
}

type jwtAT struct{ tok, sub string }

// assertion variants of jp_verify: who the assertion names, the key ID it carries, the key it is signed with, and whether
// the storage-backed verifier must accept it (the key registered for THAT client under THAT key ID signed it).
// Both clients have a key registered under the key ID "kshared" (key IDs are chosen by the clients; two clients with
// "1" or "default" are the rule, not the exception).
var jpVariants = []struct {
	iss, kid, key string
	ok            bool
}{
	{"svc", "ksvc", "rsa4", true},
	{"apijwt", "kapi", "rsa3", true},
	{"svc", "kshared", "rsa4", true},
	{"apijwt", "kshared", "rsa3", true},
	{"svc", "kshared", "rsa3", false},    // names svc, signed with the key apijwt registered under the same key ID
	{"apijwt", "kshared", "rsa4", false}, // and the other way round
	{"svc", "kapi", "rsa3", false},       // a key ID only the other client has
	{"nobody", "ksvc", "rsa4", false},    // no such client
}

const sharedKID = "kshared"

func (e *env) buildVerifiers() {
	pub := vkit.Key(e.sign.KeyName).Pub
	ks := staticKeySet{pub}
	e.jpv = op.NewJWTProfileVerifier(e.ps, issuer, time.Hour, time.Second)
	e.jpvKS = op.NewJWTProfileVerifierKeySet(clientKeySet{map[string]any{"ksvc": vkit.Key("rsa4").Pub, "kapi": vkit.Key("rsa3").Pub}}, issuer, time.Hour, time.Second)
	e.atv = op.NewAccessTokenVerifier(issuer, ks, op.WithSupportedAccessTokenSigningAlgorithms(e.sign.Alg))
	e.hintv = op.NewIDTokenHintVerifier(issuer, ks, op.WithSupportedIDTokenHintSigningAlgorithms(e.sign.Alg))
}

// foreignKey: a pool key of the signing algorithm's family that is not the provider's signing key.
func (e *env) foreignKey() string {
	for _, k := range append(append([]string{}, signKeysOf[e.sign.Alg]...), "rsa3") {
		if k != e.sign.KeyName {
			return k
		}
	}
	return "rsa3"
}

// verifierOp runs one verification on a shared verifier object; obs is what the twin run compares, msg says why the outcome
// is not the one the statement of the verification asks for (judged only when the same verification alone comes out otherwise).
func (e *env) verifierOp(o Op, v int, tag string, sync func()) (obs, msg string) {
	ctx := e.ctx
	now := time.Now()
	switch o.K {
	case "jp_verify":
		va := jpVariants[v]
		a := vkit.AssertionWith(va.iss, va.iss, []string{issuer}, va.kid, va.key, now.Add(-5*time.Second), now.Add(5*time.Minute), nil)
		ver, which := e.jpv, "storage"
		if o.B&1 == 1 {
			ver, which = e.jpvKS, "keyset"
		}
		sync()
		req, err := op.VerifyJWTAssertion(ctx, a, ver)
		switch {
		case err != nil:
			obs = which + " verifier: refused"
		case req == nil:
			obs = which + " verifier: accepted without a request"
		default:
			obs = fmt.Sprintf("%s verifier: accepted for iss=%s sub=%s", which, req.Issuer, req.Subject)
		}
		if which == "storage" {
			want := "storage verifier: refused"
			if va.ok {
				want = fmt.Sprintf("storage verifier: accepted for iss=%s sub=%s", va.iss, va.iss)
			}
			if obs != want {
				msg = fmt.Sprintf("assertion naming %s with key id %q signed with %s: %s (err=%v), want %s", va.iss, va.kid, va.key, obs, err, want)
			}
		}
		return obs, msg
	case "at_verify":
		tok, want := "", "refused"
		switch {
		case v < 2 && len(e.jwtATs) > 0:
			t := pick(e.jwtATs, v+o.B)
			tok, want = t.tok, "accepted for sub="+t.sub
		case v == 2:
			tok = vkit.AssertionWith(issuer, "u1", []string{"api"}, e.sign.KID, e.foreignKey(), now.Add(-5*time.Second), now.Add(5*time.Minute), nil)
		default:
			tok = vkit.AssertionWith("https://other.example.com", "u2", []string{"api"}, e.sign.KID, e.sign.KeyName, now.Add(-5*time.Second), now.Add(5*time.Minute), nil)
		}
		if tok == "" {
			return "", ""
		}
		sync()
		cl, err := op.VerifyAccessToken[*oidc.AccessTokenClaims](ctx, tok, e.atv)
		obs = "refused"
		if err == nil && cl != nil {
			obs = "accepted for sub=" + cl.Subject
		}
		if obs != want {
			msg = fmt.Sprintf("shared access token verifier: %s (err=%v), want %s", obs, err, want)
		}
		return obs, msg
	case "hint_verify":
		tok, want := "", "refused"
		if v < 2 {
			t := pick(e.stable, v+o.B)
			tok, want = t.IDT, "accepted for sub="+t.Sub
		} else {
			tok = vkit.AssertionWith(issuer, "u1", []string{"web"}, e.sign.KID, e.foreignKey(), now.Add(-5*time.Second), now.Add(5*time.Minute), nil)
		}
		sync()
		cl, err := op.VerifyIDTokenHint[*oidc.IDTokenClaims](ctx, tok, e.hintv)
		obs = "refused"
		if err == nil && cl != nil {
			obs = "accepted for sub=" + cl.Subject
		}
		if obs != want {
			msg = fmt.Sprintf("shared id_token_hint verifier: %s (err=%v), want %s", obs, err, want)
		}
		return obs, msg
	}
	return "", ""
}

var verifierKinds = map[string]bool{"jp_verify": true, "at_verify": true, "hint_verify": true}
