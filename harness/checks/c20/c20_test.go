// Package c20: shared instances are race-free and isolated; no hidden writes to global or caller-owned state (property C20).
//
// Two sub-checks share one Case type (discriminator Kind):
//
//	conc  (TestRapid)  generated concurrent programs on ONE provider and ONE relying party / resource server / token
//	                   exchanger / remote key set / JWT-profile token source, run in the -race binary; the oracle is the race
//	                   detector (GORACE=halt_on_error: the driver reports the case on disk) plus "every deterministic op is
//	                   answered as the same op run alone".
//	order (TestOrders) generated construction / call orders; after every step a deep snapshot of the package-level defaults
//	                   and the caller-supplied objects must be unchanged, and every instance built so far must behave as it
//	                   did right after its construction (discovery document, routed paths, redirect following).
package c20

import (
	"context"
	"encoding/json"
	"fmt"
	"net/http"
	"net/http/httptest"
	"net/url"
	"runtime/debug"
	"sort"
	"strings"
	"sync"
	"testing"
	"time"

	jose "github.com/go-jose/go-jose/v4"
	"github.com/google/uuid"
	"pgregory.net/rapid"

	"github.com/zitadel/oidc/v3/pkg/client"
	"github.com/zitadel/oidc/v3/pkg/client/profile"
	"github.com/zitadel/oidc/v3/pkg/client/rp"
	"github.com/zitadel/oidc/v3/pkg/client/rs"
	"github.com/zitadel/oidc/v3/pkg/client/tokenexchange"
	httphelper "github.com/zitadel/oidc/v3/pkg/http"
	"github.com/zitadel/oidc/v3/pkg/oidc"
	"github.com/zitadel/oidc/v3/pkg/op"

	"verif/harness/vkit"
)

// Op is one operation of a concurrent program; A and B are symbolic operands resolved against the pools built by setup.
type Op struct {
	K string `json:"k"`
	A int    `json:"a,omitempty"`
	B int    `json:"b,omitempty"`
}

type Case struct {
	Kind string `json:"kind"` // conc | order

	// conc
	Router  string `json:"router,omitempty"`
	SignAlg string `json:"sign_alg,omitempty"`
	// SignKey / SignKID: key (name in vkit's pool) and key ID the shared provider's storage signs with ("" = the first pool key of
	// the algorithm / "sig1"); the side providers have a SignSpec of their own
	SignKey string `json:"sign_key,omitempty"`
	SignKID string `json:"sign_kid,omitempty"`
	JWTAT   bool   `json:"jwt_at,omitempty"` // the RP's client gets JWT access tokens
	Progs   [][]Op `json:"progs,omitempty"`  // one op list per goroutine
	// Sync: the goroutines rendezvous before op #i and once more inside op #i, just before its call into the shared
	// instance (lock-step schedule: the same step of every program runs at the same moment). Without it they run free.
	Sync bool `json:"sync,omitempty"`
	// Cold: nothing touches the provider before the goroutines start (no client-side construction, no pools, no probe
	// against it), so that whatever the provider initialises on first use is initialised under concurrency. Only the
	// op kinds that need no prepared tokens run in a cold case.
	Cold bool `json:"cold,omitempty"`
	// Unguard switches off the two guards (see setup) even when their probes are positive, so that the race itself is what
	// the case shows; never generated, only used by the regression replays replays/C20/race-*.json.
	Unguard bool `json:"unguard,omitempty"`

	// IssMode: how the shared provider derives its issuer: "" op.StaticIssuer, "host" op.IssuerFromHost, "fwd" op.IssuerFromForwardedOrHost
	// (every request of a case names the same host, so the issuer is the same in all three)
	IssMode string `json:"iss_mode,omitempty"`

	// URLParams: number (0..3) of static URLParamOpts the ONE shared AuthURLHandler / CodeExchangeHandler are built with
	URLParams int `json:"url_params,omitempty"`

	// Cfg: the op.Config of the shared provider (nil: the zero configuration, see config_test.go).
	// Side: further providers with configurations of their own that live in the same process and are asked (discovery, keys,
	// device authorization) by the same goroutines; nothing touches them before the goroutines start.
	Cfg  *ProvCfg   `json:"cfg,omitempty"`
	Side []SideProv `json:"side,omitempty"`

	// order
	Steps   []Step           `json:"steps,omitempty"`
	Clients []SuppliedClient `json:"clients,omitempty"` // the caller-supplied http clients of the case (default: two plain ones)
}

// SideProv is one further provider of a concurrent case.
type SideProv struct {
	Router string    `json:"router,omitempty"`
	Cfg    *ProvCfg  `json:"cfg,omitempty"`
	Sign   *SignSpec `json:"sign,omitempty"` // nil: the signing key, algorithm and key ID of the shared provider
}

// SuppliedClient describes one caller-supplied *http.Client (its Transport is always the in-process one).
type SuppliedClient struct {
	TimeoutS      int  `json:"timeout_s"`                // 0 = no timeout, the zero value many applications pass
	Jar           bool `json:"jar,omitempty"`            // own cookie jar
	CheckRedirect bool `json:"check_redirect,omitempty"` // own redirect policy (allows up to 5 hops)
}

// ---- fingerprints of the four defects the check found on the unchanged tree ----------------------
// (the first three were repaired in /repo by 0a99d4d and 93a0bff and are regression checks now; the last one is listed in known.d)

const (
	fpEndSessionCR = "C20:CheckRedirect-overwritten:CallEndSessionEndpoint"
	fpRevokeCR     = "C20:CheckRedirect-overwritten:CallRevokeEndpoint"
	fpGetAudience  = "C20:storage-device-state-mutated-by-getter:GetAudience"
	fpDefaultEP    = "C20:op.DefaultEndpoints-mutated-by:NewProvider-endpoint-option"
	// found when issuer strategies were added to the order sub-check (listed in known.d)
	fpCallerHeaders = "C20:caller-slice-rewritten:WithIssuerFromCustomHeaders"
)

// ---- op kinds ---------------------------------------------------------------------------------

type opInfo struct {
	weight int
	det    bool // deterministic: the answer does not depend on what the other goroutines do
}

var opKinds = map[string]opInfo{
	// directly against the shared provider
	"disc":          {4, true},
	"keys":          {3, true},
	"flow":          {6, true}, // authorize -> login -> callback -> code exchange (-> refresh) of an own request
	"userinfo":      {4, true},
	"introspect":    {3, true},
	"cc":            {2, true},
	"bearer":        {1, true},
	"te":            {2, true},
	"devflow":       {2, true}, // device authorization -> approve -> poll of an own device code
	"poll_pending":  {2, true},
	"poll_denied":   {1, true},
	"poll_approved": {4, true}, // several goroutines poll the SAME approved device code
	// requests to the providers that share the process (twin run; the device authorization answers are also judged together after the join)
	"devauth": {6, true}, // one device authorization request on the shared provider or a side provider
	"xdisc":   {5, true}, // discovery document / key set of a side provider
	"xtoken":  {5, true}, // a JWT access token issued by the shared provider or a side provider verifies with the key set that provider publishes
	"bad":           {2, true},
	"authorize_err": {2, true},
	// requests that end in an error path, judged by the twin run (errops_test.go)
	"cb_notdone":    {4, true}, // callback before login: error redirect with the request's own state
	"cb_unknown":    {1, true},
	"az_err":        {4, true}, // authorize refusals that go to the client's redirect URI
	"az_noredirect": {1, true},
	"tok_err":       {3, true},
	"cred_err":      {2, true},
	"dead_tok":      {2, true}, // revoked access / refresh tokens
	"es_err":        {2, true},
	// verifications on ONE shared verifier object of each kind (verifiers_test.go; twin run)
	"jp_verify":   {5, true}, // op.VerifyJWTAssertion: assertions of different clients on one op.JWTProfileVerifier (storage-backed / key set)
	"at_verify":   {2, true}, // op.VerifyAccessToken on one op.AccessTokenVerifier
	"hint_verify": {2, true}, // op.VerifyIDTokenHint on one op.IDTokenHintVerifier
	"code_shared":   {3, false},
	"refresh_vol":   {2, false},
	"revoke":        {2, false},
	"endsession":    {2, false},
	"userinfo_vol":  {2, false},
	// through the shared RP / RS / token exchanger / key set / token source
	"rp_flow":        {6, true},
	"rp_userinfo":    {4, true},
	"rp_verify":      {4, true},
	"ks_verify":      {3, true},
	"rs_introspect":  {3, true},
	"rsjwt_introsp":  {1, true},
	"te_exchange":    {2, true},
	"rp_cc":          {4, true},
	"rp_device":      {2, true},
	"rp_authurl":     {2, true},
	"rp_handler":     {3, true},
	"rp_handler_err": {2, true},
	"profile_token":  {1, true},
	"discover_redir": {4, true},
	"rp_endsession":  {5, false},
	"rp_revoke":      {4, false},
	"rp_refresh_vol": {2, false},
}

// kinds that need nothing prepared: usable in a cold case
var coldKinds = map[string]bool{"disc": true, "keys": true, "flow": true, "cc": true, "bearer": true, "devflow": true, "bad": true, "authorize_err": true, "profile_token": true,
	"cb_notdone": true, "cb_unknown": true, "az_err": true, "az_noredirect": true, "tok_err": true, "cred_err": true, "es_err": true,
	"devauth": true, "xdisc": true, "xtoken": true, "jp_verify": true}

// rapid prefers the low indexes of a SampledFrom list: the kinds that contend for client-side state come first
var kindOrder = []string{
	"rp_handler", "rp_handler_err", "rp_flow", "devauth", "xdisc", "xtoken", "jp_verify", "rp_cc", "rp_endsession", "rp_revoke", "cb_notdone", "az_err", "discover_redir", "at_verify", "hint_verify", "rp_verify", "ks_verify", "poll_approved", "flow", "rp_userinfo",
	"te_exchange", "rs_introspect", "rsjwt_introsp", "profile_token", "rp_device", "rp_refresh_vol", "rp_authurl",
	"devflow", "cc", "bearer", "te", "disc", "keys", "userinfo", "introspect", "code_shared", "refresh_vol", "revoke", "endsession",
	"userinfo_vol", "poll_pending", "poll_denied", "bad", "authorize_err", "tok_err", "cred_err", "dead_tok", "es_err", "cb_unknown", "az_noredirect",
}

func weighted(keep func(string) bool) []string {
	var l []string
	for _, k := range kindOrder {
		if i, ok := opKinds[k]; ok && keep(k) {
			for n := 0; n < i.weight; n++ {
				l = append(l, k)
			}
		}
	}
	return l
}

var (
	opKindList   = weighted(func(string) bool { return true })
	coldKindList = weighted(func(k string) bool { return coldKinds[k] })
)

func genConc(t *rapid.T) Case {
	c := Case{Kind: "conc"}
	c.Router = rapid.SampledFrom([]string{"provider", "legacy"}).Draw(t, "router")
	c.SignAlg = rapid.SampledFrom([]string{"ES256", "ES256", "ES256", "RS256", "EdDSA"}).Draw(t, "alg")
	c.JWTAT = rapid.Bool().Draw(t, "jwt_at")
	c.URLParams = rapid.IntRange(0, 3).Draw(t, "url_params")
	c.IssMode = rapid.SampledFrom([]string{"", "", "host", "fwd"}).Draw(t, "iss_mode")
	if rapid.IntRange(0, 3).Draw(t, "owncfg") > 0 {
		c.Cfg = genProvCfg(t, "cfg-")
	}
	if rapid.IntRange(0, 2).Draw(t, "ownsign") > 0 {
		ms := genSign(t, "sign-", c.SignAlg)
		c.SignAlg, c.SignKey, c.SignKID = ms.Alg, ms.Key, ms.KID
	}
	for i, n := 0, rapid.SampledFrom([]int{0, 1, 2, 2, 3}).Draw(t, "sides"); i < n; i++ {
		sp := SideProv{Router: rapid.SampledFrom([]string{"provider", "legacy"}).Draw(t, "side-router"), Cfg: genProvCfg(t, fmt.Sprintf("side%d-", i))}
		if rapid.IntRange(0, 4).Draw(t, "side-ownsign") > 0 {
			sp.Sign = genSign(t, fmt.Sprintf("side%d-sign-", i), c.SignAlg)
		}
		c.Side = append(c.Side, sp)
	}
	c.Sync = rapid.Bool().Draw(t, "lockstep")
	c.Cold = rapid.IntRange(0, 2).Draw(t, "cold") == 0
	if c.Cold {
		c.Sync = true // first use happens once per case: align the goroutines on it
	}
	kindList := opKindList
	if c.Cold {
		kindList = coldKindList
	}
	g := rapid.IntRange(2, vkit.Scale(6, 8)).Draw(t, "g")
	// a program is biased towards a few kinds so that the same shared object is hit from several goroutines at once
	focus := rapid.SliceOfN(rapid.SampledFrom(kindList), 1, 4).Draw(t, "focus")
	genProg := func(label string) []Op {
		n := rapid.IntRange(2, vkit.Scale(8, 15)).Draw(t, "n"+label)
		var prog []Op
		for j := 0; j < n; j++ {
			var k string
			if rapid.IntRange(0, 2).Draw(t, "f") > 0 {
				k = rapid.SampledFrom(focus).Draw(t, "kf")
			} else {
				k = rapid.SampledFrom(kindList).Draw(t, "k")
			}
			prog = append(prog, Op{K: k, A: rapid.IntRange(0, 7).Draw(t, "a"), B: rapid.IntRange(0, 3).Draw(t, "b")})
		}
		return prog
	}
	if rapid.IntRange(0, 2).Draw(t, "clones") == 0 {
		// every goroutine runs the same program (the same call on the same instance from G goroutines)
		prog := genProg("")
		for i := 0; i < g; i++ {
			c.Progs = append(c.Progs, append([]Op(nil), prog...))
		}
		return c
	}
	for i := 0; i < g; i++ {
		c.Progs = append(c.Progs, genProg(fmt.Sprint(i)))
	}
	return c
}

// ---- environment ------------------------------------------------------------------------------------

type tokSet struct {
	AT, IDT, RT string
	Sub, Nonce  string
}

type env struct {
	c      Case
	ctx    context.Context
	ps     *pstore
	sut    *vkit.SUT
	drv    []driver // one per storage partition: 0 = sequential setup / re-runs, g+1 = goroutine g
	rt     *inproc
	built  *builtCfg    // the shared provider's op.Config and the slices it carries
	sides  []*sideProv
	sign   vkit.SignKeySpec // what the shared provider's storage signs with and publishes
	owned0 snapshot     // the caller-owned configuration objects as they were handed to the constructors
	devLog [][]devAnswer // per storage partition (so per goroutine): every device authorization answer the harness received
	hc     *http.Client // THE caller-supplied client shared by every client-side instance
	cookie *httphelper.CookieHandler
	rp     rp.RelyingParty
	loginH http.HandlerFunc // ONE rp.AuthURLHandler and ONE rp.CodeExchangeHandler, registered once as an application does
	cbH    http.HandlerFunc
	rs     rs.ResourceServer
	rsJWT  rs.ResourceServer
	te     tokenexchange.TokenExchanger
	ks     oidc.KeySet
	src    profile.TokenSource
	// rpKey: a second relying party, registered with a key (rp.WithJWTProfile) and without PKCE; it shares e.hc and the
	// argument pool with e.rp
	rpKey rp.RelyingParty
	// args: the long-lived argument objects of the application (args_test.go), handed to the helpers by every goroutine
	args  *callerArgs
	args0 snapshot
	// ONE verifier object of each kind, shared by the goroutines (verifiers_test.go)
	jpv, jpvKS *op.JWTProfileVerifier
	atv        *op.AccessTokenVerifier
	hintv      *op.IDTokenHintVerifier
	jwtATs     []jwtAT // JWT access tokens of different clients / subjects

	web, native, svc *vkit.ClientSpec

	stable   []tokSet // never revoked; users u1/u2
	volatile []tokSet // user u3; revoked / refreshed / logged out at will
	dead     []tokSet // user u3; revoked by setup
	codes    []string // single-use codes several goroutines compete for
	devOK    []string // approved device codes
	devPend  string
	devDeny  string

	// Guards: a sequential probe in setup decides whether a defect that would make the -race process die in (nearly) every
	// case is present; if so it is reported by its fingerprint (deterministically) and the ops concerned are run in a way
	// that does not trigger it, so that the search continues behind it. With a negative probe the ops run unguarded.
	guardCR  bool // end-session / revoke get a private http.Client per call (they write CheckRedirect on the shared one)
	guardAud bool // shared approved device codes are polled once before the goroutines start (GetAudience appends on first use)
}

var keyForAlg = map[string]string{"RS256": "rsa1", "ES256": "p256a", "EdDSA": "ed1"}

func conClients(c Case) []*vkit.ClientSpec {
	return []*vkit.ClientSpec{
		{ID: "web", Secret: "web-secret", AppType: "web", AuthMethod: "client_secret_basic", Service: true,
			GrantTypes:    []string{vkit.GCode, vkit.GRefr, vkit.GTE, vkit.GDevice, vkit.GCC},
			ResponseTypes: []string{"code"}, RedirectURIs: []string{rpRedirect}, PostLogoutURIs: []string{rpLogout}, JWTAccessToken: c.JWTAT},
		{ID: "native", AppType: "native", AuthMethod: "none", GrantTypes: []string{vkit.GCode, vkit.GRefr, vkit.GDevice},
			ResponseTypes: []string{"code"}, RedirectURIs: []string{"http://localhost/cb"}},
		{ID: "api", Secret: "api-secret", AppType: "web", AuthMethod: "client_secret_basic"},
		{ID: "apijwt", AppType: "web", AuthMethod: "private_key_jwt", Keys: map[string]string{"kapi": "rsa3", sharedKID: "rsa3"}},
		{ID: "svc", Secret: "svc-secret", AppType: "web", AuthMethod: "client_secret_basic", Service: true,
			GrantTypes: []string{vkit.GCC, vkit.GBearer}, Keys: map[string]string{"ksvc": "rsa4", sharedKID: "rsa4"}},
		// a service client whose access tokens are JWTs: what it is issued is signed with the provider's signing key (sign_test.go)
		{ID: jwtSvcID, Secret: jwtSvcSecret, AppType: "web", AuthMethod: "client_secret_basic", Service: true, GrantTypes: []string{vkit.GCC}, JWTAccessToken: true},
		// a web application registered with a key (private_key_jwt); it has a secret as well, as service users with both kinds of credentials do
		{ID: keyWebID, Secret: keyWebSecret, AppType: "web", AuthMethod: "private_key_jwt", Service: true, Keys: map[string]string{keyWebKID: keyWebKey},
			GrantTypes:    []string{vkit.GCode, vkit.GRefr, vkit.GDevice, vkit.GCC},
			ResponseTypes: []string{"code"}, RedirectURIs: []string{rpRedirect}, PostLogoutURIs: []string{rpLogout}},
	}
}

// provFor resolves the provider variant v of an op (0 = the shared provider, else side provider (v-1) mod #sides) to a name and
// the agent of storage partition part.
func (e *env) provFor(v, part int) (string, *vkit.Agent) {
	if v > 0 && len(e.sides) > 0 {
		sp := e.sides[(v-1)%len(e.sides)]
		return sp.name + " (" + sp.iss + ")", sp.ags[part]
	}
	return "the shared provider (" + issuer + ")", e.drv[part].ag
}

// signings names the signing configuration of every provider of the case.
func (e *env) signings() string {
	l := []string{"the shared provider signs with " + signName(e.sign)}
	for _, sp := range e.sides {
		l = append(l, sp.name+" with "+signName(sp.sign))
	}
	return strings.Join(l, "; ")
}

// sideProv is a further provider of the case, with its own storage, issuer and configuration.
type sideProv struct {
	name  string
	iss   string
	sut   *vkit.SUT
	ps    *pstore
	built *builtCfg
	ags   []*vkit.Agent // one per storage partition
	sign  vkit.SignKeySpec
}

func buildSUT(router, alg, issMode string, storage op.Storage, cfg *op.Config, issuer string) (*vkit.SUT, error) {
	issuerFn := op.StaticIssuer(issuer)
	switch issMode {
	case "host":
		issuerFn = op.IssuerFromHost("")
	case "fwd":
		issuerFn = op.IssuerFromForwardedOrHost("")
	}
	p, err := op.NewProvider(cfg, storage, issuerFn, baseOpts(alg)...)
	if err != nil {
		return nil, err
	}
	paths := map[string]string{}
	for k, v := range defaultPaths {
		paths[k] = v
	}
	// Store stays nil: the agent then does not enter vkit's journal (one more global lock per request)
	sut := &vkit.SUT{Spec: vkit.DefaultProviderSpec(router), Provider: p, Paths: paths, Host: hostOf(issuer), Handler: p}
	if router == "legacy" {
		sut.Handler = op.RegisterLegacyServer(op.NewLegacyServer(p, vkit.PristineEndpoints()), op.AuthorizeCallbackHandler(p), op.WithFallbackLogger(vkit.DiscardLogger()))
	}
	sut.Handler = partHandler(sut.Handler)
	return sut, nil
}

func newEnv(c Case) (*env, error) {
	e := &env{c: c, ctx: context.Background()}
	cl := conClients(c)
	e.web, e.native, e.svc = cl[0], cl[1], cl[4]
	alg := c.SignAlg
	if keyForAlg[alg] == "" {
		alg = "ES256"
	}
	e.sign = (&SignSpec{Key: c.SignKey, Alg: alg, KID: c.SignKID}).spec(vkit.SignKeySpec{KeyName: keyForAlg[alg], Alg: alg, KID: "sig1"})
	e.ps = newPStore(cl, e.sign, []string{"api", "apijwt"}, len(c.Progs)+1)
	router := c.Router
	if router != "legacy" {
		router = "provider"
	}
	var err error
	e.owned0 = snapshot{}
	e.built = c.Cfg.build(issuer)
	for k, v := range e.built.state("the-shared-provider") {
		e.owned0[k] = v
	}
	if e.sut, err = buildSUT(router, alg, c.IssMode, e.ps, e.built.cfg, issuer); err != nil {
		return nil, err
	}
	e.devLog = make([][]devAnswer, len(c.Progs)+1)
	for i, sp := range c.Side {
		if i == 3 {
			break
		}
		s := &sideProv{name: fmt.Sprintf("side provider %d", i+1), iss: fmt.Sprintf("https://side%d.example.com", i+1)}
		s.built = sp.Cfg.build(s.iss)
		for k, v := range s.built.state(fmt.Sprintf("side-provider-%d", i+1)) {
			e.owned0[k] = v
		}
		s.sign = sp.Sign.spec(e.sign)
		s.ps = newPStore(cl, s.sign, nil, len(c.Progs)+1)
		srouter := "provider"
		if sp.Router == "legacy" {
			srouter = "legacy"
		}
		if s.sut, err = buildSUT(srouter, s.sign.Alg, "", s.ps, s.built.cfg, s.iss); err != nil {
			return nil, fmt.Errorf("%s: %w", s.name, err)
		}
		for k := 0; k <= len(c.Progs); k++ {
			s.ags = append(s.ags, &vkit.Agent{S: s.sut, Host: s.sut.Host, Forwarded: fmt.Sprintf("by=part-%d", k)})
		}
		e.sides = append(e.sides, s)
	}
	for k := 0; k <= len(c.Progs); k++ {
		e.drv = append(e.drv, driver{ag: &vkit.Agent{S: e.sut, Host: e.sut.Host, Forwarded: fmt.Sprintf("by=part-%d", k)}, iss: issuer, login: e.ps.Login})
	}
	e.rt = newInproc()
	e.rt.routes[hostOf(issuer)] = route{e.sut.Handler, nil}
	e.rt.routes["probe.example.com"] = route{http.HandlerFunc(func(w http.ResponseWriter, _ *http.Request) { w.WriteHeader(http.StatusNoContent) }), nil}
	e.hc = &http.Client{Transport: e.rt, Timeout: 30 * time.Second}
	e.args = newCallerArgs()
	e.args0 = e.args.state()
	e.buildVerifiers()
	if c.Cold {
		// only what can be built without a request to the provider
		e.src, err = profile.NewJWTProfileTokenSource(e.ctx, issuer, "svc", "ksvc", vkit.Key("rsa4").PKCS1PEM(), []string{"openid"},
			profile.WithHTTPClient(e.hc), profile.WithStaticTokenEndpoint(issuer, issuer+defaultPaths["token"]))
		return e, err
	}
	e.cookie = httphelper.NewCookieHandler([]byte("0123456789abcdef0123456789abcdef"), []byte("fedcba9876543210"), httphelper.WithUnsecure())
	if e.rp, err = rp.NewRelyingPartyOIDC(e.ctx, issuer, "web", "web-secret", rpRedirect, []string{"openid", "profile", "email", "offline_access"},
		rp.WithHTTPClient(e.hc), rp.WithPKCE(e.cookie), rp.WithVerifierOpts(rp.WithNonce(nonceFromCtx)), rp.WithSigningAlgsFromDiscovery()); err != nil {
		return nil, fmt.Errorf("rp: %w", err)
	}
	if e.rpKey, err = rp.NewRelyingPartyOIDC(e.ctx, issuer, keyWebID, keyWebSecret, rpRedirect, e.args.scopes[2],
		rp.WithHTTPClient(e.hc), rp.WithJWTProfile(rp.SignerFromKeyAndKeyID(e.args.webKeyPEM, keyWebKID)), rp.WithSigningAlgsFromDiscovery()); err != nil {
		return nil, fmt.Errorf("rp with key: %w", err)
	}
	// the state generator of the library's own example (a counter shared by the goroutines would synchronise them)
	var urlParams []rp.URLParamOpt
	for i := 0; i < c.URLParams && i < 3; i++ {
		urlParams = append(urlParams, rp.WithURLParam([]string{"login_hint", "ui_locales", "acr_values"}[i], []string{"someone", "en", "x"}[i]))
	}
	// the option list of the handlers is the application's (with room behind its length, as a list built by append has)
	e.args.urlOpts = spare[rp.URLParamOpt](nil, urlParams...)
	e.args0["arg:url-param-options#0"] = deepState(e.args.urlOpts)
	urlParams = e.args.urlOpts
	e.loginH = rp.AuthURLHandler(func() string { return "hst-" + uuid.NewString() }, e.rp, urlParams...)
	e.cbH = rp.CodeExchangeHandler(rp.UserinfoCallback(func(w http.ResponseWriter, _ *http.Request, tokens *oidc.Tokens[*oidc.IDTokenClaims], state string, _ rp.RelyingParty, info *oidc.UserInfo) {
		// what this request's callback was given goes back to this request's caller through its own response
		w.Header().Set("X-State", state)
		w.Header().Set("X-Userinfo-Sub", info.Subject)
		if tokens.IDTokenClaims != nil {
			w.Header().Set("X-Sub", tokens.IDTokenClaims.Subject)
		}
		w.WriteHeader(http.StatusNoContent)
	}), e.rp, urlParams...)
	if e.rs, err = rs.NewResourceServerClientCredentials(e.ctx, issuer, "api", "api-secret", rs.WithClient(e.hc)); err != nil {
		return nil, fmt.Errorf("rs: %w", err)
	}
	if e.rsJWT, err = rs.NewResourceServerJWTProfile(e.ctx, issuer, "apijwt", "kapi", e.args.apiKeyPEM, rs.WithClient(e.hc)); err != nil {
		return nil, fmt.Errorf("rs jwt: %w", err)
	}
	if e.te, err = tokenexchange.NewTokenExchangerClientCredentials(e.ctx, issuer, "web", "web-secret", tokenexchange.WithHTTPClient(e.hc)); err != nil {
		return nil, fmt.Errorf("te: %w", err)
	}
	e.ks = rp.NewRemoteKeySet(e.hc, issuer+defaultPaths["keys"])
	if e.src, err = profile.NewJWTProfileTokenSource(e.ctx, issuer, "svc", "ksvc", vkit.Key("rsa4").PKCS1PEM(), []string{"openid"}, profile.WithHTTPClient(e.hc)); err != nil {
		return nil, fmt.Errorf("token source: %w", err)
	}
	return e, nil
}

type nonceKey struct{}

// the RP's verifier takes the expected nonce from the context of the call, as an RP with per-session nonces does
func nonceFromCtx(ctx context.Context) string {
	n, _ := ctx.Value(nonceKey{}).(string)
	return n
}

func withNonce(ctx context.Context, n string) context.Context {
	return context.WithValue(ctx, nonceKey{}, n)
}

// guardedRP is the shared RP with a private http.Client per call: used for end-session / revoke only while the
// CheckRedirect probe is positive (the write on the shared client would be reported as a race and kill the process).
type guardedRP struct {
	rp.RelyingParty
	hc *http.Client
}

func (g guardedRP) HttpClient() *http.Client { return g.hc }

func (e *env) rpForLogout() rp.RelyingParty {
	if e.guardCR {
		return guardedRP{e.rp, &http.Client{Transport: e.rt, Timeout: 30 * time.Second}}
	}
	return e.rp
}

// ---- single operations (each returns "" when answered as expected, otherwise what was observed) ----------------

func (e *env) webCred() vkit.Cred { return vkit.RightCred(e.web, issuer) }

func idTokenClaims(idt string) map[string]any {
	parts := strings.Split(idt, ".")
	if len(parts) != 3 {
		return nil
	}
	b, err := vkit.UnB64(parts[1])
	if err != nil {
		return nil
	}
	var m map[string]any
	if json.Unmarshal(b, &m) != nil {
		return nil
	}
	return m
}

// driver plays user agent and login UI against one provider.
type driver struct {
	ag    *vkit.Agent
	iss   string
	login func(reqID, user string) bool
}

// runAuth is vkit's RunAuth with a hook between login and callback.
func (d driver) runAuth(q url.Values, user string, beforeCallback ...func()) *vkit.Flow {
	f := &vkit.Flow{}
	f.AuthResp = d.ag.Authorize(q)
	id, ok := vkit.LoginRequestID(f.AuthResp)
	if !ok {
		return f
	}
	f.ReqID = id
	d.login(id, user)
	for _, h := range beforeCallback {
		h()
	}
	f.CallbackResp = d.ag.Callback(id)
	if f.CallbackResp.IsRedirect() {
		f.Params = vkit.DeliveredParams(f.CallbackResp.Location())
		f.Code = f.Params.Get("code")
	}
	return f
}

// authFlow drives authorize -> login -> callback for client cl and returns the code.
func (d driver) authFlow(cl *vkit.ClientSpec, user, tag, scope, challenge string, beforeCallback ...func()) (string, string) {
	q := vkit.AuthParams(cl, cl.RedirectURIs[0], "code", scope, "st-"+tag, "n-"+tag)
	if challenge != "" {
		q.Set("code_challenge", challenge)
		q.Set("code_challenge_method", "S256")
	}
	f := d.runAuth(q, user, beforeCallback...)
	if f.Code == "" {
		desc := f.AuthResp.Describe()
		if f.CallbackResp != nil {
			desc = f.CallbackResp.Describe()
		}
		return "", "no code: " + desc
	}
	if got := f.Params.Get("state"); got != "st-"+tag {
		return "", fmt.Sprintf("callback delivered state %q, want %q", got, "st-"+tag)
	}
	return f.Code, ""
}

// mint runs a whole code flow and returns the tokens; the hooks run before the callback request and before the token request.
func (d driver) mint(cl *vkit.ClientSpec, user, tag string, refresh bool, hooks ...func()) (tokSet, string) {
	scope := "openid profile email"
	if refresh {
		scope += " offline_access"
	}
	verifier, challenge := "", ""
	if cl.AuthMethod == "none" {
		verifier = "verifier-" + tag + "-0123456789012345678901234567890123456789"
		challenge = vkit.S256(verifier)
	}
	code, msg := d.authFlow(cl, user, tag, scope, challenge, hooks...)
	if msg != "" {
		return tokSet{}, msg
	}
	for _, f := range hooks {
		f()
	}
	r := d.ag.Token(vkit.CodeExchangeForm(code, cl.RedirectURIs[0], verifier), vkit.RightCred(cl, d.iss))
	if r.Panic != nil || !r.Success() {
		return tokSet{}, "code exchange: " + r.Describe()
	}
	ts := tokSet{AT: r.Str("access_token"), IDT: r.Str("id_token"), RT: r.Str("refresh_token"), Sub: user, Nonce: "n-" + tag}
	cl2 := idTokenClaims(ts.IDT)
	if ts.AT == "" || cl2 == nil {
		return ts, "code exchange: incomplete token response " + r.Describe()
	}
	if cl2["sub"] != user || cl2["nonce"] != ts.Nonce {
		return ts, fmt.Sprintf("id token of request %s carries sub=%v nonce=%v, want %s / %s", tag, cl2["sub"], cl2["nonce"], user, ts.Nonce)
	}
	if refresh && ts.RT == "" {
		return ts, "no refresh token although offline_access was granted: " + r.Describe()
	}
	return ts, ""
}

func pick[T any](s []T, i int) T { return s[((i%len(s))+len(s))%len(s)] }

// doOpObs runs one op; obs is the observation of a twin op (see errops_test.go), "" for the others.
func (e *env) doOpObs(o Op, tag string, part int, sync func()) (msg, obs string) {
	if _, twin := twinKinds[o.K]; !twin {
		return e.doOp(o, tag, part, sync), ""
	}
	defer func() {
		if p := recover(); p != nil {
			msg = fmt.Sprintf("PANIC %v @%s", p, vkit.FirstLibFrame(string(debug.Stack())))
		}
	}()
	if e.c.Cold && twinNeedsPools(o) {
		return "", ""
	}
	obs, msg = e.errOp(o, tag, part, sync)
	return msg, obs
}

// sync is called (at most syncPhases times) just before the op's requests that are worth aligning with the other goroutines.
// part is the storage partition (and agent) of the caller: 0 for sequential runs, g+1 for goroutine g.
func (e *env) doOp(o Op, tag string, part int, sync func()) (msg string) {
	defer func() {
		if p := recover(); p != nil {
			msg = fmt.Sprintf("PANIC %v @%s", p, vkit.FirstLibFrame(string(debug.Stack())))
		}
	}()
	users := []string{"u1", "u2"}
	drv := e.drv[part]
	ag := drv.ag
	ctx := withPart(e.ctx, part)
	if e.c.Cold && !coldKinds[o.K] {
		return "" // (hand-edited replay) needs prepared tokens: not run in a cold case
	}
	switch o.K {
	case "disc":
		if e.c.IssMode == "host" || e.c.IssMode == "fwd" {
			// a provider that derives its issuer from the request is asked under several names at once (discovery does not
			// touch the storage, so the request needs no partition)
			var hdr http.Header
			alias := *ag
			alias.Forwarded = ""
			want := fmt.Sprintf("https://t%d.op.example.com", o.A)
			if e.c.IssMode == "fwd" && o.B&1 == 1 {
				hdr = http.Header{"Forwarded": {fmt.Sprintf("host=t%d.op.example.com", o.A)}}
			} else {
				alias.Host = fmt.Sprintf("t%d.op.example.com", o.A)
			}
			sync()
			r := alias.Get(oidc.DiscoveryEndpoint, nil, hdr)
			if !r.Success() || r.Str("issuer") != want || r.Str("token_endpoint") != want+defaultPaths["token"] {
				return fmt.Sprintf("want issuer %s: %s", want, r.Describe())
			}
			return ""
		}
		r := ag.Discovery()
		if !r.Success() || r.Str("issuer") != issuer || r.Str("token_endpoint") != issuer+defaultPaths["token"] || r.Str("authorization_endpoint") != issuer+defaultPaths["authorization"] {
			return r.Describe()
		}
	case "keys":
		r := ag.Keys()
		ks, _ := r.JSON()["keys"].([]any)
		if !r.Success() || len(ks) != 1 {
			return r.Describe()
		}
	case "flow":
		cl := e.web
		if o.B&1 == 1 {
			cl = e.native
		}
		user := pick(users, o.A)
		ts, m := drv.mint(cl, user, tag, o.B&2 == 2, sync)
		if m != "" {
			return m
		}
		ui := ag.UserInfo(ts.AT)
		if !ui.Success() || ui.Str("sub") != user {
			return "userinfo with the fresh token: " + ui.Describe()
		}
		if ts.RT != "" {
			r := ag.Token(url.Values{"grant_type": {vkit.GRefr}, "refresh_token": {ts.RT}}, vkit.RightCred(cl, issuer))
			if e.c.Cfg != nil && e.c.Cfg.NoRefresh {
				// the provider is configured without the refresh_token grant
				if r.Panic != nil || r.Status < 400 || r.Status >= 500 || len(r.HasTokenMaterial()) > 0 {
					return "refresh on a provider without the refresh_token grant: " + r.Describe()
				}
				return ""
			}
			if !r.Success() || r.Str("access_token") == "" {
				return "refresh of the own token: " + r.Describe()
			}
			if c := idTokenClaims(r.Str("id_token")); c == nil || c["sub"] != user {
				return "refresh of the own token: id token sub mismatch " + r.Describe()
			}
		}
	case "userinfo":
		t := pick(e.stable, o.A)
		r := ag.UserInfo(t.AT)
		if !r.Success() || r.Str("sub") != t.Sub {
			return fmt.Sprintf("want sub %s: %s", t.Sub, r.Describe())
		}
	case "introspect":
		t := pick(e.stable, o.A)
		cred := vkit.Cred{Kind: "basic", ClientID: "api", Secret: "api-secret"}
		if o.B&1 == 1 {
			cred = e.webCred()
		}
		r := ag.Introspect(t.AT, cred)
		if !r.Success() || r.JSON()["active"] != true || r.Str("sub") != t.Sub {
			return fmt.Sprintf("want active sub %s: %s", t.Sub, r.Describe())
		}
	case "cc":
		r := ag.Token(url.Values{"grant_type": {vkit.GCC}, "scope": {"openid"}}, vkit.RightCred(e.svc, issuer))
		if !r.Success() || r.Str("access_token") == "" {
			return r.Describe()
		}
	case "bearer":
		a := vkit.AssertionWith("svc", "svc", []string{issuer}, "ksvc", "rsa4", time.Now().Add(-5*time.Second), time.Now().Add(5*time.Minute), nil)
		r := ag.Token(url.Values{"grant_type": {vkit.GBearer}, "assertion": {a}, "scope": {"openid"}}, vkit.Cred{Kind: "none"})
		if !r.Success() || r.Str("access_token") == "" {
			return r.Describe()
		}
	case "te":
		t := pick(e.stable, o.A)
		r := ag.Token(url.Values{"grant_type": {vkit.GTE}, "subject_token": {t.IDT}, "subject_token_type": {string(oidc.IDTokenType)},
			"requested_token_type": {string(oidc.AccessTokenType)}, "scope": {"openid"}}, e.webCred())
		if !r.Success() || r.Str("access_token") == "" {
			return r.Describe()
		}
	case "devflow":
		cl := e.web
		if o.B&1 == 1 {
			cl = e.native
		}
		cred := vkit.RightCred(cl, issuer)
		d := ag.DeviceAuthorize("openid profile", cred)
		dc := d.Str("device_code")
		if !d.Success() || dc == "" {
			return "device authorization: " + d.Describe()
		}
		e.devLog[part] = append(e.devLog[part], devAnswerOf("the shared provider", "request "+tag, d))
		form := url.Values{"grant_type": {vkit.GDevice}, "device_code": {dc}}
		if p := ag.Token(form, cred); p.OAuthError() != "authorization_pending" {
			return "poll before approval: " + p.Describe()
		}
		user := pick(users, o.A)
		e.ps.ApproveDevice(part, dc, user)
		sync()
		p := ag.Token(form, cred)
		if c := idTokenClaims(p.Str("id_token")); !p.Success() || c == nil || c["sub"] != user {
			return "poll after approval: " + p.Describe()
		}
	case "poll_pending":
		p := ag.Token(url.Values{"grant_type": {vkit.GDevice}, "device_code": {e.devPend}}, e.webCred())
		if p.OAuthError() != "authorization_pending" {
			return p.Describe()
		}
	case "poll_denied":
		p := ag.Token(url.Values{"grant_type": {vkit.GDevice}, "device_code": {e.devDeny}}, e.webCred())
		if p.OAuthError() != "access_denied" {
			return p.Describe()
		}
	case "poll_approved":
		p := ag.Token(url.Values{"grant_type": {vkit.GDevice}, "device_code": {pick(e.devOK, o.A)}}, e.webCred())
		c := idTokenClaims(p.Str("id_token"))
		if !p.Success() || c == nil || c["sub"] != "u1" {
			return p.Describe()
		}
		// the token must be for the polling client, however many polls share the device code
		if aud, _ := c["aud"].([]any); len(aud) == 0 || fmt.Sprint(aud) != "[web]" {
			return fmt.Sprintf("id token audience %v, want [web]", c["aud"])
		}
	case "bad":
		var r *vkit.Resp
		switch o.A % 3 {
		case 0:
			r = ag.Token(url.Values{"grant_type": {"nonsense"}}, e.webCred())
		case 1:
			r = ag.Token(url.Values{"grant_type": {vkit.GCode}, "code": {"no-such-code"}, "redirect_uri": {rpRedirect}}, vkit.Cred{Kind: "basic", ClientID: "web", Secret: "wrong"})
		default:
			r = ag.UserInfo("not-a-token")
		}
		if r.Panic != nil || r.Status < 400 || r.Status >= 500 {
			return r.Describe()
		}
	case "authorize_err":
		r := ag.Authorize(vkit.AuthParams(e.web, "https://evil.example.net/cb", "code", "openid", "s", "n"))
		if r.Panic != nil || r.Status != 400 {
			return r.Describe()
		}
	case "code_shared":
		// several goroutines compete for one single-use code: who wins and how the losers are refused (400, or 5xx when the
		// storage refuses at the second step) is the business of C04; here only: an answer, no panic
		r := ag.Token(vkit.CodeExchangeForm(pick(e.codes, o.A), rpRedirect, ""), e.webCred())
		if r.Panic != nil || r.Status < 200 {
			return r.Describe()
		}
	case "refresh_vol":
		r := ag.Token(url.Values{"grant_type": {vkit.GRefr}, "refresh_token": {pick(e.volatile, o.A).RT}}, e.webCred())
		if r.Panic != nil || r.Status < 200 {
			return r.Describe()
		}
	case "revoke":
		t := pick(e.volatile, o.A)
		tok, hint := t.AT, "access_token"
		if o.B&1 == 1 {
			tok, hint = t.RT, "refresh_token"
		}
		r := ag.Revoke(tok, hint, e.webCred())
		if r.Panic != nil || r.Status != 200 {
			return r.Describe()
		}
	case "endsession":
		t := pick(e.volatile, o.A)
		r := ag.EndSession(url.Values{"id_token_hint": {t.IDT}, "post_logout_redirect_uri": {rpLogout}, "state": {tag}})
		if r.Panic != nil || r.Status != 302 || !strings.HasPrefix(r.Location(), rpLogout) {
			return r.Describe()
		}
	case "userinfo_vol":
		r := ag.UserInfo(pick(e.volatile, o.A).AT)
		if r.Panic != nil || (r.Status != 200 && (r.Status < 400 || r.Status >= 500)) {
			return r.Describe()
		}

	// ---- through the shared client-side instances --------------------------------------------------
	case "rp_flow":
		user := pick(users, o.A)
		verifier, challenge := "", ""
		var opts []rp.CodeExchangeOpt
		if o.B&1 == 1 {
			verifier = "rpverifier-" + tag + "-0123456789012345678901234567890123456789"
			challenge = vkit.S256(verifier)
			opts = append(opts, rp.WithCodeVerifier(verifier))
		}
		code, m := drv.authFlow(e.web, user, tag, "openid profile email offline_access", challenge, sync)
		if m != "" {
			return m
		}
		sync()
		tokens, err := rp.CodeExchange[*oidc.IDTokenClaims](withNonce(ctx, "n-"+tag), code, e.rp, opts...)
		if err != nil {
			return "CodeExchange: " + err.Error()
		}
		if tokens.IDTokenClaims == nil || tokens.IDTokenClaims.Subject != user || tokens.IDTokenClaims.Nonce != "n-"+tag {
			return fmt.Sprintf("CodeExchange returned claims %+v for request %s of %s", tokens.IDTokenClaims, tag, user)
		}
		info, err := rp.Userinfo[*oidc.UserInfo](ctx, tokens.AccessToken, tokens.TokenType, user, e.rp)
		if err != nil || info.Subject != user {
			return fmt.Sprintf("Userinfo: %v %+v", err, info)
		}
		if o.B&2 == 2 {
			nt, err := rp.RefreshTokens[*oidc.IDTokenClaims](ctx, e.rp, tokens.RefreshToken, "", "") // refreshed id tokens carry no nonce
			if e.c.Cfg != nil && e.c.Cfg.NoRefresh {
				if err == nil {
					return "RefreshTokens succeeded on a provider without the refresh_token grant"
				}
				return ""
			}
			if err != nil || nt.AccessToken == "" {
				return fmt.Sprintf("RefreshTokens: %v", err)
			}
			if nt.IDTokenClaims == nil || nt.IDTokenClaims.Subject != user {
				return fmt.Sprintf("RefreshTokens returned claims %+v for %s", nt.IDTokenClaims, user)
			}
		}
	case "rp_userinfo":
		t := pick(e.stable, o.A)
		info, err := rp.Userinfo[*oidc.UserInfo](ctx, t.AT, "Bearer", t.Sub, e.rp)
		if err != nil || info.Subject != t.Sub {
			return fmt.Sprintf("Userinfo: %v %+v", err, info)
		}
	case "rp_verify":
		t := pick(e.stable, o.A)
		cl, err := rp.VerifyTokens[*oidc.IDTokenClaims](withNonce(ctx, t.Nonce), t.AT, t.IDT, e.rp.IDTokenVerifier())
		if err != nil || cl.Subject != t.Sub || cl.Nonce != t.Nonce {
			return fmt.Sprintf("VerifyTokens: %v %+v", err, cl)
		}
	case "ks_verify":
		t := pick(e.stable, o.A)
		jws, err := jose.ParseSigned(t.IDT, []jose.SignatureAlgorithm{jose.SignatureAlgorithm(e.ps.sign.Alg)})
		if err != nil {
			return "parse: " + err.Error()
		}
		payload, err := e.ks.VerifySignature(ctx, jws)
		var m map[string]any
		if err != nil || json.Unmarshal(payload, &m) != nil || m["sub"] != t.Sub {
			return fmt.Sprintf("VerifySignature: %v %q", err, payload)
		}
	case "rs_introspect", "rsjwt_introsp":
		t := pick(e.stable, o.A)
		srv := e.rs
		if o.K == "rsjwt_introsp" {
			srv = e.rsJWT
		}
		resp, err := rs.Introspect[*oidc.IntrospectionResponse](ctx, srv, t.AT)
		if err != nil || resp == nil || !resp.Active || resp.Subject != t.Sub {
			return fmt.Sprintf("Introspect: %v %+v", err, resp)
		}
	case "te_exchange":
		t := pick(e.stable, o.A)
		// the lists are literals of the call, or the application's long-lived ones (shared by every goroutine)
		var resource, audience []string
		scopes := []string{"openid"}
		if o.B&1 == 1 {
			resource, audience, scopes = e.args.resource, e.args.audience, e.args.scopes[0]
		}
		sync()
		resp, err := tokenexchange.ExchangeToken(ctx, e.te, t.IDT, oidc.IDTokenType, "", "", resource, audience, scopes, oidc.AccessTokenType)
		if err != nil || resp.AccessToken == "" {
			return fmt.Sprintf("ExchangeToken: %v %+v", err, resp)
		}
	case "rp_cc":
		// the relying party with a secret or the one registered with a key; endpoint parameters: none, or one of the
		// application's long-lived parameter objects (shared by both relying parties and every goroutine)
		r, who := e.rp, "secret"
		if o.A&1 == 1 {
			r, who = e.rpKey, "key"
		}
		var params url.Values
		if o.B > 0 {
			params = e.args.params[(o.B-1)%len(e.args.params)]
		}
		sync()
		tok, err := rp.ClientCredentials(ctx, r, params)
		if err != nil || tok.AccessToken == "" {
			return fmt.Sprintf("ClientCredentials on the relying party with a %s, endpoint parameters nil=%v: %v", who, params == nil, err)
		}
	case "rp_device":
		scopes := []string{"openid"}
		if o.B&1 == 1 {
			scopes = e.args.scopes[o.B>>1&1]
		}
		d, err := rp.DeviceAuthorization(ctx, scopes, e.rp, nil)
		if err != nil || d.DeviceCode == "" {
			return fmt.Sprintf("DeviceAuthorization: %v", err)
		}
		e.devLog[part] = append(e.devLog[part], devAnswerOfResp("the shared provider", "request "+tag+" (rp.DeviceAuthorization)", d))
		user := pick(users, o.A)
		e.ps.ApproveDevice(part, d.DeviceCode, user)
		sync()
		resp, err := client.CallDeviceAccessTokenEndpoint(ctx, &client.DeviceAccessTokenRequest{
			ClientCredentialsRequest: &oidc.ClientCredentialsRequest{ClientID: "web", ClientSecret: "web-secret"},
			DeviceAccessTokenRequest: oidc.DeviceAccessTokenRequest{GrantType: oidc.GrantTypeDeviceCode, DeviceCode: d.DeviceCode},
		}, e.te)
		if err != nil || resp.AccessToken == "" {
			return fmt.Sprintf("CallDeviceAccessTokenEndpoint: %v", err)
		}
		if c := idTokenClaims(resp.IDToken); c == nil || c["sub"] != user {
			return fmt.Sprintf("device id token for %s carries %v", user, c)
		}
	case "rp_authurl":
		if o.B&1 == 1 {
			// the application's long-lived option list, on either relying party
			r := e.rp
			if o.A&1 == 1 {
				r = e.rpKey
			}
			sync()
			u, err := url.Parse(rp.AuthURL("st-"+tag, r, e.args.authOpts...))
			if err != nil || u.Query().Get("state") != "st-"+tag || u.Query().Get("prompt") != "login" || u.Query().Get("ui_locales") != "de" ||
				!strings.HasPrefix(u.String(), issuer+defaultPaths["authorization"]) {
				return fmt.Sprintf("AuthURL with the shared option list: %v %v", err, u)
			}
			return ""
		}
		u, err := url.Parse(rp.AuthURL("st-"+tag, e.rp, rp.WithCodeChallenge("ch-"+tag), rp.WithPrompt("login")))
		if err != nil || u.Query().Get("state") != "st-"+tag || u.Query().Get("code_challenge") != "ch-"+tag || u.Query().Get("client_id") != "web" ||
			!strings.HasPrefix(u.String(), issuer+defaultPaths["authorization"]) {
			return fmt.Sprintf("AuthURL: %v %v", err, u)
		}
	case "rp_handler":
		return e.rpHandlerFlow(pick(users, o.A), part, sync)
	case "rp_handler_err":
		w := httptest.NewRecorder()
		if o.A&1 == 0 {
			// no state cookie -> unauthorized handler
			e.cbH(w, httptest.NewRequest("GET", rpRedirect+"?code=x&state=y", nil).WithContext(ctx))
			if w.Code != http.StatusUnauthorized {
				return fmt.Sprintf("callback without cookie answered %d", w.Code)
			}
		} else {
			// error from the OP -> error handler
			sw := httptest.NewRecorder()
			if err := e.cookie.SetCookie(sw, "state", "st-"+tag); err != nil {
				return "SetCookie: " + err.Error()
			}
			r := httptest.NewRequest("GET", rpRedirect+"?error=access_denied&error_description=no&state=st-"+tag, nil).WithContext(ctx)
			for _, c := range sw.Result().Cookies() {
				r.AddCookie(c)
			}
			e.cbH(w, r)
			if w.Code != http.StatusInternalServerError || !strings.Contains(w.Body.String(), "access_denied") {
				return fmt.Sprintf("callback with error answered %d %q", w.Code, w.Body.String())
			}
		}
	case "profile_token":
		tok, err := e.src.TokenCtx(ctx)
		if err != nil || tok.AccessToken == "" {
			return fmt.Sprintf("TokenCtx: %v", err)
		}
	case "discover_redir":
		cfg, err := client.Discover(ctx, issuer, e.hc, redirWK)
		if err != nil || cfg.TokenEndpoint != issuer+defaultPaths["token"] {
			return fmt.Sprintf("Discover through a redirect: %v", err)
		}
	case "rp_endsession":
		t := pick(e.volatile, o.A)
		u, err := rp.EndSession(ctx, e.rpForLogout(), t.IDT, rpLogout, tag)
		if err != nil || u == nil || !strings.HasPrefix(u.String(), rpLogout) || u.Query().Get("state") != tag {
			return fmt.Sprintf("EndSession: %v %v", err, u)
		}
	case "rp_revoke":
		t := pick(e.volatile, o.A)
		tok, hint := t.AT, "access_token"
		if o.B&1 == 1 {
			tok, hint = t.RT, "refresh_token"
		}
		if err := rp.RevokeToken(ctx, e.rpForLogout(), tok, hint); err != nil {
			return "RevokeToken: " + err.Error()
		}
	case "rp_refresh_vol":
		_, err := rp.RefreshTokens[*oidc.IDTokenClaims](ctx, e.rp, pick(e.volatile, o.A).RT, "", "")
		_ = err // contended single-use token: any answer (C07 judges which)
	default:
		return "" // unknown kinds (hand-edited replay files) are ignored
	}
	return ""
}

// rpHandlerFlow drives the RP's own HTTP handlers (the shared handler instances, state cookie + PKCE cookie on the shared cookie handler).
func (e *env) rpHandlerFlow(user string, part int, sync func()) string {
	drv := e.drv[part]
	ctx := withPart(e.ctx, part)
	w := httptest.NewRecorder()
	e.loginH(w, httptest.NewRequest("GET", "https://rp.example.com/login", nil).WithContext(ctx))
	if w.Code != http.StatusFound {
		return fmt.Sprintf("AuthURLHandler answered %d %q", w.Code, w.Body.String())
	}
	loc, err := url.Parse(w.Header().Get("Location"))
	if err != nil || !strings.HasPrefix(loc.Query().Get("state"), "hst-") || loc.Query().Get("code_challenge") == "" {
		return "AuthURLHandler redirected to " + w.Header().Get("Location")
	}
	state := loc.Query().Get("state")
	f := drv.runAuth(loc.Query(), user)
	if f.Code == "" {
		return "no code for the RP's auth URL: " + f.AuthResp.Describe()
	}
	r := httptest.NewRequest("GET", f.CallbackResp.Location(), nil).WithContext(ctx)
	for _, c := range w.Result().Cookies() {
		r.AddCookie(c)
	}
	cw := httptest.NewRecorder()
	sync()
	e.cbH(cw, r)
	if cw.Code != http.StatusNoContent {
		return fmt.Sprintf("CodeExchangeHandler did not call back: %d %q", cw.Code, cw.Body.String())
	}
	if cw.Header().Get("X-State") != state || cw.Header().Get("X-Sub") != user || cw.Header().Get("X-Userinfo-Sub") != user {
		return fmt.Sprintf("CodeExchangeHandler of the request with state %s (%s) called back with state %q sub %q userinfo sub %q", state, user, cw.Header().Get("X-State"), cw.Header().Get("X-Sub"), cw.Header().Get("X-Userinfo-Sub"))
	}
	return ""
}

// ---- setup: pools and the probes for the recorded defects ------------------------------------------------

type probeCaller struct {
	hc *http.Client
}

func (p probeCaller) GetEndSessionEndpoint() string { return "https://probe.example.com/end_session" }
func (p probeCaller) GetRevokeEndpoint() string     { return "https://probe.example.com/revoke" }
func (p probeCaller) HttpClient() *http.Client      { return p.hc }

func (e *env) count(kinds ...string) int {
	n := 0
	for _, p := range e.c.Progs {
		for _, o := range p {
			for _, k := range kinds {
				if o.K == k {
					n++
				}
			}
		}
	}
	return n
}

func (e *env) setup(res *vkit.Result) string {
	// probe 1/2: do the end-session / revocation callers write to the caller's http.Client?
	for _, which := range []string{"endsession", "revoke"} {
		pc := probeCaller{&http.Client{Transport: e.rt, Timeout: 30 * time.Second}}
		fp := fpEndSessionCR
		if which == "endsession" {
			client.CallEndSessionEndpoint(e.ctx, oidc.EndSessionRequest{ClientID: "web"}, nil, pc)
		} else {
			fp = fpRevokeCR
			client.CallRevokeEndpoint(e.ctx, client.RevokeRequest{Token: "x", ClientID: "web", ClientSecret: "web-secret"}, nil, pc)
		}
		if pc.hc.CheckRedirect != nil {
			res.Fail(fp, "%s wrote CheckRedirect on the http.Client its caller supplied (it was nil before the call): every later call through that client stops following redirects, and concurrent use of the client is a data race", strings.TrimPrefix(fp, "C20:CheckRedirect-overwritten:"))
			e.guardCR = true
		}
	}
	if e.c.Unguard {
		e.guardCR = false
	}
	if e.c.Cold {
		return "" // the device probe would warm the provider up; no op of a cold case shares a device code
	}

	// token pools
	for i, u := range []string{"u1", "u2"} {
		ts, m := e.drv[0].mint(e.web, u, fmt.Sprintf("stable%d", i), false)
		if m != "" {
			return "stable token: " + m
		}
		e.stable = append(e.stable, ts)
	}
	if n := e.count("refresh_vol", "revoke", "endsession", "userinfo_vol", "rp_endsession", "rp_revoke", "rp_refresh_vol"); n > 0 {
		for i := 0; i < min(n, 3); i++ {
			ts, m := e.drv[0].mint(e.web, "u3", fmt.Sprintf("vol%d", i), true)
			if m != "" {
				return "volatile token: " + m
			}
			e.volatile = append(e.volatile, ts)
		}
	}
	if e.count("at_verify") > 0 {
		// JWT access tokens of different clients / subjects for the shared access token verifier
		r := e.drv[0].ag.Token(url.Values{"grant_type": {vkit.GCC}, "scope": {"openid"}}, vkit.Cred{Kind: "basic", ClientID: jwtSvcID, Secret: jwtSvcSecret})
		if cl := idTokenClaims(r.Str("access_token")); r.Success() && cl != nil {
			e.jwtATs = append(e.jwtATs, jwtAT{r.Str("access_token"), fmt.Sprint(cl["sub"])})
		}
		for _, t := range e.stable {
			if cl := idTokenClaims(t.AT); cl != nil {
				e.jwtATs = append(e.jwtATs, jwtAT{t.AT, fmt.Sprint(cl["sub"])})
			}
		}
	}
	if n := e.count("dead_tok"); n > 0 {
		for i := 0; i < min(n, 2); i++ {
			ts, m := e.drv[0].mint(e.web, "u3", fmt.Sprintf("dead%d", i), true)
			if m != "" {
				return "token to be revoked: " + m
			}
			if r := e.drv[0].ag.Revoke(ts.RT, "refresh_token", e.webCred()); r.Status != 200 {
				return "revocation: " + r.Describe()
			}
			if r := e.drv[0].ag.UserInfo(ts.AT); r.Success() {
				return "a revoked access token is still honoured: " + r.Describe()
			}
			e.dead = append(e.dead, ts)
		}
	}
	if n := e.count("code_shared"); n > 0 {
		for i := 0; i < min((n+1)/2, 3); i++ {
			code, m := e.drv[0].authFlow(e.web, "u3", fmt.Sprintf("code%d", i), "openid", "")
			if m != "" {
				return "shared code: " + m
			}
			e.codes = append(e.codes, code)
		}
	}

	// device codes; probe 3: does a poll change the storage-owned device state?
	newDevice := func() (string, string) {
		d := e.drv[0].ag.DeviceAuthorize("openid profile", e.webCred())
		if !d.Success() || d.Str("device_code") == "" {
			return "", "device authorization: " + d.Describe()
		}
		e.devLog[0] = append(e.devLog[0], devAnswerOf("the shared provider", fmt.Sprintf("setup request %d", len(e.devLog[0])), d))
		return d.Str("device_code"), ""
	}
	var m string
	if e.count("poll_pending") > 0 {
		if e.devPend, m = newDevice(); m != "" {
			return m
		}
	}
	if e.count("poll_denied") > 0 {
		if e.devDeny, m = newDevice(); m != "" {
			return m
		}
		e.ps.DenyDevice(0, e.devDeny)
	}
	probe, m := newDevice()
	if m != "" {
		return m
	}
	e.ps.ApproveDevice(0, probe, "u1")
	before := e.ps.DeviceAudience(0, probe)
	p := e.drv[0].ag.Token(url.Values{"grant_type": {vkit.GDevice}, "device_code": {probe}}, e.webCred())
	if !p.Success() {
		return "device poll: " + p.Describe()
	}
	after := e.ps.DeviceAudience(0, probe)
	if fmt.Sprint(before) != fmt.Sprint(after) || len(before) != len(after) {
		res.Fail(fpGetAudience, "a device-code poll changed the DeviceAuthorizationState owned by the storage: Audience %v -> %v (GetAudience appends inside a getter; two polls of one device code race on it)", before, after)
		e.guardAud = !e.c.Unguard
	}
	if n := e.count("poll_approved"); n > 0 {
		limit := 4
		if e.c.Unguard {
			limit = 32 // demonstration replays: many fresh device codes, each polled by every goroutine at about the same time
		}
		for i := 0; i < min(n, limit); i++ {
			dc, m := newDevice()
			if m != "" {
				return m
			}
			e.ps.ApproveDevice(0, dc, "u1")
			if e.guardAud {
				if p := e.drv[0].ag.Token(url.Values{"grant_type": {vkit.GDevice}, "device_code": {dc}}, e.webCred()); !p.Success() {
					return "device pre-poll: " + p.Describe()
				}
			}
			e.devOK = append(e.devOK, dc)
		}
	}
	return ""
}

// ---- run ---------------------------------------------------------------------------------------------

// barrier is a reusable rendezvous for the lock-step schedule. A party arrives either waiting (await) or without
// waiting (skip: it will not reach the point in this round). Each round has its own barriers, sized for the goroutines
// whose program is long enough.
type barrier struct {
	mu      sync.Mutex
	parties int
	arrived int
	gate    chan struct{}
}

func newBarrier(n int) *barrier { return &barrier{parties: n, gate: make(chan struct{})} }

func (b *barrier) releaseIfComplete() {
	if b.arrived >= b.parties {
		close(b.gate)
		b.gate = make(chan struct{})
		b.arrived = 0
	}
}

func (b *barrier) await() {
	b.mu.Lock()
	b.arrived++
	g := b.gate
	b.releaseIfComplete()
	b.mu.Unlock()
	<-g
}

func (b *barrier) skip() {
	b.mu.Lock()
	b.arrived++
	b.releaseIfComplete()
	b.mu.Unlock()
}

const syncPhases = 2

type opResult struct {
	g, i int
	op   Op
	msg  string
	obs  string
}

func runConc(c Case) *vkit.Result {
	res := &vkit.Result{}
	res.Label("kind:conc", "router:"+c.Router, "alg:"+c.SignAlg, fmt.Sprintf("jwt_at:%v", c.JWTAT), fmt.Sprintf("goroutines:%d", len(c.Progs)), fmt.Sprintf("lockstep:%v", c.Sync), fmt.Sprintf("cold:%v", c.Cold), fmt.Sprintf("handler-url-params:%d", c.URLParams), "issuer-mode:"+map[string]string{"": "static", "host": "host", "fwd": "forwarded"}[c.IssMode])
	res.Label(c.Cfg.labels("shared-provider-config")...)
	res.Label(fmt.Sprintf("side-providers:%d", min(len(c.Side), 3)))
	for _, sp := range c.Side {
		res.Label(sp.Cfg.labels("side-provider-config")...)
	}
	// every case starts from the package-level default lists as they were when the binary started
	restoreDefaultLists()
	defer restoreDefaultLists()
	globals0 := takeGlobals()
	e, err := newEnv(c)
	if err != nil {
		res.Fail("C20:setup", "environment could not be built: %v", err)
		return res
	}
	if m := e.setup(res); m != "" {
		res.Fail("C20:setup", "setup (sequential) failed: %s", m)
		return res
	}
	for _, p := range e.rt.takePanics() {
		res.Fail("C20:panic@"+p[strings.LastIndex(p, "@")+1:], "panic during sequential setup: %s", p)
	}
	earlier := []vkit.SignKeySpec{e.sign}
	for _, sp := range e.sides {
		res.Label("side-provider-signing:"+signRelation(sp.sign, earlier), "side-provider-signing-alg:"+sp.sign.Alg)
		earlier = append(earlier, sp.sign)
	}
	if e.guardCR {
		res.Label("guard:checkredirect")
	}
	if e.guardAud {
		res.Label("guard:getaudience")
	}

	// concurrent phase: all goroutines are released together and joined before the case ends
	var wg sync.WaitGroup
	start := make(chan struct{})
	results := make([][]opResult, len(c.Progs))
	// lock-step schedule: one barrier before each op index and one inside it (each round has its own pair)
	maxLen := 0
	for _, p := range c.Progs {
		maxLen = max(maxLen, len(p))
	}
	var before []*barrier
	var inside [][syncPhases]*barrier
	if c.Sync {
		for i := 0; i < maxLen; i++ {
			n := 0
			for _, p := range c.Progs {
				if len(p) > i {
					n++
				}
			}
			before = append(before, newBarrier(n))
			var ph [syncPhases]*barrier
			for k := range ph {
				ph[k] = newBarrier(n)
			}
			inside = append(inside, ph)
		}
	}
	for g, prog := range c.Progs {
		wg.Add(1)
		go func(g int, prog []Op) {
			defer wg.Done()
			out := make([]opResult, 0, len(prog))
			<-start
			for i, o := range prog {
				mid := func() {}
				phase := 0
				if c.Sync {
					before[i].await()
					mid = func() {
						if phase < syncPhases {
							phase++
							inside[i][phase-1].await()
						}
					}
				}
				msg, obs := e.doOpObs(o, fmt.Sprintf("g%d-o%d", g, i), g+1, mid)
				for c.Sync && phase < syncPhases {
					phase++
					inside[i][phase-1].skip() // this goroutine will not reach the remaining rendezvous of the round
				}
				out = append(out, opResult{g, i, o, msg, obs})
			}
			results[g] = out
		}(g, prog)
	}
	close(start)
	wg.Wait()

	for _, p := range e.rt.takePanics() {
		res.Fail("C20:panic@"+p[strings.LastIndex(p, "@")+1:], "handler panicked during the concurrent phase: %s", p)
	}
	total := 0
	var alsoAlone []string
	kinds := map[string]bool{}
	pairs := map[string]bool{}
	for g, rs := range results {
		for _, r := range rs {
			info, known := opKinds[r.op.K]
			if !known || (c.Cold && !coldKinds[r.op.K]) {
				continue
			}
			total++
			kinds[r.op.K] = true
			res.Label("op:" + r.op.K)
			for g2, p2 := range c.Progs {
				if g2 == g {
					continue
				}
				for _, o2 := range p2 {
					a, b := r.op.K, o2.K
					if a > b {
						a, b = b, a
					}
					pairs[a+"+"+b] = true
				}
			}
			if n, twin := twinKinds[r.op.K]; twin && !strings.HasPrefix(r.msg, "PANIC") {
				if c.Cold && twinNeedsPools(r.op) {
					continue
				}
				if verifierKinds[r.op.K] {
					res.Label(fmt.Sprintf("shared-verifier:%s/%d", r.op.K, ((r.op.A%n)+n)%n))
					if r.op.K == "jp_verify" {
						res.Label(fmt.Sprintf("shared-verifier:jp_verify:keyset=%v", r.op.B&1 == 1))
					}
				} else if r.op.K == "devauth" || r.op.K == "xdisc" || r.op.K == "xtoken" {
					res.Label(fmt.Sprintf("shared-process-request:%s/%d", r.op.K, min(((r.op.A%n)+n)%n, len(e.sides))))
				} else {
					res.Label(fmt.Sprintf("error-path:%s/%d", r.op.K, ((r.op.A%n)+n)%n))
				}
				if strings.HasPrefix(r.msg, "NOT-OWN-KEYS ") {
					res.Fail(fpNotOwnKeys, "goroutine %d op %d (%+v), asked while %d providers share the process (%s): %s", r.g, r.i, r.op, 1+len(e.sides), e.signings(), strings.TrimPrefix(r.msg, "NOT-OWN-KEYS "))
					continue
				}
				if strings.HasPrefix(r.msg, "NOT-OWN-CONFIG ") {
					res.Fail(fpNotOwnConfig, "goroutine %d op %d (%+v), asked while %d providers with configurations of their own share the process: %s", r.g, r.i, r.op, 1+len(e.sides), strings.TrimPrefix(r.msg, "NOT-OWN-CONFIG "))
					continue
				}
				// the same request (same tag, so the same state and markers) alone, now that every goroutine has finished
				seqMsg, seqObs := e.doOpObs(r.op, fmt.Sprintf("g%d-o%d", r.g, r.i), 0, func() {})
				switch {
				case strings.HasPrefix(seqMsg, "PANIC"):
					res.Fail("C20:panic@"+seqMsg[strings.LastIndex(seqMsg, "@")+1:], "goroutine %d op %d (%+v) run alone: %s", r.g, r.i, r.op, seqMsg)
				case seqObs != r.obs:
					// is the answer a function of the request at all? (a refusal that quotes the clock is not)
					if _, again := e.doOpObs(r.op, fmt.Sprintf("g%d-o%d", r.g, r.i), 0, func() {}); again != seqObs {
						res.Label("twin:answer-varies-when-alone:" + r.op.K)
						res.Grey = true
						continue
					}
					res.Fail("C20:concurrent-answer-differs:"+r.op.K, "goroutine %d op %d (%+v) was answered differently under concurrency than the same request run alone afterwards: concurrent: %s // alone: %s", r.g, r.i, r.op, r.obs, seqObs)
				case r.msg == "":
					res.Label("answer:as-expected-of-a-run-alone", "twin:same-answer-alone")
				default:
					res.Label("answer:fails-alone-too:"+r.op.K, "twin:same-answer-alone")
					alsoAlone = append(alsoAlone, r.op.K+": "+r.msg)
					res.Grey = true
				}
				continue
			}
			switch r.op.K {
			case "rp_cc":
				res.Label(fmt.Sprintf("caller-args:rp_cc:rp-with-key=%v:shared-params=%v", r.op.A&1 == 1, r.op.B > 0))
			case "te_exchange", "rp_device", "rp_authurl":
				res.Label(fmt.Sprintf("caller-args:%s:shared-lists=%v", r.op.K, r.op.B&1 == 1))
			}
			if r.msg == "" {
				if info.det {
					res.Label("answer:as-expected-of-a-run-alone")
				} else {
					res.Label("answer:contended-wellformed")
				}
				continue
			}
			if strings.HasPrefix(r.msg, "PANIC") {
				res.Fail("C20:panic@"+r.msg[strings.LastIndex(r.msg, "@")+1:], "goroutine %d op %d (%s): %s", r.g, r.i, r.op.K, r.msg)
				continue
			}
			if !info.det {
				// outcome depends on who wins; only the shape was checked
				res.Fail("C20:concurrent-answer-malformed:"+r.op.K, "goroutine %d op %d (%+v) was answered outside the set of answers a sequential run can give: %s", r.g, r.i, r.op, r.msg)
				continue
			}
			// answered as in a sequential run? run the same op alone, now that every goroutine has finished
			seq := e.doOp(r.op, fmt.Sprintf("seq-g%d-o%d", r.g, r.i), 0, func() {})
			if seq == "" {
				res.Fail("C20:concurrent-answer-differs:"+r.op.K, "goroutine %d op %d (%+v) was answered differently under concurrency than when run alone afterwards: %s", r.g, r.i, r.op, r.msg)
			} else {
				// fails alone as well: not a concurrency effect (another property's business or a harness expectation)
				res.Label("answer:fails-alone-too:" + r.op.K)
				alsoAlone = append(alsoAlone, r.op.K+": "+r.msg+" // alone: "+seq)
				res.Grey = true
			}
		}
	}
	// all device authorization answers of the case, whoever asked: each carries its own codes only, and one provider
	// answers all of them alike
	var devAll []devAnswer
	for _, l := range e.devLog {
		devAll = append(devAll, l...)
	}
	judgeDevAnswers(res, devAll)
	// every live provider of the case, asked once more now that all goroutines have finished: the token it issues now verifies
	// with the key set it publishes now
	for v := 0; v <= len(e.sides); v++ {
		name, pag := e.provFor(v, 0)
		switch why := ownKeysProblem(pag, name); {
		case why == "":
			res.Label("own-keys:verified-after-join")
		case strings.HasPrefix(why, "PANIC"):
			res.Fail("C20:panic@"+why[strings.LastIndex(why, "@")+1:], "%s, asked for a token after the join: %s", name, why)
		case strings.HasPrefix(why, "unavailable:"):
			res.Label("own-keys:unavailable")
		default:
			res.Fail(fpNotOwnKeys, "after the join, %d providers sharing the process (%s): %s", 1+len(e.sides), e.signings(), why)
		}
	}
	res.Label(fmt.Sprintf("device-authorization-answers:%d+", min(len(devAll)/5*5, 30)))
	// package-level defaults and the configuration objects handed to the constructors hold what they held before the case
	globals1, owned1 := takeGlobals(), snapshot{}
	for k, v := range e.built.state("the-shared-provider") {
		owned1[k] = v
	}
	for i, sp := range e.sides {
		for k, v := range sp.built.state(fmt.Sprintf("side-provider-%d", i+1)) {
			owned1[k] = v
		}
	}
	for _, name := range globals0.diff(globals1) {
		res.Fail("C20:state-changed:"+rootOf(name)+":concurrent-case", "%s: %s -> %s (between the start of the case and the end of its concurrent phase)", name, globals0[name], globals1[name])
	}
	// the application's long-lived argument objects hold what they held before they were handed to the helpers
	for _, name := range e.args0.diff(e.args.state()) {
		res.Fail("C20:state-changed:"+argRoot(name)+":concurrent-case", "caller-supplied argument %s: %s -> %s (between the start of the case and the end of its concurrent phase; it was handed to the helpers by %d goroutines)", name, e.args0[name], e.args.state()[name], len(c.Progs))
	}
	for _, name := range e.owned0.diff(owned1) {
		root := name
		if i := strings.Index(name, "-of-"); i > 0 {
			root = name[:i]
		}
		res.Fail("C20:state-changed:caller's-"+root+":concurrent-case", "%s: %s -> %s (between its hand-over to the constructor and the end of the concurrent phase)", name, e.owned0[name], owned1[name])
	}
	var ks, ps []string
	for k := range kinds {
		ks = append(ks, k)
	}
	for p := range pairs {
		ps = append(ps, p)
	}
	sort.Strings(ks)
	sort.Strings(ps)
	res.NonTrivial = len(c.Progs) >= 2 && total >= 4
	res.Key = fmt.Sprintf("conc|%s|%s|%s|%v|%v|%v|%d|%s", c.Router, c.SignAlg, c.IssMode, c.JWTAT, c.Sync, c.Cold, len(c.Progs), strings.Join(ps, ","))
	if c.Cfg != nil || len(c.Side) > 0 {
		res.Key += "|" + c.Cfg.key()
		for _, sp := range c.Side {
			res.Key += "|" + sp.Router + sp.Cfg.key()
		}
	}
	res.Info = map[string]any{"ops": total, "kinds": ks, "guards": map[string]bool{"checkredirect": e.guardCR, "getaudience": e.guardAud}, "failed_alone_too": alsoAlone}
	return res
}

func run(c Case) *vkit.Result {
	var res *vkit.Result
	func() {
		defer func() {
			if p := recover(); p != nil {
				res = &vkit.Result{}
				res.Fail("C20:panic@"+vkit.FirstLibFrame(string(debug.Stack())), "panic: %v\n%s", p, debug.Stack())
			}
		}()
		if c.Kind == "order" {
			res = runOrder(c)
		} else {
			res = runConc(c)
		}
	}()
	return res
}

const rule = "conc: G in 2..8 goroutines x 2..15 ops (49 kinds: authorize/login/callback/token of every grant, userinfo, introspection, revocation, end-session, device polls " +
	"of one shared device code, discovery, keys directly on ONE provider (both routers); requests that end in each error path (callback before login with the request's own state, " +
	"unknown callback id, authorize refusals with and without redirect: prompt / scope / response type / id_token_hint / unknown client / unregistered redirect URI, wrong or foreign code, " +
	"wrong PKCE verifier, wrong redirect_uri, unknown refresh token / device code, missing grant type, malformed basic auth, wrong secrets at token / introspection / revocation / " +
	"device authorization, forged JWT bearer assertion, garbage subject token, revoked access / refresh tokens, end-session refusals), each compared with the answer the same request " +
	"gets when run alone afterwards (twin run: status, redirect target, every delivered parameter, body); CodeExchange, Userinfo, RefreshTokens, EndSession, RevokeToken, VerifyTokens, " +
	"ClientCredentials, device calls, ONE AuthURLHandler and ONE CodeExchangeHandler(UserinfoCallback), rs.Introspect (secret and JWT profile), ExchangeToken, remote key set, JWT-profile token source, " +
	"Discover through a redirect on ONE RP / RS / exchanger / key set / token source over ONE caller-supplied http.Client, in-process transport) in the -race binary; " +
	"shared verifier objects: ONE op.JWTProfileVerifier (storage-backed and key-set-backed), ONE op.AccessTokenVerifier, ONE op.IDTokenHintVerifier verify assertions of different clients " +
	"(8 variants: two clients, own and shared key IDs, honest and signed with the other client's key, unknown client) and tokens of different subjects / forged ones from all goroutines (twin run: accepted for the same client / subject or refused, as alone; cold cases use the verifier for the first time under concurrency); " +
	"caller-supplied arguments: ONE pool of long-lived argument objects per case (2 url.Values endpoint parameters, 3 scope lists and resource / audience lists with spare capacity, AuthURL option list, key bytes, request structs) is handed by every goroutine to " +
	"rp.ClientCredentials (on the RP with a secret + PKCE and on a second RP registered with a key = rp.WithJWTProfile, params nil or shared), ExchangeToken, DeviceAuthorization, AuthURL; deep rendering (maps sorted, slices up to capacity) compared before / after the case; " +
	"free or lock-step schedule, warm or cold (nothing touches the provider before the goroutines start), independent or identical programs, issuer static / from Host / from Forwarded-or-Host (then discovery is asked under several host names / Forwarded hosts at once); " +
	"the shared provider's op.Config is generated (each of CodeMethodS256 / AuthMethodPost / AuthMethodPrivateKeyJWT / GrantTypeRefreshToken / RequestObjectSupported / back-channel flags on or off, SupportedScopes / " +
	"SupportedClaims / SupportedUILocales caller-supplied or defaulted, device authorization with the deprecated UserFormURL (two URLs, so providers collide on one) or a UserFormPath, 4 lifetimes, 3 poll intervals, 5 user-code shapes) " +
	"and 0..3 side providers with generated configurations of their own (both routers, own storage, never touched before the goroutines start) share the process: devauth = one device authorization request on the shared or a side provider, " +
	"xdisc = discovery / keys of a side provider (twin run, and judged by the provider's own Config); after the join ALL device authorization answers of the case (devauth, devflow, rp_device, setup) are judged together: none carries a user / device code " +
	"issued to another request, one provider answers all alike up to the answer's own codes; package-level default lists (by value) and every Config with its slices are compared before / after the case; " +
	"order: 2..12 steps of constructing providers (op.Config generated per provider as above - provider 0 and the closing provider have the all-on, all-defaulted one -, 8 endpoint options, bulk option, both routers, issuer strategy StaticIssuer / IssuerFromHost / IssuerFromForwardedOrHost without and with " +
	"WithIssuerFromCustomHeaders(1..2 names of 6 spellings), wrapper constructors, default / caller-supplied / no CORS options), issuer functions on their own (the same strategies, path, allowInsecure), " +
	"RPs (OIDC / OAuth; registered with a secret, with a key and a secret = rp.WithJWTProfile, or public; with / without PKCE cookie handler), resource servers, token exchangers with the package default or a shared caller-supplied http.Client, and calls on them " +
	"(EndSession, RevokeToken, Userinfo, CodeExchange with option list, Introspect, ExchangeToken, ClientCredentials with nil / shared endpoint parameters, AuthURL with the shared option list, DeviceAuthorization, RefreshTokens, client.Call{Revoke,EndSession,DeviceAuthorization,Token}Endpoint with long-lived request structs by pointer, " +
	"profile.NewJWTProfileTokenSource with the shared key bytes and scope list, httphelper.FormRequest / HttpRequest / URLEncodeParams; every reference-typed argument comes from the case's pool of long-lived objects or is entered into the snapshot when handed over: option lists of NewProvider / NewRelyingPartyOIDC, *op.Endpoint values, cookie handlers), with a deep snapshot (package-level defaults, supplied clients, " +
	"op.Config and its scope / claim / locale slices by value, cors.Options, header lists) and a behaviour re-probe of every live instance after every step: discovery document, 1..2 device authorization requests (answered as right after construction up to " +
	"the answer's own codes, no code of any other request of the case), key set, a bad token request, routed paths, issuer for 9 requests carrying Host / Forwarded / " +
	"X-Forwarded-Host / other headers (two reference issuer functions with default options are built before anything else), CORS answers, key set, answers to fixed bad requests, what RPs / RSs / exchangers " +
	"tell about themselves, redirect following; an instance built later behaves like the reference / provider 0 with the same options / the first provider of the case with an equal op.Config (or as the options and the members of op.Config are documented: " +
	"scopes / claims / locales / grant types / auth methods / PKCE methods / request-object and back-channel flags advertised, verification URIs, expires_in, interval and user-code shape answered), and every case closes by " +
	"building the default issuer functions and a default provider once more; " +
	"non-trivial: conc = >=2 goroutines and >=4 executed ops, distinct = (router, alg, token type, schedule, cold, G, set of op-kind pairs that ran in different goroutines, configurations of the shared and the side providers); " +
	"order = >=2 instances or >=1 call after a constructor, distinct = step sequence"

var prop = vkit.Prop[Case]{ID: "C20", Rule: rule, Gen: genConc, Run: run, Track: true}

var propOrder = vkit.Prop[Case]{ID: "C20", Rule: rule, Gen: genOrder, Run: run, Track: true}

func TestRapid(t *testing.T)  { prop.Check(t) }
func TestOrders(t *testing.T) { propOrder.Check(t) }
func TestReplay(t *testing.T) { prop.Replay(t) }
