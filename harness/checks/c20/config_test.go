package c20

import (
	"encoding/json"
	"fmt"
	"os"
	"slices"
	"sort"
	"strings"
	"time"

	"golang.org/x/text/language"
	"pgregory.net/rapid"

	"github.com/zitadel/oidc/v3/pkg/oidc"
	"github.com/zitadel/oidc/v3/pkg/op"

	"verif/harness/vkit"
)

// ---- provider configuration as a generated dimension -------------------------------------------------------
//
// Several providers with DIFFERENT op.Config values live in one process (tenants, an admin and a public issuer ...). What a
// provider keeps from its Config, and what it does with it at request time, is where state hidden behind the
// configuration leaks from one instance into another: a list that is filtered or sorted in place, a parsed value cached
// under a key two providers share, a flag read from the instance that happened to be built first. So every member of
// op.Config is generated per provider and differs between the providers of one case; the slices a Config carries are
// the caller's and are snapshotted by value like every other caller-supplied object.

// ProvCfg is the generated configuration of one provider. The zero value is the one shape all providers of the check had
// before configuration became a dimension (every feature on, every list defaulted, user form given as a path), so that
// replay files written before keep their meaning.
type ProvCfg struct {
	NoS256      bool     `json:"no_s256,omitempty"`     // Config.CodeMethodS256 = false
	NoPost      bool     `json:"no_post,omitempty"`     // Config.AuthMethodPost = false
	NoPKJWT     bool     `json:"no_pkjwt,omitempty"`    // Config.AuthMethodPrivateKeyJWT = false
	NoRefresh   bool     `json:"no_refresh,omitempty"`  // Config.GrantTypeRefreshToken = false
	NoReqObj    bool     `json:"no_reqobj,omitempty"`   // Config.RequestObjectSupported = false
	BackChannel int      `json:"backchannel,omitempty"` // bit 0 BackChannelLogoutSupported, bit 1 BackChannelLogoutSessionSupported
	Scopes      []string `json:"scopes,omitempty"`      // caller-supplied Config.SupportedScopes (nil: the package default)
	Claims      []string `json:"claims,omitempty"`      // caller-supplied Config.SupportedClaims (nil: the package default)
	Locales     []string `json:"locales,omitempty"`     // caller-supplied Config.SupportedUILocales
	FormURL     string   `json:"form_url,omitempty"`    // DeviceAuthorizationConfig.UserFormURL (deprecated, complete URL); "" = UserFormPath is used
	FormPath    string   `json:"form_path,omitempty"`   // DeviceAuthorizationConfig.UserFormPath, "" = /device
	LifetimeS   int      `json:"lifetime_s,omitempty"`  // device code lifetime, 0 = 300
	PollS       int      `json:"poll_s,omitempty"`      // poll interval, 0 = 5
	UserCode    int      `json:"user_code,omitempty"`   // 0 base20 8/4 written out, 1 op.UserCodeBase20, 2 op.UserCodeDigits, 3 own charset 6/0, 4 digits 12/4
}

var (
	scopePool   = []string{"profile", "offline_access", "email", "phone", "address", "groups", "urn:example:tenant"}
	claimPool   = []string{"sub", "aud", "exp", "iat", "iss", "auth_time", "nonce", "acr", "amr", "name", "email", "locale", "tenant"}
	localePool  = []string{"en", "de", "fr-CH", "pt-BR"}
	formURLPool = []string{"https://login.example.com/device", "https://verify.example.net/activate", "https://login.example.com/device"}
)

// genProvCfg draws one configuration; every member is drawn independently, so two providers of a case nearly always differ
// in several members, and the few shared values (user form URLs, scope lists) collide between providers on purpose.
func genProvCfg(t *rapid.T, label string) *ProvCfg {
	c := &ProvCfg{}
	off := func(n string, outOf int) bool { return rapid.IntRange(0, outOf-1).Draw(t, label+n) == 0 }
	c.NoRefresh = off("norefresh", 2)
	c.NoS256, c.NoPost, c.NoPKJWT, c.NoReqObj = off("nos256", 3), off("nopost", 3), off("nopkjwt", 3), off("noreqobj", 3)
	c.BackChannel = rapid.SampledFrom([]int{0, 0, 1, 3}).Draw(t, label+"backchannel")
	if rapid.IntRange(0, 2).Draw(t, label+"scopes") == 0 {
		k := rapid.IntRange(1, 5).Draw(t, label+"nscopes")
		c.Scopes = append([]string{"openid"}, rapid.Permutation(scopePool).Draw(t, label+"scopelist")[:k]...)
	}
	if rapid.IntRange(0, 2).Draw(t, label+"claims") == 0 {
		k := rapid.IntRange(1, 6).Draw(t, label+"nclaims")
		c.Claims = rapid.Permutation(claimPool).Draw(t, label+"claimlist")[:k]
	}
	if rapid.IntRange(0, 2).Draw(t, label+"locales") == 0 {
		k := rapid.IntRange(1, 3).Draw(t, label+"nlocales")
		c.Locales = rapid.Permutation(localePool).Draw(t, label+"localelist")[:k]
	}
	switch rapid.IntRange(0, 3).Draw(t, label+"form") {
	case 0, 1:
		c.FormURL = rapid.SampledFrom(formURLPool).Draw(t, label+"formurl")
	case 2:
		c.FormPath = rapid.SampledFrom([]string{"/activate", "/ui/device"}).Draw(t, label+"formpath")
	}
	c.LifetimeS = rapid.SampledFrom([]int{0, 0, 60, 600, 1800}).Draw(t, label+"lifetime")
	c.PollS = rapid.SampledFrom([]int{0, 0, 1, 10}).Draw(t, label+"poll")
	c.UserCode = rapid.IntRange(0, 4).Draw(t, label+"usercode")
	return c
}

// builtCfg is the op.Config of a ProvCfg together with the caller-owned slices it carries.
type builtCfg struct {
	cfg     *op.Config
	scopes  []string
	claims  []string
	locales []language.Tag
}

// build renders the configuration for a provider with the given issuer. A nil receiver is the zero configuration.
func (c *ProvCfg) build(iss string) *builtCfg {
	if c == nil {
		c = &ProvCfg{}
	}
	cfg := newConfig()
	cfg.DefaultLogoutRedirectURI = iss + "/logged-out"
	cfg.CodeMethodS256, cfg.AuthMethodPost, cfg.AuthMethodPrivateKeyJWT = !c.NoS256, !c.NoPost, !c.NoPKJWT
	cfg.GrantTypeRefreshToken, cfg.RequestObjectSupported = !c.NoRefresh, !c.NoReqObj
	cfg.BackChannelLogoutSupported, cfg.BackChannelLogoutSessionSupported = c.BackChannel&1 == 1, c.BackChannel&2 == 2
	b := &builtCfg{cfg: cfg}
	if c.Scopes != nil {
		b.scopes = slices.Clone(c.Scopes)
		cfg.SupportedScopes = b.scopes
	}
	if c.Claims != nil {
		b.claims = slices.Clone(c.Claims)
		cfg.SupportedClaims = b.claims
	}
	for _, l := range c.Locales {
		if tag, err := language.Parse(l); err == nil {
			b.locales = append(b.locales, tag)
		}
	}
	cfg.SupportedUILocales = b.locales
	d := &cfg.DeviceAuthorization
	if c.FormURL != "" {
		d.UserFormURL, d.UserFormPath = c.FormURL, ""
	} else if c.FormPath != "" {
		d.UserFormPath = c.FormPath
	}
	if c.LifetimeS > 0 {
		d.Lifetime = time.Duration(c.LifetimeS) * time.Second
	}
	if c.PollS > 0 {
		d.PollInterval = time.Duration(c.PollS) * time.Second
	}
	switch c.UserCode {
	case 1:
		d.UserCode = op.UserCodeBase20
	case 2:
		d.UserCode = op.UserCodeDigits
	case 3:
		d.UserCode = op.UserCodeConfig{CharSet: "BCDFGHJKLMNPQRSTVWXZ23456789", CharAmount: 6}
	case 4:
		d.UserCode = op.UserCodeConfig{CharSet: op.CharSetDigits, CharAmount: 12, DashInterval: 4}
	}
	return b
}

// state renders the caller-owned parts of a built configuration by value, one snapshot entry each.
func (b *builtCfg) state(owner string) map[string]string {
	return map[string]string{
		"op.Config-of-" + owner:                    fmt.Sprintf("%+v", *b.cfg),
		"Config.SupportedScopes-of-" + owner:       strState(b.scopes),
		"Config.SupportedClaims-of-" + owner:       strState(b.claims),
		"Config.SupportedUILocales-of-" + owner: fmt.Sprintf("len=%d %v", len(b.locales), b.locales),
	}
}

// strState renders a string slice by value, element by element (an element that became "" shows).
func strState(s []string) string { return fmt.Sprintf("nil=%v len=%d %q", s == nil, len(s), s) }

func (c *ProvCfg) key() string {
	if c == nil {
		c = &ProvCfg{}
	}
	b, _ := json.Marshal(c)
	return string(b)
}

func (c *ProvCfg) labels(prefix string) []string {
	if c == nil {
		return []string{prefix + ":zero-configuration"}
	}
	givenOrDefault := func(s []string) string {
		if s == nil {
			return "defaulted"
		}
		return "given"
	}
	form := "path:" + c.FormPath
	if c.FormURL != "" {
		form = "url(deprecated)"
	} else if c.FormPath == "" {
		form = "path:/device"
	}
	l := []string{
		fmt.Sprintf("%s:refresh-grant=%v", prefix, !c.NoRefresh), fmt.Sprintf("%s:s256=%v", prefix, !c.NoS256), fmt.Sprintf("%s:auth-post=%v", prefix, !c.NoPost),
		fmt.Sprintf("%s:private-key-jwt=%v", prefix, !c.NoPKJWT), fmt.Sprintf("%s:request-object=%v", prefix, !c.NoReqObj), fmt.Sprintf("%s:backchannel=%d", prefix, c.BackChannel),
		prefix + ":scopes-" + givenOrDefault(c.Scopes), prefix + ":claims-" + givenOrDefault(c.Claims), prefix + ":ui-locales-" + givenOrDefault(c.Locales),
		prefix + ":user-form-" + form, fmt.Sprintf("%s:device-lifetime=%ds", prefix, c.LifetimeS), fmt.Sprintf("%s:poll=%ds", prefix, c.PollS), fmt.Sprintf("%s:user-code-shape=%d", prefix, c.UserCode),
	}
	if c.Scopes != nil && slices.Contains(c.Scopes, oidc.ScopeOfflineAccess) {
		l = append(l, prefix+":scopes-given-with-offline_access")
	}
	return l
}

// ---- the package-level default lists ---------------------------------------------------------------------

// What the lists held when the test binary started. Every case starts from these values (a case that finds them changed
// reports it and the next case is judged on its own), and they are compared by value, not by identity.
var (
	pristineScopes     = slices.Clone(op.DefaultSupportedScopes)
	pristineClaims     = slices.Clone(op.DefaultSupportedClaims)
	pristineGrantTypes = slices.Clone(oidc.AllGrantTypes)
	pristineTokenTypes = slices.Clone(oidc.AllTokenTypes)
	pristineAuthMeth   = slices.Clone(oidc.AllAuthMethods)
)

func restoreDefaultLists() {
	op.DefaultSupportedScopes = slices.Clone(pristineScopes)
	op.DefaultSupportedClaims = slices.Clone(pristineClaims)
	oidc.AllGrantTypes = slices.Clone(pristineGrantTypes)
	oidc.AllTokenTypes = slices.Clone(pristineTokenTypes)
	oidc.AllAuthMethods = slices.Clone(pristineAuthMeth)
}

// ---- device authorization answers -----------------------------------------------------------------------

// devAnswer is what one device authorization request was answered.
type devAnswer struct {
	Prov       string // the provider asked
	Who        string // which request of the case
	Status     int
	UserCode   string
	DeviceCode string
	URI        string
	Complete   string
	ExpiresIn  any
	Interval   any
}

func devAnswerOf(prov, who string, r *vkit.Resp) devAnswer {
	d := devAnswer{Prov: prov, Who: who, Status: r.Status}
	if r.Panic != nil || !r.Success() {
		return d
	}
	m := r.JSON()
	d.UserCode, d.DeviceCode, d.URI, d.Complete = r.Str("user_code"), r.Str("device_code"), r.Str("verification_uri"), r.Str("verification_uri_complete")
	d.ExpiresIn, d.Interval = m["expires_in"], m["interval"]
	return d
}

func devAnswerOfResp(prov, who string, r *oidc.DeviceAuthorizationResponse) devAnswer {
	return devAnswer{Prov: prov, Who: who, Status: 200, UserCode: r.UserCode, DeviceCode: r.DeviceCode, URI: r.VerificationURI, Complete: r.VerificationURIComplete,
		ExpiresIn: float64(r.ExpiresIn), Interval: float64(r.Interval)}
}

// norm renders the answer with the codes of THIS answer replaced by placeholders: everything that is left is a function of
// the provider's configuration and the request, and so must be the same for every such request on that provider.
func (d devAnswer) norm() string {
	if d.Status != 200 || d.UserCode == "" || d.DeviceCode == "" {
		return fmt.Sprintf("status %d", d.Status)
	}
	own := strings.NewReplacer(d.UserCode, "<user code of this answer>", d.DeviceCode, "<device code of this answer>")
	shape := strings.Map(func(r rune) rune {
		if r == '-' {
			return r
		}
		return 'x'
	}, d.UserCode)
	return fmt.Sprintf("verification_uri=%s verification_uri_complete=%s expires_in=%v interval=%v user_code~%s",
		own.Replace(d.URI), own.Replace(d.Complete), d.ExpiresIn, d.Interval, shape)
}

// foreignCodes lists the user / device codes of OTHER answers that show up in the verification URIs of answer d.
func (d devAnswer) foreignCodes(all []devAnswer) []string {
	var l []string
	if d.Status != 200 {
		return nil
	}
	for _, o := range all {
		for _, code := range []string{o.UserCode, o.DeviceCode} {
			if len(code) < 6 || code == d.UserCode || code == d.DeviceCode {
				continue
			}
			if strings.Contains(d.URI, code) {
				l = append(l, fmt.Sprintf("verification_uri %q of %s carries %q, the code issued to %s on %s", d.URI, d.Who, code, o.Who, o.Prov))
			} else if strings.Contains(d.Complete, code) {
				l = append(l, fmt.Sprintf("verification_uri_complete %q of %s carries %q, the code issued to %s on %s", d.Complete, d.Who, code, o.Who, o.Prov))
			}
		}
	}
	return l
}

const (
	fpDevForeign = "C20:device-authorization-answer-carries-code-of-another-request"
	fpDevVaries  = "C20:device-authorization-answer-changes-with-use"
)

// judgeDevAnswers: no answer carries a code of another request, and all answers of one provider are the same up to their own codes.
func judgeDevAnswers(res *vkit.Result, all []devAnswer) {
	var leaks []string
	for _, d := range all {
		leaks = append(leaks, d.foreignCodes(all)...)
	}
	if len(leaks) > 0 {
		res.Fail(fpDevForeign, "%d device authorization answers disclose a code that was issued to another request; first: %s", len(leaks), leaks[0])
	}
	first := map[string]devAnswer{}
	var provs []string
	varies := map[string]string{}
	for _, d := range all {
		f, ok := first[d.Prov]
		if !ok {
			first[d.Prov] = d
			provs = append(provs, d.Prov)
			continue
		}
		if d.norm() != f.norm() && varies[d.Prov] == "" {
			varies[d.Prov] = fmt.Sprintf("%s: %s answered {%s}, %s answered {%s}", d.Prov, f.Who, f.norm(), d.Who, d.norm())
		}
	}
	sort.Strings(provs)
	for _, p := range provs {
		if v := varies[p]; v != "" {
			res.Fail(fpDevVaries, "device authorization requests that differ in nothing but their time are answered differently by one provider (codes of the answer itself left aside): %s", v)
		}
	}
}

// ---- order sub-check: using every provider after every step ------------------------------------------------

func describeCfg(c *ProvCfg) string {
	if c == nil {
		return "{zero configuration}"
	}
	return c.key()
}

// deviceAsk sends n device authorization requests of the client "web" to provider p and enters the answers into the case's log.
func (e *orderEnv) deviceAsk(p *provInst, when string, n int) []devAnswer {
	var l []devAnswer
	cred := vkit.RightCred(p.store.Clients["web"], p.issuer)
	for k := 0; k < n; k++ {
		r := p.ag.DeviceAuthorize("openid", cred)
		d := devAnswerOf(fmt.Sprintf("provider %d", p.idx), fmt.Sprintf("request %d (provider %d after %s)", len(e.devAll), p.idx, when), r)
		e.devAll = append(e.devAll, d)
		l = append(l, d)
	}
	return l
}

// lightBehaviour: the key set, the refusal of a fixed bad token request and a client-credentials token request (asked of every provider after every step).
func (e *orderEnv) lightBehaviour(p *provInst) map[string]string {
	k := p.ag.Keys()
	t := p.ag.Token(map[string][]string{"grant_type": {"nonsense"}}, vkit.RightCred(p.store.Clients["web"], p.issuer))
	// and a token request that succeeds: everything of the answer but the token itself
	cc := p.ag.Token(map[string][]string{"grant_type": {vkit.GCC}, "scope": {"openid"}}, vkit.RightCred(p.store.Clients["svc"], p.issuer))
	ccLine := refusalLine(cc)
	if cc.Success() {
		m := cc.JSON()
		// expires_in counts down from the moment the storage created the token: compared to the nearest minute (under load a
		// second boundary falls between the storage call and the response now and then)
		exp := "absent"
		if f, ok := m["expires_in"].(float64); ok {
			exp = fmt.Sprintf("~%dmin", int(f+30)/60)
		}
		ccLine = fmt.Sprintf("%d access_token-present=%v token_type=%v expires_in=%s scope=%v id_token-present=%v refresh_token-present=%v", cc.Status, cc.Str("access_token") != "", m["token_type"], exp, m["scope"], m["id_token"] != nil, m["refresh_token"] != nil)
	}
	// and a signed one: the JWT access token of the JWT service client verifies with the key set published just now
	if os.Getenv("C20_NOKEYS") == "" {
		p.keyProblem = ownKeysProblem(p.ag, fmt.Sprintf("provider %d", p.idx))
	}
	e.res.Label("own-keys:jwt-access-token-checked")
	return map[string]string{"keys": fmt.Sprintf("%d %s", k.Status, k.Body), "token:unknown-grant": refusalLine(t), "token:client-credentials": ccLine}
}

// members of the discovery document that are decided by op.Config alone
var configMembers = []string{"scopes_supported", "claims_supported", "ui_locales_supported", "grant_types_supported", "response_types_supported",
	"token_endpoint_auth_methods_supported", "token_endpoint_auth_signing_alg_values_supported", "revocation_endpoint_auth_methods_supported",
	"introspection_endpoint_auth_methods_supported", "code_challenge_methods_supported", "request_parameter_supported",
	"request_object_signing_alg_values_supported", "backchannel_logout_supported", "backchannel_logout_session_supported", "id_token_signing_alg_values_supported"}

func cfgView(disc string) map[string]string {
	doc := jsonOf(disc)
	v := map[string]string{}
	for _, m := range configMembers {
		b, _ := json.Marshal(doc[m])
		v[m] = string(b)
	}
	return v
}

// bornLikeSameConfig: a provider built just now advertises and answers device authorization like the FIRST provider of the
// case that was given an equal op.Config (provider 0 and the closing provider of every case share the zero configuration),
// whatever was built and used in between.
func (e *orderEnv) bornLikeSameConfig(p *provInst, epDirty bool) string {
	for _, q := range e.provs {
		if q == p {
			break
		}
		if q.pcfg.key() != p.pcfg.key() {
			continue
		}
		var l []string
		qv, pv := cfgView(q.disc0), cfgView(p.disc)
		if q.sign.Alg != p.sign.Alg { // decided by the provider's own storage, not by op.Config
			delete(qv, "id_token_signing_alg_values_supported")
			delete(pv, "id_token_signing_alg_values_supported")
		}
		if d := mapDiff(qv, pv); d != "" {
			l = append(l, "discovery: "+d)
		}
		was := strings.ReplaceAll(q.devFP, hostOf(q.issuer), hostOf(p.issuer))
		if !epDirty && q.router == p.router && len(q.ep) == 0 && len(p.ep) == 0 && p.devFP != was {
			l = append(l, fmt.Sprintf("device authorization answered {%s}, provider %d answered {%s} when it was built", p.devFP, q.idx, was))
		}
		if len(l) > 0 {
			return fmt.Sprintf("provider %d was built with the same op.Config %s: %s", q.idx, describeCfg(p.pcfg), strings.Join(l, "; "))
		}
		return ""
	}
	return ""
}

// ---- what the members of op.Config are documented to mean ---------------------------------------------------
//
// A provider that was built after others (or is asked for the first time while others are being asked) is configured by ITS
// OWN op.Config: a list, flag or device setting another instance was given - memoised in a package-level variable, or left
// behind in a shared object - shows as a deviation from these few rules. Only members whose meaning the Config documents
// are looked at; endpoints are judged elsewhere.

func (c *ProvCfg) discoveryMismatch(doc map[string]any) []string {
	if c == nil {
		c = &ProvCfg{}
	}
	var l []string
	list := func(m string) []string {
		a, _ := doc[m].([]any)
		out := []string{}
		for _, v := range a {
			out = append(out, fmt.Sprint(v))
		}
		return out
	}
	wantList := func(m, field string, want []string) {
		if got := list(m); !slices.Equal(got, want) {
			l = append(l, fmt.Sprintf("%s=%q, but %s of its Config says %q", m, got, field, want))
		}
	}
	has := func(m, v, field string, want bool) {
		if slices.Contains(list(m), v) != want {
			l = append(l, fmt.Sprintf("%s=%q, but %s of its Config is %v", m, list(m), field, want))
		}
	}
	flag := func(m, field string, want bool) {
		if got, _ := doc[m].(bool); got != want {
			l = append(l, fmt.Sprintf("%s=%v, but %s of its Config is %v", m, doc[m], field, want))
		}
	}
	scopes, claims := c.Scopes, c.Claims
	if scopes == nil {
		scopes = pristineScopes
	}
	if claims == nil {
		claims = pristineClaims
	}
	wantList("scopes_supported", "SupportedScopes (nil: op.DefaultSupportedScopes)", scopes)
	wantList("claims_supported", "SupportedClaims (nil: op.DefaultSupportedClaims)", claims)
	locales := []string{}
	for _, s := range c.Locales {
		if tag, err := language.Parse(s); err == nil {
			locales = append(locales, tag.String())
		}
	}
	wantList("ui_locales_supported", "SupportedUILocales", locales)
	has("grant_types_supported", string(oidc.GrantTypeRefreshToken), "GrantTypeRefreshToken", !c.NoRefresh)
	has("token_endpoint_auth_methods_supported", string(oidc.AuthMethodPost), "AuthMethodPost", !c.NoPost)
	has("token_endpoint_auth_methods_supported", string(oidc.AuthMethodPrivateKeyJWT), "AuthMethodPrivateKeyJWT", !c.NoPKJWT)
	has("code_challenge_methods_supported", string(oidc.CodeChallengeMethodS256), "CodeMethodS256", !c.NoS256)
	flag("request_parameter_supported", "RequestObjectSupported", !c.NoReqObj)
	flag("backchannel_logout_supported", "BackChannelLogoutSupported", c.BackChannel&1 == 1)
	flag("backchannel_logout_session_supported", "BackChannelLogoutSessionSupported", c.BackChannel&2 == 2)
	return l
}

// deviceMismatch: the answer to a device authorization request, by the DeviceAuthorizationConfig of the provider asked
// (iss: the issuer of the request).
func (c *ProvCfg) deviceMismatch(iss string, d devAnswer) []string {
	if c == nil {
		c = &ProvCfg{}
	}
	if d.Status != 200 || d.UserCode == "" {
		return nil
	}
	dc := c.build(iss).cfg.DeviceAuthorization
	var l []string
	uri := dc.UserFormURL
	if uri == "" {
		uri = iss + dc.UserFormPath
	}
	if d.URI != uri {
		l = append(l, fmt.Sprintf("verification_uri=%q, its Config says %q", d.URI, uri))
	}
	if want := uri + "?user_code=" + d.UserCode; d.Complete != want {
		l = append(l, fmt.Sprintf("verification_uri_complete=%q, its Config and the user code of this answer say %q", d.Complete, want))
	}
	if want := float64(dc.Lifetime / time.Second); d.ExpiresIn != want {
		l = append(l, fmt.Sprintf("expires_in=%v, its Config says %v", d.ExpiresIn, want))
	}
	if want := float64(dc.PollInterval / time.Second); d.Interval != want {
		l = append(l, fmt.Sprintf("interval=%v, its Config says %v", d.Interval, want))
	}
	n, shapeOK := 0, true
	for i, r := range d.UserCode {
		switch {
		case r == '-':
			shapeOK = shapeOK && dc.UserCode.DashInterval > 0 && (i+1)%(dc.UserCode.DashInterval+1) == 0
		case strings.ContainsRune(dc.UserCode.CharSet, r):
			n++
		default:
			shapeOK = false
		}
	}
	if !shapeOK || n != dc.UserCode.CharAmount {
		l = append(l, fmt.Sprintf("user_code=%q, its Config says %d characters of %q with a dash every %d", d.UserCode, dc.UserCode.CharAmount, dc.UserCode.CharSet, dc.UserCode.DashInterval))
	}
	return l
}

const fpNotOwnConfig = "C20:provider-not-configured-by-its-own-config"
