package c20

import (
	"crypto/sha256"
	"fmt"
	"net/url"
	"reflect"
	"sort"
	"strings"
	"time"

	"github.com/zitadel/oidc/v3/pkg/client"
	"github.com/zitadel/oidc/v3/pkg/client/rp"
	"github.com/zitadel/oidc/v3/pkg/oidc"

	"verif/harness/vkit"
)

// ---- caller-supplied arguments ------------------------------------------------------------------------------
//
// "Caller-supplied objects keep the values they had": every argument of reference type that the application hands to a
// helper of pkg/client (rp, rs, tokenexchange, profile), to pkg/http or to a constructor / option of pkg/op is the
// application's. An application keeps such objects around (the endpoint parameters of its machine clients, its scope
// lists, the options of its login URL, request structs it fills once) and hands them to the next call, to another relying
// party and to other goroutines. So the check keeps ONE pool of such objects per case, hands them to every helper that
// takes them, on relying parties of every configuration, and compares a deep rendering of each object before and after
// (order sub-check: after every step; concurrent sub-check: after the join, where the race detector additionally sees a
// helper that writes to an object two goroutines handed in).

// deepState renders a value by content: pointers are followed, maps are rendered in key order, slices up to their CAPACITY
// (a callee that appends to the caller's slice writes behind its length), functions / channels / opaque interface values
// by identity.
func deepState(v any) string {
	var b strings.Builder
	render(&b, reflect.ValueOf(v), 0, map[uintptr]bool{})
	return b.String()
}

var timeType = reflect.TypeOf(time.Time{})

func render(b *strings.Builder, v reflect.Value, depth int, seen map[uintptr]bool) {
	if !v.IsValid() {
		b.WriteString("<nil>")
		return
	}
	if depth > 10 {
		b.WriteString("...")
		return
	}
	switch v.Kind() {
	case reflect.Pointer:
		if v.IsNil() {
			b.WriteString("nil")
			return
		}
		if seen[v.Pointer()] {
			b.WriteString("&<seen>")
			return
		}
		seen[v.Pointer()] = true
		b.WriteString("&")
		render(b, v.Elem(), depth+1, seen)
	case reflect.Interface:
		if v.IsNil() {
			b.WriteString("nil")
			return
		}
		el := v.Elem()
		switch el.Kind() {
		case reflect.Pointer, reflect.Func, reflect.Chan, reflect.UnsafePointer:
			// what an interface points to is not the caller's value (signers, transports, ciphers): identity only
			fmt.Fprintf(b, "%s@%#x", el.Type(), el.Pointer())
		default:
			fmt.Fprintf(b, "(%s)", el.Type())
			render(b, el, depth+1, seen)
		}
	case reflect.Struct:
		if v.Type() == timeType && v.CanInterface() {
			b.WriteString(v.Interface().(time.Time).UTC().Format(time.RFC3339Nano))
			return
		}
		b.WriteString(v.Type().String() + "{")
		for i := 0; i < v.NumField(); i++ {
			if i > 0 {
				b.WriteString(" ")
			}
			b.WriteString(v.Type().Field(i).Name + ":")
			render(b, v.Field(i), depth+1, seen)
		}
		b.WriteString("}")
	case reflect.Map:
		if v.IsNil() {
			b.WriteString("nil-map")
			return
		}
		type kv struct{ k, v string }
		var l []kv
		for it := v.MapRange(); it.Next(); {
			var kb, vb strings.Builder
			render(&kb, it.Key(), depth+1, seen)
			render(&vb, it.Value(), depth+1, seen)
			l = append(l, kv{kb.String(), vb.String()})
		}
		sort.Slice(l, func(i, j int) bool { return l[i].k < l[j].k })
		fmt.Fprintf(b, "map(%d)[", len(l))
		for i, e := range l {
			if i > 0 {
				b.WriteString(" ")
			}
			b.WriteString(e.k + ":" + e.v)
		}
		b.WriteString("]")
	case reflect.Slice:
		if v.IsNil() {
			b.WriteString("nil-slice")
			return
		}
		fmt.Fprintf(b, "len=%d cap=%d[", v.Len(), v.Cap())
		full := v.Slice(0, v.Cap())
		for i := 0; i < full.Len(); i++ {
			if i == v.Len() {
				b.WriteString(" | spare:")
			}
			if i > 0 {
				b.WriteString(" ")
			}
			render(b, full.Index(i), depth+1, seen)
		}
		b.WriteString("]")
	case reflect.Array:
		b.WriteString("[")
		for i := 0; i < v.Len(); i++ {
			if i > 0 {
				b.WriteString(" ")
			}
			render(b, v.Index(i), depth+1, seen)
		}
		b.WriteString("]")
	case reflect.Func, reflect.Chan, reflect.UnsafePointer:
		if v.IsNil() {
			b.WriteString("nil")
			return
		}
		fmt.Fprintf(b, "%s@%#x", v.Type(), v.Pointer())
	case reflect.String:
		if str := v.String(); len(str) > 72 {
			// long values (assertions, keys) by digest: any change shows, the report stays readable
			fmt.Fprintf(b, "%q...(len=%d sha256=%x)", str[:24], len(str), sha256.Sum256([]byte(str)))
		} else {
			fmt.Fprintf(b, "%q", str)
		}
	default:
		fmt.Fprintf(b, "%v", v) // fmt prints the concrete value a reflect.Value holds (unexported fields too)
	}
}

// spare returns a slice of the given elements with unused capacity behind it, filled with marks: an append by the callee
// lands in the caller's array and shows in deepState.
func spare[T any](mark T, el ...T) []T {
	s := make([]T, len(el), len(el)+3)
	copy(s, el)
	full := s[:cap(s)]
	for i := len(el); i < len(full); i++ {
		full[i] = mark
	}
	return s
}

// callerArgs is the pool of long-lived argument objects of one case.
type callerArgs struct {
	params    []url.Values     // endpoint parameters (rp.ClientCredentials)
	scopes    [][]string       // scope lists (device authorization, token exchange, token sources, request structs)
	resource  []string         // token exchange
	audience  []string         // token exchange
	authOpts  []rp.AuthURLOpt  // options of the application's login URL (rp.AuthURL)
	urlOpts   []rp.URLParamOpt // options of the handlers
	keyPEM    []byte           // the service account's key as the application read it from disk
	webKeyPEM []byte           // the key of the web application registered with a key
	apiKeyPEM []byte           // the key of the resource server registered with a key
	ccReq     *oidc.ClientCredentialsRequest
	revReq    *client.RevokeRequest
	esReq     *oidc.EndSessionRequest
	rtReq     *oidc.RefreshTokenRequest
}

func newCallerArgs() *callerArgs {
	a := &callerArgs{
		params: []url.Values{
			{"audience": {"https://api.example.com"}},
			{"resource": spare("spare", "https://files.example.com", "https://mail.example.com"), "tenant": {"t1"}},
		},
		scopes:    [][]string{spare("spare", "openid"), spare("spare", "profile", "openid"), {"openid", "email"}},
		resource:  spare("spare", "https://files.example.com"),
		audience:  spare("spare", "api", "apijwt"),
		authOpts:  spare[rp.AuthURLOpt](nil, rp.WithPrompt("login"), rp.AuthURLOpt(rp.WithURLParam("ui_locales", "de"))),
		urlOpts:   spare[rp.URLParamOpt](nil, rp.WithURLParam("login_hint", "someone")),
		keyPEM:    append(make([]byte, 0, 4096), vkit.Key("rsa4").PKCS1PEM()...),
		webKeyPEM: append(make([]byte, 0, 4096), vkit.Key(keyWebKey).PKCS1PEM()...),
		apiKeyPEM: append(make([]byte, 0, 4096), vkit.Key("rsa3").PKCS1PEM()...),
	}
	a.ccReq = &oidc.ClientCredentialsRequest{GrantType: oidc.GrantTypeClientCredentials, Scope: a.scopes[0], ClientID: "web", ClientSecret: "web-secret"}
	a.revReq = &client.RevokeRequest{Token: "no-such-token", TokenTypeHint: "access_token", ClientID: "web", ClientSecret: "web-secret"}
	a.esReq = &oidc.EndSessionRequest{ClientID: "web", PostLogoutRedirectURI: rpLogout} // no state: it is optional
	a.rtReq = &oidc.RefreshTokenRequest{RefreshToken: "no-such-refresh-token", Scopes: a.scopes[1], ClientID: "web", ClientSecret: "web-secret"}
	return a
}

// state renders every object of the pool, one snapshot entry each ("arg:<what>#<n>").
func (a *callerArgs) state() snapshot {
	s := snapshot{}
	for i, p := range a.params {
		s[fmt.Sprintf("arg:endpoint-params#%d", i)] = deepState(p)
	}
	for i, p := range a.scopes {
		s[fmt.Sprintf("arg:scopes#%d", i)] = deepState(p)
	}
	s["arg:resource-list#0"] = deepState(a.resource)
	s["arg:audience-list#0"] = deepState(a.audience)
	s["arg:authurl-options#0"] = deepState(a.authOpts)
	s["arg:url-param-options#0"] = deepState(a.urlOpts)
	s["arg:key-bytes#0"] = bytesState(a.keyPEM)
	s["arg:key-bytes#1"] = bytesState(a.webKeyPEM)
	s["arg:key-bytes#2"] = bytesState(a.apiKeyPEM)
	s["arg:request-struct#ClientCredentialsRequest"] = deepState(a.ccReq)
	s["arg:request-struct#RevokeRequest"] = deepState(a.revReq)
	s["arg:request-struct#EndSessionRequest"] = deepState(a.esReq)
	s["arg:request-struct#RefreshTokenRequest"] = deepState(a.rtReq)
	return s
}

// bytesState renders a byte slice by digest, the first bytes of its spare capacity included.
func bytesState(b []byte) string {
	full := b[:min(cap(b), len(b)+32)]
	return fmt.Sprintf("len=%d cap=%d sha256=%x spare=%x", len(b), cap(b), sha256.Sum256(b), full[len(b):])
}

// argRoot: the fingerprint part of an argument's snapshot name (the object's kind, not its number).
func argRoot(name string) string {
	if i := strings.Index(name, "#"); i > 0 {
		return name[:i]
	}
	return name
}

// the web application registered with a key (conClients)
const keyWebID, keyWebSecret, keyWebKID, keyWebKey = "keyweb", "keyweb-secret", "kweb", "rsa2"

// ownedArg is one further caller-supplied object of an order case (handed to a constructor / option at some step).
type ownedArg struct {
	name string
	obj  any
}
