package c20

import (
	"fmt"
	"net/http"
	"net/http/httptest"
	"slices"
	"sort"
	"strings"

	"github.com/rs/cors"
	"pgregory.net/rapid"

	"github.com/zitadel/oidc/v3/pkg/client/rp"
	"github.com/zitadel/oidc/v3/pkg/client/rs"
	"github.com/zitadel/oidc/v3/pkg/client/tokenexchange"
	"github.com/zitadel/oidc/v3/pkg/op"

	"verif/harness/vkit"
)

// ---- issuer strategies (order sub-check) ----------------------------------------------------------------
//
// A provider (or an issuer function on its own, as an application with its own router builds it) derives its issuer
//
//	""     op.StaticIssuer(issuer)
//	host   op.IssuerFromHost(path)
//	fwd    op.IssuerFromForwardedOrHost(path)                                   (standard Forwarded header)
//	fwdc   op.IssuerFromForwardedOrHost(path, op.WithIssuerFromCustomHeaders(Hdrs...))
//
// The behaviour observed is the issuer for a fixed set of requests (Host / Forwarded / X-Forwarded-Host / other headers and
// combinations). It is recorded when an instance is built and must stay what it was, whatever is built or used afterwards;
// an instance built later must behave like the instance with the same options that was built before anything else (the
// references of a case), or - for header lists no reference exists for - as the documentation of the options says.

type issSpec struct {
	Iss      string
	Hdrs     []string
	Path     string
	Insecure bool
	Static   string // Iss == "": the issuer
}

func (s issSpec) String() string {
	switch s.Iss {
	case "":
		return "StaticIssuer(" + s.Static + ")"
	case "host":
		return fmt.Sprintf("IssuerFromHost(%q) insecure=%v", s.Path, s.Insecure)
	case "fwd":
		return fmt.Sprintf("IssuerFromForwardedOrHost(%q) insecure=%v", s.Path, s.Insecure)
	}
	return fmt.Sprintf("IssuerFromForwardedOrHost(%q, WithIssuerFromCustomHeaders(%q)) insecure=%v", s.Path, s.Hdrs, s.Insecure)
}

// key of the reference an instance with these options is compared with ("" when there is none): the references are built
// with path "" and allowInsecure false; path and scheme of an instance are put onto what the reference derives
func (s issSpec) refKey() string {
	if s.Iss == "host" || s.Iss == "fwd" {
		return s.Iss
	}
	return ""
}

// onto renders the issuer a reference (https, no path) derives in the scheme and with the path of spec s.
func (s issSpec) onto(refIssuer string) string {
	if s.Iss == "" {
		return refIssuer
	}
	if s.Insecure {
		refIssuer = "http://" + strings.TrimPrefix(refIssuer, "https://")
	}
	if s.Path != "" && !strings.HasPrefix(s.Path, "/") {
		return refIssuer + "/" + s.Path
	}
	return refIssuer + s.Path
}

// header names an application may hand to WithIssuerFromCustomHeaders, in the spellings it may use
var customHeaderPool = []string{"x-forwarded-host", "X-Tenant-Host", "x-original-host", "Forwarded", "X-Forwarded-Host", "x-tenant-host"}

type issProbe struct {
	name    string
	host    string // "" = the instance's own host
	hdr     http.Header
	handler bool // also sent to a provider's discovery endpoint (every probe is put to its IssuerFromRequest)
}

// The first and the last probe name the same host for every instance: whatever an instance keeps from the request it saw
// last meets the next instance.
var issuerProbes = []issProbe{
	{"other-host", "alt.example.net", nil, true},
	{"own-host", "", nil, false},
	{"forwarded", "", http.Header{"Forwarded": {"host=fwd.example.org;proto=https"}}, true},
	{"x-forwarded-host", "", http.Header{"X-Forwarded-Host": {"host=xfh.example.org"}}, false},
	{"x-tenant-host", "", http.Header{"X-Tenant-Host": {"host=tenant.example.org"}}, false},
	{"x-original-host", "", http.Header{"X-Original-Host": {"host=orig.example.org"}}, false},
	{"forwarded+x-tenant-host", "", http.Header{"Forwarded": {"host=fwd.example.org"}, "X-Tenant-Host": {"host=tenant.example.org"}}, false},
	{"bare-values", "", http.Header{"Forwarded": {"for=192.0.2.1"}, "X-Forwarded-Host": {"bare.example.org"}}, false}, // no host field anywhere
	{"all-four", "alt.example.net", http.Header{"Forwarded": {"for=192.0.2.1;host=fwd.example.org"}, "X-Forwarded-Host": {"host=xfh.example.org"},
		"X-Tenant-Host": {"host=tenant.example.org"}, "X-Original-Host": {"host=orig.example.org"}}, true},
	{"other-host-again", "alt.example.net", nil, false},
}

// hostField is the harness's own reading of a Forwarded-style header value: the host= pair of a ';' separated list.
func hostField(v string) (string, bool) {
	for _, pair := range strings.Split(v, ";") {
		pair = strings.TrimSpace(pair)
		if len(pair) > 5 && strings.EqualFold(pair[:5], "host=") {
			return strings.Trim(pair[5:], `"`), true
		}
	}
	return "", false
}

// modelIssuer: what the documentation of the issuer functions says (first host field of the first configured header that has
// one, else the request's Host).
func modelIssuer(s issSpec, host string, hdr http.Header) string {
	if s.Iss == "" {
		return s.Static
	}
	scheme := "https://"
	if s.Insecure {
		scheme = "http://"
	}
	path := s.Path
	if path != "" && !strings.HasPrefix(path, "/") {
		path = "/" + path
	}
	var names []string
	switch s.Iss {
	case "fwd":
		names = []string{"Forwarded"}
	case "fwdc":
		for _, h := range s.Hdrs {
			names = append(names, http.CanonicalHeaderKey(h))
		}
	}
	for _, n := range names {
		for _, v := range hdr[n] {
			if h, ok := hostField(v); ok {
				return scheme + h + path
			}
		}
	}
	return scheme + host + path
}

// issuerFunc builds the issuer function of a spec. hdrs is the caller's own slice (handed to the option as hdrs...).
func issuerFunc(s issSpec, hdrs []string) func(bool) (op.IssuerFromRequest, error) {
	switch s.Iss {
	case "host":
		return op.IssuerFromHost(s.Path)
	case "fwd":
		return op.IssuerFromForwardedOrHost(s.Path)
	case "fwdc":
		return op.IssuerFromForwardedOrHost(s.Path, op.WithIssuerFromCustomHeaders(hdrs...))
	}
	return op.StaticIssuer(s.Static)
}

// issInst is an issuer function on its own.
type issInst struct {
	name string
	spec issSpec
	host string
	fn   op.IssuerFromRequest
	vec  map[string]string // probe -> issuer, as recorded when the instance was built
}

func probeRequest(p issProbe, ownHost string) *http.Request {
	host := p.host
	if host == "" {
		host = ownHost
	}
	r := httptest.NewRequest("GET", "http://"+host+"/.well-known/openid-configuration", nil)
	r.Host = host
	for k, v := range p.hdr {
		r.Header[k] = slices.Clone(v)
	}
	return r
}

func (i *issInst) behaviour() map[string]string {
	vec := map[string]string{}
	for _, p := range issuerProbes {
		vec[p.name] = i.fn(probeRequest(p, i.host))
	}
	return vec
}

func modelVec(s issSpec, ownHost string) map[string]string {
	vec := map[string]string{}
	for _, p := range issuerProbes {
		host := p.host
		if host == "" {
			host = ownHost
		}
		vec[p.name] = modelIssuer(s, host, p.hdr)
	}
	return vec
}

func vecDiff(was, now map[string]string) string {
	var l []string
	for _, p := range issuerProbes {
		if was[p.name] != now[p.name] {
			l = append(l, fmt.Sprintf("request %s: issuer %s, was %s", p.name, now[p.name], was[p.name]))
		}
	}
	return strings.Join(l, "; ")
}

// vecAgainst compares the issuers an instance derives with those expected of its options; the expectation for a request is
// expressed relative to the instance's own host (references live on another host).
func vecAgainst(s issSpec, got, want map[string]string, gotHost, wantHost string) string {
	var l []string
	for _, p := range issuerProbes {
		w := strings.ReplaceAll(want[p.name], wantHost, gotHost)
		if wantHost != gotHost {
			w = s.onto(w) // want comes from a reference
		}
		if got[p.name] != w {
			l = append(l, fmt.Sprintf("request %s: issuer %s, want %s", p.name, got[p.name], w))
		}
	}
	return strings.Join(l, "; ")
}

// newIssuerFn builds an issuer function instance (step issuer_fn and the references of a case).
func (e *orderEnv) newIssuerFn(name string, s issSpec) (*issInst, error) {
	hdrs := slices.Clone(s.Hdrs)
	if s.Iss == "fwdc" {
		e.ownedHeaders(name, hdrs)
	}
	fn, err := issuerFunc(s, hdrs)(s.Insecure)
	if err != nil {
		return nil, err
	}
	i := &issInst{name: name, spec: s, host: fmt.Sprintf("fn%d.example.com", len(e.issuers)), fn: fn}
	i.vec = i.behaviour()
	e.issuers = append(e.issuers, i)
	return i, nil
}

// ownedHeaders enters a caller-owned header list into the snapshots (it was handed to an option as list...).
func (e *orderEnv) ownedHeaders(name string, hdrs []string) {
	n := "issuer-headers-of-" + name
	e.hdrLists = append(e.hdrLists, ownedList{n, hdrs})
	e.prev[n] = sliceState(hdrs)
	e.start[n] = e.prev[n]
}

type ownedList struct {
	name string
	l    []string
}

// bornCheck: an instance built just now derives its issuer as its own options say.
func (e *orderEnv) bornCheck(s issSpec, vec map[string]string, host string) string {
	if ref, ok := e.refs[s.refKey()]; ok && s.refKey() != "" {
		return vecAgainst(s, vec, ref.vec, host, ref.host)
	}
	return vecAgainst(s, vec, modelVec(s, host), host, host)
}

// ---- generation ----------------------------------------------------------------------------------------

func genIssuer(t *rapid.T, s *Step, provider bool) {
	s.Iss = rapid.SampledFrom([]string{"", "fwd", "fwdc", "host", "fwdc", "fwd", ""}).Draw(t, "iss")
	if !provider && s.Iss == "" {
		s.Iss = "fwd"
	}
	if s.Iss == "fwdc" {
		n := rapid.SampledFrom([]int{1, 1, 2}).Draw(t, "nhdrs")
		s.Hdrs = rapid.Permutation(customHeaderPool).Draw(t, "hdrs")[:n]
	}
	if !provider {
		s.Path = rapid.SampledFrom([]string{"", "", "/t1", "t2"}).Draw(t, "path")
		s.Insecure = rapid.IntRange(0, 3).Draw(t, "insecure") == 0
	}
}

func specOf(s Step, static string) issSpec {
	iss := s.Iss
	switch iss {
	case "", "host", "fwd", "fwdc":
	default:
		iss = ""
	}
	if iss == "fwdc" && len(s.Hdrs) == 0 {
		iss = "fwd"
	}
	return issSpec{Iss: iss, Hdrs: s.Hdrs, Path: s.Path, Insecure: s.Insecure, Static: static}
}

// ---- further behaviour of a provider, through its handler only --------------------------------------------

// corsOptions is the caller-supplied CORS configuration of a provider (prov step with CORS == 1).
func corsOptions() *cors.Options {
	return &cors.Options{AllowedOrigins: []string{"https://app.example.com"}, AllowedMethods: []string{"GET", "POST"}, AllowedHeaders: []string{"Authorization"}, MaxAge: 60}
}

func headerLine(h http.Header, names ...string) string {
	var l []string
	for _, n := range names {
		if v, ok := h[n]; ok {
			l = append(l, n+"="+strings.Join(v, ","))
		}
	}
	return strings.Join(l, " ")
}

// extraBehaviour: the issuer per probe request, the CORS policy, the key set and the answers to a few fixed bad requests.
// The issuer per probe request is asked of the provider directly (Provider.IssuerFromRequest, what its router puts into the
// request context) after every step; the rest (full) after constructor steps and the last step of a case.
func (e *orderEnv) extraBehaviour(p *provInst, full bool) (iss map[string]string, other map[string]string) {
	iss, other = map[string]string{}, map[string]string{}
	for _, pr := range issuerProbes {
		iss[pr.name] = p.provider.IssuerFromRequest(probeRequest(pr, p.ag.Host))
	}
	if !full {
		return iss, p.other
	}
	for _, pr := range issuerProbes {
		if !pr.handler {
			continue
		}
		ag := *p.ag
		if pr.host != "" {
			ag.Host = pr.host
		}
		d := ag.Get("/.well-known/openid-configuration", nil, pr.hdr)
		doc := d.JSON()
		other["discovery@"+pr.name] = fmt.Sprintf("%d issuer=%v token_endpoint=%v jwks_uri=%v", d.Status, doc["issuer"], doc["token_endpoint"], doc["jwks_uri"])
	}
	for _, origin := range []string{"https://app.example.com", "https://other.example.net"} {
		r := p.ag.Get("/.well-known/openid-configuration", nil, http.Header{"Origin": {origin}})
		other["cors-get@"+origin] = headerLine(r.Header, "Access-Control-Allow-Origin", "Access-Control-Allow-Credentials", "Vary")
		req := httptest.NewRequest("OPTIONS", "http://"+p.ag.Host+p.ag.S.Paths["token"], nil)
		req.Host = p.ag.Host
		req.Header.Set("Origin", origin)
		req.Header.Set("Access-Control-Request-Method", "POST")
		req.Header.Set("Access-Control-Request-Headers", "authorization")
		pre := vkit.Serve(p.ag.S.Handler, p.ag.S.Store, req)
		other["cors-preflight@"+origin] = fmt.Sprintf("%d %s", pre.Status, headerLine(pre.Header, "Access-Control-Allow-Origin", "Access-Control-Allow-Methods", "Access-Control-Allow-Headers", "Access-Control-Allow-Credentials", "Access-Control-Max-Age"))
	}
	k := p.ag.Keys()
	other["keys"] = fmt.Sprintf("%d %s", k.Status, k.Body)
	t := p.ag.Token(map[string][]string{"grant_type": {"nonsense"}}, vkit.RightCred(p.store.Clients["web"], p.issuer))
	other["token:unknown-grant"] = refusalLine(t)
	a := p.ag.Authorize(map[string][]string{"client_id": {"nobody"}, "redirect_uri": {rpRedirect}, "response_type": {"code"}, "scope": {"openid"}, "state": {"fp"}})
	other["authorize:unknown-client"] = refusalLine(a)
	u := p.ag.Get(p.ag.S.Paths["userinfo"], nil, nil)
	other["userinfo:no-token"] = refusalLine(u)
	return iss, other
}

// refusalLine renders the answer to a bad request: status and body of a refusal. Where the path is answered by something
// else (two endpoints of one provider on one path), the answer may carry fresh values: only its status is kept.
func refusalLine(r *vkit.Resp) string {
	if r.Status < 400 {
		return fmt.Sprintf("%d", r.Status)
	}
	return fmt.Sprintf("%d %s", r.Status, strings.TrimSpace(string(r.Body)))
}

// bornLike: a provider built just now answers like provider 0 (built with defaults before anything else) wherever its own
// options do not say otherwise: CORS policy (own CORS option absent, same router), key set (same key), the refusals of bad
// requests (Provider router; not while the known defect has moved the package's default endpoints, which decides where
// those requests go).
func (e *orderEnv) bornLike(p *provInst, s Step, epDirty bool) string {
	p0 := e.provs[0]
	if p == p0 {
		return ""
	}
	var l []string
	for k, was := range p0.other0 {
		switch {
		case strings.HasPrefix(k, "cors-"):
			if s.CORS != 0 || p.router != p0.router {
				continue
			}
		case k == "keys":
			if epDirty || len(s.EP) > 0 || s.Bulk || p.sign != p0.sign { // the key set is what the provider's own storage publishes
				continue
			}
		case strings.HasPrefix(k, "token:") || strings.HasPrefix(k, "authorize:") || strings.HasPrefix(k, "userinfo:"):
			if p.router != p0.router || epDirty || len(s.EP) > 0 || s.Bulk {
				continue
			}
		default:
			continue
		}
		want := strings.ReplaceAll(was, hostOf(p0.issuer), hostOf(p.issuer))
		if got := p.other[k]; got != want {
			l = append(l, fmt.Sprintf("%s: %q, provider 0 answered %q when it was built", k, got, want))
		}
	}
	sort.Strings(l)
	return strings.Join(l, "; ")
}

func mapDiff(was, now map[string]string) string {
	var l []string
	for k, v := range was {
		if now[k] != v {
			l = append(l, fmt.Sprintf("%s: %q, was %q", k, now[k], v))
		}
	}
	sort.Strings(l)
	return strings.Join(l, "; ")
}

// ---- behaviour of client-side instances (what they tell without a request) ----------------------------------

func rpBehaviour(r rp.RelyingParty) string {
	cfg := r.OAuthConfig()
	return fmt.Sprintf("client=%s issuer=%s authurl=%s token=%s userinfo=%s endsession=%s revoke=%s deviceauth=%s pkce=%v signer-nil=%v",
		ptr(r.HttpClient()), r.Issuer(), rp.AuthURL("fp-state", r), cfg.Endpoint.TokenURL, r.UserinfoEndpoint(), r.GetEndSessionEndpoint(), r.GetRevokeEndpoint(),
		r.GetDeviceAuthorizationEndpoint(), r.IsPKCE(), r.Signer() == nil)
}

func rsBehaviour(r rs.ResourceServer) string {
	return fmt.Sprintf("client=%s introspection=%s token=%s", ptr(r.HttpClient()), r.IntrospectionURL(), r.TokenEndpoint())
}

func teBehaviour(t tokenexchange.TokenExchanger) string {
	return fmt.Sprintf("client=%s token=%s", ptr(t.HttpClient()), t.TokenEndpoint())
}
