package c20

import (
	"context"
	"fmt"
	"net/http"
	"net/http/cookiejar"
	"net/http/httptest"
	"net/url"
	"slices"
	"sort"
	"strings"
	"time"

	jose "github.com/go-jose/go-jose/v4"
	"github.com/rs/cors"
	"golang.org/x/oauth2"
	"pgregory.net/rapid"

	"github.com/zitadel/oidc/v3/pkg/client"
	"github.com/zitadel/oidc/v3/pkg/client/profile"
	"github.com/zitadel/oidc/v3/pkg/client/rp"
	"github.com/zitadel/oidc/v3/pkg/client/rs"
	"github.com/zitadel/oidc/v3/pkg/client/tokenexchange"
	httphelper "github.com/zitadel/oidc/v3/pkg/http"
	"github.com/zitadel/oidc/v3/pkg/oidc"
	"github.com/zitadel/oidc/v3/pkg/op"

	"verif/harness/vkit"
)

// Step is one step of a construction / call order.
type Step struct {
	K string `json:"k"`
	// prov
	Router string                       `json:"router,omitempty"`
	EP     map[string]vkit.EndpointSpec `json:"ep,omitempty"`   // endpoints customised by this provider's own options
	Bulk   bool                         `json:"bulk,omitempty"` // op.WithCustomEndpoints instead of the single-endpoint options
	// prov and issuer_fn: how the issuer is derived (see issuers_test.go)
	Iss      string   `json:"iss,omitempty"`      // "" static | host | fwd | fwdc
	Hdrs     []string `json:"hdrs,omitempty"`     // fwdc: the header names handed to op.WithIssuerFromCustomHeaders, as the caller spells them
	Path     string   `json:"path,omitempty"`     // issuer_fn: issuer path
	Insecure bool     `json:"insecure,omitempty"` // issuer_fn: allowInsecure
	Ctor     int      `json:"ctor,omitempty"`     // prov: 1 = through the wrapper constructor of the strategy (NewOpenIDProvider / NewDynamicOpenIDProvider / NewForwardedOpenIDProvider)
	CORS     int      `json:"cors,omitempty"`     // prov: 0 default CORS policy, 1 caller-supplied *cors.Options, 2 CORS switched off (nil)
	Cfg      *ProvCfg `json:"cfg,omitempty"`      // prov: the provider's op.Config (nil: the zero configuration, see config_test.go)
	Sign     *SignSpec `json:"sign,omitempty"`    // prov: the signing key, algorithm and key ID of the provider's storage (nil: p256a / ES256 / "sig1", as provider 0)
	// client-side constructors
	P      int `json:"p,omitempty"`      // provider the instance talks to (mod number of providers)
	Client int `json:"client,omitempty"` // 0: the package default client; 1..2: caller-supplied client #n (shared by every instance that names it)
	Opt    int `json:"opt,omitempty"`    // variant bits
	// calls
	I int `json:"i,omitempty"` // instance index (mod number of instances of that kind)
}

var stepKinds = []struct {
	k string
	w int
}{
	{"prov", 6}, {"issuer_fn", 3}, {"rp_oidc", 4}, {"rp_oauth", 2}, {"rs", 2}, {"te", 2}, {"keyset", 3}, {"discover", 2},
	{"endsession", 4}, {"revoke", 3}, {"userinfo", 2}, {"codeexchange", 2}, {"introspect", 1}, {"exchange", 1},
	{"devicepoll", 2}, {"op_requests", 2},
	// helpers that take arguments of reference type; they are handed the long-lived argument objects of the case (args_test.go)
	{"clientcreds", 4}, {"authurl", 1}, {"deviceauth", 2}, {"refresh", 1}, {"callraw", 2}, {"tokensource", 1}, {"formrequest", 1}, {"handlers", 1},
}

var stepKindList = func() []string {
	var l []string
	for _, s := range stepKinds {
		for i := 0; i < s.w; i++ {
			l = append(l, s.k)
		}
	}
	return l
}()

var customPaths = []string{"auth", "/custom/token", "oauth/v2/keys", "/x/y/z", "logout", "/userinfo2"}

// every path a provider of a case can route: the probe universe
var allPaths = func() []string {
	seen := map[string]bool{}
	var l []string
	add := func(p string) {
		p = "/" + strings.TrimPrefix(p, "/")
		if !seen[p] {
			seen[p] = true
			l = append(l, p)
		}
	}
	for _, n := range vkit.EndpointNames {
		add(defaultPaths[n])
	}
	for _, p := range customPaths {
		add(p)
	}
	add("/authorize/callback")
	add("/auth/callback")
	sort.Strings(l)
	return l
}()

func genOrder(t *rapid.T) Case {
	c := Case{Kind: "order"}
	n := rapid.IntRange(2, vkit.Scale(8, 12)).Draw(t, "n")
	for i := 0; i < n; i++ {
		s := Step{K: rapid.SampledFrom(stepKindList).Draw(t, "k")}
		switch s.K {
		case "prov":
			s.Router = rapid.SampledFrom([]string{"provider", "provider", "legacy"}).Draw(t, "router")
			ncustom := rapid.SampledFrom([]int{0, 0, 1, 1, 2, 3}).Draw(t, "ncustom")
			// distinct endpoints on distinct paths (two endpoints on one path is a configuration error, not an input of interest)
			names := rapid.Permutation(vkit.EndpointNames).Draw(t, "eps")[:ncustom]
			paths := rapid.Permutation(customPaths).Draw(t, "paths")[:ncustom]
			for j, name := range names {
				e := vkit.EndpointSpec{Path: paths[j]}
				if rapid.IntRange(0, 4).Draw(t, "url") == 0 {
					e.URL = "self" // resolved in run: the provider's own issuer + path + "?via=url" (absolute form given explicitly)
				}
				if s.EP == nil {
					s.EP = map[string]vkit.EndpointSpec{}
				}
				s.EP[name] = e
			}
			s.Bulk = s.Router == "provider" && rapid.IntRange(0, 3).Draw(t, "bulk") == 0
			genIssuer(t, &s, true)
			if rapid.IntRange(0, 3).Draw(t, "ctor") == 0 {
				s.Ctor = 1
			}
			s.CORS = rapid.SampledFrom([]int{0, 0, 0, 1, 1, 2}).Draw(t, "cors")
			if rapid.IntRange(0, 5).Draw(t, "owncfg") > 0 {
				s.Cfg = genProvCfg(t, "cfg-")
			}
			if rapid.IntRange(0, 3).Draw(t, "ownsign") > 0 {
				s.Sign = genSign(t, "sign-", "ES256")
			}
		case "issuer_fn":
			genIssuer(t, &s, false)
		case "rp_oidc", "rp_oauth", "rs", "te", "keyset", "discover":
			s.P = rapid.IntRange(0, 3).Draw(t, "p")
			s.Client = rapid.SampledFrom([]int{1, 1, 2, 0, 0}).Draw(t, "client")
			s.Opt = rapid.IntRange(0, 7).Draw(t, "opt")
			if s.K == "rp_oidc" || s.K == "rp_oauth" {
				// how the client is registered: with a secret (0), with a key = rp.WithJWTProfile (8), public (16)
				s.Opt |= rapid.SampledFrom([]int{0, 0, 8, 8, 16}).Draw(t, "registration")
			}
		case "clientcreds", "authurl", "deviceauth", "refresh", "callraw", "tokensource", "formrequest", "handlers":
			s.I = rapid.IntRange(0, 3).Draw(t, "i")
			s.P = rapid.IntRange(0, 3).Draw(t, "p")
			s.Client = rapid.SampledFrom([]int{0, 0, 1, 1, 2}).Draw(t, "client")
			s.Opt = rapid.IntRange(0, 7).Draw(t, "opt")
		default:
			s.I = rapid.IntRange(0, 3).Draw(t, "i")
			s.P = rapid.IntRange(0, 3).Draw(t, "p")
			s.Client = rapid.SampledFrom([]int{0, 0, 1, 1, 2}).Draw(t, "client")
			s.Opt = rapid.IntRange(0, 3).Draw(t, "opt")
		}
		c.Steps = append(c.Steps, s)
	}
	for i := 0; i < 2; i++ {
		c.Clients = append(c.Clients, SuppliedClient{
			TimeoutS:      rapid.SampledFrom([]int{0, 0, 0, 5, 30, 300}).Draw(t, "timeout"),
			Jar:           rapid.IntRange(0, 2).Draw(t, "jar") == 0,
			CheckRedirect: rapid.IntRange(0, 2).Draw(t, "cr") == 0,
		})
	}
	return c
}

// ---- instances -----------------------------------------------------------------------------------------

type provInst struct {
	idx      int
	issuer   string
	router   string
	ep       map[string]vkit.EndpointSpec
	store    *vkit.Store
	cfg      *op.Config
	pcfg     *ProvCfg
	built    *builtCfg
	dev0     devAnswer
	devFP    string            // device authorization answer right after construction, own codes left aside (devAnswer.norm)
	light    map[string]string // key set and the answer to a fixed bad token request right after construction (asked again after every step)
	provider *op.Provider
	ag       *vkit.Agent
	spec     issSpec
	cors     *cors.Options
	iss      map[string]string // issuer per probe request right after construction
	other    map[string]string // further behaviour right after construction (see extraBehaviour)
	other0   map[string]string // the same, never updated (provider 0 is what later providers are compared with)
	disc     string            // discovery document right after construction
	disc0    string            // the same, never updated
	routes   map[string]int    // status of a GET on every path of the probe universe right after construction
	tok      *tokSet
	sign     vkit.SignKeySpec // what the provider's storage signs with and publishes
	// keyProblem: why a token the provider issued at the latest probe did not verify with the key set it published ("" = it did)
	keyProblem string
}

type rpInst struct {
	fp     string // what the instance tells about itself right after construction
	r      rp.RelyingParty
	p      *provInst
	client int
	oauth  bool
	// how the client is registered at the provider: "web" (secret), keyWebID (key and secret, rp.WithJWTProfile), "native" (public)
	clientID string
}

type rsInst struct {
	fp     string
	r      rs.ResourceServer
	p      *provInst
	client int
}

type teInst struct {
	fp     string
	t      tokenexchange.TokenExchanger
	p      *provInst
	client int
}

type orderEnv struct {
	ctx      context.Context
	rt       *inproc
	supplied []*http.Client
	provs    []*provInst
	rps      []*rpInst
	rss      []*rsInst
	tes      []*teInst
	issuers  []*issInst          // issuer functions built on their own (references first)
	refs     map[string]*issInst // the issuer functions built with default options before anything else, by issSpec.refKey
	hdrLists []ownedList         // header lists handed to op.WithIssuerFromCustomHeaders
	scopes   [][]string          // scope slices handed to NewRelyingPartyOIDC
	follow   []bool              // per client (0 = default): did Discover through a redirect succeed at the start of the case
	start    snapshot
	prev     snapshot
	res      *vkit.Result
	conseq   map[string]bool
	lastFn   *issInst // the issuer function the current step built
	devAll   []devAnswer // every device authorization answer of the case
	args     *callerArgs // the long-lived argument objects of the case (args_test.go)
	owned    []ownedArg  // further caller-supplied objects, entered when they were handed over (option lists, endpoints, cookie handlers)
	// sticky: names that changed at some step of this case (a later step may put the old value back, but instances built
	// or used in between keep what they saw)
	everChanged map[string]bool
}

var origDefaultClient = httphelper.DefaultHTTPClient

// defaultSign: the signing configuration of provider 0, of the closing provider and of every provider step without one of its own
var defaultSign = vkit.SignKeySpec{KeyName: "p256a", Alg: "ES256", KID: "sig1"}

func (e *orderEnv) clientOf(i int) *http.Client {
	if i <= 0 || i > len(e.supplied) {
		return httphelper.DefaultHTTPClient
	}
	return e.supplied[i-1]
}

func clientName(i int) string {
	if i <= 0 {
		return "httphelper.DefaultHTTPClient"
	}
	return fmt.Sprintf("supplied-client-%d", i)
}

func (e *orderEnv) take() snapshot {
	s := takeGlobals()
	for i, c := range e.supplied {
		s.addClient(clientName(i+1), c)
	}
	for _, p := range e.provs {
		for k, v := range p.built.state(fmt.Sprintf("provider-%d", p.idx)) {
			s[k] = v
		}
	}
	for i, sc := range e.scopes {
		s[fmt.Sprintf("scopes-of-rp-%d", i)] = sliceState(sc)
	}
	for _, p := range e.provs {
		if p.cors != nil {
			s[fmt.Sprintf("cors.Options-of-provider-%d", p.idx)] = fmt.Sprintf("%+v", *p.cors)
		}
	}
	for _, l := range e.hdrLists {
		s[l.name] = sliceState(l.l)
	}
	if e.args != nil {
		for k, v := range e.args.state() {
			s[k] = v
		}
	}
	for _, o := range e.owned {
		s[o.name] = deepState(o.obj)
	}
	return s
}

// own enters a caller-supplied object into the snapshots at the moment it is handed to the library.
func (e *orderEnv) own(name string, obj any) {
	e.owned = append(e.owned, ownedArg{name, obj})
	e.prev[name] = deepState(obj)
	e.start[name] = e.prev[name]
}

func orderClients() []*vkit.ClientSpec {
	return conClients(Case{})
}

func expectedPath(ep map[string]vkit.EndpointSpec, name string) string {
	if e, ok := ep[name]; ok && e.Path != "" {
		return "/" + strings.TrimPrefix(e.Path, "/")
	}
	return defaultPaths[name]
}

func mkEP(iss string, e vkit.EndpointSpec) *op.Endpoint {
	if e.URL == "self" {
		return op.NewEndpointWithURL(e.Path, iss+"/"+strings.TrimPrefix(e.Path, "/")+"?via=url")
	}
	if e.URL != "" {
		return op.NewEndpointWithURL(e.Path, e.URL)
	}
	return op.NewEndpoint(e.Path)
}

// newProvider builds provider #idx with op.NewProvider directly (side effects on package state are the point).
func (e *orderEnv) newProvider(s Step) (*provInst, error) {
	idx := len(e.provs)
	p := &provInst{idx: idx, issuer: fmt.Sprintf("https://op%d.example.com", idx), router: s.Router, ep: s.EP, pcfg: s.Cfg}
	p.built = s.Cfg.build(p.issuer)
	p.cfg = p.built.cfg
	p.spec = specOf(s, p.issuer)
	p.spec.Path, p.spec.Insecure = "", false // the provider is mounted at the root of its host
	if p.router != "legacy" {
		p.router = "provider"
	}
	p.sign = s.Sign.spec(defaultSign)
	p.store = vkit.NewStore(orderClients(), p.sign,
		vkit.StorePolicy{ExtraAudience: []string{"api", "apijwt"}, TE: vkit.TEPolicy{DefaultType: "access"}})
	p.store.NoJournal = true
	opts := baseOpts(p.sign.Alg)
	legacyEP := vkit.PristineEndpoints()
	names := make([]string, 0, len(s.EP))
	for n := range s.EP {
		names = append(names, n)
	}
	sort.Strings(names)
	if s.Bulk && p.router == "provider" {
		get := func(n string) *op.Endpoint {
			if spec, ok := s.EP[n]; ok {
				return mkEP(p.issuer, spec)
			}
			return op.NewEndpoint(defaultPaths[n])
		}
		opts = append(opts, op.WithCustomEndpoints(get("authorization"), get("token"), get("userinfo"), get("revocation"), get("end_session"), get("keys")))
		for _, n := range names {
			if n == "introspection" || n == "device_authorization" {
				opts = append(opts, endpointOption(n, mkEP(p.issuer, s.EP[n])))
			}
		}
	} else {
		for _, n := range names {
			ep := mkEP(p.issuer, s.EP[n])
			e.own(fmt.Sprintf("arg:endpoint#%d/%s", idx, n), ep)
			setEndpoint(&legacyEP, n, ep)
			if p.router == "provider" {
				opts = append(opts, endpointOption(n, ep))
			}
		}
	}
	// the caller's Config as it was handed in: constructing and using the provider must leave it alone
	for k, v := range p.built.state(fmt.Sprintf("provider-%d", idx)) {
		e.prev[k], e.start[k] = v, v
	}
	switch s.CORS {
	case 1:
		p.cors = corsOptions()
		corsName := fmt.Sprintf("cors.Options-of-provider-%d", idx)
		e.prev[corsName] = fmt.Sprintf("%+v", *p.cors)
		e.start[corsName] = e.prev[corsName]
		opts = append(opts, op.WithCORSOptions(p.cors))
	case 2:
		opts = append(opts, op.WithCORSOptions(nil))
	}
	hdrs := slices.Clone(p.spec.Hdrs)
	if p.spec.Iss == "fwdc" {
		e.ownedHeaders(fmt.Sprintf("provider-%d", idx), hdrs)
	}
	storage := wrapStorage(p.store.Shaped(vkit.FullCaps))
	// the option list is the caller's as well (handed over as opts...)
	e.own(fmt.Sprintf("arg:provider-options#%d", idx), opts)
	var err error
	switch {
	case s.Ctor == 1 && p.spec.Iss == "":
		p.provider, err = op.NewOpenIDProvider(p.issuer, p.cfg, storage, opts...)
	case s.Ctor == 1 && p.spec.Iss == "host":
		p.provider, err = op.NewDynamicOpenIDProvider("", p.cfg, storage, opts...)
	case s.Ctor == 1 && p.spec.Iss == "fwd":
		p.provider, err = op.NewForwardedOpenIDProvider("", p.cfg, storage, opts...)
	default:
		p.provider, err = op.NewProvider(p.cfg, storage, issuerFunc(p.spec, hdrs), opts...)
	}
	if err != nil {
		return nil, err
	}
	var h http.Handler = p.provider
	if p.router == "legacy" {
		h = op.RegisterLegacyServer(op.NewLegacyServer(p.provider, legacyEP), op.AuthorizeCallbackHandler(p.provider), op.WithFallbackLogger(vkit.DiscardLogger()))
	}
	paths := map[string]string{}
	for _, n := range vkit.EndpointNames {
		paths[n] = expectedPath(s.EP, n)
	}
	host := hostOf(p.issuer)
	sut := &vkit.SUT{Spec: vkit.DefaultProviderSpec(p.router), Store: p.store, Provider: p.provider, Handler: h, Paths: paths, Host: host}
	sut.Spec.Issuer = p.issuer
	p.ag = vkit.NewAgent(sut)
	e.rt.routes[host] = route{h, p.store}
	e.provs = append(e.provs, p)
	p.disc, p.routes = e.behaviour(p, true)
	p.disc0 = p.disc
	p.iss, p.other = e.extraBehaviour(p, true)
	p.other0 = p.other
	p.light = e.lightBehaviour(p)
	p.dev0 = e.deviceAsk(p, "its construction", 1)[0]
	p.devFP = p.dev0.norm()
	return p, nil
}

// behaviour observes what a provider advertises and routes, through its handler only.
// The routing table (one GET per path of the probe universe) is re-probed after constructor steps and after the last
// step of a case; the discovery document after every step.
func (e *orderEnv) behaviour(p *provInst, withRoutes bool) (string, map[string]int) {
	d := p.ag.Discovery()
	routes := p.routes
	if withRoutes {
		routes = map[string]int{}
		for _, path := range allPaths {
			routes[path] = p.ag.Get(path, nil, nil).Status
		}
	}
	return fmt.Sprintf("%d %s", d.Status, d.Body), routes
}

func (e *orderEnv) tokenOf(p *provInst) (*tokSet, string) {
	if p.tok != nil {
		return p.tok, ""
	}
	ts, m := driver{p.ag, p.issuer, p.store.Login}.mint(p.store.Clients["web"], "u1", fmt.Sprintf("order-p%d", p.idx), true)
	if m != "" {
		return nil, m
	}
	p.tok = &ts
	// the ID token of the real flow verifies with the key set the provider publishes
	if k := p.ag.Keys(); k.Success() && strings.Count(ts.IDT, ".") == 2 {
		if why := verifiesWithKeySet(k.Body, ts.IDT); why != "" {
			p.keyProblem = fmt.Sprintf("the ID token of a code flow on provider %d just now: %s", p.idx, why)
		}
		e.res.Label("own-keys:id-token-checked")
	}
	return p.tok, ""
}

// follows reports whether Discover through a redirecting URL succeeds on client #i (against provider 0).
func (e *orderEnv) follows(i int) bool {
	p0 := e.provs[0]
	_, err := client.Discover(e.ctx, p0.issuer, e.clientOf(i), "https://redir."+hostOf(p0.issuer)+oidc.DiscoveryEndpoint)
	return err == nil
}

// ---- the per-step judgement ---------------------------------------------------------------------------

type finding struct {
	fp, msg string
}

func rootOf(name string) string {
	if strings.HasPrefix(name, "arg:") {
		return argRoot(name)
	}
	for _, sep := range []string{".CheckRedirect", ".Transport", ".Jar", ".Timeout"} {
		if i := strings.Index(name, sep); i > 0 {
			return name[:i] + sep
		}
	}
	if strings.HasPrefix(name, "op.DefaultEndpoints") {
		return "op.DefaultEndpoints"
	}
	if i := strings.Index(name, "-of-provider-"); i > 0 {
		return "caller's-" + name[:i]
	}
	return name
}

// judge compares state and behaviour after a step with what they were before it.
func (e *orderEnv) judge(si int, s Step, created *provInst, last bool) {
	cur := e.take()
	changed := e.prev.diff(cur)
	byFP := map[string][]string{}
	var order []string
	add := func(fp, line string) {
		if _, ok := byFP[fp]; !ok {
			order = append(order, fp)
		}
		byFP[fp] = append(byFP[fp], line)
	}
	for _, name := range changed {
		if _, had := e.prev[name]; !had {
			continue // a new object entered the snapshot with this step (supplied to a constructor just now)
		}
		line := fmt.Sprintf("%s: %s -> %s", name, e.prev[name], cur[name])
		switch {
		case strings.HasPrefix(name, "op.DefaultEndpoints"):
			if s.K == "prov" && len(s.EP) > 0 || s.K == "prov" && s.Bulk {
				add(fpDefaultEP, line)
			} else {
				add("C20:op.DefaultEndpoints-mutated-by:"+s.K, line)
			}
		case strings.HasPrefix(name, "issuer-headers-of-"):
			// the list the caller handed to op.WithIssuerFromCustomHeaders(list...) is the caller's
			add(fpCallerHeaders, line)
		case strings.HasPrefix(name, "cors.Options-of-"):
			add("C20:state-changed:caller-cors.Options:"+s.K, line)
		case strings.Contains(name, ".CheckRedirect"): // nil-ness or identity of the redirect policy
			switch s.K {
			case "endsession":
				add(fpEndSessionCR, line)
			case "revoke":
				add(fpRevokeCR, line)
			default:
				add("C20:CheckRedirect-overwritten:"+s.K, line)
			}
		default:
			add("C20:state-changed:"+rootOf(name)+":"+s.K, line)
		}
	}
	e.prev = cur
	for _, name := range changed {
		e.everChanged[name] = true
	}
	epDirty := e.changedBefore("op.DefaultEndpoints")

	// every live provider is USED after every step (what a provider writes, it may write at request time): device
	// authorization requests are answered as right after its construction - up to the codes of the answer itself - and
	// carry no code of any other request of the case; key set and a fixed refusal stay what they were
	for _, p := range e.provs {
		n := 1
		if p == created || last {
			n = 2
		}
		for _, d := range e.deviceAsk(p, fmt.Sprintf("step %d", si), n) {
			if l := d.foreignCodes(e.devAll); len(l) > 0 {
				e.res.Label("behaviour-changed:device-answer-carries-foreign-code")
				add(fpDevForeign, l[0])
			}
			if now := d.norm(); now != p.devFP {
				e.res.Label("behaviour-changed:device-answer")
				add(fpDevVaries, fmt.Sprintf("provider %d (%s) answers a device authorization request with {%s}; right after its construction the same request was answered {%s}", p.idx, describeCfg(p.pcfg), now, p.devFP))
			}
		}
		if p == created {
			continue
		}
		if d := mapDiff(p.light, e.lightBehaviour(p)); d != "" {
			e.res.Label("behaviour-changed:earlier-provider-light")
			add("C20:provider-behaviour-changed-by:"+s.K, fmt.Sprintf("provider %d answers differently than right after its construction: %s", p.idx, d))
		}
	}

	// a token a provider issues NOW verifies with the key set that provider publishes NOW, whichever providers signed before
	// it under whatever key IDs (asked of every live provider after every step, the one built just now included)
	for _, p := range e.provs {
		if p.keyProblem == "" {
			continue
		}
		if strings.HasPrefix(p.keyProblem, "unavailable:") {
			e.res.Label("own-keys:unavailable")
			continue
		}
		var others []string
		for _, q := range e.provs {
			if q != p {
				others = append(others, fmt.Sprintf("provider %d: %s", q.idx, signName(q.sign)))
			}
		}
		e.res.Label("behaviour-changed:token-not-verifiable-with-own-keys")
		add(fpNotOwnKeys, fmt.Sprintf("provider %d (storage signs with %s; the other providers of the process: %s): %s", p.idx, signName(p.sign), strings.Join(others, "; "), p.keyProblem))
		p.keyProblem = ""
	}

	// behaviour of every provider built before this step must be what it was right after its construction
	for _, p := range e.provs {
		if p == created {
			continue
		}
		full := last || s.K == "prov"
		disc, routes := e.behaviour(p, full)
		iss, other := e.extraBehaviour(p, full)
		if d := vecDiff(p.iss, iss); d != "" {
			p.iss = iss
			e.res.Label("behaviour-changed:earlier-provider-issuer")
			add("C20:issuer-derivation-changed-by:"+s.K, fmt.Sprintf("provider %d (built with %s) derives its issuer differently than right after its construction: %s", p.idx, p.spec, d))
		}
		var moved []string
		if full {
			if d := mapDiff(p.other, other); d != "" {
				moved = append(moved, fmt.Sprintf("provider %d answers differently: %s", p.idx, d))
			}
			p.other = other
		}
		if disc != p.disc {
			moved = append(moved, fmt.Sprintf("discovery document of provider %d (%s router, own options %v) changed: %s", p.idx, p.router, epNames(p.ep), docDiff(p.disc, disc)))
		}
		for _, path := range allPaths {
			if routes[path] != p.routes[path] {
				moved = append(moved, fmt.Sprintf("provider %d answers GET %s with %d, was %d", p.idx, path, routes[path], p.routes[path]))
			}
		}
		if len(moved) == 0 {
			continue
		}
		p.disc, p.routes = disc, routes
		e.res.Label("behaviour-changed:earlier-provider")
		attached := false
		for fp, l := range byFP {
			if strings.HasPrefix(fp, "C20:op.DefaultEndpoints-mutated-by:") {
				// the step moved the package default, and the providers that share it moved with it
				byFP[fp] = append(l, "consequence: "+strings.Join(moved, "; "))
				attached = true
			}
		}
		if attached {
			e.conseq["an earlier provider's discovery document moved"] = true
			e.res.Label("consequence:earlier-provider-moved")
			continue
		}
		add("C20:provider-behaviour-changed-by:"+s.K, strings.Join(moved, "; "))
	}

	// issuer functions built on their own keep deriving the issuer as they did
	for _, i := range e.issuers {
		if i == e.lastFn {
			continue
		}
		now := i.behaviour()
		if d := vecDiff(i.vec, now); d != "" {
			i.vec = now
			e.res.Label("behaviour-changed:earlier-issuer-function")
			add("C20:issuer-derivation-changed-by:"+s.K, fmt.Sprintf("issuer function %s (%s) derives the issuer differently than right after its construction: %s", i.name, i.spec, d))
		}
	}
	// an issuer function / provider built just now derives the issuer as its own options say, whatever was built before
	if i := e.lastFn; i != nil {
		if m := e.bornCheck(i.spec, i.vec, i.host); m != "" {
			e.res.Label("behaviour-changed:new-issuer-function")
			add("C20:issuer-derivation-not-by-own-options:"+s.K, fmt.Sprintf("issuer function %s, built after %d other issuer functions and %d providers: %s", i.spec, len(e.issuers)-1, len(e.provs), m))
		}
	}
	if created != nil {
		if m := e.bornCheck(created.spec, created.iss, hostOf(created.issuer)); m != "" {
			e.res.Label("behaviour-changed:new-provider-issuer")
			add("C20:issuer-derivation-not-by-own-options:"+s.K, fmt.Sprintf("provider %d built with %s, after %d issuer functions and %d providers: %s", created.idx, created.spec, len(e.issuers), created.idx, m))
		}
		if m := e.bornLike(created, s, epDirty); m != "" {
			e.res.Label("behaviour-changed:new-provider-not-like-first")
			add("C20:new-provider-differs-from-first-built-with-same-options:"+created.router, fmt.Sprintf("provider %d (%s), built after %d providers: %s", created.idx, describeStep(s), created.idx, m))
		}
		if l := append(created.pcfg.discoveryMismatch(jsonOf(created.disc0)), created.pcfg.deviceMismatch(created.issuer, created.dev0)...); len(l) > 0 {
			e.res.Label("behaviour-changed:new-provider-not-by-own-config")
			add(fpNotOwnConfig, fmt.Sprintf("provider %d (%s), built after %d providers, right after its construction: %s", created.idx, describeStep(s), created.idx, strings.Join(l, "; ")))
		}
		if m := e.bornLikeSameConfig(created, epDirty); m != "" {
			e.res.Label("behaviour-changed:new-provider-not-like-first-with-same-config")
			add("C20:new-provider-differs-from-first-built-with-same-configuration", fmt.Sprintf("provider %d (%s), built after %d providers: %s", created.idx, describeStep(s), created.idx, m))
		}
	}
	// client-side instances tell the same about themselves as right after their construction
	for k, r := range e.rps {
		if now := rpBehaviour(r.r); now != r.fp {
			add("C20:client-instance-changed-by:"+s.K, fmt.Sprintf("relying party %d: %s, was %s", k, now, r.fp))
			r.fp = now
		}
	}
	for k, r := range e.rss {
		if now := rsBehaviour(r.r); now != r.fp {
			add("C20:client-instance-changed-by:"+s.K, fmt.Sprintf("resource server %d: %s, was %s", k, now, r.fp))
			r.fp = now
		}
	}
	for k, x := range e.tes {
		if now := teBehaviour(x.t); now != x.fp {
			add("C20:client-instance-changed-by:"+s.K, fmt.Sprintf("token exchanger %d: %s, was %s", k, now, x.fp))
			x.fp = now
		}
	}

	// a provider built just now: endpoints it did not customise itself are the defaults, advertised and routed
	if created != nil {
		var wrong []string
		d := created.ag.Discovery()
		for _, n := range vkit.EndpointNames {
			if _, own := created.ep[n]; own {
				continue
			}
			if s.Bulk && n != "introspection" && n != "device_authorization" {
				continue
			}
			want := created.issuer + defaultPaths[n]
			if got := d.Str(discoveryMember[n]); got != want {
				wrong = append(wrong, fmt.Sprintf("advertises %s=%q, want the default %q", discoveryMember[n], got, want))
			}
			if st := created.routes[defaultPaths[n]]; st == http.StatusNotFound {
				wrong = append(wrong, fmt.Sprintf("does not route the default %s", defaultPaths[n]))
			}
		}
		if len(wrong) > 0 {
			e.res.Label("behaviour-changed:new-default-provider")
			msg := fmt.Sprintf("provider %d (%s router) built with own endpoint options %v, after %d earlier constructions: %s", created.idx, created.router, epNames(created.ep), created.idx, strings.Join(wrong, "; "))
			switch {
			case epDirty && created.router == "provider":
				// explained by the package default having been moved earlier in this case (reported at that step)
				e.conseq["a provider built later with defaults was born with moved endpoints"] = true
				e.res.Label("consequence:default-provider-born-moved")
				if l, ok := byFP[fpDefaultEP]; ok {
					byFP[fpDefaultEP] = append(l, "consequence: "+msg)
				}
			default:
				add("C20:default-provider-not-default:"+created.router, msg)
			}
		}
	}

	// redirects are followed on every client exactly as at the start of the case
	for i := 0; i <= len(e.supplied); i++ {
		now := e.follows(i)
		if now == e.follow[i] {
			continue
		}
		e.res.Label("behaviour-changed:redirect-following")
		line := fmt.Sprintf("consequence: Discover through a redirecting URL on %s %s before this step and %s after it", clientName(i), okWord(e.follow[i]), okWord(now))
		e.follow[i] = now
		attached := false
		for _, fp := range []string{fpEndSessionCR, fpRevokeCR} {
			if l, ok := byFP[fp]; ok {
				byFP[fp] = append(l, line)
				attached = true
			}
		}
		if !attached {
			for fp, l := range byFP {
				if strings.HasPrefix(fp, "C20:CheckRedirect-overwritten:") {
					byFP[fp] = append(l, line)
					attached = true
				}
			}
		}
		if !attached {
			add("C20:redirect-following-changed-by:"+s.K, line)
		}
	}

	for _, fp := range order {
		e.res.Fail(fp, "step %d (%s): %s", si, describeStep(s), strings.Join(byFP[fp], " | "))
	}
}

func (e *orderEnv) changedBefore(prefix string) bool {
	for n := range e.everChanged {
		if strings.HasPrefix(n, prefix) {
			return true
		}
	}
	return false
}

func okWord(b bool) string {
	if b {
		return "succeeded"
	}
	return "failed"
}

func epNames(ep map[string]vkit.EndpointSpec) []string {
	l := []string{}
	for n, e := range ep {
		l = append(l, n+"="+e.Path)
	}
	sort.Strings(l)
	return l
}

func describeStep(s Step) string {
	switch s.K {
	case "prov":
		return fmt.Sprintf("NewProvider %s router, endpoint options %v bulk=%v, issuer %s, ctor=%d cors=%d, config %s, signing %s", s.Router, epNames(s.EP), s.Bulk, specOf(s, "static"), s.Ctor, s.CORS, describeCfg(s.Cfg), signName(s.Sign.spec(defaultSign)))
	case "issuer_fn":
		return "issuer function " + specOf(s, "").String()
	case "rp_oidc", "rp_oauth", "rs", "te", "keyset", "discover":
		return fmt.Sprintf("construct %s on provider %d with %s opt=%d", s.K, s.P, clientName(s.Client), s.Opt)
	}
	return fmt.Sprintf("call %s i=%d p=%d %s", s.K, s.I, s.P, clientName(s.Client))
}

// docDiff names the members of two discovery documents that differ.
func docDiff(a, b string) string {
	ma, mb := jsonOf(a), jsonOf(b)
	var l []string
	for k, v := range ma {
		if fmt.Sprint(v) != fmt.Sprint(mb[k]) {
			l = append(l, fmt.Sprintf("%s %v -> %v", k, v, mb[k]))
		}
	}
	for k, v := range mb {
		if _, ok := ma[k]; !ok {
			l = append(l, fmt.Sprintf("%s (absent) -> %v", k, v))
		}
	}
	sort.Strings(l)
	if len(l) == 0 {
		return "status line / formatting"
	}
	return strings.Join(l, ", ")
}

func jsonOf(statusAndBody string) map[string]any {
	i := strings.Index(statusAndBody, " ")
	if i < 0 {
		return nil
	}
	r := &vkit.Resp{Body: []byte(statusAndBody[i+1:])}
	return r.JSON()
}

// ---- steps -------------------------------------------------------------------------------------------

func (e *orderEnv) prov(i int) *provInst {
	return e.provs[((i%len(e.provs))+len(e.provs))%len(e.provs)]
}

func (e *orderEnv) newRP(s Step) (*rpInst, error) {
	p := e.prov(s.P)
	var opts []rp.Option
	if s.Client > 0 {
		opts = append(opts, rp.WithHTTPClient(e.clientOf(s.Client)))
	}
	if s.Opt&1 == 1 {
		ch := httphelper.NewCookieHandler([]byte("0123456789abcdef0123456789abcdef"), []byte("fedcba9876543210"), httphelper.WithUnsecure())
		e.own(fmt.Sprintf("arg:cookie-handler#%d", len(e.rps)), ch)
		opts = append(opts, rp.WithPKCE(ch))
	}
	// how the client is registered at the provider
	clientID, secret := "web", "web-secret"
	switch {
	case s.Opt&8 == 8:
		clientID, secret = keyWebID, keyWebSecret
		opts = append(opts, rp.WithJWTProfile(rp.SignerFromKeyAndKeyID(e.args.webKeyPEM, keyWebKID)))
	case s.Opt&16 == 16:
		clientID, secret = "native", ""
	}
	e.res.Label("rp-registration:" + map[string]string{"web": "secret", keyWebID: "key+secret", "native": "public"}[clientID])
	if s.K == "rp_oauth" {
		cfg := &oauth2.Config{ClientID: clientID, ClientSecret: secret, RedirectURL: rpRedirect, Scopes: []string{"openid"},
			Endpoint: oauth2.Endpoint{AuthURL: p.issuer + expectedPath(p.ep, "authorization"), TokenURL: p.issuer + expectedPath(p.ep, "token")}}
		r, err := rp.NewRelyingPartyOAuth(cfg, opts...)
		if err != nil {
			return nil, err
		}
		ri := &rpInst{r: r, p: p, client: s.Client, oauth: true, clientID: clientID, fp: rpBehaviour(r)}
		e.rps = append(e.rps, ri)
		return ri, nil
	}
	if s.Opt&2 == 2 {
		// the discovery document is reached through a redirect (e.g. a vanity host): needs a client that follows redirects
		opts = append(opts, rp.WithCustomDiscoveryUrl("https://redir."+hostOf(p.issuer)+oidc.DiscoveryEndpoint))
	}
	if s.Opt&4 == 4 {
		opts = append(opts, rp.WithSigningAlgsFromDiscovery())
	} else {
		opts = append(opts, rp.WithVerifierOpts(rp.WithSupportedSigningAlgorithms(p.sign.Alg)))
	}
	scopes := []string{"openid", "profile", "offline_access"}
	e.scopes = append(e.scopes, scopes)
	e.own(fmt.Sprintf("arg:rp-options#%d", len(e.rps)), opts)
	r, err := rp.NewRelyingPartyOIDC(e.ctx, p.issuer, clientID, secret, rpRedirect, scopes, opts...)
	if err != nil {
		return nil, err
	}
	ri := &rpInst{r: r, p: p, client: s.Client, clientID: clientID, fp: rpBehaviour(r)}
	e.rps = append(e.rps, ri)
	return ri, nil
}

func (e *orderEnv) newRS(s Step) (*rsInst, error) {
	p := e.prov(s.P)
	var opts []rs.Option
	if s.Client > 0 {
		opts = append(opts, rs.WithClient(e.clientOf(s.Client)))
	}
	if s.Opt&1 == 1 {
		opts = append(opts, rs.WithStaticEndpoints(p.issuer+expectedPath(p.ep, "token"), p.issuer+expectedPath(p.ep, "introspection")))
	}
	var r rs.ResourceServer
	var err error
	if s.Opt&2 == 2 && !(p.pcfg != nil && p.pcfg.NoPKJWT) { // a resource server is registered with an authentication method its provider offers
		r, err = rs.NewResourceServerJWTProfile(e.ctx, p.issuer, "apijwt", "kapi", e.args.apiKeyPEM, opts...)
	} else {
		r, err = rs.NewResourceServerClientCredentials(e.ctx, p.issuer, "api", "api-secret", opts...)
	}
	if err != nil {
		return nil, err
	}
	ri := &rsInst{r: r, p: p, client: s.Client, fp: rsBehaviour(r)}
	e.rss = append(e.rss, ri)
	return ri, nil
}

func (e *orderEnv) newTE(s Step) (*teInst, error) {
	p := e.prov(s.P)
	var opts []func(*tokenexchange.OAuthTokenExchange)
	if s.Client > 0 {
		opts = append(opts, tokenexchange.WithHTTPClient(e.clientOf(s.Client)))
	}
	if s.Opt&1 == 1 {
		opts = append(opts, tokenexchange.WithStaticTokenEndpoint(p.issuer, p.issuer+expectedPath(p.ep, "token")))
	}
	var t tokenexchange.TokenExchanger
	var err error
	if s.Opt&2 == 2 {
		t, err = tokenexchange.NewTokenExchanger(e.ctx, p.issuer, opts...) // no client authentication of its own (never used for a call)
	} else {
		t, err = tokenexchange.NewTokenExchangerClientCredentials(e.ctx, p.issuer, "web", "web-secret", opts...)
	}
	if err != nil {
		return nil, err
	}
	ti := &teInst{t: t, p: p, client: s.Client, fp: teBehaviour(t)}
	if s.Opt&2 != 2 {
		e.tes = append(e.tes, ti)
	}
	return ti, nil
}

// anRP returns OIDC relying party #i, constructing one when none exists yet.
func (e *orderEnv) anRP(s Step) (*rpInst, error) {
	var oidcRPs []*rpInst
	for _, r := range e.rps {
		if !r.oauth {
			oidcRPs = append(oidcRPs, r)
		}
	}
	if len(oidcRPs) == 0 {
		return e.newRP(Step{K: "rp_oidc", P: s.P, Client: s.Client})
	}
	return pick(oidcRPs, s.I), nil
}

// rpFor returns relying party #i of the case (OIDC or OAuth, whatever its registration); when there is none yet, one is
// constructed whose registration the step chooses (bit 4 of Opt: with a key).
func (e *orderEnv) rpFor(s Step, oidcOnly bool) (*rpInst, error) {
	var l []*rpInst
	for _, r := range e.rps {
		if !(oidcOnly && r.oauth) {
			l = append(l, r)
		}
	}
	if len(l) == 0 {
		return e.newRP(Step{K: "rp_oidc", P: s.P, Client: s.Client, Opt: (s.Opt & 4) * 2})
	}
	return pick(l, s.I), nil
}

// pkjwt: the provider accepts private_key_jwt client authentication
func (p *provInst) pkjwt() bool { return p.pcfg == nil || !p.pcfg.NoPKJWT }

// doStep executes one step; it returns an error text when the step did not do what it does in a fresh process.
func (e *orderEnv) doStep(s Step) (created *provInst, problem string, usedClient int) {
	usedClient = -1
	e.lastFn = nil
	switch s.K {
	case "issuer_fn":
		i, err := e.newIssuerFn(fmt.Sprintf("function-%d", len(e.issuers)), specOf(s, ""))
		if err != nil {
			return nil, "issuer function: " + err.Error(), -1
		}
		e.lastFn = i
		return nil, "", -1
	case "prov":
		p, err := e.newProvider(s)
		if err != nil {
			return nil, "NewProvider: " + err.Error(), -1
		}
		return p, "", -1
	case "rp_oidc", "rp_oauth":
		if _, err := e.newRP(s); err != nil {
			return nil, "constructor: " + err.Error(), s.Client
		}
		return nil, "", s.Client
	case "rs":
		if _, err := e.newRS(s); err != nil {
			return nil, "constructor: " + err.Error(), s.Client
		}
		return nil, "", s.Client
	case "te":
		if _, err := e.newTE(s); err != nil {
			return nil, "constructor: " + err.Error(), s.Client
		}
		return nil, "", s.Client
	case "keyset":
		// the key set on its own, as a resource server that verifies tokens locally builds it
		p := e.prov(s.P)
		ks := rp.NewRemoteKeySet(e.clientOf(s.Client), p.issuer+expectedPath(p.ep, "keys"))
		if s.Opt&1 == 1 {
			t, m := e.tokenOf(p)
			if m != "" {
				return nil, m, s.Client
			}
			jws, err := jose.ParseSigned(t.IDT, []jose.SignatureAlgorithm{jose.SignatureAlgorithm(p.sign.Alg)})
			if err != nil {
				return nil, "parse: " + err.Error(), s.Client
			}
			if _, err := ks.VerifySignature(e.ctx, jws); err != nil {
				return nil, "VerifySignature: " + err.Error(), s.Client
			}
		}
		return nil, "", s.Client
	case "discover":
		p := e.prov(s.P)
		var wk []string
		if s.Opt&1 == 1 {
			wk = []string{"https://redir." + hostOf(p.issuer) + oidc.DiscoveryEndpoint}
		}
		if _, err := client.Discover(e.ctx, p.issuer, e.clientOf(s.Client), wk...); err != nil {
			return nil, "Discover: " + err.Error(), s.Client
		}
		return nil, "", s.Client
	case "endsession":
		r, err := e.anRP(s)
		if err != nil {
			return nil, "constructor: " + err.Error(), s.Client
		}
		hint := ""
		if s.Opt&1 == 1 {
			t, m := e.tokenOf(r.p)
			if m != "" {
				return nil, m, r.client
			}
			hint = t.IDT
		}
		u, err := rp.EndSession(e.ctx, r.r, hint, rpLogout, "bye")
		if r.clientID != "web" {
			e.res.Label("call-outcome-not-judged:endsession") // the hint is the web client's; what the provider answers another client is not this check's business
		} else if err != nil || u == nil || !strings.HasPrefix(u.String(), rpLogout) {
			return nil, fmt.Sprintf("EndSession: %v %v", err, u), r.client
		}
		if hint != "" {
			r.p.tok = nil // the session is gone
		}
		return nil, "", r.client
	case "revoke":
		r, err := e.anRP(s)
		if err != nil {
			return nil, "constructor: " + err.Error(), s.Client
		}
		if err := rp.RevokeToken(e.ctx, r.r, "no-such-token", "access_token"); err != nil && r.clientID == "web" {
			return nil, "RevokeToken: " + err.Error(), r.client
		}
		return nil, "", r.client
	case "userinfo":
		r, err := e.anRP(s)
		if err != nil {
			return nil, "constructor: " + err.Error(), s.Client
		}
		t, m := e.tokenOf(r.p)
		if m != "" {
			return nil, m, r.client
		}
		info, err := rp.Userinfo[*oidc.UserInfo](e.ctx, t.AT, "Bearer", t.Sub, r.r)
		if err != nil || info.Subject != t.Sub {
			return nil, fmt.Sprintf("Userinfo: %v", err), r.client
		}
		return nil, "", r.client
	case "codeexchange":
		r, err := e.anRP(s)
		if err != nil {
			return nil, "constructor: " + err.Error(), s.Client
		}
		tag := fmt.Sprintf("cx%d", len(e.res.Labels))
		q := vkit.AuthParams(r.p.store.Clients[r.clientID], rpRedirect, "code", "openid profile", "st-"+tag, "") // no nonce: the default verifier expects none
		var xopts []rp.CodeExchangeOpt
		strict := true
		switch r.clientID {
		case "native":
			// a public client: PKCE; its registered redirect URI is another one
			verifier := "verifier-" + tag + "-0123456789012345678901234567890123456789"
			q.Set("code_challenge", vkit.S256(verifier))
			q.Set("code_challenge_method", "S256")
			xopts = append(xopts, rp.WithCodeVerifier(verifier))
			strict = false // the RP's redirect URI is not the one registered for the public client
		case keyWebID:
			// registered with a key: the application signs the assertion with the RP's signer, as CodeExchangeHandler does
			if sg := r.r.Signer(); sg != nil {
				a, err := client.SignedJWTProfileAssertion(keyWebID, []string{r.p.issuer}, time.Hour, sg)
				if err != nil {
					return nil, "SignedJWTProfileAssertion: " + err.Error(), r.client
				}
				xopts = append(xopts, rp.WithClientAssertionJWT(a))
			}
			strict = r.p.pkjwt()
		}
		if !strict {
			e.res.Label("call-outcome-not-judged:codeexchange")
		}
		f := r.p.ag.RunAuth(q, "u2")
		if f.Code == "" {
			if !strict {
				return nil, "", r.client
			}
			return nil, "no code: " + f.AuthResp.Describe(), r.client
		}
		e.own(fmt.Sprintf("arg:codeexchange-options#%d", len(e.owned)), xopts)
		tokens, err := rp.CodeExchange[*oidc.IDTokenClaims](e.ctx, f.Code, r.r, xopts...)
		if strict && (err != nil || tokens.IDTokenClaims == nil || tokens.IDTokenClaims.Subject != "u2") {
			return nil, fmt.Sprintf("CodeExchange: %v", err), r.client
		}
		return nil, "", r.client
	case "introspect":
		if len(e.rss) == 0 {
			if _, err := e.newRS(Step{K: "rs", P: s.P, Client: s.Client}); err != nil {
				return nil, "constructor: " + err.Error(), s.Client
			}
		}
		r := pick(e.rss, s.I)
		t, m := e.tokenOf(r.p)
		if m != "" {
			return nil, m, r.client
		}
		resp, err := rs.Introspect[*oidc.IntrospectionResponse](e.ctx, r.r, t.AT)
		if err != nil || !resp.Active {
			return nil, fmt.Sprintf("Introspect: %v %+v", err, resp), r.client
		}
		return nil, "", r.client
	case "exchange":
		if len(e.tes) == 0 {
			if _, err := e.newTE(Step{K: "te", P: s.P, Client: s.Client}); err != nil {
				return nil, "constructor: " + err.Error(), s.Client
			}
		}
		x := pick(e.tes, s.I)
		t, m := e.tokenOf(x.p)
		if m != "" {
			return nil, m, x.client
		}
		if s.Opt&1 == 1 {
			// the application's long-lived lists; whether the provider's storage grants that audience is not judged
			e.res.Label("call-outcome-not-judged:exchange")
			_, _ = tokenexchange.ExchangeToken(e.ctx, x.t, t.IDT, oidc.IDTokenType, "", "", e.args.resource, e.args.audience, e.args.scopes[s.Opt>>1&1], oidc.AccessTokenType)
			return nil, "", x.client
		}
		resp, err := tokenexchange.ExchangeToken(e.ctx, x.t, t.IDT, oidc.IDTokenType, "", "", nil, nil, []string{"openid"}, oidc.AccessTokenType)
		if err != nil || resp.AccessToken == "" {
			return nil, fmt.Sprintf("ExchangeToken: %v", err), x.client
		}
		return nil, "", x.client
	case "clientcreds":
		// rp.ClientCredentials on a relying party of any registration, with no endpoint parameters or with one of the
		// application's long-lived parameter objects (the same object goes to every relying party of the case)
		r, err := e.rpFor(s, false)
		if err != nil {
			return nil, "constructor: " + err.Error(), s.Client
		}
		var params url.Values
		if s.Opt&3 != 0 {
			params = e.args.params[(s.Opt&3)%len(e.args.params)]
		}
		e.res.Label(fmt.Sprintf("clientcreds:rp-with-key=%v:params=%v", r.r.Signer() != nil, params != nil))
		tok, err := rp.ClientCredentials(e.ctx, r.r, params)
		if r.clientID != "web" {
			// a public client has no credentials; which of its credentials a client with a key and a secret presents for
			// this grant is not this property's business
			e.res.Label("call-outcome-not-judged:clientcreds")
			return nil, "", r.client
		}
		if err != nil || tok.AccessToken == "" {
			return nil, fmt.Sprintf("ClientCredentials (client %s, endpoint parameters nil=%v): %v", r.clientID, params == nil, err), r.client
		}
		return nil, "", r.client
	case "authurl":
		r, err := e.rpFor(s, false)
		if err != nil {
			return nil, "constructor: " + err.Error(), s.Client
		}
		u, err := url.Parse(rp.AuthURL("st-authurl", r.r, e.args.authOpts...))
		if err != nil || u.Query().Get("state") != "st-authurl" || u.Query().Get("prompt") != "login" || u.Query().Get("ui_locales") != "de" || u.Query().Get("client_id") != r.clientID {
			return nil, fmt.Sprintf("AuthURL: %v %v", err, u), r.client
		}
		return nil, "", r.client
	case "deviceauth":
		r, err := e.rpFor(s, true)
		if err != nil {
			return nil, "constructor: " + err.Error(), s.Client
		}
		d, err := rp.DeviceAuthorization(e.ctx, e.args.scopes[s.Opt&1], r.r, nil)
		if err == nil && d != nil {
			e.devAll = append(e.devAll, devAnswerOfResp(fmt.Sprintf("provider %d", r.p.idx), fmt.Sprintf("request %d (a deviceauth step)", len(e.devAll)), d))
		}
		if r.clientID != "web" {
			e.res.Label("call-outcome-not-judged:deviceauth")
			return nil, "", r.client
		}
		if err != nil || d.DeviceCode == "" {
			return nil, fmt.Sprintf("DeviceAuthorization: %v", err), r.client
		}
		return nil, "", r.client
	case "refresh":
		r, err := e.rpFor(s, true)
		if err != nil {
			return nil, "constructor: " + err.Error(), s.Client
		}
		t, m := e.tokenOf(r.p)
		if m != "" {
			return nil, m, r.client
		}
		nt, err := rp.RefreshTokens[*oidc.IDTokenClaims](e.ctx, r.r, t.RT, "", "")
		r.p.tok = nil // the refresh token is spent
		if r.clientID != "web" || (r.p.pcfg != nil && r.p.pcfg.NoRefresh) {
			e.res.Label("call-outcome-not-judged:refresh")
			return nil, "", r.client
		}
		if err != nil || nt.AccessToken == "" {
			return nil, fmt.Sprintf("RefreshTokens: %v", err), r.client
		}
		return nil, "", r.client
	case "callraw":
		// the request structs an application fills once and hands to the Call* functions by pointer
		r, err := e.rpFor(s, true)
		if err != nil {
			return nil, "constructor: " + err.Error(), s.Client
		}
		e.res.Label(fmt.Sprintf("callraw:%d", s.Opt&3))
		switch s.Opt & 3 {
		case 0:
			_ = client.CallRevokeEndpoint(e.ctx, e.args.revReq, nil, r.r)
		case 1:
			_, _ = client.CallEndSessionEndpoint(e.ctx, e.args.esReq, nil, r.r)
		case 2:
			if d, err := client.CallDeviceAuthorizationEndpoint(e.ctx, e.args.ccReq, r.r, nil); err == nil && d != nil {
				e.devAll = append(e.devAll, devAnswerOfResp(fmt.Sprintf("provider %d", r.p.idx), fmt.Sprintf("request %d (a callraw step)", len(e.devAll)), d))
			}
		default:
			if len(e.tes) == 0 {
				if _, err := e.newTE(Step{K: "te", P: s.P, Client: s.Client}); err != nil {
					return nil, "constructor: " + err.Error(), s.Client
				}
			}
			x := pick(e.tes, s.I)
			_, _ = client.CallTokenEndpoint(e.ctx, e.args.rtReq, x.t)
			return nil, "", x.client
		}
		return nil, "", r.client
	case "handlers":
		// the RP's HTTP handlers, built with the application's long-lived option list and served once each
		r, err := e.rpFor(s, true)
		if err != nil {
			return nil, "constructor: " + err.Error(), s.Client
		}
		login := rp.AuthURLHandler(func() string { return "st-handlers" }, r.r, e.args.urlOpts...)
		w := httptest.NewRecorder()
		login(w, httptest.NewRequest("GET", "https://rp.example.com/login", nil))
		if loc, _ := url.Parse(w.Header().Get("Location")); w.Code != http.StatusFound || loc == nil || loc.Query().Get("login_hint") != "someone" || loc.Query().Get("state") != "st-handlers" {
			return nil, fmt.Sprintf("AuthURLHandler answered %d, Location %q", w.Code, w.Header().Get("Location")), r.client
		}
		cb := rp.CodeExchangeHandler(func(w http.ResponseWriter, _ *http.Request, _ *oidc.Tokens[*oidc.IDTokenClaims], _ string, _ rp.RelyingParty) {
			w.WriteHeader(http.StatusNoContent)
		}, r.r, e.args.urlOpts...)
		cb(httptest.NewRecorder(), httptest.NewRequest("GET", rpRedirect+"?error=access_denied&state=st-handlers", nil))
		return nil, "", r.client
	case "tokensource":
		// a JWT profile token source of the service account: key bytes and scope list are the application's
		p := e.prov(s.P)
		src, err := profile.NewJWTProfileTokenSource(e.ctx, p.issuer, "svc", "ksvc", e.args.keyPEM, e.args.scopes[s.Opt&1], profile.WithHTTPClient(e.clientOf(s.Client)))
		if err != nil {
			return nil, "NewJWTProfileTokenSource: " + err.Error(), s.Client
		}
		if _, err := src.TokenCtx(e.ctx); err != nil && p.pkjwt() {
			return nil, "TokenCtx: " + err.Error(), s.Client
		}
		return nil, "", s.Client
	case "formrequest":
		// pkg/http directly: a form request from a long-lived request struct, sent through a client of the case
		p := e.prov(s.P)
		req, err := httphelper.FormRequest(e.ctx, p.issuer+expectedPath(p.ep, "token"), e.args.ccReq, client.Encoder, nil)
		if err != nil {
			return nil, "FormRequest: " + err.Error(), s.Client
		}
		var out map[string]any
		_ = httphelper.HttpRequest(e.clientOf(s.Client), req, &out)
		if s.Opt&1 == 1 {
			if _, err := httphelper.URLEncodeParams(e.args.rtReq, client.Encoder); err != nil {
				return nil, "URLEncodeParams: " + err.Error(), s.Client
			}
		}
		return nil, "", s.Client
	case "devicepoll":
		p := e.prov(s.P)
		web := p.store.Clients["web"]
		cred := vkit.RightCred(web, p.issuer)
		d := p.ag.DeviceAuthorize("openid profile", cred)
		dc := d.Str("device_code")
		if !d.Success() || dc == "" {
			return nil, "device authorization: " + d.Describe(), -1
		}
		e.devAll = append(e.devAll, devAnswerOf(fmt.Sprintf("provider %d", p.idx), fmt.Sprintf("request %d (a devicepoll step)", len(e.devAll)), d))
		p.store.ApproveDevice(dc, "u1")
		before, _, _ := p.store.DeviceSnapshot(dc)
		r := p.ag.Token(url.Values{"grant_type": {vkit.GDevice}, "device_code": {dc}}, cred)
		if !r.Success() {
			return nil, "device poll: " + r.Describe(), -1
		}
		after, _, _ := p.store.DeviceSnapshot(dc)
		if fmt.Sprintf("%+v", before) != fmt.Sprintf("%+v", after) {
			e.res.Fail(fpGetAudience, "a device-code poll on provider %d changed the DeviceAuthorizationState owned by the storage: %+v -> %+v (GetAudience appends inside a getter)", p.idx, before, after)
		}
		return nil, "", -1
	case "op_requests":
		p := e.prov(s.P)
		if r := p.ag.Discovery(); !r.Success() {
			return nil, "discovery: " + r.Describe(), -1
		}
		if r := p.ag.Keys(); r.Panic != nil {
			return nil, "keys: " + r.Describe(), -1
		}
		if r := p.ag.Authorize(vkit.AuthParams(p.store.Clients["web"], "https://evil.example.net/cb", "code", "openid", "s", "n")); r.Panic != nil {
			return nil, "authorize: " + r.Describe(), -1
		}
		if r := p.ag.Token(url.Values{"grant_type": {vkit.GCC}, "scope": {"openid"}}, vkit.RightCred(p.store.Clients["svc"], p.issuer)); r.Panic != nil {
			return nil, "token: " + r.Describe(), -1
		}
		return nil, "", -1
	}
	return nil, "", -1
}

func runOrder(c Case) *vkit.Result {
	res := &vkit.Result{}
	res.Label("kind:order")
	e := &orderEnv{ctx: context.Background(), rt: newInproc(), res: res, conseq: map[string]bool{}, everChanged: map[string]bool{}}
	// package state of the case: a fresh default client that reaches the in-process providers; everything is put back at the end
	vkit.RestoreDefaultEndpoints()
	restoreDefaultLists()
	httphelper.DefaultHTTPClient = &http.Client{Timeout: 30 * time.Second, Transport: e.rt}
	defer func() {
		httphelper.DefaultHTTPClient = origDefaultClient
		vkit.RestoreDefaultEndpoints()
		restoreDefaultLists()
	}()
	specs := c.Clients
	if len(specs) == 0 {
		specs = []SuppliedClient{{TimeoutS: 10}, {TimeoutS: 11}}
	}
	for i, sc := range specs {
		if i == 2 {
			break
		}
		hc := &http.Client{Transport: e.rt, Timeout: time.Duration(sc.TimeoutS) * time.Second}
		if sc.Jar {
			hc.Jar, _ = cookiejar.New(nil)
		}
		if sc.CheckRedirect {
			hc.CheckRedirect = func(_ *http.Request, via []*http.Request) error {
				if len(via) > 5 {
					return http.ErrUseLastResponse
				}
				return nil
			}
		}
		res.Label(fmt.Sprintf("supplied-client:timeout=%ds", sc.TimeoutS), fmt.Sprintf("supplied-client:jar=%v", sc.Jar), fmt.Sprintf("supplied-client:own-checkredirect=%v", sc.CheckRedirect))
		e.supplied = append(e.supplied, hc)
	}
	for len(e.supplied) < 2 {
		e.supplied = append(e.supplied, &http.Client{Transport: e.rt})
	}
	e.args = newCallerArgs()
	e.start = e.take()
	e.prev = e.start
	// the references: issuer functions with default options, built before anything else
	e.refs = map[string]*issInst{}
	for _, sp := range []issSpec{{Iss: "fwd"}, {Iss: "host"}} {
		i, err := e.newIssuerFn("reference-"+sp.Iss, sp)
		if err != nil {
			res.Fail("C20:setup", "reference issuer function %s: %v", sp, err)
			return res
		}
		e.refs[sp.refKey()] = i
	}
	e.lastFn = nil
	res.Label(fmt.Sprintf("reference:fwd-honours-Forwarded=%v", strings.Contains(e.refs[issSpec{Iss: "fwd"}.refKey()].vec["forwarded"], "fwd.example.org")))
	// provider 0: built with defaults before anything else; the client-side instances need something to talk to
	p0, err := e.newProvider(Step{K: "prov", Router: "provider"})
	if err != nil {
		res.Fail("C20:setup", "provider 0: %v", err)
		return res
	}
	for i := 0; i <= len(e.supplied); i++ {
		e.follow = append(e.follow, e.follows(i))
		if !e.follow[i] {
			res.Fail("C20:setup", "redirects are not followed on pristine client %s", clientName(i))
			return res
		}
	}
	e.judge(-1, Step{K: "prov", Router: "provider"}, p0, false)

	instances, calls, customProv := 1, 0, 0
	issKinds := map[string]bool{}
	provSteps, customCORS := 0, false
	cfgKeys := map[string]int{(*ProvCfg)(nil).key(): 1} // provider 0 has the zero configuration
	var kinds []string
	for si, s := range c.Steps {
		known := false
		for _, k := range stepKinds {
			known = known || k.k == s.K
		}
		if !known {
			continue
		}
		res.Label("step:" + s.K)
		kinds = append(kinds, stepKey(s))
		created, problem, used := e.doStep(s)
		switch s.K {
		case "prov", "rp_oidc", "rp_oauth", "rs", "te", "keyset", "issuer_fn":
			instances++
			if len(s.EP) > 0 {
				customProv++
			}
			if s.K == "prov" || s.K == "issuer_fn" {
				sp := specOf(s, "static")
				res.Label("issuer-strategy:" + map[string]string{"": "static", "host": "host", "fwd": "forwarded", "fwdc": "forwarded-custom-headers"}[sp.Iss])
				issKinds[sp.Iss] = true
			}
			if s.K == "prov" {
				res.Label(fmt.Sprintf("provider-cors:%d", s.CORS), fmt.Sprintf("provider-ctor:%d", s.Ctor))
				res.Label(s.Cfg.labels("provider-config")...)
				if created != nil {
					var earlier []vkit.SignKeySpec
					for _, q := range e.provs {
						if q != created {
							earlier = append(earlier, q.sign)
						}
					}
					res.Label("provider-signing:"+signRelation(created.sign, earlier), "provider-signing-alg:"+created.sign.Alg)
				}
				cfgKeys[s.Cfg.key()]++
				provSteps++
				if s.CORS == 0 && s.Router != "legacy" && customCORS {
					res.Label("has:default-cors-provider-after-custom-cors-provider")
				}
				customCORS = customCORS || s.CORS == 1
			}
		default:
			calls++
		}
		if problem != "" {
			// the same step succeeds in a fresh process (by construction of the generator); a failure here is either the
			// consequence of a change already reported at an earlier step of this case, or an isolation failure of its own
			explained := e.changedBefore("op.DefaultEndpoints") || (used >= 0 && e.changedBefore(clientName(used)+".CheckRedirect"))
			res.Label("step-failed:" + s.K)
			if explained {
				res.Label("consequence:later-step-fails:" + s.K)
				e.conseq["a later "+s.K+" failed: "+problem] = true
			} else {
				res.Fail("C20:instance-misbehaves-after-others:"+s.K, "step %d (%s) failed although no earlier step had been seen to change shared state: %s", si, describeStep(s), problem)
			}
		}
		e.judge(si, s, created, false)
	}
	// closing steps of every case: once more the instances with default options that were built before anything else
	// (references, provider 0) - whatever the steps did, what is built now behaves like what was built then
	closing := []Step{{K: "issuer_fn", Iss: "fwd"}, {K: "issuer_fn", Iss: "host"}, {K: "prov", Router: "provider"}}
	for k, s := range closing {
		created, problem, _ := e.doStep(s)
		if problem != "" && !e.changedBefore("op.DefaultEndpoints") {
			res.Fail("C20:instance-misbehaves-after-others:closing-"+s.K, "closing step (%s) failed although no step had been seen to change shared state: %s", describeStep(s), problem)
		}
		e.judge(len(c.Steps)+k, s, created, k == len(closing)-1)
	}
	for _, p := range e.rt.takePanics() {
		res.Fail("C20:panic@"+p[strings.LastIndex(p, "@")+1:], "handler panicked: %s", p)
	}
	var cs []string
	for k := range e.conseq {
		cs = append(cs, k)
	}
	sort.Strings(cs)
	res.NonTrivial = instances >= 2 || calls >= 1
	res.Key = "order|" + strings.Join(kinds, ">")
	res.Label(fmt.Sprintf("provider-steps:%d", min(provSteps, 3)), fmt.Sprintf("distinct-provider-configurations:%d", min(len(cfgKeys), 4)), fmt.Sprintf("device-authorization-answers:%d+", len(e.devAll)/10*10))
	formURLs := map[string]int{}
	for _, p := range e.provs {
		if p.pcfg != nil && p.pcfg.FormURL != "" {
			formURLs[p.pcfg.FormURL]++
		}
	}
	for _, n := range formURLs {
		if n >= 2 {
			res.Label("has:two-providers-with-one-user-form-url")
			break
		}
	}
	if issKinds["fwd"] && issKinds["fwdc"] {
		res.Label("has:forwarded-default-and-custom-headers")
	}
	if customProv > 0 {
		res.Label("has:custom-endpoint-provider")
	} else {
		res.Label("has:no-custom-endpoint-provider")
	}
	res.Info = map[string]any{"instances": instances, "calls": calls, "consequences_observed": cs, "violations": len(res.Viol)}
	return res
}

func stepKey(s Step) string {
	switch s.K {
	case "prov":
		return fmt.Sprintf("prov(%s,%v,%v,%s%v,%d,%d,%s,%s)", s.Router, epNames(s.EP), s.Bulk, s.Iss, s.Hdrs, s.Ctor, s.CORS, s.Cfg.key(), signName(s.Sign.spec(defaultSign)))
	case "issuer_fn":
		return fmt.Sprintf("issuer_fn(%s%v,%s,%v)", s.Iss, s.Hdrs, s.Path, s.Insecure)
	case "rp_oidc", "rp_oauth", "rs", "te", "keyset", "discover":
		return fmt.Sprintf("%s(p%d,c%d,o%d)", s.K, s.P, s.Client, s.Opt)
	}
	return fmt.Sprintf("%s(i%d,p%d,c%d,o%d)", s.K, s.I, s.P, s.Client, s.Opt)
}
