package c20

import (
	"bytes"
	"context"
	"fmt"
	"io"
	"net/http"
	"net/http/httptest"
	"reflect"
	"sort"
	"strings"
	"sync"
	"time"

	"github.com/zitadel/oidc/v3/pkg/client"
	"github.com/zitadel/oidc/v3/pkg/client/rp"
	httphelper "github.com/zitadel/oidc/v3/pkg/http"
	"github.com/zitadel/oidc/v3/pkg/oidc"
	"github.com/zitadel/oidc/v3/pkg/op"

	"verif/harness/vkit"
)

const (
	issuer     = "https://op.example.com"
	rpRedirect = "https://rp.example.com/cb"
	rpLogout   = "https://rp.example.com/out"
	redirWK    = "https://redir.op.example.com/.well-known/openid-configuration" // 302 -> the issuer's discovery document
)

// ---- in-process transport ---------------------------------------------------------

// inproc is an http.RoundTripper that hands the request to an http.Handler in the same process (no sockets),
// chosen by the request's host. The route table is filled before any concurrent use; the counters are mutex protected.
type route struct {
	h     http.Handler
	store *vkit.Store
}

type inproc struct {
	routes map[string]route

	mu     sync.Mutex
	panics []string
}

func newInproc() *inproc { return &inproc{routes: map[string]route{}} }

func hostOf(iss string) string { return strings.TrimPrefix(strings.TrimPrefix(iss, "https://"), "http://") }

func (t *inproc) RoundTrip(req *http.Request) (*http.Response, error) {
	var body []byte
	if req.Body != nil {
		body, _ = io.ReadAll(req.Body)
		req.Body.Close()
	}
	if err := req.Context().Err(); err != nil {
		return nil, err
	}
	hdr := http.Header{}
	status := 0
	var out []byte
	rt, routed := t.routes[req.URL.Host]
	switch {
	case strings.HasPrefix(req.URL.Host, "redir."):
		// redir.<host>/<path> answers 302 -> https://<host>/<path>
		loc := "https://" + strings.TrimPrefix(req.URL.Host, "redir.") + req.URL.Path
		if req.URL.RawQuery != "" {
			loc += "?" + req.URL.RawQuery
		}
		hdr.Set("Location", loc)
		status = http.StatusFound
	case !routed:
		status, out = http.StatusBadGateway, []byte("no such host in the harness")
	default:
		sreq := httptest.NewRequest(req.Method, req.URL.String(), bytes.NewReader(body)).WithContext(req.Context())
		for k, v := range req.Header {
			sreq.Header[k] = append([]string(nil), v...)
		}
		sreq.Host = req.URL.Host
		r := vkit.Serve(rt.h, rt.store, sreq) // a nil store is fine: Serve only journals when there is one
		if r.Panic != nil {
			// the only shared write of the transport; the hot path takes no lock of its own, so that the harness adds no
			// happens-before edges between the goroutines beyond those of the storage
			t.mu.Lock()
			t.panics = append(t.panics, fmt.Sprintf("%v @%s", r.Panic, r.PanicFrame()))
			t.mu.Unlock()
			status, out = 500, []byte("panic")
		} else {
			status, out = r.Status, r.Body
			for k, v := range r.Header {
				hdr[k] = append([]string(nil), v...)
			}
		}
	}
	return &http.Response{
		Status: fmt.Sprintf("%d %s", status, http.StatusText(status)), StatusCode: status,
		Proto: "HTTP/1.1", ProtoMajor: 1, ProtoMinor: 1, Header: hdr,
		Body: io.NopCloser(bytes.NewReader(out)), ContentLength: int64(len(out)), Request: req,
	}, nil
}

func (t *inproc) takePanics() []string {
	t.mu.Lock()
	defer t.mu.Unlock()
	p := t.panics
	t.panics = nil
	return p
}

// ---- a storage that reads the request before it locks -------------------------------

// eagerStorage forwards to the shaped vkit store but reads the token request through its getters before the
// store's critical section, as a storage does that prepares its row first and takes its lock (or opens its
// transaction) afterwards. Getters are expected to be pure; vkit.Store happens to call them under its own mutex,
// which would serialise (and so hide) a getter that writes.
type eagerStorage struct {
	op.Storage
	op.ClientCredentialsStorage
	op.TokenExchangeStorage
	op.DeviceAuthorizationStorage
}

func wrapStorage(s op.Storage) op.Storage {
	return eagerStorage{s, s.(op.ClientCredentialsStorage), s.(op.TokenExchangeStorage), s.(op.DeviceAuthorizationStorage)}
}

func touch(req op.TokenRequest) {
	_ = req.GetSubject()
	_ = req.GetAudience()
	_ = req.GetScopes()
}

func (e eagerStorage) CreateAccessToken(ctx context.Context, req op.TokenRequest) (string, time.Time, error) {
	touch(req)
	return e.Storage.CreateAccessToken(ctx, req)
}

func (e eagerStorage) CreateAccessAndRefreshTokens(ctx context.Context, req op.TokenRequest, cur string) (string, string, time.Time, error) {
	touch(req)
	return e.Storage.CreateAccessAndRefreshTokens(ctx, req, cur)
}

// ---- provider construction (own copy of vkit.Build: the check needs op.NewProvider's side effects untouched) ----

var defaultPaths = map[string]string{
	"authorization": "/authorize", "token": "/oauth/token", "introspection": "/oauth/introspect", "userinfo": "/userinfo",
	"revocation": "/revoke", "end_session": "/end_session", "keys": "/keys", "device_authorization": "/device_authorization",
}

func newConfig() *op.Config {
	cfg := &op.Config{
		DefaultLogoutRedirectURI: issuer + "/logged-out",
		CodeMethodS256:           true, AuthMethodPost: true, AuthMethodPrivateKeyJWT: true, GrantTypeRefreshToken: true, RequestObjectSupported: true,
		DeviceAuthorization: op.DeviceAuthorizationConfig{
			Lifetime: 5 * time.Minute, PollInterval: 5 * time.Second, UserFormPath: "/device",
			UserCode: op.UserCodeConfig{CharSet: op.CharSetBase20, CharAmount: 8, DashInterval: 4},
		},
	}
	for i := range cfg.CryptoKey {
		cfg.CryptoKey[i] = byte(i*7 + 3)
	}
	return cfg
}

func baseOpts(alg string) []op.Option {
	return []op.Option{
		op.WithLogger(vkit.DiscardLogger()),
		op.WithAccessTokenVerifierOpts(op.WithSupportedAccessTokenSigningAlgorithms(alg)),
		op.WithIDTokenHintVerifierOpts(op.WithSupportedIDTokenHintSigningAlgorithms(alg)),
	}
}

func endpointOption(name string, e *op.Endpoint) op.Option {
	switch name {
	case "authorization":
		return op.WithCustomAuthEndpoint(e)
	case "token":
		return op.WithCustomTokenEndpoint(e)
	case "introspection":
		return op.WithCustomIntrospectionEndpoint(e)
	case "userinfo":
		return op.WithCustomUserinfoEndpoint(e)
	case "revocation":
		return op.WithCustomRevocationEndpoint(e)
	case "end_session":
		return op.WithCustomEndSessionEndpoint(e)
	case "keys":
		return op.WithCustomKeysEndpoint(e)
	case "device_authorization":
		return op.WithCustomDeviceAuthorizationEndpoint(e)
	}
	panic("c20: unknown endpoint " + name)
}

func setEndpoint(eps *op.Endpoints, name string, e *op.Endpoint) {
	switch name {
	case "authorization":
		eps.Authorization = e
	case "token":
		eps.Token = e
	case "introspection":
		eps.Introspection = e
	case "userinfo":
		eps.Userinfo = e
	case "revocation":
		eps.Revocation = e
	case "end_session":
		eps.EndSession = e
	case "keys":
		eps.JwksURI = e
	case "device_authorization":
		eps.DeviceAuthorization = e
	}
}

func getEndpoint(eps *op.Endpoints, name string) *op.Endpoint {
	switch name {
	case "authorization":
		return eps.Authorization
	case "token":
		return eps.Token
	case "introspection":
		return eps.Introspection
	case "userinfo":
		return eps.Userinfo
	case "revocation":
		return eps.Revocation
	case "end_session":
		return eps.EndSession
	case "keys":
		return eps.JwksURI
	case "device_authorization":
		return eps.DeviceAuthorization
	case "check_session_iframe":
		return eps.CheckSessionIframe
	}
	return nil
}

// discovery member that advertises an endpoint
var discoveryMember = map[string]string{
	"authorization": "authorization_endpoint", "token": "token_endpoint", "introspection": "introspection_endpoint", "userinfo": "userinfo_endpoint",
	"revocation": "revocation_endpoint", "end_session": "end_session_endpoint", "keys": "jwks_uri", "device_authorization": "device_authorization_endpoint",
}

// ---- snapshots of package-level and caller-owned state ---------------------------------

// snapshot is a flat rendering of everything the statement says must keep its value: name -> value.
type snapshot map[string]string

func ptr(v any) string {
	if v == nil {
		return "<nil>"
	}
	rv := reflect.ValueOf(v)
	switch rv.Kind() {
	case reflect.Pointer, reflect.Func, reflect.Map, reflect.Slice, reflect.Chan, reflect.UnsafePointer:
		if rv.IsNil() {
			return "<nil " + rv.Type().String() + ">"
		}
		return fmt.Sprintf("%s@%#x", rv.Type().String(), rv.Pointer())
	}
	return fmt.Sprintf("%s:%v", rv.Type().String(), v)
}

// value of a slice (a re-allocated backing array with the same content is not a change of value)
func sliceState[T any](s []T) string {
	el := make([]string, len(s)) // element by element: an element that became "" shows
	for i, v := range s {
		el[i] = fmt.Sprint(v)
	}
	return fmt.Sprintf("nil=%v len=%d %q", s == nil, len(s), el)
}

func (s snapshot) addClient(name string, c *http.Client) {
	s[name] = ptr(c)
	if c == nil {
		return
	}
	s[name+".Transport"] = ptr(c.Transport)
	s[name+".Jar"] = ptr(c.Jar)
	s[name+".Timeout"] = c.Timeout.String()
	s[name+".CheckRedirect==nil"] = fmt.Sprint(c.CheckRedirect == nil)
	s[name+".CheckRedirect"] = ptr(c.CheckRedirect)
}

func (s snapshot) addEndpoints(name string, eps *op.Endpoints) {
	s[name] = ptr(eps)
	if eps == nil {
		return
	}
	for _, n := range append(append([]string{}, vkit.EndpointNames...), "check_session_iframe") {
		e := getEndpoint(eps, n)
		s[name+"."+n] = fmt.Sprintf("nil=%v rel=%q abs=%q", e == nil, e.Relative(), e.Absolute("https://i.example"))
	}
}

// takeGlobals renders the package-level defaults named by the property.
func takeGlobals() snapshot {
	s := snapshot{}
	s.addEndpoints("op.DefaultEndpoints", op.DefaultEndpoints)
	s["op.DefaultSupportedClaims"] = sliceState(op.DefaultSupportedClaims)
	s["op.DefaultSupportedScopes"] = sliceState(op.DefaultSupportedScopes)
	s["op.UserCodeBase20"] = fmt.Sprintf("%+v", op.UserCodeBase20)
	s["op.UserCodeDigits"] = fmt.Sprintf("%+v", op.UserCodeDigits)
	s["op.UnimplementedStatusCode"] = fmt.Sprint(op.UnimplementedStatusCode)
	s["oidc.AllGrantTypes"] = sliceState(oidc.AllGrantTypes)
	s["oidc.AllTokenTypes"] = sliceState(oidc.AllTokenTypes)
	s["oidc.AllAuthMethods"] = sliceState(oidc.AllAuthMethods)
	s.addClient("httphelper.DefaultHTTPClient", httphelper.DefaultHTTPClient)
	s.addClient("http.DefaultClient", http.DefaultClient)
	s["http.DefaultTransport"] = ptr(http.DefaultTransport)
	s["rp.DefaultErrorHandler"] = ptr(rp.DefaultErrorHandler)
	s["rp.DefaultUnauthorizedHandler"] = ptr(rp.DefaultUnauthorizedHandler)
	s["client.Encoder"] = ptr(client.Encoder)
	return s
}

// diff lists the names whose value differs between two snapshots (sorted).
func (s snapshot) diff(o snapshot) []string {
	var out []string
	for k, v := range s {
		if ov, ok := o[k]; !ok || ov != v {
			out = append(out, k)
		}
	}
	for k := range o {
		if _, ok := s[k]; !ok {
			out = append(out, k)
		}
	}
	sort.Strings(out)
	return out
}

func firstWithPrefix(names []string, prefix string) bool {
	for _, n := range names {
		if strings.HasPrefix(n, prefix) {
			return true
		}
	}
	return false
}
