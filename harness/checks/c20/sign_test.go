package c20

// Signing keys are a dimension of every provider of a case: key material, algorithm and key ID are generated PER provider,
// on purpose including providers whose storages return DIFFERENT private keys under the SAME key ID (constant kids such as
// "sig1" / "default" are what deployments use). Whatever the other providers of the process do, a token a provider issues
// verifies against the key set that very provider publishes - part of the behaviour every live provider is asked for again
// and again (order sub-check: after every step; concurrent sub-check: by the goroutines and once more after the join).

import (
	"encoding/json"
	"fmt"
	"net/url"
	"strings"

	jose "github.com/go-jose/go-jose/v4"
	"pgregory.net/rapid"

	"verif/harness/vkit"
)

// SignSpec: what a provider's storage returns from SigningKey / KeySet / SignatureAlgorithms.
type SignSpec struct {
	Key string `json:"key"` // name of a key of vkit's pool
	Alg string `json:"alg"`
	KID string `json:"kid"`
}

const fpNotOwnKeys = "C20:token-not-verifiable-with-own-published-keys"

// the service client whose client-credentials access tokens are JWTs (signed with the provider's signing key)
const jwtSvcID, jwtSvcSecret = "svcjwt", "svcjwt-secret"

var signKeysOf = map[string][]string{"ES256": {"p256a", "p256b"}, "RS256": {"rsa1", "rsa2"}, "EdDSA": {"ed1", "ed2"}}

var signKIDs = []string{"sig1", "sig1", "sig1", "sig2", "default"}

var allSigAlgs = []jose.SignatureAlgorithm{jose.ES256, jose.RS256, jose.EdDSA, jose.ES384, jose.ES512, jose.RS384, jose.RS512, jose.PS256, jose.PS384, jose.PS512}

// genSign: alg (alg0 = the algorithm most other providers of the case use: equal algorithms are what makes equal kids
// collide), one of the two pool keys of that algorithm, a kid from a small pool of constant names.
func genSign(t *rapid.T, label, alg0 string) *SignSpec {
	alg := alg0
	if signKeysOf[alg] == nil || rapid.IntRange(0, 3).Draw(t, label+"alg-other") == 0 {
		alg = rapid.SampledFrom([]string{"ES256", "ES256", "RS256", "EdDSA"}).Draw(t, label+"alg")
	}
	return &SignSpec{Alg: alg, Key: rapid.SampledFrom(signKeysOf[alg]).Draw(t, label+"key"), KID: rapid.SampledFrom(signKIDs).Draw(t, label+"kid")}
}

// spec resolves to what the storage is built with; anything unusable (hand-edited / fuzzed case) falls back to def.
func (s *SignSpec) spec(def vkit.SignKeySpec) vkit.SignKeySpec {
	if s == nil {
		return def
	}
	ok := false
	for _, n := range vkit.KeyNames {
		ok = ok || n == s.Key
	}
	if !ok || signKeysOf[s.Alg] == nil || !vkit.AlgFitsKey(s.Alg, vkit.Key(s.Key)) {
		return def
	}
	return vkit.SignKeySpec{KeyName: s.Key, Alg: s.Alg, KID: s.KID}
}

func signName(s vkit.SignKeySpec) string { return fmt.Sprintf("%s/%s/kid=%q", s.KeyName, s.Alg, s.KID) }

// signRelation classifies the signing configuration of a provider against those of the providers built before it.
func signRelation(s vkit.SignKeySpec, earlier []vkit.SignKeySpec) string {
	rel := "own-kid"
	for _, o := range earlier {
		switch {
		case o.KID == s.KID && o.Alg == s.Alg && o.KeyName != s.KeyName:
			return "same-kid-and-alg-as-another-provider:other-key"
		case o.KID == s.KID && o.Alg == s.Alg:
			rel = "same-kid-alg-and-key-as-another-provider"
		case o.KID == s.KID && rel == "own-kid":
			rel = "same-kid-as-another-provider:other-alg"
		}
	}
	return rel
}

// verifiesWithKeySet: does the compact JWS verify with one of the keys of the JWKS document? Independent of the library
// under test (go-jose only). Returns "" or why not.
func verifiesWithKeySet(jwks []byte, token string) string {
	var set jose.JSONWebKeySet
	if err := json.Unmarshal(jwks, &set); err != nil {
		return "published key set unreadable: " + err.Error()
	}
	jws, err := jose.ParseSigned(token, allSigAlgs)
	if err != nil {
		return "token does not parse as a JWS: " + err.Error()
	}
	if len(jws.Signatures) != 1 {
		return fmt.Sprintf("token carries %d signatures", len(jws.Signatures))
	}
	kid := jws.Signatures[0].Header.KeyID
	cands := set.Keys
	if kid != "" {
		if byID := set.Key(kid); len(byID) > 0 {
			cands = byID
		}
	}
	for i := range cands {
		if _, err := jws.Verify(&cands[i]); err == nil {
			return ""
		}
	}
	var kids []string
	for _, k := range set.Keys {
		kids = append(kids, fmt.Sprintf("%q/%s", k.KeyID, k.Algorithm))
	}
	return fmt.Sprintf("the signature (header kid %q alg %s) verifies with none of the %d keys the provider publishes (%s)", kid, jws.Signatures[0].Header.Algorithm, len(set.Keys), strings.Join(kids, ", "))
}

// ownKeysProblem: the provider behind ag issues a JWT access token (client credentials of the JWT service client) and
// publishes its key set; returns "" when the token verifies with the published keys, else what is wrong. A provider that
// cannot issue the token at all is not this check's business (reported as "unavailable:" and left to the other probes).
func ownKeysProblem(ag *vkit.Agent, iss string) string {
	r := ag.Token(url.Values{"grant_type": {vkit.GCC}, "scope": {"openid"}}, vkit.Cred{Kind: "basic", ClientID: jwtSvcID, Secret: jwtSvcSecret})
	if r.Panic != nil {
		return fmt.Sprintf("PANIC %v @%s", r.Panic, r.PanicFrame())
	}
	at := r.Str("access_token")
	if !r.Success() || strings.Count(at, ".") != 2 {
		return "unavailable: no JWT access token: " + r.Describe()
	}
	k := ag.Keys()
	if k.Panic != nil {
		return fmt.Sprintf("PANIC %v @%s", k.Panic, k.PanicFrame())
	}
	if !k.Success() {
		return "unavailable: no key set: " + k.Describe()
	}
	if why := verifiesWithKeySet(k.Body, at); why != "" {
		return fmt.Sprintf("a JWT access token issued by %s just now: %s", iss, why)
	}
	return ""
}
