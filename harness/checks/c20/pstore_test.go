package c20

import (
	"context"
	"errors"
	"fmt"
	"net/http"
	"slices"
	"strconv"
	"strings"
	"sync"
	"time"

	jose "github.com/go-jose/go-jose/v4"

	"github.com/zitadel/oidc/v3/pkg/oidc"
	"github.com/zitadel/oidc/v3/pkg/op"

	"verif/harness/vkit"
)

// pstore is the op.Storage of the concurrent sub-check: an in-memory storage whose mutable tables are PARTITIONED, one
// partition per goroutine of the program plus partition 0 for what the sequential setup prepared.
//
// Why not vkit.Store: it guards everything with one mutex and is entered several times per request, so the storage itself
// orders almost any two requests (happens-before through the mutex) and the race detector then sees an unsynchronised
// pair of accesses inside the library only when the two really overlap within microseconds. Here
//   - immutable data (client registrations, keys, users) is read without any lock,
//   - an object lives in the partition of the request that created it (taken from the request context) and its id names
//     that partition, so a flow that a goroutine runs on its own takes only that goroutine's lock,
//   - objects prepared by setup live in partition 0; goroutines that share them meet on partition 0's lock only.
//
// So two goroutines working on the one shared provider are, as far as the harness is concerned, not synchronised with each
// other at all, and an unsynchronised access pair inside the library is reported whenever it happens, not only when the
// timing is lucky. The storage is as diligent as the sub-check's expectations need (liveness, audience, single-use
// refresh tokens); it injects no faults and keeps no journal.
type pstore struct {
	clients  map[string]*vkit.ClientSpec // immutable
	sign     vkit.SignKeySpec            // immutable
	extraAud []string                    // immutable
	parts    []*part
}

type ptok struct {
	ID, ClientID, Subject string
	Audience, Scopes      []string
	Exp                   time.Time
	Revoked               bool
}

type prt struct {
	// immutable after creation
	Token, ClientID, Subject string
	Audience, Scopes         []string
	AuthTime                 time.Time
	AMR                      []string
	Exp                      time.Time
	AccessID                 string
	// guarded by the partition lock
	Dead bool
}

type part struct {
	idx      int
	mu       sync.Mutex
	n        int
	authReqs map[string]*vkit.AuthReq
	codes    map[string]string
	tokens   map[string]*ptok
	refresh  map[string]*prt
	devices  map[string]*op.DeviceAuthorizationState
}

func newPStore(clients []*vkit.ClientSpec, sk vkit.SignKeySpec, extraAud []string, partitions int) *pstore {
	s := &pstore{clients: map[string]*vkit.ClientSpec{}, sign: sk, extraAud: extraAud}
	for _, c := range clients {
		s.clients[c.ID] = c
	}
	for i := 0; i < partitions; i++ {
		s.parts = append(s.parts, &part{idx: i, authReqs: map[string]*vkit.AuthReq{}, codes: map[string]string{}, tokens: map[string]*ptok{},
			refresh: map[string]*prt{}, devices: map[string]*op.DeviceAuthorizationState{}})
	}
	return s
}

type partKey struct{}

func withPart(ctx context.Context, p int) context.Context { return context.WithValue(ctx, partKey{}, p) }

func (s *pstore) ctxPart(ctx context.Context) *part {
	p, _ := ctx.Value(partKey{}).(int)
	if p < 0 || p >= len(s.parts) {
		p = 0
	}
	return s.parts[p]
}

// idPart finds the partition an id of this storage names ("p<k>.…").
func (s *pstore) idPart(id string) *part {
	if !strings.HasPrefix(id, "p") {
		return nil
	}
	dot := strings.IndexByte(id, '.')
	if dot < 2 {
		return nil
	}
	k, err := strconv.Atoi(id[1:dot])
	if err != nil || k < 0 || k >= len(s.parts) {
		return nil
	}
	return s.parts[k]
}

func (p *part) nextID(kind string) string {
	p.n++
	return fmt.Sprintf("p%d.%s-%d", p.idx, kind, p.n)
}

// partHandler moves the partition named by the agent (vkit.Agent can only add a Forwarded header) into the request context.
func partHandler(h http.Handler) http.Handler {
	return http.HandlerFunc(func(w http.ResponseWriter, r *http.Request) {
		if f := r.Header.Get("Forwarded"); strings.HasPrefix(f, "by=part-") {
			if k, err := strconv.Atoi(strings.TrimPrefix(f, "by=part-")); err == nil {
				r = r.WithContext(withPart(r.Context(), k))
			}
		}
		h.ServeHTTP(w, r)
	})
}

// ---- op.AuthStorage ----------------------------------------------------------------------------------

func (s *pstore) CreateAuthRequest(ctx context.Context, r *oidc.AuthRequest, userID string) (op.AuthRequest, error) {
	a := &vkit.AuthReq{ClientID: r.ClientID, RedirectURI: r.RedirectURI, State: r.State, Nonce: r.Nonce,
		Scopes: slices.Clone([]string(r.Scopes)), ResponseType: r.ResponseType, ResponseMode: r.ResponseMode,
		Prompt: r.Prompt, MaxAge: r.MaxAge, LoginHint: r.LoginHint, UILocales: r.UILocales, HintSubject: userID, ExtraAudience: s.extraAud}
	if r.CodeChallenge != "" {
		a.Challenge = &oidc.CodeChallenge{Challenge: r.CodeChallenge, Method: r.CodeChallengeMethod}
	}
	p := s.ctxPart(ctx)
	p.mu.Lock()
	defer p.mu.Unlock()
	a.ID = p.nextID("ar")
	p.authReqs[a.ID] = a
	return a, nil
}

func (s *pstore) AuthRequestByID(ctx context.Context, id string) (op.AuthRequest, error) {
	p := s.idPart(id)
	if p == nil {
		return nil, errors.New("auth request not found")
	}
	p.mu.Lock()
	defer p.mu.Unlock()
	a, ok := p.authReqs[id]
	if !ok {
		return nil, errors.New("auth request not found")
	}
	return a, nil
}

// lookup order for values the library generates (codes, device codes): the caller's partition, then partition 0
func (s *pstore) search(ctx context.Context) []*part {
	p := s.ctxPart(ctx)
	if p.idx == 0 {
		return []*part{p}
	}
	return []*part{p, s.parts[0]}
}

func (s *pstore) AuthRequestByCode(ctx context.Context, code string) (op.AuthRequest, error) {
	for _, p := range s.search(ctx) {
		p.mu.Lock()
		id, ok := p.codes[code]
		var a *vkit.AuthReq
		if ok {
			a = p.authReqs[id]
		}
		p.mu.Unlock()
		if a != nil {
			return a, nil
		}
	}
	return nil, errors.New("code invalid or expired")
}

func (s *pstore) SaveAuthCode(ctx context.Context, id, code string) error {
	p := s.idPart(id)
	if p == nil {
		return errors.New("auth request not found")
	}
	p.mu.Lock()
	defer p.mu.Unlock()
	if _, ok := p.authReqs[id]; !ok {
		return errors.New("auth request not found")
	}
	p.codes[code] = id
	return nil
}

func (s *pstore) DeleteAuthRequest(ctx context.Context, id string) error {
	p := s.idPart(id)
	if p == nil {
		return nil
	}
	p.mu.Lock()
	defer p.mu.Unlock()
	delete(p.authReqs, id)
	for c, rid := range p.codes {
		if rid == id {
			delete(p.codes, c)
		}
	}
	return nil
}

type prefreshReq struct {
	rt     *prt
	scopes []string
}

func (r *prefreshReq) GetAMR() []string            { return r.rt.AMR }
func (r *prefreshReq) GetAudience() []string       { return r.rt.Audience }
func (r *prefreshReq) GetAuthTime() time.Time      { return r.rt.AuthTime }
func (r *prefreshReq) GetClientID() string         { return r.rt.ClientID }
func (r *prefreshReq) GetScopes() []string         { return r.scopes }
func (r *prefreshReq) GetSubject() string          { return r.rt.Subject }
func (r *prefreshReq) SetCurrentScopes(s []string) { r.scopes = s }

func requestClient(req op.TokenRequest) string {
	switch r := req.(type) {
	case *vkit.AuthReq:
		return r.ClientID
	case *prefreshReq:
		return r.rt.ClientID
	case *vkit.CCReq:
		return r.ClientID
	case *op.DeviceAuthorizationState:
		return r.ClientID
	case op.TokenExchangeRequest:
		return r.GetClientID()
	case *oidc.JWTTokenRequest:
		return r.Issuer
	}
	return ""
}

// row is what the storage is about to insert; it is computed from the request's getters BEFORE any lock is taken
// (getters are expected to be pure).
func accessRow(req op.TokenRequest) *ptok {
	return &ptok{ClientID: requestClient(req), Subject: req.GetSubject(), Audience: slices.Clone(req.GetAudience()),
		Scopes: slices.Clone(req.GetScopes()), Exp: time.Now().Add(5 * time.Minute)}
}

func (s *pstore) CreateAccessToken(ctx context.Context, req op.TokenRequest) (string, time.Time, error) {
	t := accessRow(req)
	p := s.ctxPart(ctx)
	p.mu.Lock()
	defer p.mu.Unlock()
	t.ID = p.nextID("at")
	p.tokens[t.ID] = t
	return t.ID, t.Exp, nil
}

func (s *pstore) CreateAccessAndRefreshTokens(ctx context.Context, req op.TokenRequest, current string) (string, string, time.Time, error) {
	t := accessRow(req)
	rt := &prt{ClientID: t.ClientID, Subject: t.Subject, Audience: slices.Clone(t.Audience), Scopes: slices.Clone(t.Scopes), Exp: time.Now().Add(5 * time.Hour)}
	p := s.ctxPart(ctx)
	if current != "" {
		// the successor stays in the partition of the token it replaces
		if p = s.idPart(current); p == nil {
			return "", "", time.Time{}, errors.New("invalid refresh token")
		}
	}
	switch r := req.(type) {
	case *vkit.AuthReq:
		rt.AuthTime, rt.AMR = r.AuthTime, r.AMR
	case *op.DeviceAuthorizationState:
		rt.AuthTime, rt.AMR = r.AuthTime, r.AMR
	case *prefreshReq:
		rt.AuthTime, rt.AMR = r.rt.AuthTime, r.rt.AMR
	case op.TokenExchangeRequest:
		rt.AuthTime = r.GetAuthTime()
	}
	p.mu.Lock()
	defer p.mu.Unlock()
	if current != "" {
		old, ok := p.refresh[current]
		if !ok || old.Dead || time.Now().After(old.Exp) {
			return "", "", time.Time{}, errors.New("invalid refresh token")
		}
		if rr, isRefresh := req.(*prefreshReq); !isRefresh || rr.rt != old {
			return "", "", time.Time{}, errors.New("refresh token does not belong to this request")
		}
		old.Dead = true
		if at, ok := p.tokens[old.AccessID]; ok {
			at.Revoked = true
		}
	}
	t.ID = p.nextID("at")
	rt.Token = p.nextID("rt")
	rt.AccessID = t.ID
	p.tokens[t.ID] = t
	p.refresh[rt.Token] = rt
	return t.ID, rt.Token, t.Exp, nil
}

func (s *pstore) TokenRequestByRefreshToken(ctx context.Context, token string) (op.RefreshTokenRequest, error) {
	p := s.idPart(token)
	if p == nil {
		return nil, errors.New("invalid refresh token")
	}
	p.mu.Lock()
	defer p.mu.Unlock()
	rt, ok := p.refresh[token]
	if !ok || rt.Dead || time.Now().After(rt.Exp) {
		return nil, errors.New("invalid refresh token")
	}
	return &prefreshReq{rt: rt, scopes: slices.Clone(rt.Scopes)}, nil
}

// TerminateSession ends what the caller's partition and partition 0 hold for (user, client). The programs log out only the
// user whose tokens setup prepared (partition 0); scanning every partition would synchronise all goroutines with each other.
func (s *pstore) TerminateSession(ctx context.Context, userID, clientID string) error {
	for _, p := range s.search(ctx) {
		p.mu.Lock()
		for _, t := range p.tokens {
			if t.ClientID == clientID && t.Subject == userID {
				t.Revoked = true
			}
		}
		for _, r := range p.refresh {
			if r.ClientID == clientID && r.Subject == userID {
				r.Dead = true
			}
		}
		p.mu.Unlock()
	}
	return nil
}

func (s *pstore) RevokeToken(ctx context.Context, tokenOrID, userID, clientID string) *oidc.Error {
	p := s.idPart(tokenOrID)
	if p == nil {
		return nil
	}
	p.mu.Lock()
	defer p.mu.Unlock()
	if at, ok := p.tokens[tokenOrID]; ok {
		if at.ClientID != clientID {
			return oidc.ErrInvalidClient().WithDescription("token was not issued for this client")
		}
		at.Revoked = true
	} else if rt, ok := p.refresh[tokenOrID]; ok {
		if rt.ClientID != clientID {
			return oidc.ErrInvalidClient().WithDescription("token was not issued for this client")
		}
		rt.Dead = true
		if at, ok := p.tokens[rt.AccessID]; ok {
			at.Revoked = true
		}
	}
	return nil
}

func (s *pstore) GetRefreshTokenInfo(ctx context.Context, clientID, token string) (string, string, error) {
	p := s.idPart(token)
	if p == nil {
		return "", "", op.ErrInvalidRefreshToken
	}
	p.mu.Lock()
	defer p.mu.Unlock()
	rt, ok := p.refresh[token]
	if !ok {
		return "", "", op.ErrInvalidRefreshToken
	}
	return rt.Subject, rt.Token, nil
}

type pSigningKey struct{ s vkit.SignKeySpec }

func (k pSigningKey) SignatureAlgorithm() jose.SignatureAlgorithm { return jose.SignatureAlgorithm(k.s.Alg) }
func (k pSigningKey) Key() any                                    { return vkit.Key(k.s.KeyName).Priv }
func (k pSigningKey) ID() string                                  { return k.s.KID }

type pPubKey struct{ s vkit.SignKeySpec }

func (k pPubKey) ID() string                         { return k.s.KID }
func (k pPubKey) Algorithm() jose.SignatureAlgorithm { return jose.SignatureAlgorithm(k.s.Alg) }
func (k pPubKey) Use() string                        { return "sig" }
func (k pPubKey) Key() any                           { return vkit.Key(k.s.KeyName).Pub }

func (s *pstore) SigningKey(context.Context) (op.SigningKey, error) { return pSigningKey{s.sign}, nil }
func (s *pstore) SignatureAlgorithms(context.Context) ([]jose.SignatureAlgorithm, error) {
	return []jose.SignatureAlgorithm{jose.SignatureAlgorithm(s.sign.Alg)}, nil
}
func (s *pstore) KeySet(context.Context) ([]op.Key, error) { return []op.Key{pPubKey{s.sign}}, nil }

// ---- op.OPStorage ------------------------------------------------------------------------------------

func (s *pstore) GetClientByClientID(ctx context.Context, id string) (op.Client, error) {
	c, ok := s.clients[id]
	if !ok {
		return nil, errors.New("client not found")
	}
	return vkit.AsOPClient(c), nil
}

func (s *pstore) AuthorizeClientIDSecret(ctx context.Context, id, secret string) error {
	c, ok := s.clients[id]
	if !ok || c.Secret == "" || c.Secret != secret {
		return errors.New("invalid client or secret")
	}
	return nil
}

func fillUser(ui *oidc.UserInfo, userID string, scopes []string) {
	ui.Subject = userID
	u := vkit.Users[userID]
	if u == nil {
		return
	}
	for _, sc := range scopes {
		switch sc {
		case "email":
			ui.Email = u.Email
			ui.EmailVerified = oidc.Bool(u.EmailVerified)
		case "profile":
			ui.PreferredUsername = u.Username
			ui.GivenName = u.Given
			ui.FamilyName = u.Family
		}
	}
}

func (s *pstore) SetUserinfoFromScopes(ctx context.Context, ui *oidc.UserInfo, userID, clientID string, scopes []string) error {
	fillUser(ui, userID, scopes)
	return nil
}

// live returns a copy of the token row if it is honoured.
func (s *pstore) live(tokenID, subject string) (ptok, error) {
	p := s.idPart(tokenID)
	if p == nil {
		return ptok{}, errors.New("token unknown")
	}
	p.mu.Lock()
	defer p.mu.Unlock()
	t, ok := p.tokens[tokenID]
	switch {
	case !ok:
		return ptok{}, errors.New("token unknown")
	case t.Revoked:
		return ptok{}, errors.New("token revoked")
	case time.Now().After(t.Exp):
		return ptok{}, errors.New("token expired")
	case t.Subject != subject:
		return ptok{}, errors.New("subject mismatch")
	}
	return *t, nil
}

func (s *pstore) SetUserinfoFromToken(ctx context.Context, ui *oidc.UserInfo, tokenID, subject, origin string) error {
	t, err := s.live(tokenID, subject)
	if err != nil {
		return err
	}
	fillUser(ui, t.Subject, t.Scopes)
	return nil
}

func (s *pstore) SetIntrospectionFromToken(ctx context.Context, ir *oidc.IntrospectionResponse, tokenID, subject, clientID string) error {
	t, err := s.live(tokenID, subject)
	if err != nil {
		return err
	}
	if !slices.Contains(t.Audience, clientID) {
		return errors.New("caller not in audience")
	}
	ui := new(oidc.UserInfo)
	fillUser(ui, t.Subject, t.Scopes)
	ir.SetUserInfo(ui)
	ir.Subject, ir.Scope, ir.ClientID, ir.Audience, ir.Expiration, ir.JWTID = t.Subject, t.Scopes, t.ClientID, t.Audience, oidc.FromTime(t.Exp), t.ID
	return nil
}

func (s *pstore) GetPrivateClaimsFromScopes(ctx context.Context, userID, clientID string, scopes []string) (map[string]any, error) {
	return nil, nil
}

func (s *pstore) GetKeyByIDAndClientID(ctx context.Context, keyID, clientID string) (*jose.JSONWebKey, error) {
	c, ok := s.clients[clientID]
	if !ok {
		return nil, errors.New("client not found")
	}
	kn, ok := c.Keys[keyID]
	if !ok {
		return nil, errors.New("key not found")
	}
	jwk := vkit.Key(kn).JWK(keyID, "sig", "")
	return &jwk, nil
}

func (s *pstore) ValidateJWTProfileScopes(ctx context.Context, userID string, scopes []string) ([]string, error) {
	out := []string{}
	for _, sc := range scopes {
		if sc == "openid" {
			out = append(out, sc)
		}
	}
	return out, nil
}

func (s *pstore) Health(context.Context) error { return nil }

// ---- optional capabilities ------------------------------------------------------------------------------

func (s *pstore) ClientCredentials(ctx context.Context, id, secret string) (op.Client, error) {
	c, ok := s.clients[id]
	if !ok || !c.Service || c.Secret == "" || c.Secret != secret {
		return nil, errors.New("wrong service user or password")
	}
	return vkit.AsOPClient(c), nil
}

func (s *pstore) ClientCredentialsTokenRequest(ctx context.Context, id string, scopes []string) (op.TokenRequest, error) {
	if c, ok := s.clients[id]; !ok || !c.Service {
		return nil, errors.New("wrong service user or password")
	}
	return &vkit.CCReq{ClientID: id, Scopes: slices.Clone(scopes)}, nil
}

func (s *pstore) ValidateTokenExchangeRequest(ctx context.Context, r op.TokenExchangeRequest) error {
	if r.GetRequestedTokenType() == "" {
		r.SetRequestedTokenType(oidc.AccessTokenType)
	}
	return nil
}

func (s *pstore) CreateTokenExchangeRequest(context.Context, op.TokenExchangeRequest) error { return nil }

func (s *pstore) GetPrivateClaimsFromTokenExchangeRequest(context.Context, op.TokenExchangeRequest) (map[string]any, error) {
	return nil, nil
}

func (s *pstore) SetUserinfoFromTokenExchangeRequest(ctx context.Context, ui *oidc.UserInfo, r op.TokenExchangeRequest) error {
	fillUser(ui, r.GetSubject(), r.GetScopes())
	return nil
}

func (s *pstore) StoreDeviceAuthorization(ctx context.Context, clientID, deviceCode, userCode string, expires time.Time, scopes []string) error {
	if _, ok := s.clients[clientID]; !ok {
		return errors.New("client not found")
	}
	st := &op.DeviceAuthorizationState{ClientID: clientID, Scopes: slices.Clone(scopes), Expires: expires}
	p := s.ctxPart(ctx)
	p.mu.Lock()
	defer p.mu.Unlock()
	p.devices[deviceCode] = st
	return nil
}

// GetDeviceAuthorizatonState hands out the stored state object itself, as the example storage of the repository does.
func (s *pstore) GetDeviceAuthorizatonState(ctx context.Context, clientID, deviceCode string) (*op.DeviceAuthorizationState, error) {
	for _, p := range s.search(ctx) {
		p.mu.Lock()
		st, ok := p.devices[deviceCode]
		p.mu.Unlock()
		if ok && st.ClientID == clientID {
			return st, nil
		}
	}
	return nil, errors.New("device code not found for client")
}

// ---- harness side -----------------------------------------------------------------------------------------

func (s *pstore) Login(reqID, userID string) bool {
	p := s.idPart(reqID)
	if p == nil {
		return false
	}
	p.mu.Lock()
	defer p.mu.Unlock()
	a, ok := p.authReqs[reqID]
	if !ok {
		return false
	}
	a.UserID, a.IsDone, a.AuthTime, a.AMR = userID, true, time.Now().Add(-3*time.Second).Truncate(time.Second), []string{"pwd"}
	return true
}

func (s *pstore) ApproveDevice(partition int, deviceCode, userID string) bool {
	p := s.parts[partition]
	p.mu.Lock()
	defer p.mu.Unlock()
	st, ok := p.devices[deviceCode]
	if !ok {
		return false
	}
	st.Subject, st.Done, st.AuthTime, st.AMR = userID, true, time.Now().Add(-2*time.Second).Truncate(time.Second), []string{"pwd"}
	return true
}

func (s *pstore) DenyDevice(partition int, deviceCode string) {
	p := s.parts[partition]
	p.mu.Lock()
	defer p.mu.Unlock()
	if st, ok := p.devices[deviceCode]; ok {
		st.Denied = true
	}
}

func (s *pstore) DeviceAudience(partition int, deviceCode string) []string {
	p := s.parts[partition]
	p.mu.Lock()
	defer p.mu.Unlock()
	if st, ok := p.devices[deviceCode]; ok {
		return slices.Clone(st.Audience)
	}
	return nil
}

var (
	_ op.Storage                    = (*pstore)(nil)
	_ op.ClientCredentialsStorage   = (*pstore)(nil)
	_ op.TokenExchangeStorage       = (*pstore)(nil)
	_ op.DeviceAuthorizationStorage = (*pstore)(nil)
)
