package c20

import (
	"fmt"
	"net/http"
	"net/url"
	"strings"
	"time"

	"github.com/zitadel/oidc/v3/pkg/oidc"

	"verif/harness/vkit"
)

// ---- requests that end in an error path (concurrent sub-check) -------------------------------------------
//
// Every refusal the provider can answer with is part of the op mix: several goroutines pass through the same error site of
// the one shared provider at the same moment, so an error value (or anything else on that path) shared between requests is
// seen by the race detector. Each such op also yields an observation - status, redirect target and every delivered
// parameter (the request's own `state` among them), or the body - that is compared with what the SAME request yields when
// it runs alone after the goroutines have finished (twin run): an answer that carries something of another request differs.

// twinKinds are the op kinds judged by the twin run; value = number of variants (selected by Op.A).
var twinKinds = map[string]int{
	"cb_notdone": 2, "cb_unknown": 2, "az_err": 6, "az_noredirect": 3, "tok_err": 8, "cred_err": 6, "dead_tok": 4, "es_err": 3,
	// not refusals, but judged the same way: requests to the providers that share the process (variant = the provider asked)
	"devauth": 4, "xdisc": 3, "xtoken": 4,
	// verifications on the shared verifier objects (verifiers_test.go)
	"jp_verify": len(jpVariants), "at_verify": 4, "hint_verify": 3,
}

// variants of twin kinds that need the pools of setup (not run in a cold case)
func twinNeedsPools(o Op) bool {
	switch o.K {
	case "dead_tok":
		return true
	case "es_err":
		return o.A%twinKinds["es_err"] != 0
	case "az_err":
		return false
	case "at_verify", "hint_verify":
		return true
	}
	return false
}

// observe renders an answer without anything that names the storage partition the request ran in.
func observe(r *vkit.Resp) string {
	if r.Panic != nil {
		return fmt.Sprintf("PANIC %v @%s", r.Panic, r.PanicFrame())
	}
	if r.IsRedirect() {
		loc := r.Location()
		base := loc
		if i := strings.IndexAny(base, "?#"); i >= 0 {
			base = base[:i]
		}
		return fmt.Sprintf("%d -> %s with %s", r.Status, base, vkit.DeliveredParams(loc).Encode())
	}
	return fmt.Sprintf("%d %s", r.Status, strings.TrimSpace(string(r.Body)))
}

// errorRedirect: the refusal went to the client's redirect URI with an error and the state of THIS request.
func errorRedirect(r *vkit.Resp, redirect, state string) string {
	if r.Panic != nil || !r.IsRedirect() || !strings.HasPrefix(r.Location(), redirect) {
		return "want an error redirect to " + redirect + ": " + r.Describe()
	}
	p := vkit.DeliveredParams(r.Location())
	if p.Get("error") == "" || p.Get("code") != "" {
		return "want an error redirect: " + r.Describe()
	}
	if got := p.Get("state"); got != state {
		return fmt.Sprintf("error redirect of the request with state %q carries state %q: %s", state, got, r.Location())
	}
	return ""
}

// refusal: an error status (which one is the business of other properties), nothing of value in the body.
func refusal(r *vkit.Resp) string {
	if r.Panic != nil || r.Status < 400 || len(r.HasTokenMaterial()) > 0 {
		return "want a refusal: " + r.Describe()
	}
	return ""
}

// redirectOrRefusal: routers differ in whether an authorize refusal goes to the client (with the request's own state) or is shown.
func redirectOrRefusal(r *vkit.Resp, redirect, state string) string {
	if r.Panic == nil && r.IsRedirect() {
		return errorRedirect(r, redirect, state)
	}
	return refusal(r)
}

// errOp runs one twin op; obs is compared with the twin run, msg says why the answer is not a refusal of the expected shape.
func (e *env) errOp(o Op, tag string, part int, sync func()) (obs, msg string) {
	drv := e.drv[part]
	ag := drv.ag
	state := "st-" + tag
	v := 0
	if n := twinKinds[o.K]; n > 0 {
		v = ((o.A % n) + n) % n
	}
	authQ := func(cl *vkit.ClientSpec) url.Values {
		q := vkit.AuthParams(cl, cl.RedirectURIs[0], "code", "openid profile", state, "n-"+tag)
		if o.B&1 == 1 {
			q.Set("response_mode", "fragment")
		}
		return q
	}
	switch o.K {
	case "jp_verify", "at_verify", "hint_verify":
		return e.verifierOp(o, v, tag, sync)
	case "cb_notdone":
		// the user comes back from the login UI before the auth request is done
		cl := e.web
		if v == 1 {
			cl = e.native
		}
		q := authQ(cl)
		if cl == e.native {
			q.Set("code_challenge", vkit.S256("verifier-"+tag+"-0123456789012345678901234567890123456789"))
			q.Set("code_challenge_method", "S256")
		}
		a := ag.Authorize(q)
		id, ok := vkit.LoginRequestID(a)
		if !ok {
			return observe(a), "authorize did not send the user to the login UI: " + a.Describe()
		}
		sync()
		r := ag.Callback(id)
		return observe(r), errorRedirect(r, cl.RedirectURIs[0], state)
	case "cb_unknown":
		var r *vkit.Resp
		if v == 0 {
			sync()
			r = ag.Callback("no-such-request-" + tag)
		} else {
			sync()
			r = ag.Get(e.sut.CallbackPath(), nil, nil)
		}
		return observe(r), refusal(r)
	case "az_err":
		q := authQ(e.web)
		switch v {
		case 0:
			q.Set("prompt", "none login")
		case 1:
			q.Del("scope")
		case 2:
			q.Set("response_type", "id_token") // not registered for the client
		case 3:
			q.Set("id_token_hint", "not.a.token")
		case 4:
			q.Set("prompt", "none select_account")
			q.Set("max_age", "0")
		case 5:
			// a well-formed, fresh hint signed by a key the provider does not know
			q.Set("id_token_hint", vkit.AssertionWith(issuer, "u1", []string{"web"}, "kx", "rsa2", time.Now().Add(-5*time.Second), time.Now().Add(5*time.Minute), nil))
		}
		sync()
		r := ag.Authorize(q)
		return observe(r), redirectOrRefusal(r, rpRedirect, state)
	case "az_noredirect":
		q := authQ(e.web)
		switch v {
		case 0:
			q.Set("client_id", "nobody-"+tag)
		case 1:
			q.Del("client_id")
		case 2:
			q.Set("redirect_uri", "https://evil.example.net/"+tag)
		}
		sync()
		r := ag.Authorize(q)
		return observe(r), refusal(r)
	case "tok_err":
		var r *vkit.Resp
		switch v {
		case 0:
			sync()
			r = ag.Token(vkit.CodeExchangeForm("no-such-code-"+tag, rpRedirect, ""), e.webCred())
		case 1, 2, 3:
			// an own code, then the exchange goes wrong
			verifier := "verifier-" + tag + "-0123456789012345678901234567890123456789"
			cl := e.native
			challenge := vkit.S256(verifier)
			if v != 1 {
				cl, challenge = e.web, ""
			}
			code, m := drv.authFlow(cl, "u2", tag, "openid", challenge)
			if m != "" {
				return m, m
			}
			sync()
			switch v {
			case 1:
				r = ag.Token(vkit.CodeExchangeForm(code, cl.RedirectURIs[0], "wrong-"+verifier), vkit.RightCred(cl, issuer))
			case 2:
				r = ag.Token(vkit.CodeExchangeForm(code, "https://rp.example.com/other", ""), e.webCred())
			default:
				r = ag.Token(vkit.CodeExchangeForm(code, rpRedirect, ""), vkit.RightCred(e.svc, issuer)) // another client's code
			}
		case 4:
			sync()
			r = ag.Token(url.Values{"grant_type": {vkit.GRefr}, "refresh_token": {"no-such-token-" + tag}}, e.webCred())
		case 5:
			sync()
			r = ag.Token(url.Values{"grant_type": {vkit.GDevice}, "device_code": {"no-such-device-code-" + tag}}, e.webCred())
		case 6:
			sync()
			r = ag.Token(url.Values{"code": {"x"}}, e.webCred())
		default:
			sync()
			r = ag.Token(url.Values{"grant_type": {vkit.GCode}, "code": {"x"}}, vkit.Cred{Kind: "rawbasic", Raw: "Basic %%%not-base64%%%"})
		}
		return observe(r), refusal(r)
	case "cred_err":
		wrong := vkit.Cred{Kind: "basic", ClientID: "web", Secret: "wrong-" + tag}
		var r *vkit.Resp
		sync()
		switch v {
		case 0:
			r = ag.Token(url.Values{"grant_type": {vkit.GCC}, "scope": {"openid"}}, vkit.Cred{Kind: "basic", ClientID: "svc", Secret: "wrong-" + tag})
		case 1:
			r = ag.Introspect("some-token", vkit.Cred{Kind: "basic", ClientID: "api", Secret: "wrong-" + tag})
		case 2:
			r = ag.Revoke("some-token", "access_token", wrong)
		case 3:
			r = ag.DeviceAuthorize("openid", wrong)
		case 4:
			// a fresh assertion of the service user, signed with a key that is not registered for it
			a := vkit.AssertionWith("svc", "svc", []string{issuer}, "ksvc", "rsa2", time.Now().Add(-5*time.Second), time.Now().Add(5*time.Minute), nil)
			r = ag.Token(url.Values{"grant_type": {vkit.GBearer}, "assertion": {a}, "scope": {"openid"}}, vkit.Cred{Kind: "none"})
		default:
			r = ag.Token(url.Values{"grant_type": {vkit.GTE}, "subject_token": {"garbage-" + tag}, "subject_token_type": {string(oidc.AccessTokenType)},
				"requested_token_type": {string(oidc.AccessTokenType)}}, e.webCred())
		}
		return observe(r), refusal(r)
	case "dead_tok":
		if len(e.dead) == 0 {
			return "", ""
		}
		t := pick(e.dead, o.B)
		var r *vkit.Resp
		sync()
		switch v {
		case 0:
			r = ag.UserInfo(t.AT)
			return observe(r), refusal(r)
		case 1:
			r = ag.Introspect(t.AT, vkit.Cred{Kind: "basic", ClientID: "api", Secret: "api-secret"})
			if r.Panic != nil || r.Status != http.StatusOK || r.JSON()["active"] != false {
				return observe(r), "want active=false for a revoked token: " + r.Describe()
			}
			return observe(r), ""
		case 2:
			r = ag.Token(url.Values{"grant_type": {vkit.GRefr}, "refresh_token": {t.RT}}, e.webCred())
			return observe(r), refusal(r)
		default:
			r = ag.Revoke(t.AT, "access_token", e.webCred())
			if r.Panic != nil || r.Status != http.StatusOK {
				return observe(r), "revocation of a revoked token: " + r.Describe()
			}
			return observe(r), ""
		}
	case "devauth":
		// ONE device authorization request, on the shared provider (variant 0) or on a side provider
		name, pag, iss := "the shared provider", ag, issuer
		if v > 0 && len(e.sides) > 0 {
			sp := e.sides[(v-1)%len(e.sides)]
			name, pag, iss = sp.name, sp.ags[part], sp.iss
		}
		cl := e.web
		if o.B&1 == 1 {
			cl = e.native
		}
		sync()
		r := pag.DeviceAuthorize("openid", vkit.RightCred(cl, iss))
		d := devAnswerOf(name, "request "+tag, r)
		e.devLog[part] = append(e.devLog[part], d)
		if r.Panic != nil || !r.Success() || d.UserCode == "" || d.DeviceCode == "" {
			return observe(r), "device authorization on " + name + ": " + r.Describe()
		}
		pcfg := e.c.Cfg
		if name != "the shared provider" {
			pcfg = e.c.Side[(v-1)%len(e.sides)].Cfg
		}
		if l := pcfg.deviceMismatch(iss, d); len(l) > 0 {
			return d.norm(), "NOT-OWN-CONFIG " + name + ": " + strings.Join(l, "; ")
		}
		return d.norm(), ""
	case "xtoken":
		// the provider asked (variant 0: the shared one, else a side provider) issues a JWT access token and publishes its key
		// set while the other providers of the process sign tokens of their own: the token verifies with THAT key set
		name, pag := e.provFor(v, part)
		sync()
		switch why := ownKeysProblem(pag, name); {
		case why == "":
			return name + ": a token issued now verifies with the key set published now", ""
		case strings.HasPrefix(why, "PANIC"), strings.HasPrefix(why, "unavailable:"):
			return why, why
		default:
			return why, "NOT-OWN-KEYS " + why
		}
	case "xdisc":
		// discovery document (or key set) of a provider with another configuration living in the same process
		pag, pcfg, name := ag, e.c.Cfg, "the shared provider"
		if len(e.sides) > 0 {
			sp := e.sides[v%len(e.sides)]
			pag, pcfg, name = sp.ags[part], e.c.Side[v%len(e.sides)].Cfg, sp.name
		}
		sync()
		var r *vkit.Resp
		if o.B&1 == 1 {
			r = pag.Keys()
		} else {
			r = pag.Discovery()
		}
		if r.Panic != nil || !r.Success() {
			return observe(r), "want the document: " + r.Describe()
		}
		if o.B&1 == 0 {
			if l := pcfg.discoveryMismatch(r.JSON()); len(l) > 0 {
				return observe(r), "NOT-OWN-CONFIG " + name + ": " + strings.Join(l, "; ")
			}
		}
		return observe(r), ""
	case "es_err":
		q := url.Values{"state": {state}, "post_logout_redirect_uri": {rpLogout}}
		switch v {
		case 0:
			q.Set("id_token_hint", "not.a.token")
		case 1:
			q.Set("id_token_hint", pick(e.stable, o.B).IDT)
			q.Set("post_logout_redirect_uri", "https://evil.example.net/out")
		default:
			q.Set("id_token_hint", pick(e.stable, o.B).IDT)
			q.Set("client_id", "native") // not the azp of the hint
		}
		sync()
		r := ag.EndSession(q)
		return observe(r), refusal(r)
	}
	return "", ""
}
