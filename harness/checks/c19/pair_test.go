package c19

// Pair cases: TWO providers with different configurations / storage capabilities live in one process, and the harness owns
// the interleaving of their discovery answers. The statement quantifies over every provider configuration; a process that
// hosts several providers (tenants) must get a truthful document for each of them, whatever the other one is doing.
//
//	gate step   provider X answers GET /.well-known/openid-configuration on a goroutine; its storage blocks inside the
//	            generated method (SignatureAlgorithms: the one storage call of the discovery builders) on a gate; while X
//	            is held there the OTHER provider acts (answers discovery completely, is judged completely, its helper lists
//	            and its discovery struct are computed), then X is released and X's document - the one that was in flight -
//	            is judged with the unchanged oracle of the provider cases. Every step is awaited on a channel; there is no
//	            wall-clock verdict (a request that never consults the storage simply completes, and is judged all the same).
//	held step   the lists the exported helpers (op.GrantTypes, op.Scopes, op.ResponseTypes ...) and the struct
//	            op.CreateDiscoveryConfig returned for X are HELD by the caller while the other provider acts; afterwards
//	            they must still say what they said (a returned list that changes later is a document that stopped being
//	            truthful for X), and the held struct, marshalled now, is judged as X's document.

import (
	"context"
	"encoding/json"
	"fmt"
	"net/http"
	"strings"
	"sync"
	"time"

	jose "github.com/go-jose/go-jose/v4"
	"github.com/zitadel/oidc/v3/pkg/op"
	"pgregory.net/rapid"

	"verif/harness/vkit"
)

type PairCase struct {
	A     *ProviderCase `json:"a"`
	B     *ProviderCase `json:"b"`
	Rel   string        `json:"rel,omitempty"` // how the generator derived B: independent | near (A with 1-3 settings toggled)
	Steps []PairStep    `json:"steps"`
}

type PairStep struct {
	Kind string   `json:"kind"`           // gate | held
	Who  string   `json:"who"`            // a | b: the provider whose answer is in flight / whose results are held
	Gate string   `json:"gate,omitempty"` // gate: the storage method the request is held in (SignatureAlgorithms | KeySet)
	Acts []string `json:"acts"`           // meanwhile: other:discovery | other:judge | other:helpers | other:config | same:discovery | same:helpers
}

var pairActs = []string{"other:discovery", "other:discovery", "other:judge", "other:helpers", "other:config", "same:discovery", "same:helpers"}

// ---- generator -------------------------------------------------------------------------

func cloneProvider(pc *ProviderCase) *ProviderCase {
	b, _ := json.Marshal(pc)
	out := &ProviderCase{}
	_ = json.Unmarshal(b, out)
	return out
}

// normalisePair keeps a provider of a pair inside the sound domain: on the op.Provider router no custom endpoints (two
// providers with endpoint options move each other's endpoints through op.DefaultEndpoints: known finding of C20, not a
// statement of this property), one view, at most one request-object shape, client authentication that is enabled.
func normalisePair(pc *ProviderCase) {
	pc.More = nil
	if pc.Router != "legacy" {
		pc.Router = "provider"
		pc.Endpoints = nil
	}
	if len(pc.RO) > 1 {
		pc.RO = pc.RO[:1]
	}
	if !pc.ReqObj {
		pc.RO = nil
	}
	if !(pc.Caps.CC && pc.Caps.TE && pc.Caps.Device) {
		pc.Caps.Extras = false
	}
	if (pc.WebAuth == "client_secret_post" && !pc.Post) || (pc.WebAuth == "private_key_jwt" && !pc.PKJWT) || pc.WebAuth == "" {
		pc.WebAuth = "client_secret_basic"
	}
	if !pc.Post {
		pc.MachAuth = ""
	}
	if pc.IssuerMode == "static" && strings.HasPrefix(pc.Issuer, "http://") {
		pc.Insecure = true
	}
}

func genPair(t *rapid.T) *PairCase {
	p := &PairCase{A: genProvider(t)}
	p.Rel = rapid.SampledFrom([]string{"independent", "near", "near"}).Draw(t, "pair_rel")
	if p.Rel == "independent" {
		p.B = genProvider(t)
	} else {
		p.B = cloneProvider(p.A)
		toggles := []string{"s256", "post", "pkjwt", "refresh", "refresh", "reqobj", "cc", "cc", "te", "te", "device", "device", "router", "signkey", "issuer"}
		n := rapid.IntRange(1, 3).Draw(t, "pair_toggles")
		for i := 0; i < n; i++ {
			switch rapid.SampledFrom(toggles).Draw(t, fmt.Sprintf("pair_toggle_%d", i)) {
			case "s256":
				p.B.S256 = !p.B.S256
			case "post":
				p.B.Post = !p.B.Post
			case "pkjwt":
				p.B.PKJWT = !p.B.PKJWT
			case "refresh":
				p.B.Refresh = !p.B.Refresh
			case "reqobj":
				p.B.ReqObj = !p.B.ReqObj
			case "cc":
				p.B.Caps.CC = !p.B.Caps.CC
			case "te":
				p.B.Caps.TE = !p.B.Caps.TE
			case "device":
				p.B.Caps.Device = !p.B.Caps.Device
			case "router":
				p.B.Router = map[string]string{"provider": "legacy", "legacy": "provider"}[p.B.Router]
			case "signkey":
				sk := rapid.SampledFrom(signKeys).Draw(t, fmt.Sprintf("pair_signkey_%d", i))
				p.B.SignKey, p.B.SignAlg = sk[0], sk[1]
			case "issuer":
				if p.B.IssuerMode == "static" && !p.B.Insecure {
					p.B.Issuer = rapid.SampledFrom(staticHTTPS).Draw(t, fmt.Sprintf("pair_issuer_%d", i))
				}
			}
		}
	}
	normalisePair(p.A)
	normalisePair(p.B)
	n := rapid.IntRange(1, 3).Draw(t, "pair_steps")
	for i := 0; i < n; i++ {
		st := PairStep{Kind: rapid.SampledFrom([]string{"gate", "gate", "held"}).Draw(t, fmt.Sprintf("pair_step_%d", i)),
			Who: rapid.SampledFrom([]string{"a", "b"}).Draw(t, fmt.Sprintf("pair_who_%d", i))}
		if st.Kind == "gate" {
			st.Gate = rapid.SampledFrom([]string{"SignatureAlgorithms", "SignatureAlgorithms", "SignatureAlgorithms", "KeySet"}).Draw(t, fmt.Sprintf("pair_gate_%d", i))
		}
		k := rapid.IntRange(1, 3).Draw(t, fmt.Sprintf("pair_nacts_%d", i))
		for j := 0; j < k; j++ {
			st.Acts = append(st.Acts, rapid.SampledFrom(pairActs).Draw(t, fmt.Sprintf("pair_act_%d_%d", i, j)))
		}
		p.Steps = append(p.Steps, st)
	}
	return p
}

// ---- the gate ----------------------------------------------------------------------------

// passer is what the storage wrapper asks before (exit=false) and after (exit=true) the gated methods.
type passer interface {
	pass(method string, exit bool)
}

// gate holds ONE storage call of an armed method until the harness opens it. entered is signalled (buffered) when a call
// has arrived; the harness waits for either that signal or the completion of the request, so nothing depends on timing.
type gate struct {
	mu      sync.Mutex
	armed   string
	entered chan struct{}
	release chan struct{}
}

func (g *gate) arm(method string) {
	g.mu.Lock()
	g.armed, g.entered, g.release = method, make(chan struct{}, 1), make(chan struct{})
	g.mu.Unlock()
}

func (g *gate) disarm() {
	g.mu.Lock()
	g.armed = ""
	g.mu.Unlock()
}

func (g *gate) pass(method string, exit bool) {
	if exit {
		return // the pair cases hold calls at entry only
	}
	g.mu.Lock()
	hit := g.armed != "" && g.armed == method
	if hit {
		g.armed = "" // one shot: later calls (of the same or of other requests) pass
	}
	entered, release := g.entered, g.release
	g.mu.Unlock()
	if !hit {
		return
	}
	entered <- struct{}{}
	<-release
}

// gBase forwards everything to the shaped storage of the case; the methods every provider's storage is asked on behalf
// of the published documents (discovery: SignatureAlgorithms, keys: KeySet, readiness: Health) pass the gate first and
// once more when they have their answer.
type gBase struct {
	op.Storage
	g passer
}

func (b gBase) SignatureAlgorithms(ctx context.Context) ([]jose.SignatureAlgorithm, error) {
	b.g.pass("SignatureAlgorithms", false)
	defer b.g.pass("SignatureAlgorithms", true)
	algs, err := b.Storage.SignatureAlgorithms(ctx)
	if e, ok := b.g.(emptier); ok && err == nil && e.empties("SignatureAlgorithms") {
		return []jose.SignatureAlgorithm{}, nil // fault sequences: a storage that knows no algorithm right now
	}
	return algs, err
}

func (b gBase) KeySet(ctx context.Context) ([]op.Key, error) {
	b.g.pass("KeySet", false)
	defer b.g.pass("KeySet", true)
	keys, err := b.Storage.KeySet(ctx)
	if e, ok := b.g.(emptier); ok && err == nil && e.empties("KeySet") {
		return []op.Key{}, nil // fault sequences: a storage that has no key right now
	}
	return keys, err
}

func (b gBase) Health(ctx context.Context) error {
	b.g.pass("Health", false)
	defer b.g.pass("Health", true)
	return b.Storage.Health(ctx)
}

type extraCaps interface {
	op.CanTerminateSessionFromRequest
	op.CanSetUserinfoFromRequest
	op.CanGetPrivateClaimsFromRequest
	op.JWTProfileTokenStorage
	op.TokenExchangeTokensVerifierStorage
}

// gated wraps a storage so that it exposes exactly the optional capabilities of the inner one (the library detects them by
// type assertion).
func gated(inner op.Storage, g passer) op.Storage {
	base := gBase{inner, g}
	cc, hasCC := inner.(op.ClientCredentialsStorage)
	te, hasTE := inner.(op.TokenExchangeStorage)
	dev, hasDev := inner.(op.DeviceAuthorizationStorage)
	ex, hasEx := inner.(extraCaps)
	switch {
	case hasCC && hasTE && hasDev && hasEx:
		return struct {
			gBase
			op.ClientCredentialsStorage
			op.TokenExchangeStorage
			op.DeviceAuthorizationStorage
			extraCaps
		}{base, cc, te, dev, ex}
	case hasCC && hasTE && hasDev:
		return struct {
			gBase
			op.ClientCredentialsStorage
			op.TokenExchangeStorage
			op.DeviceAuthorizationStorage
		}{base, cc, te, dev}
	case hasCC && hasTE:
		return struct {
			gBase
			op.ClientCredentialsStorage
			op.TokenExchangeStorage
		}{base, cc, te}
	case hasCC && hasDev:
		return struct {
			gBase
			op.ClientCredentialsStorage
			op.DeviceAuthorizationStorage
		}{base, cc, dev}
	case hasTE && hasDev:
		return struct {
			gBase
			op.TokenExchangeStorage
			op.DeviceAuthorizationStorage
		}{base, te, dev}
	case hasCC:
		return struct {
			gBase
			op.ClientCredentialsStorage
		}{base, cc}
	case hasTE:
		return struct {
			gBase
			op.TokenExchangeStorage
		}{base, te}
	case hasDev:
		return struct {
			gBase
			op.DeviceAuthorizationStorage
		}{base, dev}
	}
	return base
}

// ---- run -----------------------------------------------------------------------------------

type member struct {
	name      string
	pc        *ProviderCase
	sut       *vkit.SUT
	st        *vkit.Store
	cl        [3]*vkit.ClientSpec
	g         *gate
	storage   op.Storage
	basePaths map[string]string
	issuer    string // issuer of the member's first document (for op.ContextWithIssuer)
}

func (m *member) view() View { return View{Host: m.pc.Host, Forwarded: m.pc.Forwarded} }

func (m *member) ua() *ua {
	return &ua{sut: m.sut, host: m.pc.Host, fwd: m.pc.Forwarded, via: m.pc.AuthzVia}
}

func (m *member) resetPaths() {
	m.sut.Paths = map[string]string{}
	for k, v := range m.basePaths {
		m.sut.Paths[k] = v
	}
}

func (m *member) ctx() context.Context { return op.ContextWithIssuer(context.Background(), m.issuer) }

// heldList is a list an exported helper returned, kept by the caller, with what it said when it was returned.
type heldList struct {
	name string
	list any
	said string
}

func say(list any) string { return fmt.Sprintf("%v", list) }

func (m *member) helperLists() []heldList {
	p := m.sut.Provider
	lists := []heldList{
		{name: "GrantTypes", list: op.GrantTypes(p)},
		{name: "Scopes", list: op.Scopes(p)},
		{name: "ResponseTypes", list: op.ResponseTypes(p)},
		{name: "SubjectTypes", list: op.SubjectTypes(p)},
		{name: "SigAlgorithms", list: op.SigAlgorithms(m.ctx(), m.storage)},
		{name: "RequestObjectSigAlgorithms", list: op.RequestObjectSigAlgorithms(p)},
		{name: "AuthMethodsTokenEndpoint", list: op.AuthMethodsTokenEndpoint(p)},
		{name: "TokenSigAlgorithms", list: op.TokenSigAlgorithms(p)},
		{name: "IntrospectionSigAlgorithms", list: op.IntrospectionSigAlgorithms(p)},
		{name: "AuthMethodsIntrospectionEndpoint", list: op.AuthMethodsIntrospectionEndpoint(p)},
		{name: "RevocationSigAlgorithms", list: op.RevocationSigAlgorithms(p)},
		{name: "AuthMethodsRevocationEndpoint", list: op.AuthMethodsRevocationEndpoint(p)},
		{name: "SupportedClaims", list: op.SupportedClaims(p)},
		{name: "CodeChallengeMethods", list: op.CodeChallengeMethods(p)},
		{name: "SupportedUILocales", list: p.SupportedUILocales()},
	}
	for i := range lists {
		lists[i].said = say(lists[i].list)
	}
	return lists
}

func grantSet(pc *ProviderCase) string {
	return b(pc.Refresh) + b(pc.Caps.CC) + b(pc.Caps.TE) + b(pc.Caps.Device)
}

func (p *PairCase) key() string {
	var steps []string
	for _, s := range p.Steps {
		steps = append(steps, s.Kind+":"+s.Who+":"+s.Gate+":"+strings.Join(s.Acts, "+"))
	}
	return "PAIR|" + p.A.key() + "||" + p.B.key() + "||" + strings.Join(steps, ",")
}

func runPair(p *PairCase, res *vkit.Result) {
	normalisePair(p.A)
	normalisePair(p.B)
	res.Label("kind:pair", "pair:rel:"+p.Rel, "pair:routers:"+p.A.Router+"+"+p.B.Router)
	differ := grantSet(p.A) != grantSet(p.B)
	if differ {
		res.Label("pair:grant-capabilities-differ")
	} else {
		res.Label("pair:grant-capabilities-equal")
	}
	if p.A.S256 != p.B.S256 || p.A.Post != p.B.Post || p.A.PKJWT != p.B.PKJWT || p.A.ReqObj != p.B.ReqObj || p.A.SignAlg != p.B.SignAlg {
		res.Label("pair:other-settings-differ")
		differ = true
	}
	res.NonTrivial = differ
	res.Key = p.key()
	info := map[string]any{}
	res.Info = info

	var ms [2]*member
	for i, pc := range []*ProviderCase{p.A, p.B} {
		m := &member{name: []string{"A", "B"}[i], pc: pc, g: &gate{}}
		sut, st, cl, err := setupProvider(pc, res, func(inner op.Storage) op.Storage {
			m.storage = gated(inner, m.g)
			return m.storage
		})
		if err != nil {
			res.Fail("C19:construct-valid-config", "pair: NewProvider refused the valid configuration of provider %s (issuer %q mode %s insecure=%v): %v", m.name, pc.Issuer, pc.IssuerMode, pc.Insecure, err)
			return
		}
		m.sut, m.st, m.cl = sut, st, cl
		m.basePaths = map[string]string{}
		for k, v := range sut.Paths {
			m.basePaths[k] = v
		}
		ms[i] = m
	}
	// the issuer each provider names for its view (needed to call the exported builders the way the handler does)
	for _, m := range ms {
		d := m.ua().get("/.well-known/openid-configuration", nil)
		if d.Panic != nil {
			res.Fail("C19:panic@"+d.PanicFrame(), "pair: discovery of provider %s panicked: %v", m.name, d.Panic)
			return
		}
		if doc := d.JSON(); doc != nil {
			m.issuer, _ = doc["issuer"].(string)
		}
	}

	judge := func(m *member, first *vkit.Resp, what string) {
		m.resetPaths()
		vinfo := map[string]any{}
		judgeView(m.pc, res, m.sut, m.st, m.view(), 0, vinfo, m.cl, first)
		info[what] = vinfo
	}
	// act performs one generated action while `who` is held; returns a second document of `who` if the action fetched one
	act := func(a string, who, other *member) *vkit.Resp {
		res.Label("pair:act:" + a)
		switch a {
		case "other:discovery":
			other.ua().get("/.well-known/openid-configuration", nil)
		case "other:judge":
			judge(other, nil, "meanwhile:"+other.name)
		case "other:helpers":
			other.helperLists()
		case "other:config":
			op.CreateDiscoveryConfig(other.ctx(), other.sut.Provider, other.storage)
		case "same:discovery":
			return who.ua().get("/.well-known/openid-configuration", nil)
		case "same:helpers":
			who.helperLists()
		}
		return nil
	}

	for n, st := range p.Steps {
		who, other := ms[0], ms[1]
		if st.Who == "b" {
			who, other = other, who
		}
		switch st.Kind {
		case "gate":
			gateName := st.Gate
			if gateName != "KeySet" {
				gateName = "SignatureAlgorithms"
			}
			res.Label("pair:step:gate:" + gateName)
			who.g.arm(gateName)
			done := make(chan *vkit.Resp, 1)
			agent := who.ua()
			go func() { done <- agent.get("/.well-known/openid-configuration", nil) }()
			var doc *vkit.Resp
			var seconds []*vkit.Resp
			select {
			case <-who.g.entered:
				// the request is inside who's storage and stays there until the other provider has finished
				res.Label("pair:gate:request-held-inside-storage")
				var waiting []chan *vkit.Resp
				for _, a := range st.Acts {
					if a == "same:discovery" {
						// a second request to the provider whose first one is held: it runs on its own goroutine, because a
						// provider may make it wait for the first (that changes the schedule, not a verdict)
						res.Label("pair:act:" + a)
						agent2, ch := who.ua(), make(chan *vkit.Resp, 1)
						go func() { ch <- agent2.get("/.well-known/openid-configuration", nil) }()
						select {
						case d := <-ch:
							seconds = append(seconds, d)
						case <-time.After(stallLimit):
							res.Label("pair:gate:second-request-waits-for-the-held-one")
							waiting = append(waiting, ch)
						}
						continue
					}
					if d := act(a, who, other); d != nil {
						seconds = append(seconds, d)
					}
				}
				close(who.g.release)
				// the only blocking point of the harness is open: everything in flight has to answer
				deadline := time.After(joinLimit)
				hung := false
				select {
				case doc = <-done:
				case <-deadline:
					hung = true
				}
				for _, ch := range waiting {
					select {
					case d := <-ch:
						seconds = append(seconds, d)
					case <-deadline:
						hung = true
					}
				}
				if hung {
					res.Fail("C19:discovery-never-answered", "pair step %d: a discovery request to provider %s did not answer within %v after the storage call it (or an identical earlier request) was held in had been released", n, who.name, joinLimit)
					return
				}
			case doc = <-done:
				// the request did not consult that storage method: nothing to interleave with, judged all the same
				who.g.disarm()
				res.Label("pair:gate:storage-method-not-consulted")
				for _, a := range st.Acts {
					if d := act(a, who, other); d != nil {
						seconds = append(seconds, d)
					}
				}
			}
			for _, d := range seconds {
				if d.Panic == nil && doc.Panic == nil && string(d.Body) != string(doc.Body) {
					res.Fail("C19:discovery-differs-for-identical-request", "pair step %d: two identical discovery requests to provider %s, one of them answered while provider %s was active in between, got different documents: %s vs %s", n, who.name, other.name, clipBody(doc.Body), clipBody(d.Body))
				}
			}
			judge(who, doc, fmt.Sprintf("step%d:%s", n, who.name))
		default:
			res.Label("pair:step:held")
			held := who.helperLists()
			cfg := op.CreateDiscoveryConfig(who.ctx(), who.sut.Provider, who.storage)
			cfgSaid, _ := json.Marshal(cfg)
			for _, a := range st.Acts {
				act(a, who, other)
			}
			for _, h := range held {
				if now := say(h.list); now != h.said {
					res.Fail("C19:list-changed-after-other-call:"+h.name, "pair step %d: op.%s returned %s for provider %s; after calls on behalf of provider %s (%v) the same list reads %s", n, h.name, h.said, who.name, other.name, st.Acts, now)
				}
			}
			cfgNow, _ := json.Marshal(cfg)
			if string(cfgNow) != string(cfgSaid) {
				res.Fail("C19:discovery-config-changed-after-other-call", "pair step %d: the struct op.CreateDiscoveryConfig returned for provider %s changed after calls on behalf of provider %s (%v): %s vs %s", n, who.name, other.name, st.Acts, clipBody(cfgSaid), clipBody(cfgNow))
			}
			// the held struct, written out now, is the document of a provider whose handler uses the configuration's endpoints
			if len(who.pc.Endpoints) == 0 {
				judge(who, &vkit.Resp{Status: http.StatusOK, Header: http.Header{"Content-Type": {"application/json"}}, Body: cfgNow}, fmt.Sprintf("step%d:%s", n, who.name))
				res.Label("pair:held:struct-judged-as-document")
			}
		}
	}
}

func clipBody(b []byte) string {
	if len(b) > 1500 {
		return string(b[:1500]) + "..."
	}
	return string(b)
}
