package c19

import (
	"bytes"
	"encoding/json"
	"io"
	"net/http"
	"net/http/httptest"
	"net/url"
	"strings"
	"time"

	"github.com/zitadel/oidc/v3/pkg/op"

	"verif/harness/vkit"
)

// ---- provider construction -------------------------------------------------------
//
// vkit.Build restores op.DefaultEndpoints as soon as the provider exists. On the
// unchanged tree op.Provider keeps a pointer to that package-level value, so after the
// restore its discovery document would be computed from the defaults while its router
// (created inside NewProvider) still serves the custom paths -- an artefact of the
// harness, not of the configuration under test. This check therefore builds the
// provider itself and restores the package defaults only when the case is over
// (cases run one after the other in a process; run() restores before and after).

func buildSUT(spec vkit.ProviderSpec, store *vkit.Store, wrap ...func(op.Storage) op.Storage) (*vkit.SUT, error) {
	cfg := &op.Config{
		DefaultLogoutRedirectURI: spec.DefaultLogoutURI,
		CodeMethodS256:           spec.S256,
		AuthMethodPost:           spec.Post,
		AuthMethodPrivateKeyJWT:  spec.PKJWT,
		GrantTypeRefreshToken:    spec.Refresh,
		RequestObjectSupported:   spec.ReqObj,
		DeviceAuthorization: op.DeviceAuthorizationConfig{
			Lifetime: time.Duration(spec.Device.LifetimeS) * time.Second, PollInterval: time.Duration(spec.Device.PollS) * time.Second,
			UserFormPath: spec.Device.UserFormPath, UserFormURL: spec.Device.UserFormURL,
			UserCode: op.UserCodeConfig{CharSet: spec.Device.CharSet, CharAmount: spec.Device.CharAmount, DashInterval: spec.Device.DashInterval},
		},
	}
	for i := range cfg.CryptoKey {
		cfg.CryptoKey[i] = byte(i*7+3) ^ spec.CryptoKey
	}
	alg := store.SignKey.Alg
	opts := []op.Option{
		op.WithLogger(vkit.DiscardLogger()),
		op.WithAccessTokenVerifierOpts(op.WithSupportedAccessTokenSigningAlgorithms(alg)),
		op.WithIDTokenHintVerifierOpts(op.WithSupportedIDTokenHintSigningAlgorithms(alg)),
	}
	if spec.Insecure {
		opts = append(opts, op.WithAllowInsecure())
	}
	paths := map[string]string{}
	legacyEP := vkit.PristineEndpoints()
	for _, name := range vkit.EndpointNames {
		paths[name] = legacyField(&legacyEP, name).Relative()
	}
	for _, name := range vkit.EndpointNames {
		e, ok := spec.Endpoints[name]
		if !ok {
			continue
		}
		if e.Nil {
			if serverRouter(spec.Router) {
				*legacySlot(&legacyEP, name) = nil
				delete(paths, name)
			}
			continue
		}
		p := e.Path
		if p == "" && e.URL == "" {
			continue
		}
		if p == "" {
			p = paths[name] // absolute URL in front of the default route
		}
		var ep *op.Endpoint
		if e.URL != "" {
			ep = op.NewEndpointWithURL(p, e.URL)
		} else {
			ep = op.NewEndpoint(p)
		}
		paths[name] = ep.Relative()
		*legacySlot(&legacyEP, name) = ep
		if !serverRouter(spec.Router) {
			switch name {
			case "authorization":
				opts = append(opts, op.WithCustomAuthEndpoint(ep))
			case "token":
				opts = append(opts, op.WithCustomTokenEndpoint(ep))
			case "introspection":
				opts = append(opts, op.WithCustomIntrospectionEndpoint(ep))
			case "userinfo":
				opts = append(opts, op.WithCustomUserinfoEndpoint(ep))
			case "revocation":
				opts = append(opts, op.WithCustomRevocationEndpoint(ep))
			case "end_session":
				opts = append(opts, op.WithCustomEndSessionEndpoint(ep))
			case "keys":
				opts = append(opts, op.WithCustomKeysEndpoint(ep))
			case "device_authorization":
				opts = append(opts, op.WithCustomDeviceAuthorizationEndpoint(ep))
			}
		}
	}
	var issuer func(bool) (op.IssuerFromRequest, error)
	switch spec.IssuerMode {
	case "host":
		issuer = op.IssuerFromHost(spec.Issuer)
	case "forwarded":
		issuer = op.IssuerFromForwardedOrHost(spec.Issuer)
	default:
		issuer = op.StaticIssuer(spec.Issuer)
	}
	var storage op.Storage = store.Shaped(spec.Caps)
	for _, w := range wrap {
		storage = w(storage) // pair cases: the same capabilities behind a gate the harness owns
	}
	p, err := op.NewProvider(cfg, storage, issuer, opts...)
	if err != nil {
		return nil, err
	}
	sut := &vkit.SUT{Spec: spec, Store: store, Provider: p, Paths: paths, Host: "op.example.com"}
	switch spec.Router {
	case "legacy":
		sut.Handler = op.RegisterLegacyServer(op.NewLegacyServer(p, legacyEP), op.AuthorizeCallbackHandler(p), op.WithFallbackLogger(vkit.DiscardLogger()))
	case "server":
		// an application's own op.Server (here: one that delegates everything to a LegacyServer) registered with
		// op.RegisterServer; the application supplies what RegisterLegacyServer would have added: the issuer interceptor
		// as middleware and the route of the authorization callback
		ic := op.NewIssuerInterceptor(p.IssuerFromRequest)
		inner := op.RegisterServer(ownServer{op.NewLegacyServer(p, legacyEP)}, legacyEP, op.WithHTTPMiddleware(ic.Handler), op.WithFallbackLogger(vkit.DiscardLogger()))
		cbPath := legacyEP.Authorization.Relative() + "/callback"
		cb := ic.HandlerFunc(op.AuthorizeCallbackHandler(p))
		sut.Handler = http.HandlerFunc(func(w http.ResponseWriter, r *http.Request) {
			if r.URL.Path == cbPath {
				cb(w, r)
				return
			}
			inner.ServeHTTP(w, r)
		})
	default:
		sut.Handler = p
	}
	return sut, nil
}

// ownServer is an op.Server of a type the library does not know.
type ownServer struct{ *op.LegacyServer }

// serverRouter: the routers built by op.RegisterServer (endpoints come from the Endpoints value handed to it; nil = disabled).
func serverRouter(router string) bool { return router == "legacy" || router == "server" }

func legacySlot(e *op.Endpoints, name string) **op.Endpoint {
	switch name {
	case "authorization":
		return &e.Authorization
	case "token":
		return &e.Token
	case "introspection":
		return &e.Introspection
	case "userinfo":
		return &e.Userinfo
	case "revocation":
		return &e.Revocation
	case "end_session":
		return &e.EndSession
	case "keys":
		return &e.JwksURI
	case "device_authorization":
		return &e.DeviceAuthorization
	}
	panic("c19: unknown endpoint " + name)
}

func legacyField(e *op.Endpoints, name string) *op.Endpoint { return *legacySlot(e, name) }

// ---- user agent ----------------------------------------------------------------------

// ua sends every request of a case with the same Host and Forwarded headers.
type ua struct {
	sut  *vkit.SUT
	host string
	fwd  []string
	via  string // how authorization requests travel: "" / get = GET with a query, post = POST with a form body
	// firstDoc: the answer to a discovery request the harness has already obtained under a generated interleaving with
	// another provider (pair cases); judgeView judges THIS document instead of fetching one
	firstDoc *vkit.Resp
}

func (a *ua) do(method, target string, form url.Values, hdr http.Header) *vkit.Resp {
	var body io.Reader
	if form != nil {
		body = strings.NewReader(form.Encode())
	}
	r := httptest.NewRequest(method, "http://transport.invalid"+target, body)
	r.Host = a.host
	if form != nil {
		r.Header.Set("Content-Type", "application/x-www-form-urlencoded")
	}
	if len(a.fwd) > 0 {
		r.Header["Forwarded"] = append([]string(nil), a.fwd...)
	}
	for k, v := range hdr {
		r.Header[k] = v
	}
	return vkit.Serve(a.sut.Handler, a.sut.Store, r)
}

func (a *ua) get(path string, q url.Values) *vkit.Resp {
	t := path
	if len(q) > 0 {
		t += "?" + q.Encode()
	}
	return a.do("GET", t, nil, nil)
}

func (a *ua) post(path string, form url.Values, c vkit.Cred) *vkit.Resp {
	hdr := http.Header{}
	f := url.Values{}
	for k, v := range form {
		f[k] = v
	}
	c.Apply(f, hdr)
	return a.do("POST", path, f, hdr)
}

func (a *ua) token(form url.Values, c vkit.Cred) *vkit.Resp {
	return a.post(a.sut.Paths["token"], form, c)
}

type flow struct {
	auth, cb *vkit.Resp
	reqID    string
	location string // where the callback sent the user agent
	params   url.Values
}

func (f *flow) describe() string {
	if f.auth == nil {
		return "no request made"
	}
	if f.cb == nil {
		return "authorize: " + f.auth.Describe()
	}
	return "callback: " + f.cb.Describe()
}

// authFlow: authorize -> login (the harness plays the login UI) -> callback; the authorization request travels
// the way the case says (OIDC Core 3.1.2.1: GET with a query string or POST with a form body).
func (a *ua) authFlow(q url.Values, user string) *flow { return a.authFlowVia(a.via, q, user) }

func (a *ua) authFlowVia(via string, q url.Values, user string) *flow {
	f := &flow{params: url.Values{}}
	if via == "post" {
		f.auth = a.post(a.sut.Paths["authorization"], q, vkit.Cred{Kind: "none"})
	} else {
		f.auth = a.get(a.sut.Paths["authorization"], q)
	}
	id, ok := vkit.LoginRequestID(f.auth)
	if !ok {
		return f
	}
	f.reqID = id
	a.sut.Store.Login(id, user)
	f.cb = a.get(a.sut.Paths["authorization"]+"/callback", url.Values{"id": {id}})
	if f.cb.IsRedirect() {
		f.location = f.cb.Location()
		f.params = vkit.DeliveredParams(f.location)
	}
	return f
}

// ---- small independent helpers ----------------------------------------------------------

// jwtClaim returns a string claim of a compact JWT without verifying it (the harness only
// reads what the provider wrote).
func jwtClaim(tok, claim string) (string, bool) {
	p := strings.Split(tok, ".")
	if len(p) != 3 {
		return "", false
	}
	b, err := vkit.UnB64(p[1])
	if err != nil {
		return "", false
	}
	var m map[string]any
	if json.Unmarshal(b, &m) != nil {
		return "", false
	}
	s, ok := m[claim].(string)
	return s, ok
}

func relPath(p string) string { return "/" + strings.TrimPrefix(p, "/") }

// underIssuer: is adv the issuer-relative address of something? returns the path relative to the issuer.
func underIssuer(adv, issuer string) (string, bool) {
	base := strings.TrimSuffix(issuer, "/")
	if base == "" {
		return "", false
	}
	if adv == base {
		return "/", true
	}
	if !strings.HasPrefix(adv, base+"/") {
		return "", false
	}
	rel := adv[len(base):]
	if i := strings.IndexAny(rel, "?#"); i >= 0 {
		rel = rel[:i]
	}
	return rel, true
}

// rtFunc is an in-process http.RoundTripper.
type rtFunc func(*http.Request) (*http.Response, error)

func (f rtFunc) RoundTrip(r *http.Request) (*http.Response, error) { return f(r) }

func respOf(r *http.Request, status int, hdr http.Header, body []byte) *http.Response {
	if hdr == nil {
		hdr = http.Header{}
	}
	return &http.Response{
		Status: http.StatusText(status), StatusCode: status, Proto: "HTTP/1.1", ProtoMajor: 1, ProtoMinor: 1,
		Header: hdr, Body: io.NopCloser(bytes.NewReader(body)), ContentLength: int64(len(body)), Request: r,
	}
}

func contains(l []string, s string) bool {
	for _, x := range l {
		if x == s {
			return true
		}
	}
	return false
}

func strList(v any) []string {
	a, ok := v.([]any)
	if !ok {
		return nil
	}
	var out []string
	for _, x := range a {
		if s, ok := x.(string); ok {
			out = append(out, s)
		}
	}
	return out
}
