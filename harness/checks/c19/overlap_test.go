package c19

// Overlap cases: ONE provider instance answers two to four requests for its published documents (discovery, keys,
// readiness) that overlap in time, and the harness owns the interleaving. The statement quantifies over every request an RP
// can make to every configuration; nothing in it depends on what else the provider is doing at that moment. Deployments
// that derive the issuer from the request (IssuerFromHost / IssuerFromForwardedOrHost) serve several issuers from one
// instance, so the requests of a case come from the same or from different (Host, Forwarded) combinations.
//
//	schedule   the requests of a case are started one after the other, each on its own goroutine; a request may be parked
//	           inside the storage call its document needs (discovery: SignatureAlgorithms, keys: KeySet, readiness: Health),
//	           on entry (the storage has not looked yet) or on exit (the answer is computed and delayed); starts and
//	           releases happen in the generated order (Sched). At most one request runs at a time on the unchanged
//	           library: the others are parked, have answered, or - a provider may make a request wait for another one -
//	           have shown no progress for stallLimit (a wrong guess changes the schedule, never a verdict).
//	oracle     schedule independent: every discovery answer is judged with the oracle of the provider cases for the
//	           (Host, Forwarded) combination IT was asked with (issuer = iss of tokens issued for that combination,
//	           endpoints below that issuer are routed), and says what a quiet request with the same headers is told
//	           afterwards. Once every gate is open every request has to answer (the gates are the only blocking points
//	           of the harness).

import (
	"encoding/json"
	"fmt"
	"net/http"
	"strings"
	"sync"
	"time"

	"github.com/zitadel/oidc/v3/pkg/op"
	"pgregory.net/rapid"

	"verif/harness/vkit"
)

// stallLimit: how long a started / released request may go without answering or reaching a gate before the schedule moves on.
const stallLimit = 200 * time.Millisecond

// joinLimit: every gate is open; whatever is still in flight must answer.
const joinLimit = 30 * time.Second

type OverlapCase struct {
	P    *ProviderCase `json:"p"`
	Reqs []OvReq       `json:"reqs"`
	// Sched: k >= 0 starts request k, k < 0 releases request -k-1 (ignored when not applicable); afterwards the
	// requests not yet started are started in order, then the gates still closed are opened in order.
	Sched []int `json:"sched,omitempty"`
}

type OvReq struct {
	What string `json:"what"`           // discovery | keys | ready
	View View   `json:"view"`           // the headers of the request
	Park string `json:"park,omitempty"` // "" = not parked | entry | exit
}

var ovMethod = map[string]string{"discovery": "SignatureAlgorithms", "keys": "KeySet", "ready": "Health"}

// ---- generator -------------------------------------------------------------------------

func genOverlap(t *rapid.T) *OverlapCase {
	pc := genProvider(t)
	pc.More = nil
	// the issuer strategies that make one instance serve several issuers are the point of the exercise
	if mode := rapid.SampledFrom([]string{"keep", "host", "host", "forwarded", "forwarded"}).Draw(t, "ov_mode"); mode != "keep" && pc.IssuerMode == "static" {
		pc.IssuerMode = mode
		pc.Issuer = rapid.SampledFrom(dynPaths).Draw(t, "ov_issuer_path")
	}
	if pc.Router == "legacy" && rapid.Bool().Draw(t, "ov_own_server") {
		pc.Router = "server"
	}
	oc := &OverlapCase{P: pc}
	first := View{Host: pc.Host, Forwarded: pc.Forwarded}
	n := rapid.SampledFrom([]int{2, 2, 3, 3, 4}).Draw(t, "ov_reqs")
	for i := 0; i < n; i++ {
		r := OvReq{What: rapid.SampledFrom([]string{"discovery", "discovery", "discovery", "discovery", "keys", "ready"}).Draw(t, fmt.Sprintf("ov_what_%d", i))}
		if i == 0 {
			r.View = first
			r.Park = rapid.SampledFrom([]string{"entry", "entry", "entry", "exit", "exit", ""}).Draw(t, "ov_park_0")
		} else {
			prev := oc.Reqs[i-1].View
			switch rapid.SampledFrom([]string{"same", "other-host", "other-host", "other-forwarded", "other-forwarded", "both-other", "first"}).Draw(t, fmt.Sprintf("ov_view_%d", i)) {
			case "same":
				r.View = prev
			case "first":
				r.View = first
			case "other-host":
				r.View = View{Host: ovOtherHost(t, prev.Host, fmt.Sprintf("ov_host_%d", i)), Forwarded: prev.Forwarded}
			case "other-forwarded":
				r.View = View{Host: prev.Host, Forwarded: ovOtherFwd(t, prev.Forwarded, fmt.Sprintf("ov_fwd_%d", i))}
			default:
				r.View = View{Host: ovOtherHost(t, prev.Host, fmt.Sprintf("ov_host_%d", i)), Forwarded: ovOtherFwd(t, prev.Forwarded, fmt.Sprintf("ov_fwd_%d", i))}
			}
			r.Park = rapid.SampledFrom([]string{"", "", "entry", "exit"}).Draw(t, fmt.Sprintf("ov_park_%d", i))
		}
		oc.Reqs = append(oc.Reqs, r)
	}
	// a valid interleaving of starts (in request order) and releases (of started, parking requests)
	next, open := 0, []int{}
	for next < n || len(open) > 0 {
		startNow := next < n && (len(open) == 0 || rapid.IntRange(0, 3).Draw(t, fmt.Sprintf("ov_step_%d", len(oc.Sched))) > 0)
		if startNow {
			oc.Sched = append(oc.Sched, next)
			if oc.Reqs[next].Park != "" {
				open = append(open, next)
			}
			next++
			continue
		}
		j := rapid.IntRange(0, len(open)-1).Draw(t, fmt.Sprintf("ov_rel_%d", len(oc.Sched)))
		oc.Sched = append(oc.Sched, -open[j]-1)
		open = append(open[:j], open[j+1:]...)
	}
	return oc
}

func ovOtherHost(t *rapid.T, cur, label string) string {
	h := rapid.SampledFrom(hostPool).Draw(t, label)
	for i := 0; h == cur; i++ {
		h = hostPool[i%len(hostPool)]
	}
	return h
}

func ovOtherFwd(t *rapid.T, cur []string, label string) []string {
	f := rapid.SampledFrom(forwardedSet).Draw(t, label)
	for i := 0; (View{Forwarded: f}).same(View{Forwarded: cur}); i++ {
		f = forwardedSet[i%len(forwardedSet)]
	}
	return f
}

// ---- gates -------------------------------------------------------------------------------

// mgate is a set of one-shot slots; each parks one call of its storage method (on entry or on exit) until the harness
// opens it. Several calls can be parked at the same time.
type mgate struct {
	mu    sync.Mutex
	slots []*slot
}

type slot struct {
	method  string
	exit    bool
	armed   bool
	hit     bool
	entered chan struct{} // closed when a call is parked here
	release chan struct{}
	opened  bool
}

func (g *mgate) arm(method string, exit bool) *slot {
	s := &slot{method: method, exit: exit, armed: true, entered: make(chan struct{}), release: make(chan struct{})}
	g.mu.Lock()
	g.slots = append(g.slots, s)
	g.mu.Unlock()
	return s
}

// disarm reports false when a call is already parked in the slot.
func (g *mgate) disarm(s *slot) bool {
	g.mu.Lock()
	defer g.mu.Unlock()
	if s.hit {
		return false
	}
	s.armed = false
	return true
}

func (g *mgate) open(s *slot) {
	g.mu.Lock()
	if !s.opened {
		s.opened = true
		close(s.release)
	}
	g.mu.Unlock()
}

func (g *mgate) openAll() {
	g.mu.Lock()
	for _, s := range g.slots {
		s.armed = false
		if !s.opened {
			s.opened = true
			close(s.release)
		}
	}
	g.mu.Unlock()
}

func (g *mgate) pass(method string, exit bool) {
	g.mu.Lock()
	var s *slot
	for _, c := range g.slots {
		if c.armed && !c.hit && c.method == method && c.exit == exit {
			s = c
			s.hit = true
			break
		}
	}
	g.mu.Unlock()
	if s == nil {
		return
	}
	close(s.entered)
	<-s.release
}

// ---- run -----------------------------------------------------------------------------------

type ovFlight struct {
	k        int
	req      OvReq
	slot     *slot
	done     chan struct{}
	resp     *vkit.Resp // valid after done
	started  bool
	parked   bool
	released bool
}

func (oc *OverlapCase) key() string {
	var rs []string
	for _, r := range oc.Reqs {
		rs = append(rs, r.What+"@"+r.View.Host+"@"+strings.Join(r.View.Forwarded, ",")+"@"+r.Park)
	}
	return "OV|" + oc.P.key() + "||" + strings.Join(rs, ";") + "||" + fmt.Sprint(oc.Sched)
}

// normaliseOverlap keeps a (shrunk, decoded) case inside the sound domain.
func normaliseOverlap(oc *OverlapCase) {
	pc := oc.P
	pc.More = nil
	if !serverRouter(pc.Router) {
		pc.Router = "provider"
	}
	if len(pc.RO) > 1 {
		pc.RO = pc.RO[:1]
	}
	if !pc.ReqObj {
		pc.RO = nil
	}
	if !(pc.Caps.CC && pc.Caps.TE && pc.Caps.Device) {
		pc.Caps.Extras = false
	}
	if (pc.WebAuth == "client_secret_post" && !pc.Post) || (pc.WebAuth == "private_key_jwt" && !pc.PKJWT) || pc.WebAuth == "" {
		pc.WebAuth = "client_secret_basic"
	}
	if !pc.Post {
		pc.MachAuth = ""
	}
	if pc.IssuerMode == "static" && strings.HasPrefix(pc.Issuer, "http://") {
		pc.Insecure = true
	}
	if len(oc.Reqs) > 4 {
		oc.Reqs = oc.Reqs[:4]
	}
	for i := range oc.Reqs {
		if ovMethod[oc.Reqs[i].What] == "" {
			oc.Reqs[i].What = "discovery"
		}
		if p := oc.Reqs[i].Park; p != "" && p != "exit" {
			oc.Reqs[i].Park = "entry"
		}
		if oc.Reqs[i].View.Host == "" {
			oc.Reqs[i].View.Host = pc.Host
		}
	}
}

// statementsOf: what a discovery answer says about the things the property talks about.
func statementsOf(r *vkit.Resp) map[string]any {
	doc := r.JSON()
	if r.Panic != nil || !r.Success() || doc == nil {
		return nil
	}
	out := map[string]any{"issuer": doc["issuer"], "grants": doc["grant_types_supported"], "pkce": doc["code_challenge_methods_supported"], "reqobj": doc["request_parameter_supported"]}
	for k, v := range doc {
		if strings.HasSuffix(k, "_endpoint") || k == "jwks_uri" || k == "check_session_iframe" {
			out[k] = v
		}
	}
	return out
}

func runOverlap(oc *OverlapCase, res *vkit.Result) {
	normaliseOverlap(oc)
	pc := oc.P
	res.Label("kind:overlap", "overlap:router:"+pc.Router, "overlap:issuer-mode:"+pc.IssuerMode, fmt.Sprintf("overlap:requests:%d", len(oc.Reqs)))
	res.Key = oc.key()
	info := map[string]any{}
	res.Info = info
	if len(oc.Reqs) == 0 {
		res.Grey = true
		return
	}

	g := &mgate{}
	defer g.openAll() // whatever happens, nothing stays parked when the case is over
	sut, st, cl, err := setupProvider(pc, res, func(inner op.Storage) op.Storage { return gated(inner, g) })
	if err != nil {
		res.Fail("C19:construct-valid-config", "overlap: NewProvider refused a valid configuration (issuer %q mode %s insecure=%v): %v", pc.Issuer, pc.IssuerMode, pc.Insecure, err)
		return
	}
	basePaths := map[string]string{}
	for k, v := range sut.Paths {
		basePaths[k] = v
	}
	pathOf := func(what string) string {
		switch what {
		case "keys":
			return basePaths["keys"]
		case "ready":
			return "/ready"
		}
		return "/.well-known/openid-configuration"
	}

	var flights []*ovFlight
	for k, r := range oc.Reqs {
		if r.What == "keys" && basePaths["keys"] == "" {
			r.What = "discovery" // the keys endpoint is disabled in this configuration
		}
		flights = append(flights, &ovFlight{k: k, req: r, done: make(chan struct{})})
	}
	var log []string
	inStorage := func() int {
		n := 0
		for _, f := range flights {
			if f.parked && !f.released {
				n++
			}
		}
		return n
	}
	maxParked, overlapped := 0, false
	start := func(f *ovFlight) {
		if f.started {
			return
		}
		f.started = true
		if inStorage() > 0 {
			overlapped = true // this request runs while another one is held inside the storage
		}
		if f.req.Park != "" {
			f.slot = g.arm(ovMethod[f.req.What], f.req.Park == "exit")
		}
		agent := &ua{sut: sut, host: f.req.View.Host, fwd: f.req.View.Forwarded}
		path := pathOf(f.req.What)
		go func() {
			defer close(f.done)
			f.resp = agent.get(path, nil)
		}()
		var entered chan struct{}
		if f.slot != nil {
			entered = f.slot.entered
		}
		select {
		case <-f.done:
			log = append(log, fmt.Sprintf("r%d answered", f.k))
			if f.slot != nil && g.disarm(f.slot) {
				res.Label("overlap:gate:storage-method-not-consulted")
			}
		case <-entered:
			f.parked = true
			log = append(log, fmt.Sprintf("r%d parked in %s/%s", f.k, f.slot.method, f.req.Park))
		case <-time.After(stallLimit):
			if f.slot != nil && !g.disarm(f.slot) {
				f.parked = true
				log = append(log, fmt.Sprintf("r%d parked in %s/%s", f.k, f.slot.method, f.req.Park))
			} else {
				res.Label("overlap:request-waits-inside-the-provider")
				log = append(log, fmt.Sprintf("r%d waits", f.k))
			}
		}
		if n := inStorage(); n > maxParked {
			maxParked = n
		}
	}
	release := func(f *ovFlight) {
		if !f.started || f.slot == nil || f.released {
			return
		}
		f.released = true
		g.open(f.slot)
		if !f.parked {
			return
		}
		log = append(log, fmt.Sprintf("release r%d", f.k))
		select {
		case <-f.done:
		case <-time.After(stallLimit):
		}
	}
	var order []int
	for _, e := range oc.Sched {
		switch {
		case e >= 0 && e < len(flights):
			start(flights[e])
		case e < 0 && -e-1 < len(flights):
			if f := flights[-e-1]; f.started && f.parked && !f.released {
				order = append(order, f.k)
			}
			release(flights[-e-1])
		}
	}
	for _, f := range flights {
		start(f)
	}
	for _, f := range flights {
		if f.started && f.parked && !f.released {
			order = append(order, f.k)
		}
		release(f)
	}
	g.openAll()
	deadline := time.After(joinLimit)
	var hung []string
	for _, f := range flights {
		select {
		case <-f.done:
		case <-deadline:
			hung = append(hung, fmt.Sprintf("r%d (%s, Host %q, Forwarded %q)", f.k, f.req.What, f.req.View.Host, f.req.View.Forwarded))
		}
	}
	info["schedule"] = strings.Join(log, ", ")
	if len(hung) > 0 {
		res.Fail("C19:overlap:request-never-answered", "overlapping requests to one provider (router %s): %s did not answer within %v after every storage call the harness had parked was released; schedule: %s", pc.Router, strings.Join(hung, "; "), joinLimit, strings.Join(log, ", "))
		return
	}

	// ---- labels: what the schedule was ----
	fifo := true
	for i := 1; i < len(order); i++ {
		fifo = fifo && order[i] > order[i-1]
	}
	res.Label(fmt.Sprintf("overlap:max-parked-at-once:%d", maxParked))
	if len(order) > 1 {
		res.Label("overlap:release-order:" + map[bool]string{true: "as-started", false: "other"}[fifo])
	}
	distinctViews, discoveries := false, 0
	for _, f := range flights {
		res.Label("overlap:what:" + f.req.What)
		switch {
		case f.parked:
			res.Label("overlap:parked:" + f.req.What + ":" + f.req.Park)
		case f.req.Park != "":
			res.Label("overlap:parked:not-reached")
		}
		if f.req.What == "discovery" {
			discoveries++
		}
		if !f.req.View.same(flights[0].req.View) {
			distinctViews = true
		}
	}
	if overlapped {
		res.Label("overlap:overlapped")
		if distinctViews {
			res.Label("overlap:overlapped:different-views:" + pc.IssuerMode)
		} else {
			res.Label("overlap:overlapped:same-view")
		}
	} else {
		res.Label("overlap:sequential")
	}
	res.NonTrivial = overlapped && discoveries > 0

	// ---- judge every answer for the headers IT was asked with ----
	type judged struct {
		view View
		said map[string]any
		k    int
	}
	var docs []judged
	for _, f := range flights {
		r := f.resp
		if r.Panic != nil {
			res.Fail("C19:panic@"+r.PanicFrame(), "overlap: request %d (%s) panicked: %v", f.k, f.req.What, r.Panic)
			continue
		}
		switch f.req.What {
		case "keys":
			if r.Status == http.StatusNotFound || r.Status == http.StatusMethodNotAllowed {
				res.Fail("C19:endpoint-advertised-not-routed:keys", "overlap: request %d: GET %s (the routed keys endpoint) answers %d while other requests are in flight: %s", f.k, basePaths["keys"], r.Status, r.Describe())
			}
			continue
		case "ready":
			continue
		}
		sut.Paths = map[string]string{}
		for k, v := range basePaths {
			sut.Paths[k] = v
		}
		vinfo := map[string]any{}
		sum := judgeView(pc, res, sut, st, f.req.View, f.k+1, vinfo, cl, r) // the judgement of a further view: document, routes, iss of fresh tokens
		info[fmt.Sprintf("r%d", f.k)] = vinfo
		if sum != nil {
			docs = append(docs, judged{f.req.View, statementsOf(r), f.k})
		}
	}
	// what a quiet request with the same headers is told now
	for i, d := range docs {
		dup := false
		for _, e := range docs[:i] {
			dup = dup || e.view.same(d.view)
		}
		var quiet map[string]any
		if !dup {
			q := (&ua{sut: sut, host: d.view.Host, fwd: d.view.Forwarded}).get("/.well-known/openid-configuration", nil)
			if q.Panic != nil {
				res.Fail("C19:panic@"+q.PanicFrame(), "overlap: discovery panicked: %v", q.Panic)
				continue
			}
			quiet = statementsOf(q)
		}
		for _, e := range docs[i:] {
			if quiet == nil || !e.view.same(d.view) {
				continue
			}
			a, _ := json.Marshal(quiet)
			bb, _ := json.Marshal(e.said)
			if string(a) != string(bb) {
				res.Fail("C19:discovery-differs-under-overlap", "request %d (Host %q, Forwarded %q) was answered while other requests to the same provider were in flight and was told %s; a request with the same headers afterwards is told %s; schedule: %s", e.k, e.view.Host, e.view.Forwarded, bb, a, strings.Join(log, ", "))
			} else {
				res.Label("overlap:same-as-quiet-answer")
			}
		}
	}
}
