// Package c19: the discovery document is truthful about the provider in every configuration (property C19).
//
// Three kinds of cases share one Case type (so that every replay file is one JSON shape):
//
//	provider  a provider configuration is built, its discovery document is fetched like an RP would, and every
//	          statement of the document the property talks about is tried out against the same handler
//	issuer    an issuer string assembled from a labelled grammar is handed to op.NewProvider / op.ValidateIssuer
//	pair      two providers with different configurations in one process, their discovery answers interleaved by the
//	          harness (pair_test.go); each document is judged like the one of a provider case
//	overlap   one provider answers two to four overlapping requests for its published documents (discovery, keys,
//	          readiness) with the same / different Host and Forwarded headers under a harness-owned schedule
//	          (overlap_test.go); each discovery answer is judged for the headers it was asked with
//	discover  client.Discover is pointed (through an in-process RoundTripper) at a document with an equal /
//	          different / near-equal issuer
package c19

import (
	"context"
	"encoding/json"
	"fmt"
	"net/http"
	"net/url"
	"os"
	"runtime/debug"
	"sort"
	"strconv"
	"strings"
	"testing"
	"time"

	"github.com/zitadel/oidc/v3/pkg/client"
	"github.com/zitadel/oidc/v3/pkg/op"
	"pgregory.net/rapid"

	"verif/harness/vkit"
)

// ---- case ------------------------------------------------------------------------------

type Case struct {
	Kind string        `json:"kind"` // provider | issuer | discover | pair | overlap | faultseq
	P    *ProviderCase `json:"p,omitempty"`
	I    *IssuerCase   `json:"i,omitempty"`
	D    *DiscoverCase `json:"d,omitempty"`
	Pair *PairCase     `json:"pair,omitempty"`
	O    *OverlapCase  `json:"o,omitempty"`
	F    *FaultSeqCase `json:"f,omitempty"`
}

// EPShape customises one endpoint: path (custom route), under (absolute URL below the issuer in front of the
// route), foreign (absolute URL on another origin in front of the route), nil (disabled; LegacyServer only).
type EPShape struct {
	Kind string `json:"kind"`
	Path string `json:"path,omitempty"`
}

type ProviderCase struct {
	Router   string    `json:"router"`
	S256     bool      `json:"s256"`
	Post     bool      `json:"post"`
	PKJWT    bool      `json:"pkjwt"`
	Refresh  bool      `json:"refresh"`
	ReqObj   bool      `json:"reqobj"`
	Insecure bool      `json:"insecure"`
	Caps     vkit.Caps `json:"caps"`

	IssuerMode string   `json:"issuer_mode"` // static | host | forwarded
	Issuer     string   `json:"issuer"`      // static: the issuer; host / forwarded: the path
	Host       string   `json:"host"`        // Host header of every request of the case
	Forwarded  []string `json:"forwarded,omitempty"`

	// More are further (Host, Forwarded) combinations sent to the SAME provider instance after the first one, in
	// this order; each gets its own judgement "document names the issuer of its request, endpoints below it are
	// routed, tokens carry it" (the first combination gets the full judgement).
	More []View `json:"more,omitempty"`

	Endpoints map[string]EPShape `json:"endpoints,omitempty"`

	SignKey    string `json:"sign_key"`
	SignAlg    string `json:"sign_alg"`
	WebAuth    string `json:"web_auth"`    // auth method of the probing confidential client
	JWTAT      bool   `json:"jwt_at"`      // its access tokens are JWTs (carry iss)
	PKCEClient string `json:"pkce_client"` // pub | web
	NearMiss   string `json:"near_miss"`   // how the issuer asked from client.Discover is bent for the negative probe

	// request shapes of the capability probes (the specifications allow several; every one must be honoured)
	AuthzVia string    `json:"authz_via,omitempty"` // authorization requests of the grant / PKCE probes: "" = GET with query | post = POST with form body
	MachAuth string    `json:"mach_auth,omitempty"` // how the machine client authenticates: "" = client_secret_basic | client_secret_post (only generated when enabled)
	RO       []ROShape `json:"ro,omitempty"`        // request-object request shapes (none: the one classic shape, everything repeated in both places)

	// the code_verifier of the PKCE probes, drawn from the whole space RFC 7636 section 4.1 allows (43..128 characters
	// of A-Z a-z 0-9 - . _ ~); "" = the one classic verifier. WrongVerifier: how the verifier of the negative probe is
	// derived from it ("" = one character appended | flip-first | flip-last | drop-last | dot-tilde-swapped).
	Verifier      string `json:"verifier,omitempty"`
	WrongVerifier string `json:"wrong_verifier,omitempty"`
}

const (
	classicVerifier = "verifier-0123456789-abcdefghijklmnopqrstuvwxyz_ABCDEFGH"
	vfBase64URL     = "ABCDEFGHIJKLMNOPQRSTUVWXYZabcdefghijklmnopqrstuvwxyz0123456789-_"
	vfUnreserved    = vfBase64URL + ".~"
	vfDotTilde      = "....~~~~..~~.~-_aZ5" // mostly the two unreserved characters outside the base64url alphabet
)

var wrongVerifierKinds = []string{"", "flip-first", "flip-last", "drop-last", "dot-tilde-swapped"}

// genVerifier draws a legal code_verifier (RFC 7636, 4.1: 43*128unreserved) with the boundary lengths and the
// characters outside the base64url alphabet well represented; "" = the classic verifier.
func genVerifier(t *rapid.T) string {
	class := rapid.SampledFrom([]string{"classic", "base64url", "unreserved", "unreserved", "dot-tilde", "one-char"}).Draw(t, "verifier_class")
	if class == "classic" {
		return ""
	}
	n := rapid.SampledFrom([]int{43, 43, 128, 128, 44, 127, 0, 0}).Draw(t, "verifier_len")
	if n == 0 {
		n = rapid.IntRange(43, 128).Draw(t, "verifier_len_any")
	}
	alphabet := vfUnreserved
	switch class {
	case "base64url":
		alphabet = vfBase64URL
	case "dot-tilde":
		alphabet = vfDotTilde
	case "one-char":
		return strings.Repeat(rapid.SampledFrom([]string{".", "~", "-", "_", "a", "Z", "0"}).Draw(t, "verifier_char"), n)
	}
	return string(rapid.SliceOfN(rapid.SampledFrom([]byte(alphabet)), n, n).Draw(t, "verifier_chars"))
}

// verifier: the right code_verifier of the PKCE probes of the case.
func (pc *ProviderCase) verifier() string {
	if pc.Verifier == "" {
		return classicVerifier
	}
	return pc.Verifier
}

// wrongVerifier derives a verifier that differs from v (so neither its S256 challenge nor itself equals v's).
func wrongVerifier(v, kind string) string {
	other := func(c byte) byte {
		if c == 'A' {
			return 'B'
		}
		return 'A'
	}
	bs := []byte(v)
	switch kind {
	case "flip-first":
		bs[0] = other(bs[0])
	case "flip-last":
		bs[len(bs)-1] = other(bs[len(bs)-1])
	case "drop-last":
		bs = bs[:len(bs)-1]
	case "dot-tilde-swapped":
		changed := false
		for i, c := range bs {
			switch c {
			case '.':
				bs[i], changed = '~', true
			case '~':
				bs[i], changed = '.', true
			}
		}
		if !changed {
			bs[len(bs)/2] = other(bs[len(bs)/2])
		}
	default:
		bs = append(bs, 'x')
	}
	return string(bs)
}

// verifierClass: length class and character class of a verifier, computed from the string itself (labels, key).
func verifierClass(v string) (length, chars string) {
	switch {
	case len(v) == 43:
		length = "len-min-43"
	case len(v) == 128:
		length = "len-max-128"
	case len(v) > 43 && len(v) < 128:
		length = "len-between"
	default:
		length = "len-illegal"
	}
	outside, illegal := 0, 0
	for _, c := range v {
		switch {
		case c == '.' || c == '~':
			outside++
		case !strings.ContainsRune(vfBase64URL, c):
			illegal++
		}
	}
	switch {
	case illegal > 0:
		chars = "chars-illegal"
	case outside == 0:
		chars = "base64url-only"
	case 2*outside > len(v):
		chars = "mostly-dot-tilde"
	default:
		chars = "some-dot-tilde"
	}
	return
}

// ROShape is one shape of an authorization request carrying a signed request object (OIDC Core 6.1): every parameter
// travels as plain (OAuth 2.0 syntax) parameter, inside the object only, or in both places with different values
// (then the object's value counts); client_id, response_type and a scope with openid are always sent plain.
type ROShape struct {
	Via    string            `json:"via,omitempty"`    // "" = GET with query | post = POST with form body
	Client string            `json:"client,omitempty"` // "" = web | mach (both registered with a key)
	Aud    string            `json:"aud,omitempty"`    // spelling of the aud claim: "" = array | string | array-extra
	Place  map[string]string `json:"place"`            // parameter -> plain | object | both (not listed = not sent at all)
}

// roParams: the parameters a request-object shape places, with the placements the specification allows for each.
var roParams = []struct {
	name   string
	places []string
}{
	{"redirect_uri", []string{"plain", "object", "both"}}, // needed somewhere
	{"response_type", []string{"plain", "both"}},          // plain is mandatory, the object may repeat it (same value)
	{"scope", []string{"plain", "both"}},                  // plain (with openid) is mandatory, the object may widen it
	{"state", []string{"", "plain", "object", "both"}},
	{"nonce", []string{"", "plain", "object", "both"}},
	{"response_mode", []string{"", "plain", "object", "both"}},
	{"prompt", []string{"", "plain", "object", "both"}},
	{"max_age", []string{"", "plain", "object", "both"}},
	{"login_hint", []string{"", "plain", "object", "both"}},
	{"code_challenge", []string{"", "plain", "object", "both"}}, // together with code_challenge_method
}

const (
	roVerifierPlain  = "plain-verifier-0123456789-abcdefghijklmnopqrstuvwxyz_ABC"
	roVerifierObject = "object-verifier-0123456789-abcdefghijklmnopqrstuvwxyz_AB"
)

// roValue: the value a parameter has as plain parameter (side "plain") and inside the object (side "object").
func roValue(param, side string) string {
	obj := side == "object"
	switch param {
	case "redirect_uri":
		if obj {
			return redirectWeb
		}
		return redirectWeb2
	case "response_type":
		return "code"
	case "scope":
		if obj {
			return "openid profile email"
		}
		return "openid"
	case "response_mode":
		if obj {
			return "fragment"
		}
		return "query"
	case "prompt":
		if obj {
			return "select_account"
		}
		return "consent"
	case "max_age":
		if obj {
			return "600"
		}
		return "300"
	case "code_challenge":
		if obj {
			return vkit.S256(roVerifierObject)
		}
		return vkit.S256(roVerifierPlain)
	}
	if obj {
		return param + "-from-object"
	}
	return param + "-from-query"
}

// classicRO is the single shape the check used before shapes were generated (kept for cases without shapes).
func classicRO() ROShape {
	return ROShape{Place: map[string]string{"redirect_uri": "both", "response_type": "both", "scope": "both", "state": "both", "nonce": "both"}}
}

func (sh ROShape) key() string {
	k := sh.Via + "/" + sh.Client + "/" + sh.Aud + "/"
	for _, p := range roParams {
		pl := sh.Place[p.name]
		if pl == "" {
			pl = "-"
		}
		k += pl[:1]
	}
	return k
}

func genROShape(t *rapid.T, i int) ROShape {
	sh := ROShape{Place: map[string]string{}}
	sh.Via = rapid.SampledFrom([]string{"", "", "post"}).Draw(t, fmt.Sprintf("ro%d_via", i))
	sh.Client = rapid.SampledFrom([]string{"", "", "mach"}).Draw(t, fmt.Sprintf("ro%d_client", i))
	sh.Aud = rapid.SampledFrom([]string{"", "", "string", "array-extra"}).Draw(t, fmt.Sprintf("ro%d_aud", i))
	for _, p := range roParams {
		if pl := rapid.SampledFrom(p.places).Draw(t, fmt.Sprintf("ro%d_%s", i, p.name)); pl != "" {
			sh.Place[p.name] = pl
		}
	}
	return sh
}

// View is the pair of request headers an issuer can be derived from.
type View struct {
	Host      string   `json:"host"`
	Forwarded []string `json:"forwarded,omitempty"`
}

func (v View) same(o View) bool {
	return v.Host == o.Host && strings.Join(v.Forwarded, "\x00") == strings.Join(o.Forwarded, "\x00")
}

type IssuerCase struct {
	Mode     string `json:"mode"` // static | host | forwarded
	Insecure bool   `json:"insecure"`
	Empty    bool   `json:"empty,omitempty"`
	Scheme   string `json:"scheme,omitempty"`
	Sep      string `json:"sep,omitempty"` // "://" or ":" (no authority)
	UserInfo string `json:"userinfo,omitempty"`
	Host     string `json:"host,omitempty"`
	Port     string `json:"port,omitempty"`
	Path     string `json:"path,omitempty"`
	Query    string `json:"query,omitempty"`    // with leading '?'
	Fragment string `json:"fragment,omitempty"` // with leading '#'
}

type DiscoverCase struct {
	Asked      string `json:"asked"`
	DocIssuer  string `json:"doc_issuer"`
	OmitIssuer bool   `json:"omit_issuer,omitempty"`
	Relation   string `json:"relation"`
	WellKnown  string `json:"well_known,omitempty"`
}

// ---- generators ------------------------------------------------------------------------

var (
	staticHTTPS = []string{"https://op.example.com", "https://op.example.com", "https://op.example.com/", "https://op.example.com/oidc",
		"https://op.example.com:8443", "https://op.example.com/a/b/", "https://login.example.org/tenant/t1"}
	staticHTTP   = []string{"http://localhost:9998", "http://localhost:9998/", "http://op.example.com/x", "http://127.0.0.1:8080/oidc"}
	dynPaths     = []string{"", "", "/", "/oidc", "oidc", "/a/b", "/a/b/"}
	hostPool     = []string{"op.example.com", "op.example.com", "op.example.com:8443", "localhost:9998", "tenant.example.org", "OP.Example.COM", "[::1]:8080"}
	forwardedSet = [][]string{
		nil, nil, nil,
		{"host=fwd.example.com"},
		{"for=192.0.2.1;host=fwd.example.com;proto=https"},
		{"host=\"fwd.example.com:8443\""},
		{"for=192.0.2.1"},
		{"host=a.example.com, host=b.example.com"},
		{"for=192.0.2.7", "host=second.example.com"},
		{"by=\"unterminated;host=x.example.com"},
		{"host=fwd2.example.net"},
		{"for=198.51.100.7;host=fwd3.example.org;proto=https"},
		{";;=;"},
	}
	signKeys = [][2]string{{"rsa1", "RS256"}, {"rsa1", "RS256"}, {"p256a", "ES256"}, {"ed1", "EdDSA"}}
	epLeaf   = map[string]string{"authorization": "authz", "token": "tok", "introspection": "inspect", "userinfo": "me",
		"revocation": "rvk", "end_session": "logout", "keys": "jwks.json", "device_authorization": "devauth"}
	epPrefix  = []string{"", "/", "/oauth2/", "api/v1.0/", "/x/"}
	nearKinds = []string{"slash-toggle", "append-char", "prefix-cut", "suffix-path", "case-host", "scheme-swap", "default-port"}
)

func genProvider(t *rapid.T) *ProviderCase {
	pc := &ProviderCase{}
	pc.Router = rapid.SampledFrom([]string{"provider", "legacy"}).Draw(t, "router")
	pc.S256 = rapid.Bool().Draw(t, "s256")
	pc.Post = rapid.Bool().Draw(t, "post")
	pc.PKJWT = rapid.Bool().Draw(t, "pkjwt")
	pc.Refresh = rapid.Bool().Draw(t, "refresh")
	pc.ReqObj = rapid.Bool().Draw(t, "reqobj")
	pc.Insecure = rapid.IntRange(0, 2).Draw(t, "insecure") == 0
	pc.Caps.CC = rapid.Bool().Draw(t, "cc")
	pc.Caps.TE = rapid.Bool().Draw(t, "te")
	pc.Caps.Device = rapid.Bool().Draw(t, "device")
	if pc.Caps.CC && pc.Caps.TE && pc.Caps.Device {
		pc.Caps.Extras = rapid.Bool().Draw(t, "extras")
	}
	pc.IssuerMode = rapid.SampledFrom([]string{"static", "static", "host", "forwarded"}).Draw(t, "issuer_mode")
	if pc.IssuerMode == "static" {
		pool := staticHTTPS
		if pc.Insecure {
			pool = append(append([]string{}, staticHTTPS[:3]...), staticHTTP...)
		}
		pc.Issuer = rapid.SampledFrom(pool).Draw(t, "issuer")
	} else {
		pc.Issuer = rapid.SampledFrom(dynPaths).Draw(t, "issuer_path")
	}
	pc.Host = rapid.SampledFrom(hostPool).Draw(t, "host")
	pc.Forwarded = rapid.SampledFrom(forwardedSet).Draw(t, "forwarded")
	pc.More = genViews(t, pc)
	if rapid.IntRange(0, 2).Draw(t, "custom_endpoints") > 0 {
		pc.Endpoints = map[string]EPShape{}
		for _, name := range vkit.EndpointNames {
			kinds := []string{"default", "default", "path", "path", "under", "foreign"}
			if pc.Router == "legacy" {
				kinds = append(kinds, "nil")
			}
			k := rapid.SampledFrom(kinds).Draw(t, "ep_"+name)
			if k == "default" {
				continue
			}
			sh := EPShape{Kind: k}
			if k != "nil" && (k == "path" || rapid.Bool().Draw(t, "ep_path_"+name)) {
				sh.Path = rapid.SampledFrom(epPrefix).Draw(t, "ep_prefix_"+name) + epLeaf[name]
				if rapid.IntRange(0, 5).Draw(t, "ep_slash_"+name) == 0 {
					sh.Path += "/"
				}
			}
			pc.Endpoints[name] = sh
		}
		if len(pc.Endpoints) == 0 {
			pc.Endpoints = nil
		}
	}
	sk := rapid.SampledFrom(signKeys).Draw(t, "sign_key")
	pc.SignKey, pc.SignAlg = sk[0], sk[1]
	auths := []string{"client_secret_basic"}
	if pc.Post {
		auths = append(auths, "client_secret_post")
	}
	if pc.PKJWT {
		auths = append(auths, "private_key_jwt")
	}
	pc.WebAuth = rapid.SampledFrom(auths).Draw(t, "web_auth")
	pc.JWTAT = rapid.Bool().Draw(t, "jwt_at")
	pc.PKCEClient = rapid.SampledFrom([]string{"pub", "web"}).Draw(t, "pkce_client")
	pc.NearMiss = rapid.SampledFrom(nearKinds).Draw(t, "near_miss")
	pc.Verifier = genVerifier(t)
	pc.WrongVerifier = rapid.SampledFrom(wrongVerifierKinds).Draw(t, "wrong_verifier")
	pc.AuthzVia = rapid.SampledFrom([]string{"", "", "post"}).Draw(t, "authz_via")
	if pc.Post {
		pc.MachAuth = rapid.SampledFrom([]string{"", "client_secret_post"}).Draw(t, "mach_auth")
	}
	if pc.ReqObj {
		n := rapid.IntRange(1, 3).Draw(t, "ro_shapes")
		for i := 0; i < n; i++ {
			pc.RO = append(pc.RO, genROShape(t, i))
		}
	}
	return pc
}

// genViews: for the dynamic issuer strategies 1-2 further, pairwise different (Host, Forwarded) combinations
// (same Host / other Forwarded, other Host / same Forwarded, both different) and finally the first one again;
// for a static issuer optionally one other combination and then the first again (idempotence).
func genViews(t *rapid.T, pc *ProviderCase) []View {
	first := View{Host: pc.Host, Forwarded: pc.Forwarded}
	views := []View{first}
	otherHost := func(cur string, label string) string {
		h := rapid.SampledFrom(hostPool).Draw(t, label)
		for i := 0; h == cur; i++ {
			h = hostPool[i%len(hostPool)]
		}
		return h
	}
	otherFwd := func(cur []string, label string) []string {
		f := rapid.SampledFrom(forwardedSet).Draw(t, label)
		for i := 0; (View{Forwarded: f}).same(View{Forwarded: cur}); i++ {
			f = forwardedSet[i%len(forwardedSet)]
		}
		return f
	}
	n := rapid.IntRange(1, 2).Draw(t, "more_views")
	if pc.IssuerMode == "static" {
		n = rapid.IntRange(0, 1).Draw(t, "more_views_static")
	}
	for i := 0; i < n; i++ {
		prev := views[len(views)-1]
		var v View
		switch rapid.SampledFrom([]string{"same-host-other-forwarded", "same-host-other-forwarded", "other-host-same-forwarded", "both-other"}).Draw(t, fmt.Sprintf("view_rel_%d", i)) {
		case "same-host-other-forwarded":
			v = View{Host: prev.Host, Forwarded: otherFwd(prev.Forwarded, fmt.Sprintf("view_fwd_%d", i))}
		case "other-host-same-forwarded":
			v = View{Host: otherHost(prev.Host, fmt.Sprintf("view_host_%d", i)), Forwarded: prev.Forwarded}
		default:
			v = View{Host: otherHost(prev.Host, fmt.Sprintf("view_host_%d", i)), Forwarded: otherFwd(prev.Forwarded, fmt.Sprintf("view_fwd_%d", i))}
		}
		dup := false
		for _, o := range views {
			dup = dup || o.same(v)
		}
		if !dup {
			views = append(views, v)
		}
	}
	return append(views[1:], first)
}

func genIssuer(t *rapid.T) *IssuerCase {
	ic := &IssuerCase{}
	ic.Mode = rapid.SampledFrom([]string{"static", "static", "static", "host", "forwarded"}).Draw(t, "mode")
	ic.Insecure = rapid.Bool().Draw(t, "insecure")
	queries := []string{"", "", "", "", "", "", "", "", "?", "?x=1", "?x", "?a;b", "?%zz=1", "?&"}
	frags := []string{"", "", "", "", "", "", "", "", "#", "#frag", "#/p"}
	if ic.Mode != "static" {
		ic.Path = rapid.SampledFrom([]string{"", "/", "/oidc", "oidc", "/a/b/", "tenant/x"}).Draw(t, "path")
		ic.Query = rapid.SampledFrom(queries).Draw(t, "query")
		ic.Fragment = rapid.SampledFrom(frags).Draw(t, "fragment")
		return ic
	}
	ic.Empty = rapid.IntRange(0, 11).Draw(t, "empty") == 0
	ic.Scheme = rapid.SampledFrom([]string{"https", "https", "https", "https", "https", "https", "http", "http", "http", "HTTP", "HTTPS", "ftp", "ws", ""}).Draw(t, "scheme")
	ic.Sep = rapid.SampledFrom([]string{"://", "://", "://", "://", "://", "://", "://", "://", ":"}).Draw(t, "sep")
	ic.UserInfo = rapid.SampledFrom([]string{"", "", "", "", "", "", "", "", "user@", "user:pw@"}).Draw(t, "userinfo")
	ic.Host = rapid.SampledFrom([]string{"op.example.com", "op.example.com", "localhost", "127.0.0.1", "[::1]", "sub.op.example.com", "op.example.com", "login.example.org", "", ""}).Draw(t, "host")
	ic.Port = rapid.SampledFrom([]string{"", "", "", "", "", ":8443", ":443"}).Draw(t, "port")
	ic.Path = rapid.SampledFrom([]string{"", "", "/", "/oidc", "/a/b/", "/tenant%20x"}).Draw(t, "path")
	ic.Query = rapid.SampledFrom(queries).Draw(t, "query")
	ic.Fragment = rapid.SampledFrom(frags).Draw(t, "fragment")
	return ic
}

// nearMiss bends an issuer into a string an RP could ask for by mistake (or an attacker could serve).
func nearMiss(iss, kind string) string {
	scheme, rest, ok := strings.Cut(iss, "://")
	host, path := rest, ""
	if i := strings.Index(rest, "/"); i >= 0 {
		host, path = rest[:i], rest[i:]
	}
	switch kind {
	case "equal":
		return iss
	case "slash-toggle":
		if strings.HasSuffix(iss, "/") {
			return strings.TrimSuffix(iss, "/")
		}
		return iss + "/"
	case "append-char":
		return iss + "x"
	case "prefix-cut":
		if len(iss) > 1 {
			return iss[:len(iss)-1]
		}
	case "suffix-path":
		return strings.TrimSuffix(iss, "/") + "/extra"
	case "suffix-host":
		if ok {
			return scheme + "://" + host + ".evil.example.net" + path
		}
	case "case-host":
		if ok {
			if up := strings.ToUpper(host); up != host {
				return scheme + "://" + up + path
			}
			return scheme + "://" + strings.ToLower(host) + path
		}
	case "scheme-swap":
		if ok {
			if scheme == "https" {
				return "http://" + rest
			}
			return "https://" + rest
		}
	case "default-port":
		if ok && !strings.Contains(strings.TrimPrefix(host, "["), ":") {
			return scheme + "://" + host + ":443" + path
		}
		return iss + ":443"
	case "trailing-dot":
		if ok {
			return scheme + "://" + host + "." + path
		}
	case "space-suffix":
		return iss + " "
	case "percent":
		return strings.Replace(iss, "e", "%65", 1)
	case "unicode":
		return strings.Replace(iss, "o", "о", 1) // cyrillic o
	case "empty":
		return ""
	case "other":
		return "https://other.example.net"
	}
	return iss + "-"
}

func genDiscover(t *rapid.T) *DiscoverCase {
	dc := &DiscoverCase{}
	dc.Asked = rapid.SampledFrom([]string{"https://op.example.com", "https://op.example.com/", "https://op.example.com/oidc", "https://op.example.com/oidc/",
		"https://op.example.com:8443/t/x", "http://localhost:9998", "https://OP.example.com"}).Draw(t, "asked")
	dc.Relation = rapid.SampledFrom([]string{"equal", "equal", "equal", "equal", "slash-toggle", "slash-toggle", "append-char", "prefix-cut", "suffix-path", "suffix-host",
		"case-host", "scheme-swap", "default-port", "trailing-dot", "space-suffix", "percent", "unicode", "empty", "other", "missing"}).Draw(t, "relation")
	if dc.Relation == "missing" {
		dc.OmitIssuer = true
	} else {
		dc.DocIssuer = nearMiss(dc.Asked, dc.Relation)
	}
	dc.WellKnown = rapid.SampledFrom([]string{"", "", "", "https://meta.example.net/custom/openid-configuration"}).Draw(t, "well_known")
	return dc
}

func genCase(t *rapid.T) Case {
	switch rapid.SampledFrom([]string{"provider", "provider", "provider", "provider", "provider", "issuer", "issuer", "issuer", "discover", "discover", "pair", "pair", "overlap", "overlap", "faultseq", "faultseq"}).Draw(t, "kind") {
	case "faultseq":
		return Case{Kind: "faultseq", F: genFaultSeq(t)}
	case "overlap":
		return Case{Kind: "overlap", O: genOverlap(t)}
	case "pair":
		return Case{Kind: "pair", Pair: genPair(t)}
	case "issuer":
		return Case{Kind: "issuer", I: genIssuer(t)}
	case "discover":
		return Case{Kind: "discover", D: genDiscover(t)}
	}
	return Case{Kind: "provider", P: genProvider(t)}
}

// ---- run -------------------------------------------------------------------------------

func run(c Case) (res *vkit.Result) {
	res = &vkit.Result{}
	defer func() {
		if p := recover(); p != nil {
			st := string(debug.Stack())
			res.Fail("C19:panic@"+vkit.FirstLibFrame(st), "panic: %v\n%s", p, st)
		}
	}()
	vkit.RestoreDefaultEndpoints()
	defer vkit.RestoreDefaultEndpoints()
	switch {
	case c.Kind == "provider" && c.P != nil:
		runProvider(c.P, res)
	case c.Kind == "issuer" && c.I != nil:
		runIssuer(c.I, res)
	case c.Kind == "discover" && c.D != nil:
		runDiscover(c.D, res)
	case c.Kind == "pair" && c.Pair != nil && c.Pair.A != nil && c.Pair.B != nil:
		runPair(c.Pair, res)
	case c.Kind == "overlap" && c.O != nil && c.O.P != nil:
		runOverlap(c.O, res)
	case c.Kind == "faultseq" && c.F != nil && c.F.P != nil:
		runFaultSeq(c.F, res)
	default:
		res.Grey = true
		res.Label("kind:malformed")
	}
	return res
}

// ---- provider cases ------------------------------------------------------------------------

const (
	redirectWeb = "https://rp.example.com/cb"
	redirectWeb2 = "https://rp.example.com/cb2" // second registered redirect URI of the confidential clients
	redirectPub = "https://spa.example.com/cb"
	machSecret  = "mach-secret"
	idTokenType = "urn:ietf:params:oauth:token-type:id_token"
	atTokenType = "urn:ietf:params:oauth:token-type:access_token"
	rtTokenType = "urn:ietf:params:oauth:token-type:refresh_token"
)

// the six grants of the token endpoint, in probing order
var tokenGrants = []struct{ short, name string }{
	{"code", vkit.GCode}, {"cc", vkit.GCC}, {"bearer", vkit.GBearer}, {"refresh", vkit.GRefr}, {"te", vkit.GTE}, {"device", vkit.GDevice},
}

var docKeyOf = map[string]string{"authorization": "authorization_endpoint", "token": "token_endpoint", "introspection": "introspection_endpoint",
	"userinfo": "userinfo_endpoint", "revocation": "revocation_endpoint", "end_session": "end_session_endpoint", "keys": "jwks_uri",
	"device_authorization": "device_authorization_endpoint"}

var postEndpoints = map[string]bool{"token": true, "introspection": true, "revocation": true, "device_authorization": true}

// endpoints that have to answer GET as well as POST
var bothMethodEndpoints = map[string]bool{"authorization": true, "userinfo": true, "end_session": true}

func modelIssuer(pc *ProviderCase) string {
	if pc.IssuerMode == "static" {
		return pc.Issuer
	}
	scheme := "https"
	if pc.Insecure {
		scheme = "http"
	}
	p := pc.Issuer
	if p != "" && !strings.HasPrefix(p, "/") {
		p = "/" + p
	}
	host := pc.Host
	if pc.IssuerMode == "forwarded" {
		// rough reading of the Forwarded header; only used to build an input (an absolute endpoint URL that is
		// meant to lie below the issuer). If it guesses wrong the URL simply counts as foreign.
	find:
		for _, h := range pc.Forwarded {
			for _, part := range strings.FieldsFunc(h, func(r rune) bool { return r == ';' || r == ',' }) {
				if k, v, ok := strings.Cut(strings.TrimSpace(part), "="); ok && strings.EqualFold(k, "host") {
					host = strings.Trim(v, "\"")
					break find
				}
			}
		}
	}
	return scheme + "://" + host + p
}

func (pc *ProviderCase) spec() vkit.ProviderSpec {
	s := vkit.DefaultProviderSpec(pc.Router)
	s.IssuerMode, s.Issuer, s.Insecure = pc.IssuerMode, pc.Issuer, pc.Insecure
	s.S256, s.Post, s.PKJWT, s.Refresh, s.ReqObj = pc.S256, pc.Post, pc.PKJWT, pc.Refresh, pc.ReqObj
	s.Caps = pc.Caps
	s.DefaultLogoutURI = "https://rp.example.com/logged-out"
	if len(pc.Endpoints) > 0 {
		s.Endpoints = map[string]vkit.EndpointSpec{}
		base := strings.TrimSuffix(modelIssuer(pc), "/")
		for name, sh := range pc.Endpoints {
			route := sh.Path
			if route == "" {
				route = defaultRoute(name)
			}
			switch sh.Kind {
			case "path":
				s.Endpoints[name] = vkit.EndpointSpec{Path: sh.Path}
			case "under":
				s.Endpoints[name] = vkit.EndpointSpec{Path: sh.Path, URL: base + relPath(route)}
			case "foreign":
				s.Endpoints[name] = vkit.EndpointSpec{Path: sh.Path, URL: "https://edge.example.net" + relPath(route)}
			case "nil":
				s.Endpoints[name] = vkit.EndpointSpec{Nil: true}
			}
		}
	}
	return s
}

func defaultRoute(name string) string {
	e := vkit.PristineEndpoints()
	return legacyField(&e, name).Relative()
}

func (pc *ProviderCase) isDefault() bool {
	return pc.S256 && pc.Post && pc.PKJWT && pc.Refresh && pc.ReqObj && !pc.Insecure && pc.Caps == vkit.FullCaps &&
		pc.IssuerMode == "static" && pc.Issuer == "https://op.example.com" && len(pc.Endpoints) == 0 && pc.Host == "op.example.com" && len(pc.Forwarded) == 0
}

func b(v bool) string {
	if v {
		return "1"
	}
	return "0"
}

func (pc *ProviderCase) key() string {
	eps := ""
	for _, n := range vkit.EndpointNames {
		sh, ok := pc.Endpoints[n]
		k := "d"
		if ok {
			k = sh.Kind[:1]
			if sh.Path != "" {
				k = strings.ToUpper(k)
			}
		}
		eps += k
	}
	return "P|" + pc.Router + "|" + b(pc.S256) + b(pc.Post) + b(pc.PKJWT) + b(pc.Refresh) + b(pc.ReqObj) + b(pc.Insecure) + "|" +
		b(pc.Caps.CC) + b(pc.Caps.TE) + b(pc.Caps.Device) + b(pc.Caps.Extras) + "|" + pc.IssuerMode + "|" + pc.Issuer + "|" + pc.Host + "|" +
		strings.Join(pc.Forwarded, ",") + "|" + eps + "|" + pc.SignAlg + "|" + pc.WebAuth + "|" + pc.PKCEClient + "|" + strings.Join(pc.viewRelations(), ",") +
		"|" + pc.AuthzVia + "|" + pc.MachAuth + "|" + strings.Join(pc.roKeys(), ",") + pc.verifierKey()
}

func (pc *ProviderCase) verifierKey() string {
	if pc.Verifier == "" && pc.WrongVerifier == "" {
		return ""
	}
	l, c := verifierClass(pc.verifier())
	return "|" + l + "," + c + "," + pc.WrongVerifier
}

func (pc *ProviderCase) roKeys() []string {
	var out []string
	for _, sh := range pc.RO {
		out = append(out, sh.key())
	}
	return out
}

// viewRelations classifies each further view against its predecessor.
func (pc *ProviderCase) viewRelations() []string {
	prev := View{Host: pc.Host, Forwarded: pc.Forwarded}
	var out []string
	for _, v := range pc.More {
		sh, sf := v.Host == prev.Host, (View{Forwarded: v.Forwarded}).same(View{Forwarded: prev.Forwarded})
		switch {
		case sh && sf:
			out = append(out, "same")
		case sh:
			out = append(out, "same-host-other-forwarded")
		case sf:
			out = append(out, "other-host-same-forwarded")
		default:
			out = append(out, "both-other")
		}
		prev = v
	}
	return out
}

// outcome classifies the answer of the token endpoint.
func outcome(r *vkit.Resp) string {
	if r.Panic != nil {
		return "panic"
	}
	if r.Success() && r.Str("access_token") != "" {
		return "ok"
	}
	e := r.OAuthError()
	if e == "unsupported_grant_type" {
		return "unsupported"
	}
	if e == "" {
		return "err:status-" + strconv.Itoa(r.Status)
	}
	return "err:" + e
}

type harvested struct{ source, token string }

func runProvider(pc *ProviderCase, res *vkit.Result) {
	res.Label("kind:provider", "router:"+pc.Router, "issuer-mode:"+pc.IssuerMode)
	for _, sh := range pc.Endpoints {
		res.Label("ep-shape:" + sh.Kind)
	}
	if len(pc.Forwarded) > 0 {
		res.Label("forwarded-header:" + pc.IssuerMode)
	}
	if pc.Host != "op.example.com" {
		res.Label("host-header:other:" + pc.IssuerMode)
	}
	res.NonTrivial = !pc.isDefault()
	res.Key = pc.key()
	info := map[string]any{}
	res.Info = info

	sut, st, cl, err := setupProvider(pc, res)
	if err != nil {
		res.Fail("C19:construct-valid-config", "NewProvider refused a valid configuration (issuer %q mode %s insecure=%v): %v", pc.Issuer, pc.IssuerMode, pc.Insecure, err)
		return
	}
	basePaths := map[string]string{}
	for k, v := range sut.Paths {
		basePaths[k] = v
	}
	views := append([]View{{Host: pc.Host, Forwarded: pc.Forwarded}}, pc.More...)
	for _, rel := range pc.viewRelations() {
		res.Label("view:" + rel + ":" + pc.IssuerMode)
	}
	var summaries []map[string]any
	for i, view := range views {
		sut.Paths = map[string]string{}
		for k, v := range basePaths {
			sut.Paths[k] = v
		}
		vinfo := map[string]any{}
		if i == 0 {
			vinfo = info
		}
		sum := judgeView(pc, res, sut, st, view, i, vinfo, cl, nil)
		summaries = append(summaries, sum)
		// identical requests to one provider are answered with the same statements
		for j := 0; j < i; j++ {
			if views[j].same(view) && sum != nil && summaries[j] != nil {
				a, _ := json.Marshal(summaries[j])
				bb, _ := json.Marshal(sum)
				if string(a) != string(bb) {
					res.Fail("C19:discovery-differs-for-identical-request", "request %d and request %d (Host %q, Forwarded %q) to the same provider got different documents: %s vs %s", j, i, view.Host, view.Forwarded, a, bb)
				} else {
					res.Label("view:repeat-identical")
				}
				break
			}
		}
	}
	var issuers []string
	for _, s := range summaries {
		if s != nil {
			issuers = append(issuers, fmt.Sprint(s["issuer"]))
		}
	}
	info["issuers_by_view"] = issuers
}

// setupProvider registers the probing clients, builds the storage and the provider of a provider case (wrap: see buildSUT).
func setupProvider(pc *ProviderCase, res *vkit.Result, wrap ...func(op.Storage) op.Storage) (*vkit.SUT, *vkit.Store, [3]*vkit.ClientSpec, error) {
	web := &vkit.ClientSpec{ID: "web", Secret: "web-secret", AppType: "web", AuthMethod: pc.WebAuth,
		GrantTypes: []string{vkit.GCode, vkit.GRefr, vkit.GImpl, vkit.GBearer, vkit.GTE, vkit.GDevice}, ResponseTypes: []string{"code", "id_token", "id_token token"},
		RedirectURIs: []string{redirectWeb, redirectWeb2}, Keys: map[string]string{"wk1": "rsa2"}, JWTAccessToken: pc.JWTAT}
	machAuth := "client_secret_basic"
	if pc.MachAuth == "client_secret_post" {
		machAuth = pc.MachAuth
		res.Label("mach-auth:post")
	}
	if pc.AuthzVia == "post" {
		res.Label("authz-via:post")
	}
	mach := &vkit.ClientSpec{ID: "mach", Secret: machSecret, AppType: "web", AuthMethod: machAuth,
		GrantTypes: []string{vkit.GCode, vkit.GRefr, vkit.GCC, vkit.GBearer, vkit.GTE, vkit.GDevice}, ResponseTypes: []string{"code"},
		RedirectURIs: []string{redirectWeb, redirectWeb2}, Keys: map[string]string{"mk1": "rsa3"}, JWTAccessToken: true, Service: true}
	pub := &vkit.ClientSpec{ID: "pub", AppType: "user_agent", AuthMethod: "none", GrantTypes: []string{vkit.GCode, vkit.GRefr},
		ResponseTypes: []string{"code"}, RedirectURIs: []string{redirectPub}}
	st := vkit.NewStore([]*vkit.ClientSpec{web, mach, pub}, vkit.SignKeySpec{KeyName: pc.SignKey, Alg: pc.SignAlg, KID: "sig1"}, vkit.StorePolicy{})

	sut, err := buildSUT(pc.spec(), st, wrap...)
	return sut, st, [3]*vkit.ClientSpec{web, mach, pub}, err
}

// judgeView fetches the document with the headers of view and judges it against the same handler with the same
// headers. idx 0 gets the full judgement (grants, PKCE, request object, client.Discover); the others: document,
// endpoints below the issuer, iss of freshly issued tokens. Returns the statements of the document the property is about.
func judgeView(pc *ProviderCase, res *vkit.Result, sut *vkit.SUT, st *vkit.Store, view View, idx int, info map[string]any, cl [3]*vkit.ClientSpec, first *vkit.Resp) map[string]any {
	web, mach, pub := cl[0], cl[1], cl[2]
	full := idx == 0
	a := &ua{sut: sut, host: view.Host, fwd: view.Forwarded, via: pc.AuthzVia, firstDoc: first}

	// 1. the document, fetched the way an RP does
	d := a.firstDoc
	if d == nil {
		d = a.get("/.well-known/openid-configuration", nil)
	}
	if d.Panic != nil {
		res.Fail("C19:panic@"+d.PanicFrame(), "discovery panicked: %v", d.Panic)
		return nil
	}
	doc := d.JSON()
	if !d.Success() || doc == nil {
		res.Fail("C19:discovery-unavailable", "GET /.well-known/openid-configuration (request %d): %s", idx, d.Describe())
		return nil
	}
	docIssuer, _ := doc["issuer"].(string)
	info["issuer"] = docIssuer
	if docIssuer == "" {
		res.Fail("C19:discovery-without-issuer", "discovery document has no issuer: %s", d.Describe())
		return nil
	}
	summary := map[string]any{"issuer": docIssuer, "grants": doc["grant_types_supported"], "pkce": doc["code_challenge_methods_supported"], "reqobj": doc["request_parameter_supported"]}

	// 2. every advertised endpoint below the issuer is a route of the handler
	broken := map[string]bool{}
	keys := make([]string, 0, len(doc))
	for k := range doc {
		keys = append(keys, k)
	}
	sort.Strings(keys)
	nameOfKey := map[string]string{}
	for n, k := range docKeyOf {
		nameOfKey[k] = n
	}
	machBasic := vkit.RightCred(mach, docIssuer) // Basic header or secret in the body, as registered for the case
	advertisedEP := map[string]string{}
	for _, k := range keys {
		if !strings.HasSuffix(k, "_endpoint") && k != "jwks_uri" && k != "check_session_iframe" {
			continue
		}
		adv, _ := doc[k].(string)
		if adv == "" {
			continue
		}
		name, knownName := nameOfKey[k]
		if !knownName {
			name = k
		}
		advertisedEP[name] = adv
		summary[k] = adv
		rel, under := underIssuer(adv, docIssuer)
		if !under {
			res.Label("ep:foreign-url")
			continue
		}
		// every method the specifications give the endpoint: POST for the back-channel endpoints, GET for the
		// documents, GET and POST for authorization (Core 3.1.2.1), userinfo (Core 5.3.1) and end_session
		methods := []string{"GET"}
		switch {
		case postEndpoints[name]:
			methods = []string{"POST"}
		case bothMethodEndpoints[name]:
			methods = []string{"GET", "POST"}
		}
		routed := true
		for _, m := range methods {
			var r *vkit.Resp
			switch {
			case m == "POST" && postEndpoints[name]:
				r = a.post(rel, url.Values{"token": {"probe"}, "scope": {"openid"}}, machBasic)
			case m == "POST":
				r = a.post(rel, url.Values{"scope": {"openid"}}, vkit.Cred{Kind: "none"})
			default:
				r = a.get(rel, nil)
			}
			switch {
			case r.Panic != nil:
				res.Fail("C19:panic@"+r.PanicFrame(), "probing advertised %s %q (%s) panicked: %v", k, adv, m, r.Panic)
				routed = false
			case r.Status == http.StatusNotFound || r.Status == http.StatusMethodNotAllowed:
				res.Fail("C19:endpoint-advertised-not-routed:"+name, "%s is advertised as %q (issuer %q) but %s %s answers %d: %s", k, adv, docIssuer, m, rel, r.Status, r.Describe())
				routed = false
			}
		}
		if !routed {
			broken[name] = true
		} else {
			res.Label("ep:routed")
			if len(methods) > 1 {
				res.Label("ep:routed:get+post")
			}
			if knownName {
				sut.Paths[name] = rel // from here on the flows use the advertised address, like an RP
			}
		}
	}
	for _, n := range vkit.EndpointNames {
		if _, ok := advertisedEP[n]; !ok {
			res.Label("ep:not-advertised")
		}
	}
	authAvail := sut.Paths["authorization"] != "" && !broken["authorization"]
	tokenAvail := sut.Paths["token"] != "" && !broken["token"]
	devAvail := sut.Paths["device_authorization"] != "" && !broken["device_authorization"]

	webCred := func() vkit.Cred { return vkit.RightCred(web, docIssuer) }
	var tokens []harvested
	keep := func(source string, r *vkit.Resp) {
		for _, m := range []string{"id_token", "access_token"} {
			if s := r.Str(m); strings.Count(s, ".") == 2 {
				tokens = append(tokens, harvested{source + ":" + m, s})
			}
		}
	}
	codeFlow := func(cl *vkit.ClientSpec, redirect string, extra url.Values) *flow {
		q := vkit.AuthParams(cl, redirect, "code", "openid profile offline_access", "st-"+cl.ID, "n-"+cl.ID)
		for k, v := range extra {
			q[k] = v
		}
		return a.authFlow(q, "u1")
	}

	if !full {
		// further views: fresh tokens through the advertised addresses (client with Basic authentication, so that
		// obtaining them does not depend on the issuer the document names)
		res.Label("view:further-judged")
		if tokenAvail {
			if authAvail {
				f := codeFlow(mach, redirectWeb, nil)
				r := a.token(vkit.CodeExchangeForm(f.params.Get("code"), redirectWeb, ""), machBasic)
				if r.Panic != nil {
					res.Fail("C19:panic@"+r.PanicFrame(), "token endpoint panicked: %v", r.Panic)
				}
				keep("code", r)
			}
			r := a.token(url.Values{"grant_type": {vkit.GCC}, "scope": {"openid"}}, machBasic)
			if r.Panic != nil {
				res.Fail("C19:panic@"+r.PanicFrame(), "token endpoint panicked: %v", r.Panic)
			}
			keep("cc", r)
		} else if authAvail {
			f := a.authFlow(vkit.AuthParams(web, redirectWeb, "id_token", "openid", "st-impl", "n-impl"), "u1")
			if s := f.params.Get("id_token"); strings.Count(s, ".") == 2 {
				tokens = append(tokens, harvested{"implicit:id_token", s})
			}
		}
	}

	// 3. advertised token-endpoint grants == grants not answered unsupported_grant_type
	advertised := strList(doc["grant_types_supported"])
	info["grants"] = advertised
	outcomes := map[string]string{}
	if !full {
		// judged on the first request
	} else if tokenAvail {
		var idToken, refreshToken, ccToken string
		for _, g := range tokenGrants {
			var r *vkit.Resp
			switch g.short {
			case "code":
				code := "no-code"
				if authAvail {
					f := codeFlow(web, redirectWeb, nil)
					if c := f.params.Get("code"); c != "" {
						code = c
					} else {
						res.Label("probe:code:no-code")
						info["code_flow"] = f.describe()
					}
				}
				r = a.token(vkit.CodeExchangeForm(code, redirectWeb, ""), webCred())
				idToken, refreshToken = r.Str("id_token"), r.Str("refresh_token")
			case "cc":
				r = a.token(url.Values{"grant_type": {vkit.GCC}, "scope": {"openid"}}, machBasic)
				ccToken = r.Str("access_token")
			case "bearer":
				as := vkit.ClientAssertion(mach, docIssuer, time.Now())
				r = a.token(url.Values{"grant_type": {vkit.GBearer}, "assertion": {as}, "scope": {"openid"}}, vkit.Cred{Kind: "none"})
			case "refresh":
				rt := refreshToken
				if rt == "" {
					rt = "no-refresh-token"
					res.Label("probe:refresh:no-token")
				}
				r = a.token(url.Values{"grant_type": {vkit.GRefr}, "refresh_token": {rt}}, webCred())
			case "te":
				f := url.Values{"grant_type": {vkit.GTE}, "scope": {"openid"}}
				switch {
				case idToken != "":
					f.Set("subject_token", idToken)
					f.Set("subject_token_type", idTokenType)
				case strings.Count(ccToken, ".") == 2:
					f.Set("subject_token", ccToken)
					f.Set("subject_token_type", atTokenType)
				default:
					f.Set("subject_token", "no-subject-token")
					f.Set("subject_token_type", rtTokenType)
					res.Label("probe:te:no-subject")
				}
				r = a.token(f, machBasic)
			case "device":
				dc := "no-device-code"
				if devAvail {
					da := a.post(sut.Paths["device_authorization"], url.Values{"scope": {"openid profile"}}, machBasic)
					if da.Panic != nil {
						res.Fail("C19:panic@"+da.PanicFrame(), "device authorization panicked: %v", da.Panic)
					}
					if c := da.Str("device_code"); c != "" {
						dc = c
						st.ApproveDevice(c, "u2")
					}
				}
				r = a.token(url.Values{"grant_type": {vkit.GDevice}, "device_code": {dc}}, machBasic)
			}
			out := outcome(r)
			outcomes[g.short] = out
			if out == "panic" {
				res.Fail("C19:panic@"+r.PanicFrame(), "token endpoint panicked on the %s probe: %v", g.short, r.Panic)
				continue
			}
			keep(g.short, r)
			adv := contains(advertised, g.name)
			cls := out
			if strings.HasPrefix(out, "err:") {
				cls = "other-error"
				res.Label("probe:" + g.short + ":" + out)
			}
			res.Label("grant:" + g.short + ":adv=" + b(adv) + ":" + cls)
			switch {
			case adv && out == "unsupported":
				res.Fail("C19:grant-advertised-but-unsupported:"+g.short, "grant_types_supported lists %q but a complete, authenticated %s request is answered unsupported_grant_type: %s (document %v)", g.name, g.short, r.Describe(), advertised)
			case !adv && out != "unsupported":
				res.Fail("C19:grant-accepted-but-not-advertised:"+g.short, "grant_types_supported %v does not list %q but the token endpoint does not answer unsupported_grant_type to a complete %s request: %s", advertised, g.name, g.short, r.Describe())
			}
		}
	} else {
		res.Label("grants:no-token-endpoint")
	}
	info["outcomes"] = outcomes

	// tokens issued without the token endpoint (implicit flow), so that the issuer can be compared there too
	if full && authAvail && !tokenAvail {
		q := vkit.AuthParams(web, redirectWeb, "id_token", "openid", "st-impl", "n-impl")
		f := a.authFlow(q, "u1")
		if s := f.params.Get("id_token"); strings.Count(s, ".") == 2 {
			tokens = append(tokens, harvested{"implicit:id_token", s})
		}
	}

	// 4. issuer of the document == iss of the tokens issued for the same request host
	if len(tokens) == 0 {
		res.Label("iss:no-token-obtainable")
	}
	seen := 0
	for _, tk := range tokens {
		iss, ok := jwtClaim(tk.token, "iss")
		if !ok {
			continue
		}
		seen++
		if iss != docIssuer {
			res.Fail("C19:issuer-differs-from-token-iss:"+tk.source, "request %d: discovery issuer %q but %s carries iss %q (Host %q, Forwarded %q, mode %s)", idx, docIssuer, tk.source, iss, view.Host, view.Forwarded, pc.IssuerMode)
		}
	}
	if seen > 0 {
		res.Label("iss:compared")
	}
	info["tokens_compared"] = seen
	if !full {
		return summary
	}

	// 5. every advertised PKCE method is honoured end to end
	methods := strList(doc["code_challenge_methods_supported"])
	if len(methods) == 0 {
		res.Label("pkce:none-advertised")
	}
	if authAvail && tokenAvail {
		cl, redirect := pub, redirectPub
		cred := func() vkit.Cred { return vkit.Cred{Kind: "none", ClientID: "pub"} }
		if pc.PKCEClient == "web" {
			cl, redirect, cred = web, redirectWeb, webCred
		}
		verifier := pc.verifier()
		wrong := wrongVerifier(verifier, pc.WrongVerifier)
		vfLen, vfChars := verifierClass(verifier)
		if vfLen == "len-illegal" || vfChars == "chars-illegal" || wrong == verifier {
			res.Label("pkce:verifier-not-legal") // hand-written case only; the positive probe needs a legal verifier
			methods = nil
		}
		for _, m := range methods {
			var challenge string
			switch m {
			case "S256":
				challenge = vkit.S256(verifier)
			case "plain":
				challenge = verifier
			default:
				res.Label("pkce:unknown-method")
				continue
			}
			extra := url.Values{"code_challenge": {challenge}, "code_challenge_method": {m}}
			f1 := codeFlow(cl, redirect, extra)
			r1 := a.token(vkit.CodeExchangeForm(f1.params.Get("code"), redirect, verifier), cred())
			f2 := codeFlow(cl, redirect, extra)
			r2 := a.token(vkit.CodeExchangeForm(f2.params.Get("code"), redirect, wrong), cred())
			for _, r := range []*vkit.Resp{r1, r2} {
				if r.Panic != nil {
					res.Fail("C19:panic@"+r.PanicFrame(), "token endpoint panicked in the PKCE probe: %v", r.Panic)
				}
			}
			if r1.Panic == nil && outcome(r1) != "ok" {
				res.Fail("C19:pkce-advertised-not-honoured:"+m+":right-verifier-refused", "code_challenge_methods_supported lists %s but a %s flow of client %s with the right verifier %q (RFC 7636 4.1: %s, %s) fails: %s / %s", m, m, cl.ID, verifier, vfLen, vfChars, f1.describe(), r1.Describe())
			}
			if r2.Panic == nil && (r2.Success() || len(r2.HasTokenMaterial()) > 0) {
				res.Fail("C19:pkce-advertised-not-honoured:"+m+":wrong-verifier-accepted", "code_challenge_methods_supported lists %s but a %s flow of client %s with a wrong verifier (%q for %q) is answered %s", m, m, cl.ID, wrong, verifier, r2.Describe())
			}
			keep("pkce", r1)
			res.Label("pkce:" + m + ":probed:" + pc.PKCEClient)
			res.Label("pkce:verifier:" + vfLen)
			res.Label("pkce:verifier:" + vfChars)
			res.Label("pkce:wrong-verifier:" + map[bool]string{true: "appended"}[pc.WrongVerifier == ""] + pc.WrongVerifier)
		}
	} else if len(methods) > 0 {
		res.Label("pkce:not-probeable")
	}

	// 6. advertised request-object support is honoured: a signed request object takes effect
	reqObjAdvertised, _ := doc["request_parameter_supported"].(bool)
	switch {
	case !reqObjAdvertised:
		res.Label("reqobj:not-advertised")
	case !authAvail:
		res.Label("reqobj:not-probeable")
	default:
		if algs := strList(doc["request_object_signing_alg_values_supported"]); len(algs) > 0 && !contains(algs, "RS256") {
			res.Label("reqobj:no-rs256")
		}
		shapes := pc.RO
		if len(shapes) == 0 {
			shapes = []ROShape{classicRO()}
			res.Label("reqobj:classic-shape")
		}
		var states []string
		for n, sh := range shapes {
			cl, kid, key, cred := web, "wk1", "rsa2", webCred
			if sh.Client == "mach" {
				cl, kid, key, cred = mach, "mk1", "rsa3", func() vkit.Cred { return machBasic }
			}
			if probeRO(res, a, st, sh, n, cl, kid, key, cred, docIssuer, tokenAvail, contains(methods, "S256"), &states) {
				res.Label("reqobj:honoured")
			}
		}
		info["reqobj_state"] = strings.Join(states, ",")
	}

	// 7. the library's own RP-side discovery accepts this document for its issuer and for nothing else
	rt := rtFunc(func(r *http.Request) (*http.Response, error) {
		rr := a.get("/.well-known/openid-configuration", nil)
		if rr.Panic != nil {
			return nil, fmt.Errorf("handler panic: %v", rr.Panic)
		}
		return respOf(r, rr.Status, rr.Header, rr.Body), nil
	})
	hc := &http.Client{Transport: rt}
	if cfg, err := client.Discover(context.Background(), docIssuer, hc); err != nil || cfg == nil || cfg.Issuer != docIssuer {
		res.Fail("C19:discover-refuses-own-document", "client.Discover(%q) against the provider's own document failed: %v", docIssuer, err)
	}
	if wrong := nearMiss(docIssuer, pc.NearMiss); wrong != docIssuer {
		if cfg, err := client.Discover(context.Background(), wrong, hc); err == nil {
			res.Fail("C19:discover-accepts-other-issuer:"+pc.NearMiss, "client.Discover(%q) accepted a document whose issuer is %q", wrong, cfg.Issuer)
		}
		res.Label("discover:own-document+near-miss")
	}
	return summary
}

// probeRO sends one authorization request with a valid signed request object (signed with the registered key of the
// requesting client, iss = client_id, aud = the issuer of the document) in the given shape and judges that the object took
// effect: the request is accepted, the stored authorization request and the redirect carry, for every parameter, the
// object's value where the object has one and the plain value otherwise; a code challenge conveyed by the object binds
// the code. Expectations are computed from the shape alone.
func probeRO(res *vkit.Result, a *ua, st *vkit.Store, sh ROShape, n int, cl *vkit.ClientSpec, kid, key string, cred func() vkit.Cred,
	docIssuer string, tokenAvail, s256 bool, states *[]string) bool {
	via := "get"
	if sh.Via == "post" {
		via = "post"
	}
	aud := "array"
	if sh.Aud != "" {
		aud = sh.Aud
	}
	res.Label("reqobj:via:"+via, "reqobj:client:"+cl.ID, "reqobj:aud:"+aud)
	now := time.Now()
	object := map[string]any{"iss": cl.ID, "client_id": cl.ID, "iat": now.Add(-5 * time.Second).Unix(), "exp": now.Add(10 * time.Minute).Unix()}
	switch aud {
	case "string":
		object["aud"] = docIssuer
	case "array-extra":
		object["aud"] = []string{"https://other-op.example.net", docIssuer}
	default:
		object["aud"] = []string{docIssuer}
	}
	plain := url.Values{"client_id": {cl.ID}}
	want := map[string]string{}
	var objectOnly []string
	for _, p := range roParams {
		pl := sh.Place[p.name]
		if p.name == "code_challenge" && pl != "" && !s256 {
			res.Label("reqobj:place:code_challenge:dropped-s256-not-advertised")
			pl = ""
		}
		switch p.name { // sound domain: what every request needs is sent plain when the shape (e.g. a shrunk one) forgot it
		case "redirect_uri", "response_type", "scope":
			if pl == "" {
				pl = "plain"
			}
		}
		if (p.name == "response_type" || p.name == "scope") && pl == "object" {
			pl = "both"
		}
		if pl == "" {
			res.Label("reqobj:place:" + p.name + ":absent")
			continue
		}
		res.Label("reqobj:place:" + p.name + ":" + pl)
		if pl == "plain" || pl == "both" {
			plain.Set(p.name, roValue(p.name, "plain"))
			want[p.name] = roValue(p.name, "plain")
			if p.name == "code_challenge" {
				plain.Set("code_challenge_method", "S256")
			}
		}
		if pl == "object" || pl == "both" {
			v := roValue(p.name, "object")
			want[p.name] = v
			if p.name == "max_age" {
				secs, _ := strconv.Atoi(v)
				object[p.name] = secs
			} else {
				object[p.name] = v
			}
			if p.name == "code_challenge" {
				object["code_challenge_method"] = "S256"
			}
			if pl == "object" {
				objectOnly = append(objectOnly, p.name)
			}
		}
	}
	payload, _ := json.Marshal(object)
	plain.Set("request", vkit.MustSignJWT("RS256", kid, vkit.Key(key), payload))

	shape := fmt.Sprintf("shape %d (%s, client %s, aud %s, placements %v)", n, via, cl.ID, aud, sh.Place)
	f := a.authFlowVia(sh.Via, plain, "u1")
	for _, r := range []*vkit.Resp{f.auth, f.cb} {
		if r != nil && r.Panic != nil {
			res.Fail("C19:panic@"+r.PanicFrame(), "authorization with a request object panicked (%s): %v", shape, r.Panic)
			return false
		}
	}
	if f.reqID == "" {
		res.Fail("C19:reqobj-advertised-not-honoured:refused", "request_parameter_supported=true but an authorization request with a valid RS256 request object was refused; %s, only inside the object: %v; %s", shape, objectOnly, f.describe())
		return false
	}
	stored, _ := st.AuthReqSnapshot(f.reqID)
	got := map[string]string{"redirect_uri": stored.RedirectURI, "response_type": string(stored.ResponseType), "scope": strings.Join(stored.Scopes, " "),
		"state": stored.State, "nonce": stored.Nonce, "response_mode": string(stored.ResponseMode), "prompt": strings.Join(stored.Prompt, " "), "login_hint": stored.LoginHint}
	if stored.MaxAge != nil {
		got["max_age"] = strconv.FormatUint(uint64(*stored.MaxAge), 10)
	}
	if stored.Challenge != nil {
		got["code_challenge"] = stored.Challenge.Challenge
	}
	ok := true
	for _, p := range roParams {
		if got[p.name] != want[p.name] {
			ok = false
			res.Fail("C19:reqobj-advertised-not-honoured:"+p.name, "request_parameter_supported=true but the authorization request created from a valid RS256 request object has %s %q, want %q (placement %q); %s", p.name, got[p.name], want[p.name], sh.Place[p.name], shape)
		}
	}
	// what reaches the client
	*states = append(*states, f.params.Get("state"))
	target := f.location
	if i := strings.IndexAny(target, "?#"); i >= 0 {
		target = target[:i]
	}
	code := f.params.Get("code")
	switch {
	case f.cb == nil || !f.cb.IsRedirect() || code == "":
		ok = false
		res.Fail("C19:reqobj-advertised-not-honoured:no-code", "request_parameter_supported=true but the flow started with a valid request object delivers no code; %s; %s", shape, f.describe())
	case target != want["redirect_uri"]:
		ok = false
		res.Fail("C19:reqobj-advertised-not-honoured:redirect_uri", "request_parameter_supported=true but the response goes to %q, want %q (placement %q); %s", target, want["redirect_uri"], sh.Place["redirect_uri"], shape)
	case f.params.Get("state") != want["state"]:
		ok = false
		res.Fail("C19:reqobj-advertised-not-honoured:state", "request_parameter_supported=true but the delivered state is %q, want %q (placement %q); %s", f.params.Get("state"), want["state"], sh.Place["state"], shape)
	}
	// a code challenge the object conveyed binds the code like a plain one
	if ch := want["code_challenge"]; ok && ch != "" && tokenAvail {
		right, other := roVerifierPlain, roVerifierObject
		if ch == roValue("code_challenge", "object") {
			right, other = other, right
		}
		r1 := a.token(vkit.CodeExchangeForm(code, want["redirect_uri"], right), cred())
		if r1.Panic != nil {
			res.Fail("C19:panic@"+r1.PanicFrame(), "token endpoint panicked in the request-object PKCE probe: %v", r1.Panic)
		} else if outcome(r1) != "ok" {
			ok = false
			res.Fail("C19:reqobj-advertised-not-honoured:code_challenge:right-verifier-refused", "the verifier of the effective code challenge (placement %q) is refused: %s; %s", sh.Place["code_challenge"], r1.Describe(), shape)
		}
		if sh.Place["code_challenge"] == "both" {
			f2 := a.authFlowVia(sh.Via, plain, "u1")
			r2 := a.token(vkit.CodeExchangeForm(f2.params.Get("code"), want["redirect_uri"], other), cred())
			if r2.Panic != nil {
				res.Fail("C19:panic@"+r2.PanicFrame(), "token endpoint panicked in the request-object PKCE probe: %v", r2.Panic)
			} else if r2.Success() || len(r2.HasTokenMaterial()) > 0 {
				ok = false
				res.Fail("C19:reqobj-advertised-not-honoured:code_challenge:superseded-verifier-accepted", "the verifier of the plain code challenge the object superseded is accepted: %s; %s", r2.Describe(), shape)
			}
		}
		res.Label("reqobj:pkce-probed:" + sh.Place["code_challenge"])
	}
	return ok
}

// ---- issuer cases ------------------------------------------------------------------------------

func (ic *IssuerCase) text() string {
	if ic.Mode != "static" {
		return ic.Path + ic.Query + ic.Fragment
	}
	if ic.Empty {
		return ""
	}
	if ic.Scheme == "" {
		return ic.UserInfo + ic.Host + ic.Port + ic.Path + ic.Query + ic.Fragment
	}
	return ic.Scheme + ic.Sep + ic.UserInfo + ic.Host + ic.Port + ic.Path + ic.Query + ic.Fragment
}

// verdict is derived from the grammar parts, never from parsing the assembled string:
// +1 must be accepted, -1 must be rejected (reasons), 0 the statement is silent.
func (ic *IssuerCase) verdict() (int, []string, string) {
	var reasons []string
	q, f := strings.TrimPrefix(ic.Query, "?"), strings.TrimPrefix(ic.Fragment, "#")
	if q != "" {
		if strings.ContainsAny(q, ";%") || strings.Trim(q, "&") == "" {
			reasons = append(reasons, "query-unparsed") // a query the form decoder yields no pairs for
		} else {
			reasons = append(reasons, "query")
		}
	}
	if f != "" {
		reasons = append(reasons, "fragment")
	}
	if ic.Mode != "static" {
		if len(reasons) > 0 {
			return -1, reasons, ""
		}
		if ic.Query != "" || ic.Fragment != "" {
			return 0, nil, "empty-query-or-fragment"
		}
		return 1, nil, ""
	}
	if ic.Empty {
		return -1, []string{"empty"}, ""
	}
	authority := ic.Scheme != "" && ic.Sep == "://"
	switch {
	case !authority:
		reasons = append(reasons, "hostless-no-authority")
	case ic.Host == "" && ic.Port != "":
		reasons = append(reasons, "hostless-port-only")
	case ic.Host == "":
		reasons = append(reasons, "hostless")
	}
	if strings.EqualFold(ic.Scheme, "http") && !ic.Insecure {
		reasons = append(reasons, "http-without-opt-in")
	}
	if len(reasons) > 0 {
		return -1, reasons, ""
	}
	switch {
	case strings.EqualFold(ic.Scheme, "https") && ic.Scheme != "https", strings.EqualFold(ic.Scheme, "http") && ic.Scheme != "http":
		return 0, nil, "scheme-upper-case"
	case ic.Scheme != "https" && ic.Scheme != "http":
		return 0, nil, "scheme-other"
	case ic.UserInfo != "":
		return 0, nil, "userinfo"
	case ic.Query != "" || ic.Fragment != "":
		return 0, nil, "empty-query-or-fragment"
	}
	return 1, nil, ""
}

func runIssuer(ic *IssuerCase, res *vkit.Result) {
	s := ic.text()
	v, reasons, grey := ic.verdict()
	res.Label("kind:issuer", "issuer-mode:"+ic.Mode)
	res.NonTrivial = v != 0
	res.Key = "I|" + ic.Mode + "|" + b(ic.Insecure) + "|" + s

	st := vkit.NewStore(nil, vkit.SignKeySpec{KeyName: "p256a", Alg: "ES256", KID: "sig1"}, vkit.StorePolicy{})
	var issuer func(bool) (op.IssuerFromRequest, error)
	switch ic.Mode {
	case "host":
		issuer = op.IssuerFromHost(s)
	case "forwarded":
		issuer = op.IssuerFromForwardedOrHost(s)
	default:
		issuer = op.StaticIssuer(s)
	}
	opts := []op.Option{op.WithLogger(vkit.DiscardLogger())}
	if ic.Insecure {
		opts = append(opts, op.WithAllowInsecure())
	}
	_, err := op.NewProvider(&op.Config{}, st.Shaped(vkit.Caps{}), issuer, opts...)
	accepted := map[string]bool{"NewProvider": err == nil}
	if ic.Mode == "static" {
		accepted["ValidateIssuer"] = op.ValidateIssuer(s, ic.Insecure) == nil
	}
	res.Info = map[string]any{"issuer": s, "verdict": v, "reasons": reasons, "accepted": accepted, "err": fmt.Sprint(err)}
	pathTag := ""
	if ic.Mode != "static" {
		pathTag = "path-"
	}
	switch v {
	case -1:
		res.Label("issuer:must-reject")
		for _, r := range reasons {
			res.Label("issuer:reject:" + pathTag + r)
		}
		for api, ok := range accepted {
			if !ok {
				continue
			}
			for _, r := range reasons {
				res.Fail("C19:issuer-accepted:"+pathTag+r, "%s accepted issuer %q (mode %s, insecure=%v) although it is %s (all reasons %v)", api, s, ic.Mode, ic.Insecure, r, reasons)
			}
		}
	case 1:
		if ic.Mode != "static" {
			res.Label("issuer:must-accept:path")
		} else {
			res.Label("issuer:must-accept:" + ic.Scheme)
		}
		for api, ok := range accepted {
			if !ok {
				res.Fail("C19:issuer-rejected-valid", "%s rejected the valid issuer %q (mode %s, insecure=%v): %v", api, s, ic.Mode, ic.Insecure, err)
			}
		}
	default:
		res.Grey = true
		res.Label("issuer:grey:" + grey)
	}
}

// ---- discover cases ------------------------------------------------------------------------------

func runDiscover(dc *DiscoverCase, res *vkit.Result) {
	differs := dc.OmitIssuer || dc.DocIssuer != dc.Asked
	rel := dc.Relation
	if !differs {
		rel = "equal"
	}
	res.Label("kind:discover", "discover:"+rel)
	res.NonTrivial = differs
	res.Key = "D|" + dc.Asked + "|" + dc.DocIssuer + "|" + b(dc.OmitIssuer) + "|" + dc.WellKnown
	base := strings.TrimSuffix(dc.DocIssuer, "/")
	m := map[string]any{"authorization_endpoint": base + "/authorize", "token_endpoint": base + "/oauth/token", "jwks_uri": base + "/keys",
		"response_types_supported": []string{"code"}, "subject_types_supported": []string{"public"}, "id_token_signing_alg_values_supported": []string{"RS256"}}
	if !dc.OmitIssuer {
		m["issuer"] = dc.DocIssuer
	}
	body, _ := json.Marshal(m)
	fetched := ""
	hc := &http.Client{Transport: rtFunc(func(r *http.Request) (*http.Response, error) {
		fetched = r.URL.String()
		return respOf(r, 200, http.Header{"Content-Type": {"application/json"}}, body), nil
	})}
	var extra []string
	if dc.WellKnown != "" {
		extra = []string{dc.WellKnown}
	}
	cfg, err := client.Discover(context.Background(), dc.Asked, hc, extra...)
	res.Info = map[string]any{"asked": dc.Asked, "doc_issuer": dc.DocIssuer, "fetched": fetched, "err": fmt.Sprint(err)}
	if differs {
		res.Label("discover:must-reject")
		if err == nil {
			got := ""
			if cfg != nil {
				got = cfg.Issuer
			}
			res.Fail("C19:discover-accepts-other-issuer:"+rel, "client.Discover(%q) accepted a document with issuer %q (omitted=%v), returned issuer %q", dc.Asked, dc.DocIssuer, dc.OmitIssuer, got)
		}
		return
	}
	res.Label("discover:must-accept")
	if err != nil || cfg == nil || cfg.Issuer != dc.Asked {
		res.Fail("C19:discover-refuses-equal-issuer", "client.Discover(%q) refused a well-formed document with the same issuer: %v", dc.Asked, err)
	}
}

// ---- properties ------------------------------------------------------------------------------

const rule = "provider cases = router (op.Provider / LegacyServer) x 6 config flags x storage capabilities (cc, te, device, extras) x issuer strategy (static https/http issuers with ports, paths, trailing slash; from Host; from Forwarded) x Host header x Forwarded header(s) x 1-3 further (Host, Forwarded) combinations sent to the same provider instance (same Host / other Forwarded, other Host / same Forwarded, both different, finally the first again; each document must name the issuer of its own request, its endpoints must be routed, fresh tokens must carry it; identical requests must get identical statements) x per-endpoint shape (default / custom path / absolute URL below the issuer / absolute URL elsewhere / nil on LegacyServer) x signing key x client auth method; each is judged from its own discovery document: every advertised endpoint below the issuer is requested (404/405 = not routed), all flows then use the advertised addresses, each of the 6 token-endpoint grants is probed with a registered, authenticated, complete request (advertised <=> not unsupported_grant_type), iss of every JWT issued == document issuer, each advertised PKCE method accepts the right and refuses a wrong verifier, the right verifier drawn from the whole legal space of RFC 7636 4.1 (length 43 / 44 / 127 / 128 / any between, characters from the base64url alphabet only / all six classes of unreserved characters / mostly '.' and '~' / one character repeated; challenge = BASE64URL(SHA256(verifier)) computed by the harness), the wrong one derived from it (character appended / first or last changed / last dropped / '.' and '~' swapped), an advertised request-object support is tried with 1-3 generated request shapes (OIDC Core 6.1: each of redirect_uri, state, nonce, response_mode, prompt, max_age, login_hint, code_challenge as plain parameter / inside the object only / in both with different values / absent, scope and response_type plain or repeated (scope widened) in the object; aud as array / string / array with a further entry; signed by client web or mach; sent by GET query or POST form): the request must be accepted, the stored authorization request and the redirect must carry the object's value wherever the object has one and the plain value otherwise, a code challenge conveyed by the object must bind the code (right verifier accepted, superseded plain one refused); the other probes vary their shape too: authorization requests of the grant / PKCE probes by GET or POST, the machine client by client_secret_basic or (when enabled) client_secret_post, authorization / userinfo / end_session endpoints requested with GET and POST; client.Discover accepts the document for its issuer and refuses a near miss; " +
	"pair cases (1 in 8) = TWO providers A and B in one process (B generated independently, or A with 1-3 of S256 / Post / PKJWT / Refresh / ReqObj / cc / te / device / router / signing key / issuer toggled; no endpoint options on the op.Provider router) and 1-3 steps with harness-owned interleaving: " +
	"gate step = provider X's discovery request runs on a goroutine and is held INSIDE X's storage (SignatureAlgorithms, the storage call of the discovery builders; KeySet as a method discovery does not consult) on a gate while 1-3 generated actions happen (the other provider answers discovery / is judged completely / has its exported helper lists or op.CreateDiscoveryConfig computed; X itself answers a second discovery request - on its own goroutine, it may have to wait for the held one - or has its helpers called), " +
	"then X is released and the document that was in flight is judged by the full oracle above (every wait is on a channel, no wall-clock verdict; identical requests to X must get identical bodies); held step = the lists returned for X by op.GrantTypes, Scopes, ResponseTypes, SubjectTypes, SigAlgorithms, RequestObjectSigAlgorithms, AuthMethods*Endpoint, *SigAlgorithms, SupportedClaims, CodeChallengeMethods, SupportedUILocales and the struct op.CreateDiscoveryConfig returned for X are held while the same actions happen, " +
	"must read the same afterwards, and the held struct marshalled afterwards is judged as X's document; " +
	"overlap cases (1 in 8) = ONE provider instance (op.Provider router, RegisterLegacyServer, or op.RegisterServer with an application-defined op.Server; issuer mostly derived from Host / Forwarded) answers 2-4 overlapping requests for its published documents (discovery / keys / readiness) carrying the same or different (Host, Forwarded) combinations (same, other Host, other Forwarded, both other, the first again) under a harness-owned schedule: each request runs on its own goroutine and may be parked inside the storage call its document needs (SignatureAlgorithms / KeySet / Health) on entry or on exit, starts and releases happen in a generated order (up to 4 requests parked at once, released in start order or another one); schedule-independent oracle: every request answers once all gates are open, every discovery answer is judged for the headers IT was asked with (names an issuer, advertised endpoints below it are routed, fresh tokens obtained with those headers carry it) and says what a quiet request with the same headers is told afterwards; " +
	"fault-sequence cases (1 in 8) = ONE provider instance (the same three routers, issuer mostly derived from Host / Forwarded) answers 2-5 requests for its published documents (discovery / keys / readiness) one after the other, for the same or different (Host, Forwarded) combinations, while the storage call the document needs (SignatureAlgorithms / KeySet / Health) fails during about half of them (plain error, deadline / cancellation plain or wrapped, ready-made *oidc.Error plain or wrapped, oidc.ErrKeyNone, keys AND an error) or answers an empty list; history-independent oracle: every discovery answer DELIVERED as a success (2xx with a document) is judged for the headers IT was asked with (names an issuer, advertised endpoints below it are routed, fresh tokens obtained with those headers carry it) and makes the same statements as a quiet request with the same headers afterwards; error answers and a document that only lacks the signing algorithms are grey; " +
	"issuer cases = strings assembled from a labelled grammar (empty / scheme / separator / userinfo / host / port / path / query / fragment) x insecure opt-in x strategy, verdict from the labels (excluded as grey: other schemes, userinfo, upper-case scheme, empty '?' or '#'); discover cases = asked issuer x relation of the served document's issuer (equal, 15 near misses, missing) x well-known override; " +
	"non-trivial = provider configuration differing from the all-defaults one / pair whose members differ in a grant capability or discovery-relevant setting / issuer with a must-accept or must-reject verdict / overlap case in which a request ran while a discovery / keys / readiness request of the same provider was held inside the storage / fault sequence with at least one discovery request whose storage call failed or answered empty / document issuer differing from the asked one; distinct = (configurations of A and B, steps) / (configuration, requests with their headers and parking points, schedule) / (configuration, requests with their headers and storage faults) / configuration class (router, flags, capabilities, issuer, host, forwarded, endpoint shapes, alg, client auth, authorization transport, request-object shapes) / issuer string x opt-in x strategy / (asked, served) pair"

var prop = vkit.Prop[Case]{ID: "C19", Rule: rule, Gen: genCase, Run: run}

func TestRapid(t *testing.T)  { prop.Check(t) }
func TestReplay(t *testing.T) { prop.Replay(t) }

// ---- exhaustive sweep of the flag x capability x router lattice ------------------------------------

// latticeVariants are the endpoint / issuer settings each of the 1024 lattice cells is crossed with
// (quick: the first one only).
var latticeVariants = []string{"defaults", "custom-paths", "urls-under-issuer", "urls-elsewhere-and-paths", "issuer-with-path", "issuer-from-host", "issuer-from-forwarded", "legacy-nil-endpoints"}

func latticeCase(cell int, variant string) Case {
	bit := func(i int) bool { return cell>>i&1 == 1 }
	pc := &ProviderCase{
		S256: bit(0), Post: bit(1), PKJWT: bit(2), Refresh: bit(3), ReqObj: bit(4), Insecure: bit(5),
		Caps:       vkit.Caps{CC: bit(6), TE: bit(7), Device: bit(8)},
		Router:     map[bool]string{false: "provider", true: "legacy"}[bit(9)],
		IssuerMode: "static", Issuer: "https://op.example.com", Host: "op.example.com",
		SignKey: "rsa1", SignAlg: "RS256", WebAuth: "client_secret_basic", JWTAT: cell%3 == 0,
		PKCEClient: map[bool]string{false: "pub", true: "web"}[cell%2 == 0], NearMiss: nearKinds[cell%len(nearKinds)],
	}
	if pc.Insecure {
		pc.Issuer = "http://op.example.com"
	}
	switch {
	case pc.PKJWT && cell%5 < 2:
		pc.WebAuth = "private_key_jwt"
	case pc.Post && cell%5 < 4:
		pc.WebAuth = "client_secret_post"
	}
	all := func(kind string, withPath bool) map[string]EPShape {
		m := map[string]EPShape{}
		for i, n := range vkit.EndpointNames {
			sh := EPShape{Kind: kind}
			if withPath {
				sh.Path = epPrefix[(i+cell)%len(epPrefix)] + epLeaf[n]
			}
			m[n] = sh
		}
		return m
	}
	switch variant {
	case "custom-paths":
		pc.Endpoints = all("path", true)
	case "urls-under-issuer":
		pc.Endpoints = all("under", cell%2 == 1)
	case "urls-elsewhere-and-paths":
		pc.Endpoints = all("path", true)
		for _, n := range []string{"userinfo", "introspection", "keys"} {
			pc.Endpoints[n] = EPShape{Kind: "foreign", Path: pc.Endpoints[n].Path}
		}
	case "issuer-with-path":
		pc.Issuer += "/tenant/t1/"
	case "issuer-from-host":
		pc.IssuerMode, pc.Issuer, pc.Host = "host", "/t", "tenant.example.org:8443"
	case "issuer-from-forwarded":
		pc.IssuerMode, pc.Issuer, pc.Forwarded = "forwarded", "", []string{"for=192.0.2.1;host=fwd.example.com;proto=https"}
	case "legacy-nil-endpoints":
		if pc.Router == "legacy" {
			pc.Endpoints = map[string]EPShape{"introspection": {Kind: "nil"}, "revocation": {Kind: "nil"}, "end_session": {Kind: "nil"}, "device_authorization": {Kind: "nil"}}
		} else {
			pc.Endpoints = map[string]EPShape{"device_authorization": {Kind: "path", Path: "/dev/auth"}}
		}
	}
	// request shapes, spread over the cells by moduli coprime to the flag bits
	switch cell % 5 {
	case 1:
		pc.Verifier = strings.Repeat(vfUnreserved, 2)[cell%61:][:43]
	case 2:
		pc.Verifier = strings.Repeat(vfDotTilde, 8)[cell%17:][:128]
	case 3:
		pc.Verifier = strings.Repeat(vfBase64URL, 3)[cell%59:][:43+cell%86]
	case 4:
		pc.Verifier = strings.Repeat([]string{".", "~"}[cell%7%2], []int{43, 128}[cell%3%2])
	}
	pc.WrongVerifier = wrongVerifierKinds[cell%11%len(wrongVerifierKinds)]
	if cell%3 == 1 {
		pc.AuthzVia = "post"
	}
	if pc.Post && cell%7 < 3 {
		pc.MachAuth = "client_secret_post"
	}
	if pc.ReqObj {
		sh := ROShape{Place: map[string]string{}, Via: []string{"", "post"}[cell%5%2], Client: []string{"", "", "mach"}[cell%11%3], Aud: []string{"", "string", "array-extra"}[cell%13%3]}
		for i, p := range roParams {
			if pl := p.places[(cell/(i%4+1)+i)%len(p.places)]; pl != "" {
				sh.Place[p.name] = pl
			}
		}
		pc.RO = []ROShape{sh}
	}
	first := View{Host: pc.Host, Forwarded: pc.Forwarded}
	switch pc.IssuerMode {
	case "host":
		pc.More = []View{{Host: "other.example.org"}, {Host: "other.example.org", Forwarded: []string{"host=ignored.example.net"}}, first}
	case "forwarded":
		pc.More = []View{{Host: pc.Host, Forwarded: []string{"host=fwd2.example.net"}}, {Host: "internal-b:8080", Forwarded: []string{"host=fwd2.example.net"}}, first}
	default:
		pc.More = []View{first} // idempotence
	}
	return Case{Kind: "provider", P: pc}
}

// TestLattice runs every cell of {6 config flags} x {3 storage capabilities} x {2 routers} (1024 providers);
// thorough crosses the lattice with all latticeVariants and is sharded by the driver.
func TestLattice(t *testing.T) {
	rec := vkit.NewRecorder(prop.ID, rule)
	defer rec.Flush()
	variants := latticeVariants[:vkit.Scale(1, len(latticeVariants))]
	shard, _ := strconv.Atoi(os.Getenv("VERIF_SHARD"))
	shards, _ := strconv.Atoi(os.Getenv("VERIF_SHARDS"))
	if shards < 1 {
		shards, shard = 1, 0
	}
	const cells = 1 << 10
	rec.SetExtra("lattice", map[string]any{"exhaustive": true, "space": "2^6 config flags (S256, Post, PKJWT, Refresh, ReqObj, Insecure) x 2^3 storage capabilities (client credentials, token exchange, device) x 2 routers",
		"cells": cells, "variants_per_cell": variants, "shards": shards})
	n := 0
	for vi, v := range variants {
		for cell := 0; cell < cells; cell++ {
			if (vi*cells+cell)%shards != shard {
				continue
			}
			c := latticeCase(cell, v)
			res := run(c)
			res.Label("lattice:" + v)
			rec.Record(c, res)
			n++
			if fresh := vkit.Judge(rec, prop.ID, res); len(fresh) > 0 {
				rec.WriteFail(c, fresh)
				rec.AddExtra("lattice_cells_run", n)
				t.Fatalf("VIOLATION %s: lattice cell %d (%s): %s [%s]", prop.ID, cell, v, fresh[0].Msg, fresh[0].FP)
			}
		}
	}
	rec.AddExtra("lattice_cells_run", n)
}
