package c19

// Fault sequences: ONE provider instance answers two to five requests for its published documents (discovery, keys,
// readiness), one after the other, for the same or for different (Host, Forwarded) combinations, and the storage call a
// request needs for its document (discovery: SignatureAlgorithms, keys: KeySet, readiness: Health) fails during some of
// them: with a plain error, a deadline / cancellation, a ready-made OAuth error, one of the library's sentinels, or - no
// failure at all - an empty answer. The statement quantifies over every discovery request to every configuration; it makes
// no exception for a storage that is down, and none for what the provider was asked before.
//
//	oracle   per answer, independent of the history: a discovery answer that is DELIVERED as a success (2xx with a JSON
//	         document) is judged with the oracle of the provider cases for the (Host, Forwarded) combination IT was asked
//	         with (issuer = iss of tokens issued for that combination, every endpoint below that issuer is routed), and
//	         makes the same statements as a quiet request with the same headers afterwards. An error answer (non-2xx) and a
//	         document that merely lacks id_token_signing_alg_values_supported because the storage could not be asked are
//	         grey: the statement does not speak about them.

import (
	"encoding/json"
	"fmt"
	"net/http"
	"strings"
	"sync"

	"github.com/zitadel/oidc/v3/pkg/op"
	"pgregory.net/rapid"

	"verif/harness/vkit"
)

type FaultSeqCase struct {
	P     *ProviderCase `json:"p"`
	Steps []FStep       `json:"steps"`
}

type FStep struct {
	What  string `json:"what"`            // discovery | keys | ready
	View  View   `json:"view"`            // the headers of the request
	Fault string `json:"fault,omitempty"` // "" = the storage answers | a vkit fault kind | empty = it answers with an empty list
}

// fsFaultKinds: vkit.Fault kinds (plain error, timeouts, ready-made OAuth errors, sentinels of the library; partial = the
// key set answers keys AND an error) and "empty" (no error, no algorithms / keys).
var fsFaultKinds = []string{"error", "error", "error", "deadline", "deadline", "deadline-wrapped", "canceled", "oidc", "oidc-wrapped", "key-none", "access-denied", "partial", "empty", "empty"}

func fsKnownFault(k string) bool {
	for _, f := range fsFaultKinds {
		if f == k {
			return true
		}
	}
	return false
}

// ---- generator -------------------------------------------------------------------------

func genFaultSeq(t *rapid.T) *FaultSeqCase {
	pc := genProvider(t)
	pc.More = nil
	// the issuer strategies that make one instance serve several issuers are the point of the exercise
	if mode := rapid.SampledFrom([]string{"keep", "host", "host", "forwarded", "forwarded"}).Draw(t, "fs_mode"); mode != "keep" && pc.IssuerMode == "static" {
		pc.IssuerMode = mode
		pc.Issuer = rapid.SampledFrom(dynPaths).Draw(t, "fs_issuer_path")
	}
	if pc.Router == "legacy" && rapid.Bool().Draw(t, "fs_own_server") {
		pc.Router = "server"
	}
	fc := &FaultSeqCase{P: pc}
	first := View{Host: pc.Host, Forwarded: pc.Forwarded}
	n := rapid.SampledFrom([]int{2, 3, 3, 4, 4, 5}).Draw(t, "fs_steps")
	for i := 0; i < n; i++ {
		s := FStep{What: rapid.SampledFrom([]string{"discovery", "discovery", "discovery", "discovery", "discovery", "keys", "ready"}).Draw(t, fmt.Sprintf("fs_what_%d", i))}
		if i == 0 {
			s.View = first
		} else {
			prev := fc.Steps[i-1].View
			switch rapid.SampledFrom([]string{"same", "other-host", "other-host", "other-forwarded", "other-forwarded", "both-other", "first"}).Draw(t, fmt.Sprintf("fs_view_%d", i)) {
			case "same":
				s.View = prev
			case "first":
				s.View = first
			case "other-host":
				s.View = View{Host: ovOtherHost(t, prev.Host, fmt.Sprintf("fs_host_%d", i)), Forwarded: prev.Forwarded}
			case "other-forwarded":
				s.View = View{Host: prev.Host, Forwarded: ovOtherFwd(t, prev.Forwarded, fmt.Sprintf("fs_fwd_%d", i))}
			default:
				s.View = View{Host: ovOtherHost(t, prev.Host, fmt.Sprintf("fs_host_%d", i)), Forwarded: ovOtherFwd(t, prev.Forwarded, fmt.Sprintf("fs_fwd_%d", i))}
			}
		}
		if rapid.Bool().Draw(t, fmt.Sprintf("fs_faulted_%d", i)) {
			s.Fault = rapid.SampledFrom(fsFaultKinds).Draw(t, fmt.Sprintf("fs_fault_%d", i))
		}
		fc.Steps = append(fc.Steps, s)
	}
	return fc
}

// ---- the storage answers with an empty list ----------------------------------------------

// emptier: a passer (see gBase) that makes the storage answer a gated list method with an empty list and no error.
type emptier interface {
	empties(method string) bool
}

// fsSwitch is the passer of the fault sequences: it never parks anything, it only says which method answers empty now.
type fsSwitch struct {
	mu    sync.Mutex
	empty string
}

func (s *fsSwitch) pass(string, bool) {}

func (s *fsSwitch) set(method string) {
	s.mu.Lock()
	s.empty = method
	s.mu.Unlock()
}

func (s *fsSwitch) empties(method string) bool {
	s.mu.Lock()
	defer s.mu.Unlock()
	return s.empty != "" && s.empty == method
}

// ---- run -----------------------------------------------------------------------------------

func (fc *FaultSeqCase) key() string {
	var ss []string
	for _, s := range fc.Steps {
		ss = append(ss, s.What+"@"+s.View.Host+"@"+strings.Join(s.View.Forwarded, ",")+"@"+s.Fault)
	}
	return "FS|" + fc.P.key() + "||" + strings.Join(ss, ";")
}

// normaliseFaultSeq keeps a (shrunk, decoded) case inside the sound domain.
func normaliseFaultSeq(fc *FaultSeqCase) {
	normaliseOverlap(&OverlapCase{P: fc.P}) // the provider part
	if len(fc.Steps) > 6 {
		fc.Steps = fc.Steps[:6]
	}
	for i := range fc.Steps {
		s := &fc.Steps[i]
		if ovMethod[s.What] == "" {
			s.What = "discovery"
		}
		if s.Fault != "" && !fsKnownFault(s.Fault) {
			s.Fault = "error"
		}
		if s.Fault == "empty" && s.What == "ready" {
			s.Fault = "error" // Health has no list to leave empty
		}
		if s.View.Host == "" {
			s.View.Host = fc.P.Host
		}
	}
}

func runFaultSeq(fc *FaultSeqCase, res *vkit.Result) {
	normaliseFaultSeq(fc)
	pc := fc.P
	res.Label("kind:faultseq", "faultseq:router:"+pc.Router, "faultseq:issuer-mode:"+pc.IssuerMode, fmt.Sprintf("faultseq:requests:%d", len(fc.Steps)))
	res.Key = fc.key()
	info := map[string]any{}
	res.Info = info
	if len(fc.Steps) == 0 {
		res.Grey = true
		return
	}

	sw := &fsSwitch{}
	sut, st, cl, err := setupProvider(pc, res, func(inner op.Storage) op.Storage { return gated(inner, sw) })
	if err != nil {
		res.Fail("C19:construct-valid-config", "fault sequence: NewProvider refused a valid configuration (issuer %q mode %s insecure=%v): %v", pc.Issuer, pc.IssuerMode, pc.Insecure, err)
		return
	}
	defer st.SetFaults()
	basePaths := map[string]string{}
	for k, v := range sut.Paths {
		basePaths[k] = v
	}

	// ---- the sequence ----
	type answer struct {
		k    int
		step FStep
		resp *vkit.Resp
	}
	var answers []answer
	var log []string
	for k, s := range fc.Steps {
		if s.What == "keys" && basePaths["keys"] == "" {
			s.What = "discovery" // the keys endpoint is disabled in this configuration
		}
		path := "/.well-known/openid-configuration"
		switch s.What {
		case "keys":
			path = basePaths["keys"]
		case "ready":
			path = "/ready"
		}
		method := ovMethod[s.What]
		switch s.Fault {
		case "":
		case "empty":
			sw.set(method)
		default:
			st.SetFaults(vkit.Fault{Method: method, Kind: s.Fault})
		}
		r := (&ua{sut: sut, host: s.View.Host, fwd: s.View.Forwarded}).get(path, nil)
		st.SetFaults()
		sw.set("")
		answers = append(answers, answer{k, s, r})
		f := s.Fault
		if f == "" {
			f = "clean"
		}
		log = append(log, fmt.Sprintf("r%d %s %s -> %d", k, s.What, f, r.Status))
	}
	info["sequence"] = strings.Join(log, ", ")

	// ---- labels: what the history was ----
	faultedDiscoveries, afterOtherClean := 0, false
	var cleanViews []View // views that got a discovery answer from a healthy storage so far
	for _, a := range answers {
		s := a.step
		res.Label("faultseq:what:" + s.What)
		if s.Fault != "" {
			res.Label("faultseq:fault:" + s.What + ":" + s.Fault)
		}
		if s.What != "discovery" {
			continue
		}
		if s.Fault == "" {
			cleanViews = append(cleanViews, s.View)
			continue
		}
		faultedDiscoveries++
		for _, v := range cleanViews {
			if !v.same(s.View) {
				afterOtherClean = true
			}
		}
	}
	if afterOtherClean {
		res.Label("faultseq:faulted-discovery-after-clean-one-for-other-headers:" + pc.IssuerMode)
	}
	res.NonTrivial = faultedDiscoveries > 0

	// ---- judge every delivered document for the headers IT was asked with ----
	type judged struct {
		view View
		said map[string]any
		k    int
		flt  string
	}
	var docs []judged
	for _, a := range answers {
		r, s := a.resp, a.step
		if r.Panic != nil {
			res.Fail("C19:panic@"+r.PanicFrame(), "fault sequence: request %d (%s, storage fault %q) panicked: %v", a.k, s.What, s.Fault, r.Panic)
			continue
		}
		switch s.What {
		case "keys":
			if r.Status == http.StatusNotFound || r.Status == http.StatusMethodNotAllowed {
				res.Fail("C19:endpoint-advertised-not-routed:keys", "fault sequence: request %d: GET %s (the routed keys endpoint) answers %d: %s", a.k, basePaths["keys"], r.Status, r.Describe())
			}
			continue
		case "ready":
			continue
		}
		if s.Fault != "" && (!r.Success() || r.JSON() == nil) {
			// the provider says that it cannot answer: nothing is claimed, nothing to judge
			res.Label("faultseq:faulted-discovery:error-answer")
			continue
		}
		if s.Fault != "" {
			if algs, present := r.JSON()["id_token_signing_alg_values_supported"]; !present || algs == nil || len(strList(algs)) == 0 {
				res.Label("faultseq:faulted-discovery:document-without-algorithms") // grey: the statement is silent about this member
			} else {
				res.Label("faultseq:faulted-discovery:document-with-algorithms")
			}
		}
		sut.Paths = map[string]string{}
		for k, v := range basePaths {
			sut.Paths[k] = v
		}
		vinfo := map[string]any{}
		sum := judgeView(pc, res, sut, st, s.View, a.k+1, vinfo, cl, r) // the judgement of a further view: document, routes, iss of fresh tokens
		info[fmt.Sprintf("r%d", a.k)] = vinfo
		if sum != nil {
			docs = append(docs, judged{s.View, statementsOf(r), a.k, s.Fault})
			if s.Fault != "" {
				res.Label("faultseq:faulted-discovery:judged")
			}
		}
	}
	// what a quiet request with the same headers is told now
	for i, d := range docs {
		dup := false
		for _, e := range docs[:i] {
			dup = dup || e.view.same(d.view)
		}
		if dup {
			continue
		}
		q := (&ua{sut: sut, host: d.view.Host, fwd: d.view.Forwarded}).get("/.well-known/openid-configuration", nil)
		if q.Panic != nil {
			res.Fail("C19:panic@"+q.PanicFrame(), "fault sequence: discovery panicked: %v", q.Panic)
			continue
		}
		quiet := statementsOf(q)
		if quiet == nil {
			continue
		}
		qa, _ := json.Marshal(quiet)
		for _, e := range docs[i:] {
			if !e.view.same(d.view) {
				continue
			}
			said, _ := json.Marshal(e.said)
			if string(qa) != string(said) {
				res.Fail("C19:discovery-differs-around-storage-fault", "request %d (Host %q, Forwarded %q, storage fault %q) of a sequence on one provider was told %s; a request with the same headers afterwards is told %s; sequence: %s", e.k, e.view.Host, e.view.Forwarded, e.flt, said, qa, strings.Join(log, ", "))
			} else {
				res.Label("faultseq:same-as-quiet-answer")
			}
		}
	}
}
