package c15

import (
	"context"
	"crypto"
	"crypto/ecdsa"
	"crypto/ed25519"
	"crypto/rsa"
	"crypto/sha256"
	"encoding/json"
	"fmt"
	"math/big"
	"net/url"
	"reflect"
	"sort"
	"strings"
	"time"

	"github.com/zitadel/oidc/v3/pkg/oidc"
	"github.com/zitadel/oidc/v3/pkg/op"

	"verif/harness/vkit"
)

// buildSUT builds a provider with every optional storage capability (extras: incl. the third-party token verifier).
// The vkit store is diligent about the one thing the framework delegates to ValidateTokenExchangeRequest: the liveness
// of access tokens presented as subject / actor (TEPolicy.NoLivenessCheck switches that off).
// tp: the parts of the storage's token-exchange policy that this package adds on top of the vkit store (which actor the
// storage publishes, which role its third-party verifier vouches in); the zero value is the plain vkit store.
func buildSUT(router, issuer string, cryptoKey byte, st *vkit.Store, extras, hosts bool, tp tePlus) *vkit.SUT {
	spec := vkit.DefaultProviderSpec(router)
	spec.Issuer = issuer
	if hosts {
		// the issuer is derived from the Host header of each request: "https://" + host
		spec.IssuerMode, spec.Issuer = "host", ""
	}
	spec.CryptoKey = cryptoKey
	spec.Caps = vkit.Caps{CC: true, TE: true, Device: true, Extras: extras}
	if tp == (tePlus{}) {
		return vkit.MustBuild(spec, st)
	}
	return buildWrapped(spec, st, tp)
}

// ---------------------------------------------------------------------------
// Storage policies the vkit store does not have: a thin wrapper around the shaped vkit store (same optional capabilities,
// every call delegated, the journal stays the store's) that rewrites two decisions of the storage.

// tePlus: Act = which `act` claim the storage publishes in the tokens of an exchange (see decideAct); VouchRole = in which
// role the storage's TokenExchangeTokensVerifierStorage vouches for third-party tokens ("" both | subject-only | actor-only).
// Veto = the storage refuses the exchange at one of its calls with an error value of a generated style (veto_test.go).
type tePlus struct {
	Act       string
	VouchRole string
	Veto      *vetoPlan
}

var (
	actPolicies = []string{"", "rename", "nested", "extra", "none", "always"}
	vouchRoles  = []string{"", "subject-only", "actor-only"}
)

const gatewayActor = "svc-gateway"

// decideAct is the storage policy's decision on the `act` claim of the issued token: actor = the subject of the verified
// actor token ("" = no actor token was presented). nil = the storage publishes no actor.
//
//	""      {sub: actor} for a delegation, nothing for an impersonation (what the vkit store does by itself)
//	rename  pseudonymous actor ids: {sub: "agent:" + actor}
//	nested  the gateway the request came through acts for the actor: {sub: gateway, act: {sub: actor}}
//	extra   further members: {sub: actor, client_id: ..., iss: ...}
//	none    the storage never publishes an actor
//	always  every exchange goes through the gateway: {sub: gateway} also without an actor token, nested as above with one
func decideAct(policy, actor string) map[string]any {
	switch policy {
	case "none":
		return nil
	case "always":
		if actor == "" {
			return map[string]any{"sub": gatewayActor}
		}
		return map[string]any{"sub": gatewayActor, "act": map[string]any{"sub": actor}}
	}
	if actor == "" {
		return nil
	}
	switch policy {
	case "rename":
		return map[string]any{"sub": "agent:" + actor}
	case "nested":
		return map[string]any{"sub": gatewayActor, "act": map[string]any{"sub": actor}}
	case "extra":
		return map[string]any{"sub": actor, "client_id": "client-gw", "iss": "https://idp.example.net"}
	}
	return map[string]any{"sub": actor}
}

// actDependsOnActor: the decision needs the actor token's subject.
func actDependsOnActor(policy string) bool { return policy != "none" }

// sameAct compares the `act` member of an issued JWT (decoded JSON) with the storage's decision (nil = must be absent).
func sameAct(claims map[string]any, want map[string]any) bool {
	got, has := claims["act"]
	if want == nil {
		return !has
	}
	return has && reflect.DeepEqual(got, any(want))
}

type teActing struct {
	inner op.TokenExchangeStorage
	tp    tePlus
}

func (t teActing) ValidateTokenExchangeRequest(ctx context.Context, r op.TokenExchangeRequest) error {
	return t.tp.Veto.around("validate", "ValidateTokenExchangeRequest", func() error { return t.inner.ValidateTokenExchangeRequest(ctx, r) })
}
func (t teActing) CreateTokenExchangeRequest(ctx context.Context, r op.TokenExchangeRequest) error {
	return t.tp.Veto.around("create", "CreateTokenExchangeRequest", func() error { return t.inner.CreateTokenExchangeRequest(ctx, r) })
}
func (t teActing) GetPrivateClaimsFromTokenExchangeRequest(ctx context.Context, r op.TokenExchangeRequest) (claims map[string]any, err error) {
	err = t.tp.Veto.around("claims", "GetPrivateClaimsFromTokenExchangeRequest", func() error {
		var e error
		claims, e = t.privateClaims(ctx, r)
		return e
	})
	return claims, err
}
func (t teActing) privateClaims(ctx context.Context, r op.TokenExchangeRequest) (map[string]any, error) {
	claims, err := t.inner.GetPrivateClaimsFromTokenExchangeRequest(ctx, r)
	if err != nil {
		return claims, err
	}
	act := decideAct(t.tp.Act, r.GetExchangeActor())
	if act == nil {
		delete(claims, "act")
		return claims, nil
	}
	if claims == nil {
		claims = map[string]any{}
	}
	claims["act"] = act
	return claims, nil
}
func (t teActing) SetUserinfoFromTokenExchangeRequest(ctx context.Context, ui *oidc.UserInfo, r op.TokenExchangeRequest) error {
	return t.tp.Veto.around("claims", "SetUserinfoFromTokenExchangeRequest", func() error { return t.userinfo(ctx, ui, r) })
}
func (t teActing) userinfo(ctx context.Context, ui *oidc.UserInfo, r op.TokenExchangeRequest) error {
	if err := t.inner.SetUserinfoFromTokenExchangeRequest(ctx, ui, r); err != nil {
		return err
	}
	delete(ui.Claims, "act")
	if act := decideAct(t.tp.Act, r.GetExchangeActor()); act != nil {
		ui.AppendClaims("act", act)
	}
	return nil
}

type roleVerifier struct {
	inner op.TokenExchangeTokensVerifierStorage
	role  string
	veto  *vetoPlan
}

var errNotVouched = fmt.Errorf("third party token is not accepted in this role")

func (v roleVerifier) VerifyExchangeSubjectToken(ctx context.Context, token string, tt oidc.TokenType) (id, sub string, claims map[string]any, err error) {
	if v.role == "actor-only" {
		return "", "", nil, errNotVouched
	}
	err = v.veto.around("verify", "VerifyExchangeSubjectToken", func() error {
		var e error
		id, sub, claims, e = v.inner.VerifyExchangeSubjectToken(ctx, token, tt)
		return e
	})
	return id, sub, claims, err
}
func (v roleVerifier) VerifyExchangeActorToken(ctx context.Context, token string, tt oidc.TokenType) (id, sub string, claims map[string]any, err error) {
	if v.role == "subject-only" {
		return "", "", nil, errNotVouched
	}
	err = v.veto.around("verify", "VerifyExchangeActorToken", func() error {
		var e error
		id, sub, claims, e = v.inner.VerifyExchangeActorToken(ctx, token, tt)
		return e
	})
	return id, sub, claims, err
}

// the library detects optional capabilities by type assertion: one wrapper type per capability set used here
type (
	wrapped struct {
		op.Storage
		op.ClientCredentialsStorage
		op.DeviceAuthorizationStorage
		teActing
	}
	wrappedExtras struct {
		wrapped
		op.CanTerminateSessionFromRequest
		op.CanSetUserinfoFromRequest
		op.CanGetPrivateClaimsFromRequest
		op.JWTProfileTokenStorage
		roleVerifier
	}
)

// the storage's calls outside the TokenExchangeStorage interface at which it can refuse an exchange (the results of a call
// that was made before the refusal are handed back with the error)
func (w wrapped) CreateAccessToken(ctx context.Context, r op.TokenRequest) (id string, exp time.Time, err error) {
	err = w.tp.Veto.around("issue", "CreateAccessToken", func() error {
		var e error
		id, exp, e = w.Storage.CreateAccessToken(ctx, r)
		return e
	})
	return id, exp, err
}
func (w wrapped) CreateAccessAndRefreshTokens(ctx context.Context, r op.TokenRequest, current string) (id, refresh string, exp time.Time, err error) {
	err = w.tp.Veto.around("issue", "CreateAccessAndRefreshTokens", func() error {
		var e error
		id, refresh, exp, e = w.Storage.CreateAccessAndRefreshTokens(ctx, r, current)
		return e
	})
	return id, refresh, exp, err
}
func (w wrapped) TokenRequestByRefreshToken(ctx context.Context, token string) (rr op.RefreshTokenRequest, err error) {
	err = w.tp.Veto.around("lookup", "TokenRequestByRefreshToken", func() error {
		var e error
		rr, e = w.Storage.TokenRequestByRefreshToken(ctx, token)
		return e
	})
	return rr, err
}

func wrapStorage(shaped op.Storage, extras bool, tp tePlus) op.Storage {
	w := wrapped{shaped, shaped.(op.ClientCredentialsStorage), shaped.(op.DeviceAuthorizationStorage), teActing{shaped.(op.TokenExchangeStorage), tp}}
	if !extras {
		return w
	}
	return wrappedExtras{w, shaped.(op.CanTerminateSessionFromRequest), shaped.(op.CanSetUserinfoFromRequest), shaped.(op.CanGetPrivateClaimsFromRequest),
		shaped.(op.JWTProfileTokenStorage), roleVerifier{shaped.(op.TokenExchangeTokensVerifierStorage), tp.VouchRole, tp.Veto}}
}

// buildWrapped: vkit.Build for the specs of this package (default endpoints, static or host-derived issuer), with the
// wrapped storage handed to the provider.
func buildWrapped(spec vkit.ProviderSpec, st *vkit.Store, tp tePlus) *vkit.SUT {
	cfg := &op.Config{
		DefaultLogoutRedirectURI: spec.DefaultLogoutURI,
		CodeMethodS256:           spec.S256,
		AuthMethodPost:           spec.Post,
		AuthMethodPrivateKeyJWT:  spec.PKJWT,
		GrantTypeRefreshToken:    spec.Refresh,
		RequestObjectSupported:   spec.ReqObj,
		DeviceAuthorization: op.DeviceAuthorizationConfig{
			Lifetime: time.Duration(spec.Device.LifetimeS) * time.Second, PollInterval: time.Duration(spec.Device.PollS) * time.Second,
			UserFormPath: spec.Device.UserFormPath, UserFormURL: spec.Device.UserFormURL,
			UserCode: op.UserCodeConfig{CharSet: spec.Device.CharSet, CharAmount: spec.Device.CharAmount, DashInterval: spec.Device.DashInterval},
		},
	}
	for i := range cfg.CryptoKey {
		cfg.CryptoKey[i] = byte(i*7+3) ^ spec.CryptoKey
	}
	alg := st.SignKey.Alg
	opts := []op.Option{
		op.WithLogger(vkit.DiscardLogger()),
		op.WithAccessTokenVerifierOpts(op.WithSupportedAccessTokenSigningAlgorithms(alg)),
		op.WithIDTokenHintVerifierOpts(op.WithSupportedIDTokenHintSigningAlgorithms(alg)),
	}
	issuerFn := op.StaticIssuer(spec.Issuer)
	if spec.IssuerMode == "host" {
		issuerFn = op.IssuerFromHost(spec.Issuer)
	}
	defer vkit.RestoreDefaultEndpoints()
	p, err := op.NewProvider(cfg, wrapStorage(st.Shaped(spec.Caps), spec.Caps.Extras, tp), issuerFn, opts...)
	if err != nil {
		panic(fmt.Sprintf("c15: build provider: %v", err))
	}
	sut := &vkit.SUT{Spec: spec, Store: st, Provider: p, Host: "op.example.com", Paths: map[string]string{
		"authorization": "/authorize", "token": "/oauth/token", "introspection": "/oauth/introspect", "userinfo": "/userinfo",
		"revocation": "/revoke", "end_session": "/end_session", "keys": "/keys", "device_authorization": "/device_authorization"}}
	if spec.Router == "legacy" {
		sut.Handler = op.RegisterLegacyServer(op.NewLegacyServer(p, vkit.PristineEndpoints()), op.AuthorizeCallbackHandler(p), op.WithFallbackLogger(vkit.DiscardLogger()))
	} else {
		sut.Handler = p
	}
	return sut
}

// ---------------------------------------------------------------------------
// Independent JWS verification (crypto/* only).

type jwtView struct {
	Header map[string]any
	Claims map[string]any
	SigOK  bool
}

func verifyWith(alg string, pub crypto.PublicKey, input, sig []byte) bool {
	switch alg {
	case "RS256":
		k, ok := pub.(*rsa.PublicKey)
		if !ok {
			return false
		}
		h := sha256.Sum256(input)
		return rsa.VerifyPKCS1v15(k, crypto.SHA256, h[:], sig) == nil
	case "ES256":
		k, ok := pub.(*ecdsa.PublicKey)
		if !ok || len(sig) != 64 {
			return false
		}
		h := sha256.Sum256(input)
		return ecdsa.Verify(k, h[:], new(big.Int).SetBytes(sig[:32]), new(big.Int).SetBytes(sig[32:]))
	case "EdDSA":
		k, ok := pub.(ed25519.PublicKey)
		if !ok {
			return false
		}
		return ed25519.Verify(k, input, sig)
	}
	return false
}

// parseJWT decodes a compact JWS and verifies it against the provider's signing key and algorithm.
func parseJWT(tok string, sk vkit.SignKeySpec) (*jwtView, bool) {
	t, ok := vkit.SplitCompact(tok)
	if !ok {
		return nil, false
	}
	hb, err1 := vkit.UnB64(t.Header)
	pb, err2 := vkit.UnB64(t.Payload)
	sb, err3 := vkit.UnB64(t.Sig)
	if err1 != nil || err2 != nil || err3 != nil {
		return nil, false
	}
	v := &jwtView{}
	if json.Unmarshal(hb, &v.Header) != nil || json.Unmarshal(pb, &v.Claims) != nil || v.Claims == nil {
		return nil, false
	}
	alg, _ := v.Header["alg"].(string)
	v.SigOK = alg == sk.Alg && verifyWith(alg, vkit.Key(sk.KeyName).Pub, t.SigningInput(), sb)
	return v, true
}

func claimStr(m map[string]any, k string) string {
	s, _ := m[k].(string)
	return s
}

func jsonOf(v any) string {
	if m, ok := v.(map[string]any); v == nil || ok && m == nil {
		return "(absent)"
	}
	b, _ := json.Marshal(v)
	return string(b)
}

// actShape names how the storage's decision relates to the actor token's subject (label only).
func actShape(want map[string]any, actor string) string {
	switch {
	case want == nil && actor == "":
		return "none/no-actor-token"
	case want == nil:
		return "none-despite-actor-token"
	case actor == "":
		return "act-without-actor-token"
	case len(want) == 1 && want["sub"] == actor:
		return "actor-token-subject"
	}
	return "differs-from-actor-token-subject"
}

// reforge re-issues the payload of a JWT with edits, signed with the given key / header (used for expired, foreign-key,
// wrong-issuer and alg-none variants of tokens the provider really issued).
func reforge(tok string, edit func(hdr, claims map[string]any), keyName string) string {
	t, ok := vkit.SplitCompact(tok)
	if !ok {
		return tok
	}
	hb, _ := vkit.UnB64(t.Header)
	pb, _ := vkit.UnB64(t.Payload)
	var hdr, claims map[string]any
	json.Unmarshal(hb, &hdr)
	dec := json.NewDecoder(strings.NewReader(string(pb)))
	dec.UseNumber()
	dec.Decode(&claims)
	if hdr == nil || claims == nil {
		return tok
	}
	edit(hdr, claims)
	nb, _ := json.Marshal(claims)
	nt, err := vkit.MakeToken(hdr, nb, vkit.Key(keyName))
	if err != nil {
		return tok
	}
	return nt.Compact()
}

func shiftTimes(claims map[string]any, by int64) {
	for _, k := range []string{"exp", "iat", "nbf", "auth_time"} {
		if n, ok := claims[k].(json.Number); ok {
			if v, err := n.Int64(); err == nil {
				claims[k] = v + by
			}
		}
	}
}

// flipChar replaces the character at position i by a different base64url character.
func flipChar(s string, i int) string {
	if i < 0 || i >= len(s) {
		return s + "A"
	}
	r := byte('A')
	if s[i] == 'A' {
		r = 'B'
	}
	return s[:i] + string(r) + s[i+1:]
}

// ---------------------------------------------------------------------------
// Minting genuine tokens through the real authorization-code flow.

const (
	redirectURI  = "https://rp.example.com/cb"
	pkceVerifier = "c15-verifier-0123456789abcdefghijklmnopqrstuvwxyz-0123456789"
)

type minted struct {
	Access, Refresh, ID string
	AccessID            string
	User                string
	Err                 string
}

func tokenIDs(st *vkit.Store) map[string]bool {
	out := map[string]bool{}
	for id := range st.Tokens {
		out[id] = true
	}
	return out
}

func newTokenIDs(st *vkit.Store, before map[string]bool) []string {
	var out []string
	for id := range st.Tokens {
		if !before[id] {
			out = append(out, id)
		}
	}
	sort.Strings(out)
	return out
}

func mint(ag *vkit.Agent, cl *vkit.ClientSpec, user string, jwtAT bool) *minted {
	m := &minted{User: user}
	saved := cl.JWTAccessToken
	cl.JWTAccessToken = jwtAT
	defer func() { cl.JWTAccessToken = saved }()
	q := vkit.AuthParams(cl, redirectURI, "code", "openid profile email offline_access", "st-1", "nonce-1")
	q.Set("code_challenge", vkit.S256(pkceVerifier))
	q.Set("code_challenge_method", "S256")
	f := ag.RunAuth(q, user)
	if f.Code == "" {
		m.Err = "no code"
		return m
	}
	before := tokenIDs(ag.S.Store)
	r := ag.Token(vkit.CodeExchangeForm(f.Code, redirectURI, pkceVerifier), vkit.RightCred(cl, ag.S.IssuerFor(ag.Host)))
	if !r.Success() {
		m.Err = "code exchange: " + r.Describe()
		return m
	}
	m.Access, m.Refresh, m.ID = r.Str("access_token"), r.Str("refresh_token"), r.Str("id_token")
	if ids := newTokenIDs(ag.S.Store, before); len(ids) == 1 {
		m.AccessID = ids[0]
	}
	if m.Access == "" || m.Refresh == "" || m.ID == "" || m.AccessID == "" {
		m.Err = "incomplete token response: " + r.Describe()
	}
	return m
}

func sameSet(a, b []string) bool {
	x := append([]string(nil), a...)
	y := append([]string(nil), b...)
	sort.Strings(x)
	sort.Strings(y)
	if len(x) != len(y) {
		return false
	}
	for i := range x {
		if x[i] != y[i] {
			return false
		}
	}
	return true
}

func contains(l []string, s string) bool {
	for _, x := range l {
		if x == s {
			return true
		}
	}
	return false
}

func multi(v url.Values, key string, vals []string) {
	for _, x := range vals {
		v.Add(key, x)
	}
}

// couldDecrypt: the provider's opaque access tokens are AES-CFB ciphertexts without integrity protection, so ANY
// base64url string of at least 17 bytes "decrypts" to something, and that something is taken for "tokenID:subject"
// whenever it contains exactly one ':'. Whether such a string is honoured is then up to the storage's liveness check.
func couldDecrypt(tok string) bool {
	b, err := vkit.UnB64(tok)
	return err == nil && len(b) > 16
}
