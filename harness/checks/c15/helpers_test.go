package c15

import (
	"crypto"
	"crypto/ecdsa"
	"crypto/ed25519"
	"crypto/rsa"
	"crypto/sha256"
	"encoding/json"
	"fmt"
	"math/big"
	"net/url"
	"sort"
	"strings"

	"verif/harness/vkit"
)

// buildSUT builds a provider with every optional storage capability (extras: incl. the third-party token verifier).
// The vkit store is diligent about the one thing the framework delegates to ValidateTokenExchangeRequest: the liveness
// of access tokens presented as subject / actor (TEPolicy.NoLivenessCheck switches that off).
func buildSUT(router, issuer string, cryptoKey byte, st *vkit.Store, extras, hosts bool) *vkit.SUT {
	spec := vkit.DefaultProviderSpec(router)
	spec.Issuer = issuer
	if hosts {
		// the issuer is derived from the Host header of each request: "https://" + host
		spec.IssuerMode, spec.Issuer = "host", ""
	}
	spec.CryptoKey = cryptoKey
	spec.Caps = vkit.Caps{CC: true, TE: true, Device: true, Extras: extras}
	return vkit.MustBuild(spec, st)
}

// ---------------------------------------------------------------------------
// Independent JWS verification (crypto/* only).

type jwtView struct {
	Header map[string]any
	Claims map[string]any
	SigOK  bool
}

func verifyWith(alg string, pub crypto.PublicKey, input, sig []byte) bool {
	switch alg {
	case "RS256":
		k, ok := pub.(*rsa.PublicKey)
		if !ok {
			return false
		}
		h := sha256.Sum256(input)
		return rsa.VerifyPKCS1v15(k, crypto.SHA256, h[:], sig) == nil
	case "ES256":
		k, ok := pub.(*ecdsa.PublicKey)
		if !ok || len(sig) != 64 {
			return false
		}
		h := sha256.Sum256(input)
		return ecdsa.Verify(k, h[:], new(big.Int).SetBytes(sig[:32]), new(big.Int).SetBytes(sig[32:]))
	case "EdDSA":
		k, ok := pub.(ed25519.PublicKey)
		if !ok {
			return false
		}
		return ed25519.Verify(k, input, sig)
	}
	return false
}

// parseJWT decodes a compact JWS and verifies it against the provider's signing key and algorithm.
func parseJWT(tok string, sk vkit.SignKeySpec) (*jwtView, bool) {
	t, ok := vkit.SplitCompact(tok)
	if !ok {
		return nil, false
	}
	hb, err1 := vkit.UnB64(t.Header)
	pb, err2 := vkit.UnB64(t.Payload)
	sb, err3 := vkit.UnB64(t.Sig)
	if err1 != nil || err2 != nil || err3 != nil {
		return nil, false
	}
	v := &jwtView{}
	if json.Unmarshal(hb, &v.Header) != nil || json.Unmarshal(pb, &v.Claims) != nil || v.Claims == nil {
		return nil, false
	}
	alg, _ := v.Header["alg"].(string)
	v.SigOK = alg == sk.Alg && verifyWith(alg, vkit.Key(sk.KeyName).Pub, t.SigningInput(), sb)
	return v, true
}

func claimStr(m map[string]any, k string) string {
	s, _ := m[k].(string)
	return s
}

func actSub(m map[string]any) (string, bool) {
	a, ok := m["act"]
	if !ok || a == nil {
		return "", false
	}
	am, ok := a.(map[string]any)
	if !ok {
		return fmt.Sprint(a), true
	}
	return claimStr(am, "sub"), true
}

// reforge re-issues the payload of a JWT with edits, signed with the given key / header (used for expired, foreign-key,
// wrong-issuer and alg-none variants of tokens the provider really issued).
func reforge(tok string, edit func(hdr, claims map[string]any), keyName string) string {
	t, ok := vkit.SplitCompact(tok)
	if !ok {
		return tok
	}
	hb, _ := vkit.UnB64(t.Header)
	pb, _ := vkit.UnB64(t.Payload)
	var hdr, claims map[string]any
	json.Unmarshal(hb, &hdr)
	dec := json.NewDecoder(strings.NewReader(string(pb)))
	dec.UseNumber()
	dec.Decode(&claims)
	if hdr == nil || claims == nil {
		return tok
	}
	edit(hdr, claims)
	nb, _ := json.Marshal(claims)
	nt, err := vkit.MakeToken(hdr, nb, vkit.Key(keyName))
	if err != nil {
		return tok
	}
	return nt.Compact()
}

func shiftTimes(claims map[string]any, by int64) {
	for _, k := range []string{"exp", "iat", "nbf", "auth_time"} {
		if n, ok := claims[k].(json.Number); ok {
			if v, err := n.Int64(); err == nil {
				claims[k] = v + by
			}
		}
	}
}

// flipChar replaces the character at position i by a different base64url character.
func flipChar(s string, i int) string {
	if i < 0 || i >= len(s) {
		return s + "A"
	}
	r := byte('A')
	if s[i] == 'A' {
		r = 'B'
	}
	return s[:i] + string(r) + s[i+1:]
}

// ---------------------------------------------------------------------------
// Minting genuine tokens through the real authorization-code flow.

const (
	redirectURI  = "https://rp.example.com/cb"
	pkceVerifier = "c15-verifier-0123456789abcdefghijklmnopqrstuvwxyz-0123456789"
)

type minted struct {
	Access, Refresh, ID string
	AccessID            string
	User                string
	Err                 string
}

func tokenIDs(st *vkit.Store) map[string]bool {
	out := map[string]bool{}
	for id := range st.Tokens {
		out[id] = true
	}
	return out
}

func newTokenIDs(st *vkit.Store, before map[string]bool) []string {
	var out []string
	for id := range st.Tokens {
		if !before[id] {
			out = append(out, id)
		}
	}
	sort.Strings(out)
	return out
}

func mint(ag *vkit.Agent, cl *vkit.ClientSpec, user string, jwtAT bool) *minted {
	m := &minted{User: user}
	saved := cl.JWTAccessToken
	cl.JWTAccessToken = jwtAT
	defer func() { cl.JWTAccessToken = saved }()
	q := vkit.AuthParams(cl, redirectURI, "code", "openid profile email offline_access", "st-1", "nonce-1")
	q.Set("code_challenge", vkit.S256(pkceVerifier))
	q.Set("code_challenge_method", "S256")
	f := ag.RunAuth(q, user)
	if f.Code == "" {
		m.Err = "no code"
		return m
	}
	before := tokenIDs(ag.S.Store)
	r := ag.Token(vkit.CodeExchangeForm(f.Code, redirectURI, pkceVerifier), vkit.RightCred(cl, ag.S.IssuerFor(ag.Host)))
	if !r.Success() {
		m.Err = "code exchange: " + r.Describe()
		return m
	}
	m.Access, m.Refresh, m.ID = r.Str("access_token"), r.Str("refresh_token"), r.Str("id_token")
	if ids := newTokenIDs(ag.S.Store, before); len(ids) == 1 {
		m.AccessID = ids[0]
	}
	if m.Access == "" || m.Refresh == "" || m.ID == "" || m.AccessID == "" {
		m.Err = "incomplete token response: " + r.Describe()
	}
	return m
}

func sameSet(a, b []string) bool {
	x := append([]string(nil), a...)
	y := append([]string(nil), b...)
	sort.Strings(x)
	sort.Strings(y)
	if len(x) != len(y) {
		return false
	}
	for i := range x {
		if x[i] != y[i] {
			return false
		}
	}
	return true
}

func contains(l []string, s string) bool {
	for _, x := range l {
		if x == s {
			return true
		}
	}
	return false
}

func multi(v url.Values, key string, vals []string) {
	for _, x := range vals {
		v.Add(key, x)
	}
}

// couldDecrypt: the provider's opaque access tokens are AES-CFB ciphertexts without integrity protection, so ANY
// base64url string of at least 17 bytes "decrypts" to something, and that something is taken for "tokenID:subject"
// whenever it contains exactly one ':'. Whether such a string is honoured is then up to the storage's liveness check.
func couldDecrypt(tok string) bool {
	b, err := vkit.UnB64(tok)
	return err == nil && len(b) > 16
}
