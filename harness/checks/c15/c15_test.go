// Package c15: token exchange needs live subject / actor tokens and returns what it declares (property C15).
package c15

import (
	"context"
	"fmt"
	"net/url"
	"runtime/debug"
	"strings"
	"testing"
	"time"

	"github.com/zitadel/oidc/v3/pkg/oidc"
	"pgregory.net/rapid"

	"verif/harness/vkit"
)

// ---- case -------------------------------------------------------------------------

// TokSpec describes a subject / actor token: what it is, what was done to it, and what the request declares it to be.
type TokSpec struct {
	Kind     string `json:"kind"`              // opaque | jwt | refresh | id | third | garbage
	State    string `json:"state"`             // live | expired | revoked | rotated | foreign | resigned | wrongiss | algnone | tampered
	Owner    string `json:"owner"`             // self (the exchanging client obtained it) | other
	User     string `json:"user"`              // user the token was issued for
	Declared string `json:"declared"`          // access | refresh | id | jwt | saml2 | short | "" (parameter omitted)
	Literal  string `json:"literal,omitempty"` // kind garbage: the token string
	// sequences / multi-host providers (all optional: the zero values are the single exchange on a static-issuer provider)
	Born     int `json:"born,omitempty"`      // index of the exchange right before which the token is minted (0 = at the start; never later than its own exchange)
	MintHost int `json:"mint_host,omitempty"` // host of the provider (0 | 1) the token was obtained on (Hosts only)
	Replay   int `json:"replay,omitempty"`    // k > 0: the very token string presented as SUBJECT of exchange k-1 is presented again (the other fields but Declared repeat that token's description); an ACTOR may also name its own exchange: one string in both slots of a request
}

// Step is one further exchange on the same long-lived provider.
type Step struct {
	KeyOp     string   `json:"key_op,omitempty"` // what the storage does with its keys before this step: "" | rotate-keep | rotate-withdraw | rotate-withdraw-samekid | withdraw-old
	Host      int      `json:"host,omitempty"`   // host the exchange is sent to (Hosts only)
	Subject   TokSpec  `json:"subject"`
	Actor     *TokSpec `json:"actor,omitempty"`
	Requested string   `json:"requested"`
}

type Case struct {
	Mode       string `json:"mode,omitempty"`  // generator mode (label only): eligible | single | free
	Break      string `json:"break,omitempty"` // mode single: the premise that was broken (label only)
	Router     string `json:"router"`
	SignKey    string `json:"sign_key"`    // rsa1 | p256a | ed1
	ClientAuth string `json:"client_auth"` // registered auth method of the exchanging client
	// AppType: registered application type of the exchanging client, independent of its auth method: web | native | user_agent
	// ("" = what the check registered before this dimension existed: native for auth method none, web otherwise)
	AppType string `json:"app_type,omitempty"`
	// Cred: how the client presents itself: right | basic_right | post_right (its secret by that channel) | wrong_secret |
	// wrong_secret_other (a wrong secret by the channel the client is NOT registered for) | no_cred (client_id in the form and
	// nothing else; a public client: nothing at all) | id_only (client_id in the form, whatever the registration) |
	// basic_empty (Basic header with an empty password) | post_empty (client_id and an empty client_secret in the form) |
	// own_assertion (a valid assertion signed with a key registered for the client, whatever its auth method) |
	// unknown_client | bad_assertion | malformed_basic
	Cred      string        `json:"cred"`
	IssueJWT  bool          `json:"issue_jwt"`                  // exchanging client's access token type is JWT
	NoGrant   bool          `json:"no_grant,omitempty"`         // exchanging client is not registered for the token-exchange grant
	NoRefresh bool          `json:"no_refresh_grant,omitempty"` // exchanging client is not registered for the refresh_token grant
	Subject   TokSpec       `json:"subject"`
	Actor     *TokSpec      `json:"actor,omitempty"`
	Requested string        `json:"requested"` // "" | access | refresh | id | jwt | saml2 | short
	Scopes    []string      `json:"scopes,omitempty"`
	Audience  []string      `json:"audience,omitempty"`
	Resource  []string      `json:"resource,omitempty"`
	Policy    vkit.TEPolicy `json:"policy"`
	Extras    bool          `json:"extras,omitempty"` // storage also implements TokenExchangeTokensVerifierStorage
	// ActPolicy: which `act` claim the storage publishes in the tokens of an exchange (decideAct): "" {sub: actor} | rename | nested | extra | none | always
	ActPolicy string `json:"act_policy,omitempty"`
	// VouchRole: the role in which the storage's verifier vouches for third-party tokens: "" both | subject-only | actor-only
	VouchRole string `json:"vouch_role,omitempty"`
	// StoreVeto: the storage refuses the exchange at one of its calls (the two hooks of the exchange, the token creation, the
	// claims hooks, the refresh-token lookup, the third-party verifier) with an error value of a generated style
	StoreVeto *VetoSpec `json:"store_veto,omitempty"`
	// ErrStyle: how the storage words its own refusals (unknown client / wrong secret / unknown refresh token / unknown
	// third-party token): "" plain Go error | oidc | wrapped | server (vkit.StorePolicy.ErrStyle)
	ErrStyle string `json:"err_style,omitempty"`
	// Shape (label only): single | hosts | seq | hosts-seq
	Shape string `json:"shape,omitempty"`
	// Hosts: the provider derives its issuer from the request's Host (op.IssuerFromHost): two issuers, one storage, one key set
	Hosts bool `json:"hosts,omitempty"`
	Host  int  `json:"host,omitempty"` // host the first exchange is sent to
	// More: further exchanges on the same provider, each judged like the first against the storage's state at that time
	More []Step `json:"more,omitempty"`
}

// steps lists the exchanges of a case: the case's own fields are the first one.
func (c Case) steps() []Step {
	out := []Step{{Host: c.Host, Subject: c.Subject, Actor: c.Actor, Requested: c.Requested}}
	return append(out, c.More...)
}

const (
	issuer        = "https://op.example.com" // = the issuer of host 0 of a provider with a host-derived issuer
	otherHost     = "other.example.com"
	foreignIssuer = "https://other-op.example.org"
	urnPrefix     = "urn:ietf:params:oauth:token-type:"
)

func typeURN(name string) string {
	switch name {
	case "access":
		return urnPrefix + "access_token"
	case "refresh":
		return urnPrefix + "refresh_token"
	case "id":
		return urnPrefix + "id_token"
	case "jwt":
		return urnPrefix + "jwt"
	case "saml2":
		return urnPrefix + "saml2"
	case "short":
		return "access_token"
	}
	return ""
}

// undecided: requested_token_type absent and the storage policy sets no default.
const undecided = "undecided"

// issuableName maps an issued_token_type URN to the name of a type the provider issues ("" = none of them).
func issuableName(urn string) string {
	for _, n := range []string{"access", "refresh", "id"} {
		if urn == typeURN(n) {
			return n
		}
	}
	return ""
}

func supportedType(name string) bool {
	return name == "access" || name == "refresh" || name == "id" || name == "jwt"
}

func matchingType(kind string) string {
	switch kind {
	case "opaque", "jwt":
		return "access"
	case "refresh":
		return "refresh"
	case "id":
		return "id"
	}
	return ""
}

// ---- generators -------------------------------------------------------------------

var (
	scopePool = []string{"openid", "profile", "email", "phone", "offline_access", vkit.CustomScope, "api:read"}
	audPool   = []string{"client-i", "client-a", "client-b", "https://api.example.com"}
	resPool   = []string{"https://api.example.com/r1", "urn:example:res:2"}
	garbage   = []string{"x", "e30.e30.e30", "e30.bnVsbA.e30", "a.b.c", "..", "rt-1-AAAA", "at-1:u1", "null", "eyJhbGciOiJub25lIn0.e30.", "AAAAAAAAAAAAAAAAAAAAAAAAAAAAAAAA", "Bearer abc", "{}"}
	statesOf  = map[string][]string{
		"opaque":  {"expired", "revoked", "rotated", "foreign", "tampered"},
		"jwt":     {"expired", "revoked", "rotated", "foreign", "resigned", "wrongiss", "algnone", "tampered"},
		"refresh": {"expired", "revoked", "rotated", "foreign", "tampered"},
		"id":      {"expired", "foreign", "resigned", "wrongiss", "algnone", "tampered"},
	}
)

// genTok draws a token description. how: good (live, declared as what it is) | dead (one of the kind's dead states) |
// baddecl (live, declared as something else) | garbage | free (anything).
func genTok(t *rapid.T, label, how string, thirdOK bool) TokSpec {
	var s TokSpec
	kinds := []string{"opaque", "jwt", "refresh", "id", "opaque", "jwt", "refresh", "id"}
	switch how {
	case "good":
		if thirdOK {
			kinds = append(kinds, "third")
		}
	case "free":
		kinds = append(kinds, "third", "garbage", "garbage")
	case "baddecl":
		kinds = append(kinds, "third")
	case "garbage":
		kinds = []string{"garbage"}
	}
	s.Kind = rapid.SampledFrom(kinds).Draw(t, label+"kind")
	s.User = rapid.SampledFrom(vkit.AllUserIDs).Draw(t, label+"user")
	s.Owner = rapid.SampledFrom([]string{"self", "other"}).Draw(t, label+"owner")
	s.State = "live"
	switch s.Kind {
	case "garbage":
		s.Literal = rapid.SampledFrom(garbage).Draw(t, label+"lit")
	case "third":
	default:
		if how == "dead" || how == "free" && rapid.IntRange(0, 9).Draw(t, label+"dead") >= 6 {
			s.State = rapid.SampledFrom(statesOf[s.Kind]).Draw(t, label+"state")
		}
	}
	match := matchingType(s.Kind)
	if match == "" {
		match = rapid.SampledFrom([]string{"access", "refresh", "id", "jwt"}).Draw(t, label+"decl0")
	}
	s.Declared = match
	if how == "baddecl" || how == "free" && rapid.IntRange(0, 9).Draw(t, label+"declfree") >= 7 {
		s.Declared = rapid.SampledFrom([]string{"access", "refresh", "id", "jwt", "saml2", "short", ""}).Draw(t, label+"decl")
	}
	return s
}

func genSubset(t *rapid.T, label string, pool []string, max int) []string {
	n := rapid.IntRange(0, max).Draw(t, label+"n")
	var out []string
	for i := 0; i < n; i++ {
		x := rapid.SampledFrom(pool).Draw(t, fmt.Sprintf("%s%d", label, i))
		if !contains(out, x) {
			out = append(out, x)
		}
	}
	return out
}

var (
	authMethods = []string{"client_secret_basic", "client_secret_basic", "client_secret_basic", "client_secret_post", "none", "private_key_jwt"}
	badCreds    = []string{"wrong_secret", "no_cred", "unknown_client", "bad_assertion", "malformed_basic", "basic_right", "post_right",
		"id_only", "basic_empty", "post_empty", "wrong_secret_other", "own_assertion", "no_cred", "id_only", "basic_empty"}
	appTypes    = []string{"web", "native", "user_agent"}
	okRequested = []string{"", "access", "refresh", "id", "access", "refresh", "id"}
	badRequest  = []string{"jwt", "saml2", "short"}
)

var keyOps = []string{"", "", "rotate-keep", "rotate-withdraw", "rotate-withdraw-samekid", "withdraw-old"}

// genCase: the first exchange (genOne) and, in half of the cases, the provider's life around it: a provider whose issuer is
// derived from the Host header serving two hosts (tokens obtained on one host presented on the other), and / or 1-3 further
// exchanges on the same provider with changes of the storage's keys in between (tokens minted before a change presented
// after it, the very token of an earlier exchange presented again).
func genCase(t *rapid.T) Case {
	c := genOne(t)
	c.Shape = rapid.SampledFrom([]string{"single", "single", "single", "single", "single", "hosts", "seq", "seq", "hosts-seq", "hosts-seq"}).Draw(t, "shape")
	if c.Shape == "single" {
		return c
	}
	thirdOK := c.Policy.VerifyThird && c.Extras
	hostOf := func(label string, near ...int) int {
		if !c.Hosts {
			return 0
		}
		return rapid.SampledFrom(append(near, near[0], 1-near[0])).Draw(t, label)
	}
	if c.Shape != "seq" {
		c.Hosts = true
		c.Host = rapid.IntRange(0, 1).Draw(t, "host")
		c.Subject.MintHost = hostOf("s.minthost", c.Host)
		if c.Actor != nil {
			c.Actor.MintHost = hostOf("a.minthost", c.Host)
		}
	}
	if c.Shape == "hosts" {
		return c
	}
	n := rapid.IntRange(1, 3).Draw(t, "more")
	prev := c.Host
	for i := 1; i <= n; i++ {
		l := fmt.Sprintf("x%d.", i)
		var st Step
		st.KeyOp = rapid.SampledFrom(keyOps).Draw(t, l+"keyop")
		if c.Hosts {
			st.Host = rapid.IntRange(0, 1).Draw(t, l+"host")
		}
		tok := func(role string) TokSpec {
			hi := i
			if role == "a." {
				hi = i + 1 // an actor may also present the subject token of its own exchange
			}
			if k := rapid.IntRange(-2*i, hi).Draw(t, l+role+"replay"); k > 0 {
				// the subject token of exchange k-1 once more
				ts := st.Subject
				if k <= i {
					ts = c.steps()[k-1].Subject
				}
				ts.Replay = k
				if ts.Born >= k {
					ts.Born = k - 1
				}
				if rapid.IntRange(0, 9).Draw(t, l+role+"redecl") < 4 {
					// the same string under another declaration
					ts.Declared = rapid.SampledFrom(allDeclared).Draw(t, l+role+"decl")
				}
				return ts
			}
			how := rapid.SampledFrom([]string{"good", "good", "good", "free"}).Draw(t, l+role+"how")
			ts := genTok(t, l+role, how, thirdOK)
			ts.Born = rapid.IntRange(0, i).Draw(t, l+role+"born")
			ts.MintHost = hostOf(l+role+"minthost", st.Host, prev)
			return ts
		}
		st.Subject = tok("s.")
		if rapid.IntRange(0, 9).Draw(t, l+"actor") < 3 {
			a := tok("a.")
			st.Actor = &a
		}
		st.Requested = rapid.SampledFrom(okRequested).Draw(t, l+"requested")
		if rapid.IntRange(0, 9).Draw(t, l+"badreq") == 9 {
			st.Requested = rapid.SampledFrom(badRequest).Draw(t, l+"badrequested")
		}
		c.More = append(c.More, st)
		prev = st.Host
	}
	if c.StoreVeto != nil && rapid.Bool().Draw(t, "veto.once") {
		// the storage refuses one of the exchanges only
		c.StoreVeto.Only = rapid.IntRange(1, n+1).Draw(t, "veto.only")
	}
	return c
}

// genOne: three modes. "eligible": every premise of the statement holds (the response is judged); "single": exactly
// one premise is broken (each must-reject reason in isolation); "free": independent draws (combinations).
func genOne(t *rapid.T) Case {
	var c Case
	c.Mode = rapid.SampledFrom([]string{"eligible", "single", "free", "eligible", "single"}).Draw(t, "mode")
	c.Router = rapid.SampledFrom([]string{"provider", "legacy"}).Draw(t, "router")
	c.SignKey = rapid.SampledFrom([]string{"p256a", "rsa1", "ed1", "p256a"}).Draw(t, "signkey")
	c.ClientAuth = rapid.SampledFrom(authMethods).Draw(t, "clientauth")
	// the application type is registered independently of the auth method (a native app may hold a secret, a web app may be public)
	c.AppType = rapid.SampledFrom(append([]string{"", ""}, appTypes...)).Draw(t, "apptype")
	c.IssueJWT = rapid.Bool().Draw(t, "issuejwt")
	c.Scopes = genSubset(t, "scope", scopePool, 4)
	c.Audience = genSubset(t, "aud", audPool, 2)
	if rapid.Bool().Draw(t, "aud-i") && !contains(c.Audience, "client-i") {
		c.Audience = append(c.Audience, "client-i")
	}
	c.Resource = genSubset(t, "res", resPool, 2)
	// what the storage does with an absent requested_token_type: picks a type, or ("none") leaves it unset
	c.Policy.DefaultType = rapid.SampledFrom([]string{"", "access", "refresh", "id", "none", "none"}).Draw(t, "default")
	c.Policy.Impersonate = rapid.SampledFrom([]string{"", "", "", "u2", "u3", "svc-bot"}).Draw(t, "impersonate")
	c.Policy.DropScopes = genSubset(t, "drop", scopePool, 2)
	c.Policy.VerifyThird = rapid.Bool().Draw(t, "verifythird")
	c.Policy.NoLivenessCheck = rapid.IntRange(0, 9).Draw(t, "nolive") >= 8
	c.Extras = rapid.Bool().Draw(t, "extras")
	c.ActPolicy = rapid.SampledFrom(append([]string{"", ""}, actPolicies...)).Draw(t, "actpolicy")
	c.ErrStyle = rapid.SampledFrom(append([]string{"", "", ""}, vkit.ErrStyles...)).Draw(t, "errstyle")
	thirdOK := c.Policy.VerifyThird && c.Extras
	withActor := rapid.IntRange(0, 9).Draw(t, "actor") < 4
	// sameActor: the actor token is the very string presented as subject token. how: "good" = declared as what the token is,
	// "baddecl" = declared as something else, "free" = as what it is / as the subject declares it / anything
	sameActor := func(how string) *TokSpec {
		a := c.Subject
		a.Replay = 1
		match := matchingType(a.Kind)
		if match == "" {
			match = c.Subject.Declared
		}
		switch how {
		case "good":
			a.Declared = match
		case "baddecl":
			a.Declared = rapid.SampledFrom(allDeclared).Filter(func(d string) bool { return d != match }).Draw(t, "a.samedecl")
		default:
			a.Declared = rapid.SampledFrom(append([]string{match, c.Subject.Declared}, allDeclared...)).Draw(t, "a.samedecl")
		}
		return &a
	}
	same := withActor && rapid.IntRange(0, 9).Draw(t, "sameactor") < 2
	c.NoRefresh = rapid.IntRange(0, 9).Draw(t, "norefresh") >= 8

	if c.Mode == "free" {
		c.Cred = "right"
		if rapid.IntRange(0, 9).Draw(t, "credfree") >= 7 {
			c.Cred = rapid.SampledFrom(badCreds).Draw(t, "cred")
		}
		c.NoGrant = rapid.IntRange(0, 19).Draw(t, "nogrant") == 19
		c.Subject = genTok(t, "s.", "free", thirdOK)
		if withActor {
			a := genTok(t, "a.", "free", thirdOK)
			c.Actor = &a
		}
		if same {
			c.Actor = sameActor("free")
		}
		if thirdOK && rapid.IntRange(0, 9).Draw(t, "vouchrolefree") < 3 {
			c.VouchRole = rapid.SampledFrom(vouchRoles).Draw(t, "vouchrole")
		}
		c.Requested = rapid.SampledFrom(append(append([]string{}, okRequested...), badRequest...)).Draw(t, "requested")
		c.Policy.Veto = rapid.IntRange(0, 9).Draw(t, "veto") == 9
		if rapid.IntRange(0, 9).Draw(t, "storeveto") >= 8 {
			c.StoreVeto = genVeto(t)
		}
		return c
	}
	// eligible by construction
	c.Cred = "right"
	c.Subject = genTok(t, "s.", "good", thirdOK)
	if withActor {
		a := genTok(t, "a.", "good", thirdOK)
		c.Actor = &a
	}
	c.Requested = rapid.SampledFrom(okRequested).Draw(t, "requested")
	if c.Mode == "eligible" {
		if same {
			c.Actor = sameActor("good")
		}
		return c
	}
	// break exactly one premise
	breaks := []string{"subject-dead", "subject-decl", "subject-garbage", "cred", "cred", "veto", "requested", "subject-dead", "subject-decl", "store-veto", "store-veto", "store-veto"}
	if c.Actor != nil {
		breaks = append(breaks, "actor-dead", "actor-decl", "actor-garbage", "actor-dead", "actor-decl", "actor-same-decl")
	}
	if thirdOK {
		breaks = append(breaks, "third-unvouched", "third-wrong-role")
	}
	c.Break = rapid.SampledFrom(breaks).Draw(t, "break")
	switch c.Break {
	case "subject-dead":
		c.Subject = genTok(t, "sb.", "dead", false)
	case "subject-decl":
		c.Subject = genTok(t, "sb.", "baddecl", thirdOK)
	case "subject-garbage":
		c.Subject = genTok(t, "sb.", "garbage", false)
	case "actor-dead":
		a := genTok(t, "ab.", "dead", false)
		c.Actor = &a
	case "actor-decl":
		a := genTok(t, "ab.", "baddecl", thirdOK)
		c.Actor = &a
	case "actor-garbage":
		a := genTok(t, "ab.", "garbage", false)
		c.Actor = &a
	case "actor-same-decl":
		// the subject token once more as actor token, declared as something it is not
		c.Actor = sameActor("baddecl")
	case "third-wrong-role":
		// a third-party token in the role the storage's verifier does not vouch in (the same string in the other role is fine)
		tk := TokSpec{Kind: "third", State: "live", Owner: "other", User: rapid.SampledFrom(vkit.AllUserIDs).Draw(t, "tuser"), Declared: rapid.SampledFrom([]string{"access", "jwt", "id", "refresh"}).Draw(t, "tdecl")}
		if rapid.Bool().Draw(t, "onactor") {
			c.VouchRole = "subject-only"
			if rapid.Bool().Draw(t, "bothslots") {
				c.Subject = tk
			}
			c.Actor = &tk
		} else {
			c.VouchRole = "actor-only"
			if c.Actor != nil && rapid.Bool().Draw(t, "bothslots") {
				c.Actor = &tk
			}
			c.Subject = tk
		}
	case "cred":
		c.Cred = rapid.SampledFrom(badCreds).Draw(t, "cred")
	case "veto":
		c.Policy.Veto = true
	case "store-veto":
		c.StoreVeto = genVeto(t)
	case "requested":
		c.Requested = rapid.SampledFrom(badRequest).Draw(t, "badrequested")
	case "third-unvouched":
		// a third-party token while the storage does not vouch (verifier missing or switched off)
		if rapid.Bool().Draw(t, "noextras") {
			c.Extras = false
		} else {
			c.Policy.VerifyThird = false
		}
		tk := TokSpec{Kind: "third", State: "live", Owner: "other", User: rapid.SampledFrom(vkit.AllUserIDs).Draw(t, "tuser"), Declared: rapid.SampledFrom([]string{"access", "jwt", "id", "refresh"}).Draw(t, "tdecl")}
		if c.Actor != nil && rapid.Bool().Draw(t, "onactor") {
			c.Actor = &tk
		} else {
			c.Subject = tk
		}
	}
	if same && !strings.HasPrefix(c.Break, "actor-") && !strings.HasPrefix(c.Break, "third-") {
		// (whatever became of the subject token: the same string, declared as what it is)
		c.Actor = sameActor("good")
	}
	return c
}

// ---- execution helpers ------------------------------------------------------------

type world struct {
	c        Case
	st       *vkit.Store
	ags      [2]*vkit.Agent   // one per host (the same provider)
	ag       *vkit.Agent      // agent of the exchange under way
	iss      string           // issuer of the exchange under way
	sk       vkit.SignKeySpec // the storage's signing key at this time
	keyOps   int
	keyTrace []string // key changes of the storage so far
	clA      *vkit.ClientSpec
	clB      *vkit.ClientSpec
	foreign  *vkit.Agent // lazily built second provider (other issuer, other keys)
	// actorUnknown: the actor token is grey, so the actor the issued token must carry is not decidable
	actorUnknown bool
	// expAct: the `act` claim the storage policy decided for the exchange under way (nil = none)
	expAct  map[string]any
	fClient *vkit.ClientSpec
	// veto: the refusal of the storage planned for this case (nil = none); armed during the exchange requests only
	veto *vetoPlan
}

// plus: the parts of the storage's token-exchange policy that live in this package (see helpers_test.go).
func (w *world) plus() tePlus {
	tp := tePlus{Act: w.c.ActPolicy, VouchRole: w.c.VouchRole, Veto: w.veto}
	if !contains(actPolicies, tp.Act) {
		tp.Act = ""
	}
	if !contains(vouchRoles, tp.VouchRole) {
		tp.VouchRole = ""
	}
	return tp
}

func algOfKey(name string) string {
	switch name {
	case "p256a", "p256b":
		return "ES256"
	case "ed1", "ed2":
		return "EdDSA"
	}
	return "RS256"
}

func webClient(id, secret string) *vkit.ClientSpec {
	return &vkit.ClientSpec{ID: id, Secret: secret, AppType: "web", AuthMethod: "client_secret_basic",
		GrantTypes: []string{vkit.GCode, vkit.GRefr, vkit.GTE}, ResponseTypes: []string{"code"}, RedirectURIs: []string{redirectURI}}
}

func (w *world) foreignAgent() *vkit.Agent {
	if w.foreign == nil {
		w.fClient = webClient("client-b", "secret-b")
		key := "rsa2"
		if w.c.SignKey != "rsa1" {
			key = map[string]string{"p256a": "p256b", "ed1": "ed2"}[w.c.SignKey]
		}
		// same kid and algorithm as the real provider, different key material, different token-encryption key
		fst := vkit.NewStore([]*vkit.ClientSpec{w.fClient}, vkit.SignKeySpec{KeyName: key, Alg: algOfKey(key), KID: "sig1"}, vkit.StorePolicy{})
		// the vkit store numbers its objects deterministically; move the foreign provider's counter away so that its
		// token strings / ids cannot coincide with objects of the real provider
		for i := 0; i < 1000; i++ {
			fst.CreateAuthRequest(context.Background(), &oidc.AuthRequest{ClientID: "client-b"}, "")
		}
		fst.Journal = nil
		w.foreign = vkit.NewAgent(buildSUT("provider", foreignIssuer, 0x5a, fst, false, false, tePlus{}))
	}
	return w.foreign
}

// tokenTruth is what the harness knows about a prepared token.
type tokenTruth struct {
	Token   string
	Live    int    // +1 live at the provider, -1 certainly not, 0 setup did not reach the intended state (grey)
	Subject string // subject the token stands for (live / vouched tokens)
	Why     string
	// Unverifiable: why the provider cannot verify this JWT where / when it is presented ("" = it can): issued under the
	// issuer of the provider's other host, or signed by a key the storage has withdrawn
	Unverifiable string
	// kept for judging the token at the time and host of its presentation (see at)
	final    bool   // Live / Why do not depend on time or host (garbage, third-party, foreign provider, failed setup)
	orig     string // the token as issued
	accessID string
	refresh  string
	signer   string // name and kid of the key the JWT was signed with
	kid      string
	mintHost int
	// resignedServed: a copy re-signed by the harness with a key the storage has come to serve since (verifies like a genuine one)
	resignedServed bool
}

// prepare produces the token string of a TokSpec through the provider (and the harness' forge); at establishes whether it is live.
func (w *world) prepare(s TokSpec) tokenTruth {
	switch s.Kind {
	case "garbage":
		return tokenTruth{Token: s.Literal, Live: -1, Why: "garbage", final: true}
	case "third":
		return tokenTruth{Token: "third:" + s.User, Live: 0, Subject: s.User, Why: "third", final: true} // decided by the vouching rule, see model
	}
	jwtAT := s.Kind == "jwt"
	if s.State == "foreign" {
		fa := w.foreignAgent()
		m := mint(fa, w.fClient, s.User, jwtAT)
		if m.Err != "" {
			return tokenTruth{Live: 0, Why: "foreign mint failed: " + m.Err, final: true}
		}
		return tokenTruth{Token: pick(m, s.Kind), Live: -1, Why: "foreign", final: true}
	}
	owner := w.clB
	if s.Owner == "self" {
		owner = w.clA
	}
	mh := w.hostIdx(s.MintHost)
	mag := w.ags[mh]
	m := mint(mag, owner, s.User, jwtAT)
	if m.Err != "" {
		return tokenTruth{Live: 0, Why: "mint failed: " + m.Err, final: true}
	}
	tok := pick(m, s.Kind)
	tt := tokenTruth{Token: tok, Subject: s.User, Why: s.State, orig: tok, accessID: m.AccessID, refresh: m.Refresh, signer: w.sk.KeyName, kid: w.sk.KID, mintHost: mh}
	ownerCred := vkit.RightCred(owner, w.issuerOf(mh))
	switch s.State {
	case "live":
	case "expired":
		switch s.Kind {
		case "opaque":
			w.st.ExpireToken(m.AccessID)
		case "jwt":
			w.st.ExpireToken(m.AccessID)
			tt.Token = reforge(tok, func(_, cl map[string]any) { shiftTimes(cl, -7200) }, w.sk.KeyName)
		case "refresh":
			w.st.ExpireRefresh(m.Refresh)
		case "id":
			tt.Token = reforge(tok, func(_, cl map[string]any) { shiftTimes(cl, -7200) }, w.sk.KeyName)
		}
	case "revoked":
		if s.Kind == "refresh" {
			mag.Revoke(m.Refresh, "refresh_token", ownerCred)
		} else {
			mag.Revoke(m.Access, "access_token", ownerCred)
		}
	case "rotated":
		mag.Token(url.Values{"grant_type": {vkit.GRefr}, "refresh_token": {m.Refresh}}, ownerCred)
	case "resigned":
		other := otherKey(w.sk.KeyName)
		tt.signer = other
		tt.Token = reforge(tok, func(_, _ map[string]any) {}, other)
	case "wrongiss":
		tt.Token = reforge(tok, func(_, cl map[string]any) { cl["iss"] = "https://evil.example.net" }, w.sk.KeyName)
	case "algnone":
		tt.Token = reforge(tok, func(h, _ map[string]any) { h["alg"] = "none" }, w.sk.KeyName)
	case "tampered":
		switch s.Kind {
		case "opaque":
			tt.Token = flipChar(tok, 3) // inside the IV: the whole first plaintext block changes
		case "refresh":
			tt.Token = flipChar(tok, len(tok)/2)
		default:
			p := strings.Index(tok, ".")
			tt.Token = flipChar(tok, p+1+(strings.LastIndex(tok, ".")-p)/2)
		}
	}
	return tt
}

// at judges a prepared token at the moment it is presented on host `host`: ground truth from the store, the keys the
// storage serves now, and the issuer of that host.
func (w *world) at(s TokSpec, tt tokenTruth, host int) tokenTruth {
	if tt.final {
		return tt
	}
	tok := tt.orig
	switch s.Kind {
	case "opaque", "jwt":
		at, ok := w.st.TokenSnapshot(tt.accessID)
		storeLive := ok && !at.Revoked && at.Exp.After(time.Now().Add(2*time.Second))
		switch s.State {
		case "live":
			tt.Live = b2i(storeLive)
		case "expired", "revoked", "rotated":
			tt.Live = -1
			if storeLive {
				tt.Live, tt.Why = 0, "setup: token still live after "+s.State
			}
		default:
			tt.Live = -1
			if tt.Token == tok {
				tt.Live, tt.Why = 0, "setup: manipulation had no effect"
			}
		}
	case "refresh":
		rt, ok := w.st.RefreshSnapshot(tt.refresh)
		storeLive := ok && !rt.Dead && rt.Exp.After(time.Now().Add(2*time.Second))
		switch s.State {
		case "live":
			tt.Live = b2i(storeLive)
		case "expired", "revoked", "rotated":
			tt.Live = -1
			if storeLive {
				tt.Live, tt.Why = 0, "setup: refresh token still live after "+s.State
			}
		default:
			tt.Live = -1
			if tt.Token == tok {
				tt.Live, tt.Why = 0, "setup: manipulation had no effect"
			}
		}
	case "id":
		if s.State == "live" {
			tt.Live = 1
		} else {
			tt.Live = -1
			if tt.Token == tok {
				tt.Live, tt.Why = 0, "setup: manipulation had no effect"
			}
		}
	}
	switch s.Kind {
	case "jwt", "id":
		// a JWT is a token of the provider only where its issuer is the one it is presented to and while the storage serves its key
		switch served := w.keyServed(tt.signer, tt.kid); {
		case s.State == "resigned":
			if served >= 0 {
				tt.Live, tt.Why = 0, "setup: the key the harness re-signed with is one the storage serves now"
				// (after a rotation to that very key the re-signed copy IS a validly signed JWT of the provider)
				tt.resignedServed = !(w.c.Hosts && tt.mintHost != host)
			}
		case w.c.Hosts && tt.mintHost != host:
			tt.Live, tt.Unverifiable = -1, "other-host-issuer"
		case served < 0:
			tt.Live, tt.Unverifiable = -1, "withdrawn-key"
		case served == 0 && tt.Live > 0:
			tt.Live, tt.Why = 0, "the storage serves the signing key under another kid now"
		}
	default:
		// opaque access tokens and refresh tokens name no issuer: whether one obtained on the provider's other host counts
		// as a token of this host is not said
		if w.c.Hosts && tt.mintHost != host && tt.Live > 0 {
			tt.Live, tt.Why = 0, "issuer-less token obtained on the provider's other host"
		}
	}
	return tt
}

func (w *world) hostIdx(h int) int {
	if !w.c.Hosts || h != 1 {
		return 0
	}
	return 1
}

func (w *world) issuerOf(h int) string { return w.ags[h].S.IssuerFor(w.ags[h].Host) }

// keyServed: +1 the storage serves that key under that kid now, 0 under another kid only, -1 not at all.
func (w *world) keyServed(name, kid string) int {
	out := -1
	for _, k := range w.st.PubKeys {
		if k.KeyName == name {
			if k.KID == kid {
				return 1
			}
			out = 0
		}
	}
	return out
}

var keyChain = map[string][]string{"RS256": {"rsa1", "rsa2", "rsa3", "rsa4"}, "ES256": {"p256a", "p256b"}, "EdDSA": {"ed1", "ed2"}}

// otherKey: a key of the same algorithm that is not the given one (what "resigned" tokens are signed with).
func otherKey(name string) string {
	return map[string]string{"rsa1": "rsa4", "rsa2": "rsa1", "rsa3": "rsa2", "rsa4": "rsa3", "p256a": "p256b", "p256b": "p256a", "ed1": "ed2", "ed2": "ed1"}[name]
}

// keyOp: the storage changes its keys between two requests (same algorithm throughout: the provider's verifiers were
// configured with it). rotate-*: it signs with the next key from now on and keeps publishing the old public keys /
// withdraws them all (new kid, or the kid of the key it replaces); withdraw-old: only the current signing key stays published.
func (w *world) keyOp(op string) {
	if !contains(keyOps, op) || op == "" {
		return
	}
	w.keyOps++
	w.keyTrace = append(w.keyTrace, op)
	pub := func(k vkit.SignKeySpec) vkit.PubKeySpec {
		return vkit.PubKeySpec{KeyName: k.KeyName, Alg: k.Alg, KID: k.KID, Use: "sig"}
	}
	cur := w.st.SignKey
	chain := keyChain[cur.Alg]
	next := cur
	for i, n := range chain {
		if n == cur.KeyName {
			next.KeyName = chain[(i+1)%len(chain)]
		}
	}
	next.KID = fmt.Sprintf("sig%d", w.keyOps+1)
	switch op {
	case "rotate-keep":
		var keep []vkit.PubKeySpec
		for _, k := range w.st.PubKeys {
			if k.KeyName != next.KeyName { // a key that comes back is published once, under its new kid
				keep = append(keep, k)
			}
		}
		w.st.SignKey, w.st.PubKeys = next, append(keep, pub(next))
	case "rotate-withdraw":
		w.st.SignKey, w.st.PubKeys = next, []vkit.PubKeySpec{pub(next)}
	case "rotate-withdraw-samekid":
		next.KID = cur.KID
		w.st.SignKey, w.st.PubKeys = next, []vkit.PubKeySpec{pub(next)}
	case "withdraw-old":
		w.st.PubKeys = []vkit.PubKeySpec{pub(cur)}
	}
	w.sk = w.st.SignKey
}

func b2i(b bool) int {
	if b {
		return 1
	}
	return 0
}

func pick(m *minted, kind string) string {
	switch kind {
	case "refresh":
		return m.Refresh
	case "id":
		return m.ID
	}
	return m.Access
}

// validity of a presented token per the statement: live token of the declared supported type.
// +1 valid, -1 invalid, 0 grey. reason names the class (used in fingerprints / labels).
func (w *world) validity(s TokSpec, tt tokenTruth, role string) (int, string) {
	vouched := w.c.Extras && w.c.Policy.VerifyThird && (w.plus().VouchRole == "" || w.plus().VouchRole == role+"-only")
	if s.Declared == "" {
		if s.Kind == "third" && vouched {
			return -1, "type-not-declared:storage-vouched-token"
		}
		return -1, "type-not-declared:" + s.Kind
	}
	if !supportedType(s.Declared) {
		return -1, "unsupported-type:" + s.Declared
	}
	switch s.Kind {
	case "garbage":
		if w.c.Policy.NoLivenessCheck && s.Declared == "access" && couldDecrypt(tt.Token) {
			return 0, "storage-does-not-check:undecidable-opaque"
		}
		return -1, "garbage"
	case "third":
		if vouched {
			return 1, "third-vouched-by-storage"
		}
		if w.c.Extras && w.c.Policy.VerifyThird {
			return -1, "third-not-vouched-as-" + role
		}
		return -1, "third-not-vouched"
	}
	valid := s.Declared == matchingType(s.Kind) && tt.Live > 0
	if !valid && w.c.Policy.NoLivenessCheck && s.Declared == "access" {
		// the storage was told not to check the liveness of access tokens: whatever only the storage could have
		// refused is not the library's doing (grey): tokens dead only in the store, and strings that decrypt to something
		if couldDecrypt(tt.Token) {
			return 0, "storage-does-not-check:undecidable-opaque"
		}
		if s.Kind == "jwt" && (s.State == "revoked" || s.State == "rotated") && tt.Unverifiable == "" {
			return 0, "storage-does-not-check:jwt/" + s.State
		}
	}
	if s.Declared == "jwt" && (s.Kind == "jwt" || s.Kind == "id") && tt.Live >= 0 {
		// urn:...:token-type:jwt only says "this is a JWT", which is true of these tokens: the statement does not decide
		return 0, "jwt-declared-as-generic-jwt"
	}
	if s.Declared != matchingType(s.Kind) {
		// whatever its state: the token is not of the declared type. One family gets its own class: the provider's two
		// JWT kinds presented as each other while the JWT itself still verifies (signature, issuer, expiry).
		verifies := (s.State == "live" || s.Kind == "jwt" && (s.State == "revoked" || s.State == "rotated") || s.State == "resigned" && tt.resignedServed) && tt.Unverifiable == ""
		if verifies && (s.Kind == "jwt" && s.Declared == "id" || s.Kind == "id" && s.Declared == "access") {
			return -1, "jwt-kind-confusion:" + s.Kind + "-as-" + s.Declared
		}
		return -1, "cross-type:" + s.Kind + "-as-" + s.Declared
	}
	if tt.Live == 0 {
		return 0, "setup-grey"
	}
	if tt.Unverifiable != "" {
		// foreign at this host (issued under the issuer of the provider's other host) / not a validly signed token of
		// the provider any more (the storage withdrew the key): an invalid subject or actor token whatever else is true of it
		return -1, tt.Unverifiable + ":" + s.Kind
	}
	if tt.Live < 0 {
		return -1, "dead:" + s.Kind + "/" + s.State
	}
	return 1, "live:" + s.Kind
}

// credential presentation and the model's verdict on client authentication: +1 authenticated, -1 not, 0 grey.
//
// The model is written from the statement ("succeeds only for an authenticated client"), over what the client REGISTERED
// (auth method; the application type decides nothing) and what the request PRESENTS:
//
//	-1  the client has a secret-based or key-based registration (client_secret_basic / client_secret_post / private_key_jwt)
//	    and the request carries no valid credential of that client: nothing but a client_id, an empty secret by either
//	    channel, a wrong secret by either channel, a secret for a client that holds none, an assertion signed by a key that
//	    is not registered; or the request names no client / an unknown client
//	+1  its own secret (either channel) for a secret-based registration, a valid assertion for a private_key_jwt registration
//	 0  public clients (auth method none: identified, not authenticated - whether they are served is not said), and a valid
//	    credential of another kind than the registered one (a valid assertion of a key registered for a secret-based
//	    client): which credential kinds count for which registration is property C05's question
func (w *world) credential() (vkit.Cred, int, string) {
	a := w.clA
	method := a.AuthMethod
	public := method == "none"
	other := map[string]string{"basic": "post", "post": "basic"}
	own := "basic" // the channel the client is registered for (secret-less registrations: Basic)
	if method == "client_secret_post" {
		own = "post"
	}
	switch w.c.Cred {
	case "right":
		cr := vkit.RightCred(a, w.iss)
		if public {
			return cr, 0, "public-client-identified"
		}
		return cr, 1, "right"
	case "basic_right", "post_right":
		kind := strings.TrimSuffix(w.c.Cred, "_right")
		cr := vkit.Cred{Kind: kind, ClientID: a.ID, Secret: "secret-a"}
		if public {
			return cr, 0, "public-client-with-bogus-secret"
		}
		if a.Secret == "" {
			return cr, -1, "secret-for-client-without-secret"
		}
		return cr, 1, "secret-via-" + kind
	case "wrong_secret", "wrong_secret_other":
		kind := own
		why := "wrong-secret"
		if w.c.Cred == "wrong_secret_other" {
			kind, why = other[own], "wrong-secret-via-other-channel"
		}
		cr := vkit.Cred{Kind: kind, ClientID: a.ID, Secret: "not-the-secret"}
		if public {
			return cr, 0, "public-client-with-bogus-secret"
		}
		return cr, -1, why
	case "no_cred":
		if public {
			return vkit.Cred{Kind: "none"}, -1, "no-client-at-all"
		}
		return vkit.Cred{Kind: "none", ClientID: a.ID}, -1, "confidential-client-id-only"
	case "id_only":
		cr := vkit.Cred{Kind: "none", ClientID: a.ID}
		if public {
			return cr, 0, "public-client-identified"
		}
		return cr, -1, "confidential-client-id-only"
	case "basic_empty", "post_empty":
		// the client names itself and presents an EMPTY secret: nothing is proved by that
		kind := strings.TrimSuffix(w.c.Cred, "_empty")
		cr := vkit.Cred{Kind: kind, ClientID: a.ID}
		if public {
			return cr, 0, "public-client-identified"
		}
		return cr, -1, "empty-secret-via-" + kind
	case "own_assertion":
		// a valid assertion, signed with a key that is registered for the client
		cr := vkit.Cred{Kind: "assertion", Assertion: vkit.ClientAssertion(a, w.iss, time.Now())}
		switch {
		case method == "private_key_jwt":
			return cr, 1, "right"
		case public:
			return cr, 0, "public-client-with-valid-assertion"
		}
		return cr, 0, "valid-assertion-for-secret-client"
	case "unknown_client":
		return vkit.Cred{Kind: "basic", ClientID: "nobody", Secret: "secret-a"}, -1, "unknown-client"
	case "malformed_basic":
		// Basic credentials whose client id is not valid percent-encoding
		return vkit.Cred{Kind: "basic", ClientID: "%zz" + a.ID, Secret: "secret-a", NoEscape: true}, -1, "malformed-basic-header"
	case "bad_assertion":
		now := time.Now()
		as := vkit.AssertionWith(a.ID, a.ID, []string{w.iss}, "ka", "rsa4", now.Add(-5*time.Second), now.Add(5*time.Minute), nil)
		if public {
			return vkit.Cred{Kind: "assertion", Assertion: as, BodyID: a.ID}, 0, "public-client-with-bogus-assertion"
		}
		return vkit.Cred{Kind: "assertion", Assertion: as}, -1, "assertion-signed-by-wrong-key"
	}
	return vkit.Cred{Kind: "none"}, -1, "no-client-at-all"
}

func keepScopes(scopes, drop []string) []string {
	out := []string{}
	for _, s := range scopes {
		if !contains(drop, s) {
			out = append(out, s)
		}
	}
	return out
}

// ---- run ---------------------------------------------------------------------------

func run(c Case) (res *vkit.Result) {
	res = &vkit.Result{}
	defer func() {
		if p := recover(); p != nil {
			res.Fail("C15:panic@"+vkit.FirstLibFrame(string(debug.Stack())), "panic outside a request: %v", p)
		}
	}()
	w := &world{c: c}
	w.sk = vkit.SignKeySpec{KeyName: c.SignKey, Alg: algOfKey(c.SignKey), KID: "sig1"}
	w.clA = webClient("client-a", "secret-a")
	w.clA.AuthMethod = c.ClientAuth
	switch c.ClientAuth {
	case "none":
		w.clA.Secret = ""
		w.clA.AppType = "native"
	case "private_key_jwt":
		w.clA.Secret = ""
		w.clA.Keys = map[string]string{"ka": "rsa3"}
	}
	if contains(appTypes, c.AppType) {
		w.clA.AppType = c.AppType
	}
	if c.Cred == "own_assertion" {
		// a key is registered for the client whatever its auth method (request objects, jwt-bearer grants, ...)
		w.clA.Keys = map[string]string{"ka": "rsa3"}
	}
	w.clB = webClient("client-b", "secret-b")
	clI := webClient("client-i", "secret-i")
	pol := vkit.StorePolicy{TE: c.Policy}
	if contains(vkit.ErrStyles, c.ErrStyle) {
		pol.ErrStyle = c.ErrStyle
	}
	w.st = vkit.NewStore([]*vkit.ClientSpec{w.clA, w.clB, clI}, w.sk, pol)
	if validVeto(c.StoreVeto) {
		w.veto = &vetoPlan{spec: *c.StoreVeto}
	}
	sut := buildSUT(c.Router, issuer, 0, w.st, c.Extras, c.Hosts, w.plus())
	w.ags[0], w.ags[1] = vkit.NewAgent(sut), vkit.NewAgent(sut)
	if c.Hosts {
		w.ags[1].Host = otherHost
	}

	// --- the provider's life: key changes of the storage, histories that produce the subject / actor tokens, exchanges
	steps := c.steps()
	if len(steps) > 8 {
		steps = steps[:8]
	}
	type slot struct{ step, role int }
	spec := func(k slot) *TokSpec {
		if k.role == 1 {
			return steps[k.step].Actor
		}
		return &steps[k.step].Subject
	}
	// replayed(k): the slot whose token string slot k presents (itself, or the subject of an earlier exchange)
	replayed := func(k slot) slot {
		for n := 0; n < len(steps); n++ {
			r := spec(k).Replay
			if r <= 0 || r > k.step+k.role { // (an actor may name the subject of its own exchange)
				break
			}
			k = slot{r - 1, 0}
		}
		return k
	}
	born := func(k slot) int {
		b := spec(k).Born
		if b < 0 {
			b = 0
		}
		if b > k.step {
			b = k.step
		}
		return b
	}
	// a slot that presents the token of another slot describes that token (only its declaration is its own)
	for i := range steps {
		for role := 0; role < 2; role++ {
			k := slot{i, role}
			if spec(k) == nil || replayed(k) == k {
				continue
			}
			ts := *spec(replayed(k))
			ts.Declared, ts.Replay = spec(k).Declared, spec(k).Replay
			if role == 1 {
				steps[i].Actor = &ts
			} else {
				steps[i].Subject = ts
			}
		}
	}
	prepared := map[slot]tokenTruth{}
	var outs []stepOut
	for i, st := range steps {
		if i > 0 {
			w.keyOp(st.KeyOp)
		}
		// tokens minted now (the clients as registered for obtaining tokens)
		w.clA.GrantTypes = []string{vkit.GCode, vkit.GRefr, vkit.GTE}
		for j := i; j < len(steps); j++ {
			for role := 0; role < 2; role++ {
				k := slot{j, role}
				if spec(k) == nil || replayed(k) != k || born(k) != i {
					continue
				}
				prepared[k] = w.prepare(*spec(k))
			}
		}
		host := w.hostIdx(st.Host)
		w.ag, w.iss = w.ags[host], w.issuerOf(host)
		sk := replayed(slot{i, 0})
		subj := w.at(*spec(sk), prepared[sk], host)
		var act tokenTruth
		if st.Actor != nil {
			ak := replayed(slot{i, 1})
			act = w.at(*spec(ak), prepared[ak], host)
		}
		outs = append(outs, w.exchange(res, i, st, subj, act))
	}
	w.evidence(res, steps, outs)
	return res
}

// stepOut is what one exchange contributes to the case's evidence.
type stepOut struct {
	Outcome    string
	Grey       bool
	NonTrivial bool
	Key        string
	Info       map[string]any
}

// exchange sends one token-exchange request to the provider as it is now and judges the answer with the model of the statement.
func (w *world) exchange(res *vkit.Result, idx int, st Step, subj, act tokenTruth) stepOut {
	c := w.c
	c.Subject, c.Actor, c.Requested = st.Subject, st.Actor, st.Requested
	where := ""
	if len(c.More) > 0 || c.Hosts {
		where = fmt.Sprintf(" (exchange %d of %d on host %d, storage key changes so far: %s)", idx+1, len(c.More)+1, w.hostIdx(st.Host), strings.Join(append([]string{"none"}, w.keyTrace...)[min(len(w.keyTrace), 1):], ", "))
	}
	// the exchanging client as configured for the exchange itself
	w.clA.JWTAccessToken = c.IssueJWT
	grants := []string{vkit.GCode}
	if !c.NoRefresh {
		grants = append(grants, vkit.GRefr)
	}
	if !c.NoGrant {
		grants = append(grants, vkit.GTE)
	}
	w.clA.GrantTypes = grants

	// --- model
	sv, sWhy := w.validity(c.Subject, subj, "subject")
	av, aWhy := 1, "absent"
	if c.Actor != nil {
		av, aWhy = w.validity(*c.Actor, act, "actor")
	}
	cred, authV, authWhy := w.credential()
	// who decides the type of the issued token: the client (requested_token_type), else the storage policy's default,
	// else nobody ("undecided": the statement then allows an OAuth error, or a success that truthfully declares what
	// it contains - judged from the declared issued_token_type; never a 2xx with an empty / unsupported declaration)
	effective, decidedBy := c.Requested, "client"
	if effective == "" {
		switch c.Policy.DefaultType {
		case "none":
			effective, decidedBy = undecided, "nobody"
		case "":
			effective, decidedBy = "access", "storage-default"
		default:
			effective, decidedBy = c.Policy.DefaultType, "storage-default"
		}
	}
	issuable := effective == undecided || effective == "access" || effective == "refresh" || effective == "id"

	var rejectFP, rejectWhy string
	switch {
	case !issuable:
		rejectFP, rejectWhy = "C15:success-unissuable-requested-type:"+c.Requested, "requested_token_type "+typeURN(c.Requested)+" cannot be issued"
	case c.Policy.Veto:
		rejectFP, rejectWhy = "C15:success-despite-storage-veto", "the storage vetoed the exchange"
	case sv < 0:
		rejectFP, rejectWhy = "C15:success-invalid-subject-token:"+sWhy, "subject token is not a live token of the declared supported type ("+sWhy+")"
	case av < 0:
		rejectFP, rejectWhy = "C15:success-invalid-actor-token:"+aWhy, "actor token is not a live token of the declared supported type ("+aWhy+")"
	case authV < 0:
		rejectFP, rejectWhy = "C15:success-unauthenticated-client:"+authWhy, "client is not authenticated ("+authWhy+")"
	}
	mustReject := rejectFP != ""
	eligible := !mustReject && sv > 0 && av > 0 && authV > 0

	// --- the exchange
	form := url.Values{"grant_type": {vkit.GTE}, "subject_token": {subj.Token}}
	if c.Subject.Declared != "" {
		form.Set("subject_token_type", typeURN(c.Subject.Declared))
	}
	if c.Actor != nil {
		form.Set("actor_token", act.Token)
		if c.Actor.Declared != "" {
			form.Set("actor_token_type", typeURN(c.Actor.Declared))
		}
	}
	if c.Requested != "" {
		form.Set("requested_token_type", typeURN(c.Requested))
	}
	if len(c.Scopes) > 0 {
		form.Set("scope", strings.Join(c.Scopes, " "))
	}
	multi(form, "audience", c.Audience)
	multi(form, "resource", c.Resource)
	before := tokenIDs(w.st)
	w.veto.arm(idx)
	resp := w.ag.Token(form, cred)
	// the storage's refusal is a fact of this request (it needs no model): the calls at which the storage returned an error
	vetoedAt := w.veto.disarm()
	decisive := len(vetoedAt) > 0
	if decisive && w.veto.spec.At == "lookup" {
		// the refresh-token lookup is the one call whose refusal does not end the exchange by itself: it says "not a refresh
		// token of mine", and the storage's third-party verifier may still vouch for the string. The refusal settles the
		// matter when a slot declared as refresh token holds anything but a third-party token (those stay with the model).
		decisive = c.Subject.Declared == "refresh" && c.Subject.Kind != "third" || c.Actor != nil && c.Actor.Declared == "refresh" && c.Actor.Kind != "third"
	}
	if decisive {
		v := w.veto.spec
		rejectFP = "C15:success-despite-storage-veto:" + v.At + "/" + styleClass(v.Style)
		rejectWhy = fmt.Sprintf("the storage refused the exchange: %s returned an error (%s, error style %q)", strings.Join(vetoedAt, ", "), map[bool]string{true: "after doing its work", false: "right away"}[v.After], v.Style)
		mustReject, eligible = true, false
	}

	outcome := "refused"
	switch {
	case resp.Panic != nil:
		outcome = "panic"
		res.Fail("C15:panic@"+resp.PanicFrame(), "token exchange panicked (%v) for subject %s/%s declared %q, actor %s: %s%s", resp.Panic, c.Subject.Kind, c.Subject.State, c.Subject.Declared, actorDesc(c.Actor), libFrames(resp.Stack, 4), where)
	case resp.Success():
		outcome = "success"
		if mustReject {
			res.Fail(rejectFP, "token exchange answered %d although %s; body %s%s", resp.Status, rejectWhy, clip(resp.Body), where)
		} else {
			expSub := subj.Subject
			if c.Policy.Impersonate != "" {
				expSub = c.Policy.Impersonate
			}
			expActor := ""
			if c.Actor != nil {
				expActor = act.Subject
			}
			switch {
			case sv == 0:
				// grey subject token (e.g. a string that only a liveness-checking storage could have refused): whom the
				// issued token stands for is not decidable; only the shape of the answer is looked at
				outcome = "success:" + shapeOnly(res, resp, effective)
				res.Label("success-shape-only")
			default:
				w.actorUnknown = av == 0
				w.expAct = decideAct(w.plus().Act, expActor)
				outcome = "success:" + w.judgeSuccess(res, resp, effective, expSub, expActor, keepScopes(c.Scopes, c.Policy.DropScopes), before)
			}
		}
	default:
		// a refusal must be an OAuth error document without token material
		if resp.OAuthError() == "" {
			res.Fail("C15:refusal-is-not-an-oauth-error", "token exchange refused with status %d but the body is no OAuth error document: %s%s", resp.Status, clip(resp.Body), where)
		}
		if tm := resp.HasTokenMaterial(); len(tm) > 0 {
			res.Fail("C15:refusal-carries-token-material", "token exchange refused with status %d but the body carries %v%s", resp.Status, tm, where)
		}
		outcome = "refused:" + resp.OAuthError()
	}

	// --- evidence of this exchange (labels count exchanges)
	out := stepOut{Outcome: outcome, NonTrivial: authV >= 0} // non-trivial: the request got past client authentication, i.e. the exchange logic itself decided
	res.Label("outcome:"+strings.SplitN(outcome, ":", 2)[0], "requested:"+orNone(c.Requested), "subject:"+validityClass(sv, sWhy, true))
	if idx == 0 {
		res.Label("auth:"+authClass(authV, authWhy), "client:"+w.clA.AppType+"/"+w.clA.AuthMethod, "presentation:"+c.Cred)
		if authV < 0 && w.clA.AuthMethod != "none" {
			// a secret-based / key-based registration and no valid credential: per application type
			res.Label("unauthenticated:" + w.clA.AppType + "/" + authWhy + map[bool]string{true: "/no-exchange-grant"}[c.NoGrant])
		}
	}
	if matchingType(c.Subject.Kind) != "" {
		res.Label("subject-kind:" + c.Subject.Kind)
	}
	if c.Actor != nil {
		res.Label("actor:" + validityClass(av, aWhy, false))
	} else {
		res.Label("actor:absent")
	}
	sameString := c.Actor != nil && act.Token == subj.Token
	if sameString {
		// one string in both slots: how the two declarations relate
		rel := "declared-differently"
		switch {
		case c.Actor.Declared == "":
			rel = "actor-type-absent"
		case c.Actor.Declared == c.Subject.Declared:
			rel = "declared-alike"
		}
		res.Label("actor:same-string-as-subject", "same-string:"+rel+"/"+map[bool]string{true: "must-reject", false: "may-succeed"}[mustReject]+"/"+strings.SplitN(outcome, ":", 2)[0])
	}
	if w.veto != nil && (w.veto.spec.Only == 0 || w.veto.spec.Only == idx+1) {
		// where and how the storage refuses, and whether the exchange got that far
		v := w.veto.spec
		reached := map[bool]string{true: "refused-there", false: "call-not-reached"}[len(vetoedAt) > 0]
		if len(vetoedAt) > 0 && !decisive {
			reached = "refused-there-left-to-the-verifier"
		}
		res.Label("storage-veto:"+v.At+"/"+reached, "storage-veto-style:"+styleClass(v.Style)+"/"+reached, "storage-veto:"+map[bool]string{true: "after-the-call's-work", false: "right-away"}[v.After])
		for _, m := range vetoedAt {
			res.Label("storage-veto@" + m + ":" + strings.SplitN(outcome, ":", 2)[0])
		}
	}
	switch {
	case mustReject:
		res.Label("must-reject", "must-reject:"+strings.SplitN(strings.TrimPrefix(rejectFP, "C15:success-"), ":", 2)[0])
	case eligible:
		res.Label("eligible")
		switch {
		case strings.HasPrefix(outcome, "success"):
			res.Label("eligible-success:" + effective + map[bool]string{true: "/jwt", false: "/opaque"}[c.IssueJWT])
		case outcome == "panic":
			res.Label("eligible-panic")
		default:
			res.Label("eligible-refused")
		}
	default:
		out.Grey = true
		res.Label("grey")
	}
	res.Label("type-decided-by:" + decidedBy)
	if effective == undecided && !mustReject {
		res.Label("undecided-type:" + strings.SplitN(outcome, ":", 2)[0])
	}
	if idx > 0 {
		// what the provider's earlier life adds to this exchange
		res.Label("later-exchange:" + map[bool]string{true: "must-reject", false: "may-succeed"}[mustReject] + "/" + strings.SplitN(outcome, ":", 2)[0])
		if st.Subject.Replay > 0 || st.Actor != nil && st.Actor.Replay > 0 {
			res.Label("later-exchange:earlier-subject-token-again")
		}
		if st.Subject.Born < idx && st.Subject.Replay == 0 {
			res.Label("later-exchange:token-minted-earlier")
		}
	}
	for _, tt := range []tokenTruth{subj, act} {
		if tt.Unverifiable != "" {
			res.Label("presented:" + tt.Unverifiable)
		}
	}
	actorKey := "absent"
	if c.Actor != nil {
		actorKey = c.Actor.Kind + "/" + c.Actor.State + "/" + c.Actor.Declared
	}
	if sameString {
		actorKey += "/same"
	}
	out.Key = fmt.Sprintf("%s|%s|%s|%s/%s/%s|%s|req=%s|def=%s|jwt=%v|imp=%v|veto=%v|third=%v/%v|%s", c.Router, c.ClientAuth+map[bool]string{true: "/" + c.AppType}[c.AppType != ""], c.Cred,
		c.Subject.Kind, c.Subject.State, c.Subject.Declared, actorKey, c.Requested, c.Policy.DefaultType, c.IssueJWT, c.Policy.Impersonate != "", c.Policy.Veto, c.Policy.VerifyThird, c.Extras, strings.SplitN(outcome, ":", 2)[0])
	if tp := w.plus(); tp != (tePlus{}) {
		out.Key += "|act=" + tp.Act + "|vouch=" + tp.VouchRole
	}
	if w.veto != nil {
		out.Key += fmt.Sprintf("|storeveto=%s/%s/%v/%v", w.veto.spec.At, w.veto.spec.Style, w.veto.spec.After, len(vetoedAt) > 0)
	}
	if c.ErrStyle != "" {
		out.Key += "|errstyle=" + c.ErrStyle
	}
	if idx > 0 || c.Hosts {
		out.Key += fmt.Sprintf("|host=%d|keyop=%s|s=%s%s|a=%s%s", w.hostIdx(st.Host), st.KeyOp, subj.Unverifiable, map[bool]string{true: "/replay"}[st.Subject.Replay > 0], act.Unverifiable, map[bool]string{true: "/replay"}[st.Actor != nil && st.Actor.Replay > 0])
	}
	out.Info = map[string]any{"outcome": outcome, "status": resp.Status, "subject_validity": sWhy, "actor_validity": aWhy, "auth": authWhy, "effective_type": effective, "must_reject": mustReject, "eligible": eligible}
	if len(vetoedAt) > 0 {
		out.Info["storage_refused_at"] = vetoedAt
	}
	return out
}

// evidence: the case-level labels, and the case's non-triviality / distinctness class from those of its exchanges.
func (w *world) evidence(res *vkit.Result, steps []Step, outs []stepOut) {
	c := w.c
	// class labels (kept small: the evidence keeps the most frequent ones)
	res.Label("mode:"+orNone(c.Mode), "router:"+c.Router)
	if c.Shape != "" {
		res.Label("shape:" + c.Shape)
	}
	if c.Policy.Veto {
		res.Label("policy:veto")
	}
	if c.Policy.Impersonate != "" {
		res.Label("policy:impersonate")
	}
	if len(c.Policy.DropScopes) > 0 && len(keepScopes(c.Scopes, c.Policy.DropScopes)) != len(c.Scopes) {
		res.Label("policy:scopes-dropped")
	}
	if c.NoGrant {
		res.Label("client-without-exchange-grant")
	}
	if c.NoRefresh {
		res.Label("client-without-refresh-grant")
	}
	if c.Policy.NoLivenessCheck {
		res.Label("policy:no-liveness-check")
	}
	if c.ErrStyle != "" {
		res.Label("storage-words-its-refusals-as:" + c.ErrStyle)
	}
	res.Label("policy:act=" + map[bool]string{true: "actor-token-subject", false: w.plus().Act}[w.plus().Act == ""])
	if w.plus().VouchRole != "" {
		res.Label("policy:verifier-vouches-" + w.plus().VouchRole)
	}
	if c.Hosts {
		res.Label("provider:issuer-from-host")
	}
	if len(steps) > 1 {
		res.Label(fmt.Sprintf("exchanges-on-one-provider:%d", len(steps)))
	}
	for _, op := range w.keyTrace {
		res.Label("storage-keys:" + op)
	}
	res.Grey = true
	var keys []string
	var infos []map[string]any
	for _, o := range outs {
		res.Grey = res.Grey && o.Grey
		res.NonTrivial = res.NonTrivial || o.NonTrivial
		keys = append(keys, o.Key)
		infos = append(infos, o.Info)
	}
	res.Key = strings.Join(keys, " ; ")
	res.Info = infos[0]
	if len(infos) > 1 {
		res.Info = map[string]any{"exchanges": infos, "key_changes": w.keyTrace}
	}
}

// validityClass folds the model's reason into a small label set (dead states are kept apart for the subject only).
func validityClass(v int, why string, detail bool) string {
	switch {
	case v == 0:
		return "grey"
	case v > 0 && strings.HasPrefix(why, "third"):
		return "third-vouched"
	case v > 0:
		return "valid"
	case strings.HasPrefix(why, "dead:"):
		if detail {
			return "dead:" + why[strings.Index(why, "/")+1:]
		}
		return "dead"
	}
	return strings.SplitN(why, ":", 2)[0]
}

func authClass(v int, why string) string {
	switch {
	case v > 0:
		return "authenticated"
	case v == 0 && strings.HasPrefix(why, "public-client"):
		return "public-client(grey)"
	case v == 0:
		return "grey:" + why
	}
	if why == "no-client-at-all" || why == "confidential-client-id-only" {
		why = "no-credentials"
	}
	return "bad:" + why
}

func actorDesc(a *TokSpec) string {
	if a == nil {
		return "absent"
	}
	return fmt.Sprintf("%s/%s declared %q", a.Kind, a.State, a.Declared)
}

func orNone(s string) string {
	if s == "" {
		return "absent"
	}
	return s
}

func clip(b []byte) string {
	s := string(b)
	if len(s) > 400 {
		s = s[:400] + "..."
	}
	return s
}

// libFrames lists the first n zitadel/oidc functions of a stack dump.
func libFrames(stack string, n int) string {
	var out []string
	for _, l := range strings.Split(stack, "\n") {
		l = strings.TrimSpace(l)
		if strings.HasPrefix(l, "github.com/zitadel/oidc/v3/") && len(out) < n {
			if i := strings.LastIndex(l, "("); i > 0 {
				l = l[:i]
			}
			out = append(out, strings.TrimPrefix(l, "github.com/zitadel/oidc/v3/"))
		}
	}
	return strings.Join(out, " <- ")
}

// shapeOnly: the 2xx answer declares the decided type and carries a non-empty token in the member of that type.
func shapeOnly(res *vkit.Result, resp *vkit.Resp, effective string) string {
	itt := resp.Str("issued_token_type")
	if effective == undecided {
		// neither the client nor the storage chose a type: the answer must declare one of the issuable types itself
		effective = issuableName(itt)
		if effective == "" {
			res.Fail("C15:issued-type-not-issuable", "2xx answer declares issued_token_type=%q which names nothing the provider issues (neither the client nor the storage chose a type); body %s", itt, clip(resp.Body))
			return "unknown-type(shape)"
		}
	} else if itt != typeURN(effective) {
		res.Fail("C15:issued-type-differs-from-decided-type", "issued_token_type=%q but the request / storage policy decided %q; body %s", itt, typeURN(effective), clip(resp.Body))
	}
	member := "access_token"
	if effective == "refresh" {
		member = "refresh_token"
	}
	if resp.Str(member) == "" {
		res.Fail("C15:success-with-empty-token:"+effective, "issued_token_type is %s but %s is empty: %s", itt, member, clip(resp.Body))
	}
	return effective + "(shape)"
}

// judgeSuccess checks a 2xx answer of an exchange that was allowed to succeed: issued_token_type names what the
// response contains, and that token is live at the provider with the decided subject, scopes and actor.
func (w *world) judgeSuccess(res *vkit.Result, resp *vkit.Resp, effective, expSub, expActor string, expScopes []string, before map[string]bool) string {
	body := resp.JSON()
	if body == nil {
		res.Fail("C15:success-without-json", "2xx answer is not a JSON object: %s", clip(resp.Body))
		return "nojson"
	}
	itt := resp.Str("issued_token_type")
	at := resp.Str("access_token")
	rt := resp.Str("refresh_token")
	if effective != undecided && itt != typeURN(effective) {
		// (undecided: whatever issuable type the answer declares is then checked against the contained token below;
		// an empty / unsupported declaration ends in C15:issued-type-not-issuable)
		res.Fail("C15:issued-type-differs-from-decided-type", "issued_token_type=%q but the request / storage policy decided %q; body %s", itt, typeURN(effective), clip(resp.Body))
	}
	newIDs := newTokenIDs(w.st, before)
	user, isUser := vkit.Users[expSub]
	introspect := contains(w.c.Audience, "client-i")

	// checks shared by every access token handed out (main token of type access, companion of type refresh, redeemed one)
	checkAccess := func(tok, what string, wantActor bool, candidates []string) {
		ui := w.ag.UserInfo(tok)
		if ui.Panic != nil {
			res.Fail("C15:panic@"+ui.PanicFrame(), "userinfo panicked on the %s: %v", what, ui.Panic)
			return
		}
		if ui.Status != 200 {
			res.Fail("C15:issued-access-token-not-live:"+what, "the %s is not accepted at userinfo: %s", what, ui.Describe())
			return
		}
		if s := ui.Str("sub"); s != "" && s != expSub {
			res.Fail("C15:issued-token-wrong-subject:"+what, "userinfo of the %s says sub=%q, the policy decided %q", what, s, expSub)
		}
		id := ""
		if v, ok := parseJWT(tok, w.sk); ok {
			if !v.SigOK {
				res.Fail("C15:issued-jwt-bad-signature:"+what, "the %s is a JWT that does not verify under the provider's key", what)
			}
			id = claimStr(v.Claims, "jti")
			if s := claimStr(v.Claims, "sub"); s != expSub {
				res.Fail("C15:issued-token-wrong-subject:"+what, "the %s (JWT) has sub=%q, the policy decided %q", what, s, expSub)
			}
			if wantActor && !(w.actorUnknown && actDependsOnActor(w.plus().Act)) {
				// the act claim of the token is exactly what the storage supplied for it (absent when it supplied none)
				if !sameAct(v.Claims, w.expAct) {
					res.Fail("C15:issued-token-wrong-actor:"+what, "the %s (JWT) has act=%s, the storage policy decided act=%s (actor token subject %q, act policy %q)", what, jsonOf(v.Claims["act"]), jsonOf(w.expAct), expActor, w.plus().Act)
				}
				res.Label("act-claim-compared:" + actShape(w.expAct, expActor))
			}
		} else {
			if len(candidates) == 1 {
				id = candidates[0]
			}
		}
		if introspect {
			ir := w.ag.Introspect(tok, vkit.Cred{Kind: "basic", ClientID: "client-i", Secret: "secret-i"})
			m := ir.JSON()
			if active, _ := m["active"].(bool); !active {
				res.Fail("C15:issued-access-token-not-live:"+what, "the %s is not active at introspection for an audience member: %s", what, ir.Describe())
			} else {
				if s := ir.Str("sub"); s != expSub {
					res.Fail("C15:issued-token-wrong-subject:"+what, "introspection of the %s says sub=%q, the policy decided %q", what, s, expSub)
				}
				if got := strings.Fields(ir.Str("scope")); !sameSet(got, expScopes) {
					res.Fail("C15:issued-token-wrong-scopes:"+what, "introspection of the %s says scope=%q, the policy decided %q", what, got, expScopes)
				}
				if j := ir.Str("jti"); id == "" {
					id = j
				} else if j != id {
					res.Fail("C15:issued-token-identity-mismatch:"+what, "introspection of the %s names token %q, expected %q", what, j, id)
				}
			}
			res.Label("introspected")
		}
		if id == "" {
			return
		}
		snap, ok := w.st.TokenSnapshot(id)
		if !ok {
			res.Fail("C15:issued-access-token-not-live:"+what, "the %s names token id %q which the storage does not know", what, id)
			return
		}
		if snap.Subject != expSub {
			res.Fail("C15:issued-token-wrong-subject:"+what, "the %s was created for subject %q, the policy decided %q", what, snap.Subject, expSub)
		}
		if !sameSet(snap.Scopes, expScopes) {
			res.Fail("C15:issued-token-wrong-scopes:"+what, "the %s was created with scopes %q, the policy decided %q", what, snap.Scopes, expScopes)
		}
		if wantActor && !w.actorUnknown && snap.Actor != expActor {
			res.Fail("C15:issued-token-wrong-actor:"+what, "the %s was created with actor %q, the policy decided %q", what, snap.Actor, expActor)
		}
		if snap.ClientID != w.clA.ID {
			res.Fail("C15:issued-token-wrong-client:"+what, "the %s was created for client %q, the exchange was made by %q", what, snap.ClientID, w.clA.ID)
		}
	}

	switch itt {
	case typeURN("access"):
		if at == "" {
			res.Fail("C15:success-with-empty-token:access", "issued_token_type is access_token but access_token is empty: %s", clip(resp.Body))
			return "access-empty"
		}
		if v, ok := parseJWT(at, w.sk); ok && claimStr(v.Claims, "jti") == "" && v.Claims["auth_time"] != nil {
			res.Fail("C15:issued-type-mismatch:access-is-id-token", "issued_token_type is access_token but the token is an ID token")
		}
		checkAccess(at, "exchanged access token", true, newIDs)
		return "access"
	case typeURN("refresh"):
		if rt == "" {
			res.Fail("C15:success-with-empty-token:refresh", "issued_token_type is refresh_token but refresh_token is empty: %s", clip(resp.Body))
			return "refresh-empty"
		}
		snap, ok := w.st.RefreshSnapshot(rt)
		if !ok || snap.Dead {
			res.Fail("C15:issued-refresh-token-not-live", "the refresh token handed out is unknown / dead at the provider")
			return "refresh-dead"
		}
		if snap.Subject != expSub {
			res.Fail("C15:issued-token-wrong-subject:refresh token", "the refresh token was created for subject %q, the policy decided %q", snap.Subject, expSub)
		}
		if !sameSet(snap.Scopes, expScopes) {
			res.Fail("C15:issued-token-wrong-scopes:refresh token", "the refresh token was created with scopes %q, the policy decided %q", snap.Scopes, expScopes)
		}
		if snap.ClientID != w.clA.ID {
			res.Fail("C15:issued-token-wrong-client:refresh token", "the refresh token was created for client %q, the exchange was made by %q", snap.ClientID, w.clA.ID)
		}
		if at != "" {
			checkAccess(at, "access token accompanying the refresh token", true, newIDs)
		}
		// redeemable by that client (a client that is not registered for the refresh grant cannot redeem anything;
		// for it the storage's record above is the liveness evidence)
		if w.c.NoRefresh {
			return "refresh"
		}
		b2 := tokenIDs(w.st)
		rr := w.ag.Token(url.Values{"grant_type": {vkit.GRefr}, "refresh_token": {rt}}, vkit.RightCred(w.clA, w.iss))
		if rr.Panic != nil {
			res.Fail("C15:panic@"+rr.PanicFrame(), "refresh grant panicked on the exchanged refresh token: %v", rr.Panic)
			return "refresh"
		}
		if !rr.Success() || rr.Str("access_token") == "" {
			res.Fail("C15:issued-refresh-token-not-redeemable", "the refresh token handed out cannot be redeemed by the exchanging client: %s", rr.Describe())
			return "refresh-unredeemable"
		}
		checkAccess(rr.Str("access_token"), "access token redeemed from the exchanged refresh token", false, newTokenIDs(w.st, b2))
		return "refresh"
	case typeURN("id"):
		if at == "" {
			res.Fail("C15:success-with-empty-token:id", "issued_token_type is id_token but access_token is empty: %s", clip(resp.Body))
			return "id-empty"
		}
		v, ok := parseJWT(at, w.sk)
		if !ok {
			res.Fail("C15:issued-type-mismatch:id-is-no-jwt", "issued_token_type is id_token but the token is not a JWT: %q", at)
			return "id-nojwt"
		}
		if !v.SigOK {
			res.Fail("C15:issued-jwt-bad-signature:id token", "the ID token handed out does not verify under the provider's key")
		}
		if claimStr(v.Claims, "iss") != w.iss {
			res.Fail("C15:issued-id-token-wrong-issuer", "the ID token handed out has iss=%q", claimStr(v.Claims, "iss"))
		}
		if exp, _ := v.Claims["exp"].(float64); int64(exp) <= time.Now().Unix() {
			res.Fail("C15:issued-id-token-expired", "the ID token handed out has exp=%v", v.Claims["exp"])
		}
		if s := claimStr(v.Claims, "sub"); s != expSub {
			res.Fail("C15:issued-token-wrong-subject:id token", "the ID token has sub=%q, the policy decided %q", s, expSub)
		}
		if !(w.actorUnknown && actDependsOnActor(w.plus().Act)) {
			if !sameAct(v.Claims, w.expAct) {
				res.Fail("C15:issued-token-wrong-actor:id token", "the ID token has act=%s, the storage policy decided act=%s (actor token subject %q, act policy %q)", jsonOf(v.Claims["act"]), jsonOf(w.expAct), expActor, w.plus().Act)
			}
			res.Label("act-claim-compared:" + actShape(w.expAct, expActor))
		}
		if isUser {
			// scope-dependent claims reflect the decided scopes
			wantEmail := contains(expScopes, "email")
			if e := claimStr(v.Claims, "email"); wantEmail && e != user.Email || !wantEmail && e != "" {
				res.Fail("C15:issued-token-wrong-scopes:id token", "the ID token has email=%q, the decided scopes are %q", e, expScopes)
			}
			wantProfile := contains(expScopes, "profile")
			if n := claimStr(v.Claims, "preferred_username"); wantProfile && n != user.Username || !wantProfile && n != "" {
				res.Fail("C15:issued-token-wrong-scopes:id token", "the ID token has preferred_username=%q, the decided scopes are %q", n, expScopes)
			}
		}
		return "id"
	}
	res.Fail("C15:issued-type-not-issuable", "2xx answer declares issued_token_type=%q which names nothing the provider issues; body %s", itt, clip(resp.Body))
	return "unknown-type"
}

var prop = vkit.Prop[Case]{
	ID: "C15",
	Rule: "cases = subject token and optional actor token, each minted through the real code flow (opaque / JWT access token, refresh token, ID token; own or other client; user u1-u3) and then left live or expired / revoked / rotated / issued by a foreign provider / re-signed / wrong issuer / alg none / tampered, or a storage-vouched third-party token, or garbage " +
		"x declared type (matching, other supported, unsupported, absent) x requested type (absent, access, refresh, id, jwt, unsupported) x scope / audience / resource lists x storage policy (default type when requested_token_type is absent: access / refresh / id / none = left unset, impersonation, dropped scopes, veto, third-party verifier vouching in both roles / as subject only / as actor only, access-token liveness check on / off, the act claim the storage publishes: {sub: actor token subject} / pseudonymous actor id / nested chain through a gateway / further members / never any / also without an actor token - every JWT handed out (JWT access token, ID token, companion of a refresh token) must carry exactly the act the storage supplied, absent when it supplied none) x the actor token being the very string presented as subject token (declared as what it is / as the subject declares it / as another supported type / unsupported / absent; a third-party token vouched in one role only) x the exchanging client's registration (application type web / native / user_agent drawn independently of the auth method client_secret_basic / client_secret_post / none / private_key_jwt, registered for the grant or not) x storage refusal (a storage that refuses the exchange at ONE of its calls - ValidateTokenExchangeRequest / CreateTokenExchangeRequest / the token creation (CreateAccessToken, CreateAccessAndRefreshTokens) / the claims hooks of the exchange / the refresh-token lookup / the third-party verifier - right away or after doing the call's work (results handed back with the error), with an error value of every style: plain errors.New / fmt.Errorf / errors.Join / an error type of its own, a *oidc.Error of each of the 15 error types of pkg/oidc bare / with description / with a parent / wrapped with %w / joined / as the cause of its own error type, the library and context sentinels (op.ErrInvalidRefreshToken, op.ErrDuplicateUserCode, oidc.ErrKeyNone, oidc.ErrKeyMultiple, oidc.ErrExpired, context.Canceled, context.DeadlineExceeded) as they are / wrapped / as a cause; the refusal is a fact of the request (recorded by the storage wrapper, armed for the exchange request only): once the storage returned an error from such a call a 2xx is a violation (only the refresh-token lookup leaves a third-party token to the verifier), in a sequence at every exchange or at one only; the style in which the storage words its own refusals (plain / *oidc.Error / wrapped / server_error)) x credential presentation (right, its secret by Basic / by the form whatever the registered channel, wrong secret by the registered / the other channel, client_id only, Basic with an empty password, client_id with an empty client_secret, nothing at all, a valid assertion of a key registered for the client whatever its method, unknown client, forged assertion, malformed Basic header; model of authenticated from the registration alone: a secret-based or key-based registration that presents no valid credential is unauthenticated whatever its application type = must-reject, public clients and valid credentials of another kind than the registered one are grey) x client grants x issued access token format x signing key x router, drawn in three modes (every premise true / exactly one broken / free); " +
		"half of the cases add the provider's life around the exchange: a provider whose issuer is derived from the Host header serving two hosts (tokens obtained on one host presented on the other: a JWT / ID token of the other host's issuer is a foreign token = must-reject, issuer-less opaque / refresh tokens of the other host are grey) and / or 1-3 further exchanges on the SAME provider, each on a generated host, each preceded by a generated key change of the storage (rotation with the old public keys kept / all withdrawn under a new or the same kid, withdrawal of the older keys), presenting tokens minted before any of the earlier exchanges or the very subject token of an earlier exchange again; every exchange is judged by the same model against the keys the storage serves and the store's records AT THAT TIME: a JWT signed by a key the storage has withdrawn is not a live, verifiable token of the provider = invalid subject / actor token = must-reject, one signed by an older key that is still published stays valid; " +
		"non-trivial = the request passes client authentication so the exchange logic decides; distinct = (router, auth method, credential, subject kind/state/declared, actor kind/state/declared, requested, default, format, impersonation, veto, verifier, outcome)",
	Gen: genCase,
	Run: run,
}

func TestRapid(t *testing.T)  { prop.Check(t) }
func TestReplay(t *testing.T) { prop.Replay(t) }
